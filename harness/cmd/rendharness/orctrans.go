package main

// orctrans: a translator from the SOURCE of rend's orchestrators (orcas/l1only.go, l1l2.go,
// l1l2batch.go) to Gallina interaction programs (coq/orca/Types.v `prog`). Like gotrans it reads
// /repo with go/parser on every run; coq/gen/OrcasLink.v (and OrcasGetLink.v for Get/GetE) proves
// each generated method equivalent (coq/orca/ProgEq.v, ProgEqX.v) to the hand-written model of
// coq/orca/Orcas.v the theorems are about. A
// change to one of the methods changes the generated program and breaks its link lemma.
//
// Translated: the methods Set, Add, Replace, Append, Prepend, Delete, Touch, Gat, Get, GetE of
// L1OnlyOrca, L1L2Orca and L1L2BatchOrca. Each becomes a function from the fields of its request that the
// model carries to `prog`. The translation is statement by statement and does no reasoning of
// its own (no branch is decided here): Coq does that in the link proofs.
//
// Subset and rules (helpers: coq/orca/OrcaSem.v):
//   - expression statements calling metrics.*, timer.*, log.* are dropped; so are assignments
//     whose right-hand sides are all such calls (start := timer.Now()) — the variables they
//     define can only be used inside dropped calls; an `if` whose branches contain nothing but
//     dropped statements is dropped with them (conditions have no effects);
//   - err := l.l1.M(x) / err = l.l2.M(x), M one of Set Add Replace Append Prepend Delete Touch:
//     call_err L1|L2 (H... fields of x) (fun err => rest); x is the method's request or a local
//     defined by a composite literal common.T{F: e, ...} (tracked symbolically; a field that is
//     not given is the zero value); res, err := l.l1.GAT(x): call_gat ... (fun res err => rest);
//   - l.res.M(args) as a statement: Emit (P...) rest; err = l.res.M(args): emit_err (P...)
//     (fun err => rest) — the responder's own error is not modelled, err becomes nil;
//   - return err | nil | common.ErrX | l.res.M(args): Ret err | Ret None | Ret (Some EX) |
//     Emit (P...) (Ret None);
//   - if c {..} else {..} / else if: `if c then .. else ..`, the statements after the `if` are
//     repeated in every branch that falls through; c is built from err == nil, err != nil,
//     err == common.ErrX, err != common.ErrX, x.Miss, !, &&, ||;
//   - variables: `=` rebinds the Gallina variable of the same name (the rest is textually inside
//     the binder), `:=` in an inner block that shadows gets a fresh name; blocks scope as in Go.
//   - Get / GetE (a common.GetRequest is the model's `items : list gitem` plus NoopOpaque/NoopEnd:
//     req.Keys / req.Opaques / req.Quiet are map gi_key|gi_opaque|gi_quiet items, and a GetRequest
//     handed to a handler is HGet|HGetE (gitems Keys Opaques Quiet)):
//       * `var x error | [][]byte | []uint32 | []bool`: let x := None | [] in ..;
//         x = append(x, v): let x := x ++ [v] in ..; e = e2 / nil / common.ErrX for error variables;
//         len(x) == 0 / != 0: is_empty x; `req = common.GetRequest{..}` replaces the tracked struct;
//         a common.GetResponse / GetEResponse built by a composite literal and given to the
//         responder is mkGR .. (a GetResponse has no Exptime: 0);
//       * `rc, ec := l.lN.Get(x)` (or GetE; `=` on channel variables that have been drained) must
//         be followed, after nothing but `var` declarations and dropped statements, by exactly
//             for { select { case R, ok := <-rc: if !ok { rc = nil } else { BODY }
//                            case E, ok := <-ec: if !ok { ec = nil } else { ONERR } }
//                   if rc == nil && ec == nil { break } }
//         (cases and conjuncts in either order) and becomes
//             drain LN (HGet ..) s0 (fun R s continue_ => BODY) (fun E s continue_ => ONERR) (fun s => rest)
//         where s is the tuple, in declaration order, of the variables declared outside the loop
//         that BODY or ONERR assign, and falling off the end of BODY/ONERR is `continue_ s`.
//         This reading of the loop rests on the handler contract stated in the source above each
//         loop (responses in order, then at most one error, then both channels closed); see
//         orca/OrcaSem.v [drain], [contract]. `return` inside BODY/ONERR, another loop inside, any
//         other shape of `for`/`select`: not translated.
// Anything else makes the method untranslatable: the generated file then carries a comment
// `(* <method> could not be translated: <reason> *)` instead of the definition, so exactly that
// method's link lemma stops compiling.

import (
	"fmt"
	"go/ast"
	"go/parser"
	"go/token"
	"os"
	"path/filepath"
	"strings"
)

func init() { commands["orctrans"] = orctrans }

// ---- what the translator knows about the model side ----

type otOrca struct {
	File   string // below /repo
	Recv   string // receiver struct type
	Prefix string // of the Gallina names
}

var otOrcas = []otOrca{
	{"orcas/l1only.go", "L1OnlyOrca", "l1only"},
	{"orcas/l1l2.go", "L1L2Orca", "l1l2"},
	{"orcas/l1l2batch.go", "L1L2BatchOrca", "l1l2batch"},
}

type otField struct{ Go, Coq, Typ string }

// the translated methods: the type of the request parameter and the fields of it that the model's
// request carries (orca/Types.v req), in the order of the Gallina parameters
type otMethod struct {
	Name    string
	ReqType string
	Fields  []otField
	// for requests whose model parameters are not one per field (GetRequest): the binders as
	// text, the names they bind, and for each field the Gallina term it stands for (otField.Coq)
	Binders string
	Params  []string
}

var (
	otSetFields = []otField{{"Key", "k", "bytes"}, {"Data", "d", "bytes"}, {"Flags", "flags", "N"}, {"Exptime", "ttl", "N"}, {"Opaque", "opaque", "N"}, {"Quiet", "quiet", "bool"}}
	otCatFields = []otField{{"Key", "k", "bytes"}, {"Data", "d", "bytes"}, {"Opaque", "opaque", "N"}, {"Quiet", "quiet", "bool"}}
	otKeyTTL    = []otField{{"Key", "k", "bytes"}, {"Exptime", "ttl", "N"}, {"Opaque", "opaque", "N"}}
	// common.GetRequest is `items : list gitem` (key, opaque, quiet per key) + NoopOpaque + NoopEnd
	otGetFields = []otField{{"Keys", "(map gi_key items)", "lbytes"}, {"Opaques", "(map gi_opaque items)", "lN"}, {"Quiet", "(map gi_quiet items)", "lbool"},
		{"NoopOpaque", "noopOpaque", "N"}, {"NoopEnd", "noopEnd", "bool"}}
	otGetBinders = "(items : list gitem) (noopOpaque : N) (noopEnd : bool)"
	otGetParams  = []string{"items", "noopOpaque", "noopEnd"}
	otMethods    = []otMethod{
		{Name: "Set", ReqType: "SetRequest", Fields: otSetFields}, {Name: "Add", ReqType: "SetRequest", Fields: otSetFields},
		{Name: "Replace", ReqType: "SetRequest", Fields: otSetFields},
		{Name: "Append", ReqType: "SetRequest", Fields: otCatFields}, {Name: "Prepend", ReqType: "SetRequest", Fields: otCatFields},
		{Name: "Delete", ReqType: "DeleteRequest", Fields: []otField{{"Key", "k", "bytes"}, {"Opaque", "opaque", "N"}}},
		{Name: "Touch", ReqType: "TouchRequest", Fields: otKeyTTL}, {Name: "Gat", ReqType: "GATRequest", Fields: otKeyTTL},
		{"Get", "GetRequest", otGetFields, otGetBinders, otGetParams}, {"GetE", "GetRequest", otGetFields, otGetBinders, otGetParams},
	}
)

// handlers.Handler methods: request struct type, hreq constructor, the fields it is built from
type otHandlerCall struct {
	ReqType string
	Ctor    string
	Fields  []string
	Gat     bool
	Chan    bool // returns a response channel and an error channel (Get, GetE)
}

var otHandler = map[string]otHandlerCall{
	"Set":     {"SetRequest", "HSet MSet", []string{"Key", "Data", "Flags", "Exptime"}, false, false},
	"Add":     {"SetRequest", "HSet MAdd", []string{"Key", "Data", "Flags", "Exptime"}, false, false},
	"Replace": {"SetRequest", "HSet MReplace", []string{"Key", "Data", "Flags", "Exptime"}, false, false},
	"Append":  {"SetRequest", "HCat false", []string{"Key", "Data"}, false, false},
	"Prepend": {"SetRequest", "HCat true", []string{"Key", "Data"}, false, false},
	"Delete":  {"DeleteRequest", "HDelete", []string{"Key"}, false, false},
	"Touch":   {"TouchRequest", "HTouch", []string{"Key", "Exptime"}, false, false},
	"GAT":     {"GATRequest", "HGat", []string{"Key", "Exptime", "Opaque"}, true, false},
	"Get":     {"GetRequest", "HGet", []string{"Keys", "Opaques", "Quiet"}, false, true},
	"GetE":    {"GetRequest", "HGetE", []string{"Keys", "Opaques", "Quiet"}, false, true},
}

// protocol.Responder methods: rcall constructor and the kinds of its arguments
var otResponder = map[string]struct {
	Ctor string
	Args []string
}{
	"Set": {"PStored RtSet", []string{"N", "bool"}}, "Add": {"PStored RtAdd", []string{"N", "bool"}},
	"Replace": {"PStored RtReplace", []string{"N", "bool"}}, "Append": {"PStored RtAppend", []string{"N", "bool"}},
	"Prepend": {"PStored RtPrepend", []string{"N", "bool"}},
	"Delete":  {"PDelete", []string{"N"}}, "Touch": {"PTouch", []string{"N"}}, "GAT": {"PGat", []string{"gres"}},
	"Get": {"PGet", []string{"gres"}}, "GetE": {"PGetE", []string{"gres"}}, "GetEnd": {"PGetEnd", []string{"N", "bool"}},
}

// common.GetResponse fields as projections of orca/Types.v gres
var otGresProj = map[string][2]string{
	"Key": {"g_key", "bytes"}, "Data": {"g_data", "bytes"}, "Flags": {"g_flags", "N"}, "Opaque": {"g_opaque", "N"},
	"Quiet": {"g_quiet", "bool"}, "Miss": {"g_miss", "bool"},
	"Exptime": {"g_exp", "N"}, // common.GetEResponse only (the Go compiler has checked that)
}

// names the generated text uses: a local variable of the same name is renamed
var otReserved = map[string]bool{"Ret": true, "Call": true, "Emit": true, "L1": true, "L2": true, "None": true, "Some": true,
	"negb": true, "true": true, "false": true, "prog": true, "bytes": true, "N": true, "bool": true,
	"call_err": true, "call_gat": true, "emit_err": true, "err_nil": true, "err_nonnil": true, "err_is": true,
	"drain": true, "continue_": true, "gitems": true, "is_empty": true, "mkGR": true, "map": true, "list": true, "option": true,
	"gitem": true, "gi_key": true, "gi_opaque": true, "gi_quiet": true, "tt": true, "items": true}

// ---- Gallina terms of type prog ----

type oterm interface{}
type otRet struct{ e string }
type otEmit struct {
	c string
	k oterm
}
type otBind struct { // head (fun binders => k)
	head, binders string
	k             oterm
}
type otIf struct {
	c    string
	a, b oterm
}
type otLet struct { // let name : typ := val in k
	name, typ, val string
	k              oterm
}

// the state of a drain loop: the Gallina names of the variables the loop assigns; filled in when
// the loop's body has been translated (otCont nodes inside the body point to it)
type otState struct{ names []string }

func (s *otState) expr() string {
	switch len(s.names) {
	case 0:
		return "tt"
	case 1:
		return s.names[0]
	}
	return "(" + strings.Join(s.names, ", ") + ")"
}
func (s *otState) pat() string {
	switch len(s.names) {
	case 0:
		return "_"
	case 1:
		return s.names[0]
	}
	return "'(" + strings.Join(s.names, ", ") + ")"
}

type otCont struct{ st *otState } // falling off the end of the loop body: continue_ s
type otDrain struct {
	tier, q        string
	st             *otState
	res, geterr    string
	body, onerr, k oterm
}

func otPrint(t oterm, ind string) string {
	switch x := t.(type) {
	case otRet:
		return ind + "Ret " + x.e
	case otEmit:
		if r, ok := x.k.(otRet); ok {
			return fmt.Sprintf("%sEmit (%s) (Ret %s)", ind, x.c, r.e)
		}
		return fmt.Sprintf("%sEmit (%s) (\n%s)", ind, x.c, otPrint(x.k, ind))
	case otBind:
		return fmt.Sprintf("%s%s (fun %s =>\n%s)", ind, x.head, x.binders, otPrint(x.k, ind))
	case otIf:
		return fmt.Sprintf("%sif %s then\n%s\n%selse\n%s", ind, x.c, otPrint(x.a, ind+"  "), ind, otPrint(x.b, ind+"  "))
	case otLet:
		return fmt.Sprintf("%slet %s : %s := %s in\n%s", ind, x.name, x.typ, x.val, otPrint(x.k, ind))
	case otCont:
		return ind + "continue_ " + x.st.expr()
	case otDrain:
		return fmt.Sprintf("%sdrain %s (%s) %s\n%s  (fun %s %s continue_ =>\n%s)\n%s  (fun %s %s continue_ =>\n%s)\n%s  (fun %s =>\n%s)",
			ind, x.tier, x.q, x.st.expr(),
			ind, x.res, x.st.pat(), otPrint(x.body, ind+"    "),
			ind, x.geterr, x.st.pat(), otPrint(x.onerr, ind+"    "),
			ind, x.st.pat(), otPrint(x.k, ind))
	}
	return ind + "?"
}

// ---- environment ----

type otVar struct {
	kind   string            // "err", "gres", "struct", "dropped", "lbytes", "lN", "lbool" (slices), "chan", "ok"
	coq    string            // err, gres, slices: the Gallina variable
	seq    int               // order of declaration
	role   string            // chan: "res" or "err"
	pend   *otPending        // chan: the handler call whose channel this is, nil once drained
	styp   string            // struct: its type in package common
	fields map[string]string // struct: field -> Gallina term
	param  bool              // the method's request: a field that is not in `fields` is not in the model
	deps   map[string]bool   // struct: Gallina variables its field terms mention
	stale  string            // struct: why it can no longer be used
}

// a handler Get/GetE call whose two channels have not been drained yet
type otPending struct {
	tier, q string
	pos     token.Pos
}

// a drain loop being translated: the number of scopes outside it and the outer variables its
// body assigns (by Gallina name)
type otLoop struct {
	depth    int
	assigned map[string]*otVar
}

type otEnv struct{ scopes []map[string]*otVar }

func (e *otEnv) lookupIdx(n string) (*otVar, int) {
	for i := len(e.scopes) - 1; i >= 0; i-- {
		if v, ok := e.scopes[i][n]; ok {
			return v, i
		}
	}
	return nil, -1
}

// pending: a handler Get call whose channels are still to be drained
func (e *otEnv) pending() *otPending {
	for _, s := range e.scopes {
		for _, v := range s {
			if v.kind == "chan" && v.pend != nil {
				return v.pend
			}
		}
	}
	return nil
}

func otIsList(kind string) bool { return kind == "lbytes" || kind == "lN" || kind == "lbool" }

// otCoqType: the Gallina type of a variable of the given kind
func otCoqType(kind string) string {
	switch kind {
	case "err":
		return "option N"
	case "lbytes":
		return "list bytes"
	case "lN":
		return "list N"
	case "lbool":
		return "list bool"
	}
	return kind
}

func (e *otEnv) clone() *otEnv {
	n := &otEnv{}
	for _, s := range e.scopes {
		m := map[string]*otVar{}
		for k, v := range s {
			c := *v
			m[k] = &c
		}
		n.scopes = append(n.scopes, m)
	}
	return n
}
func (e *otEnv) push() *otEnv { e.scopes = append(e.scopes, map[string]*otVar{}); return e }
func (e *otEnv) lookup(n string) *otVar {
	for i := len(e.scopes) - 1; i >= 0; i-- {
		if v, ok := e.scopes[i][n]; ok {
			return v
		}
	}
	return nil
}
func (e *otEnv) top() map[string]*otVar { return e.scopes[len(e.scopes)-1] }

// coqInUse: is the Gallina name n taken by a visible variable (or by the generated vocabulary)?
func (c *otCtx) coqInUse(e *otEnv, n string) bool {
	if otReserved[n] || c.paramNames[n] {
		return true
	}
	for _, s := range e.scopes {
		for _, v := range s {
			if v.coq == n {
				return true
			}
		}
	}
	return false
}

func (c *otCtx) fresh(e *otEnv, base string) string {
	base = coqName(base)
	n := base
	for i := 1; c.coqInUse(e, n); i++ {
		n = fmt.Sprintf("%s%d", base, i)
	}
	return n
}

// bound: the Gallina variable n is (re)bound from here on: symbolic structs mentioning it are stale
func (e *otEnv) bound(n string) {
	for _, s := range e.scopes {
		for name, v := range s {
			if v.kind == "struct" && v.deps[n] {
				v.stale = fmt.Sprintf("%s was built from %s, which is assigned again before this use", name, n)
			}
		}
	}
}

// ---- translation context ----

type otFailure struct{ msg string }

type otCtx struct {
	fs         *token.FileSet
	recv       string                       // receiver variable
	recvFields map[string]string            // receiver field -> its type as written ("handlers.Handler")
	structs    map[string]map[string]string // common struct type -> field -> kind (bytes, N, bool)
	errNames   map[string]bool              // common.Err* the model numbers
	paramNames map[string]bool
	seq        int     // declaration counter
	loop       *otLoop // the drain loop whose body is being translated
}

func (c *otCtx) nextSeq() int { c.seq++; return c.seq }

func (c *otCtx) fail(pos token.Pos, format string, a ...interface{}) {
	p := c.fs.Position(pos)
	panic(otFailure{fmt.Sprintf("%s:%d: %s", filepath.Base(p.Filename), p.Line, fmt.Sprintf(format, a...))})
}

func selOf(e ast.Expr) (x ast.Expr, name string, ok bool) {
	if s, isSel := e.(*ast.SelectorExpr); isSel {
		return s.X, s.Sel.Name, true
	}
	return nil, "", false
}

// pkgSel matches pkg.Name where pkg is not a local variable
func (c *otCtx) pkgSel(env *otEnv, e ast.Expr) (pkg, name string, ok bool) {
	x, n, isSel := selOf(e)
	if !isSel {
		return "", "", false
	}
	id, isId := x.(*ast.Ident)
	if !isId || env.lookup(id.Name) != nil || id.Name == c.recv {
		return "", "", false
	}
	return id.Name, n, true
}

// dropped: a call on metrics / timer / log
func (c *otCtx) droppedCall(env *otEnv, e ast.Expr) bool {
	call, ok := e.(*ast.CallExpr)
	if !ok {
		return false
	}
	pkg, _, ok := c.pkgSel(env, call.Fun)
	return ok && (pkg == "metrics" || pkg == "timer" || pkg == "log")
}

// recvCall matches l.<field>.<method>(args)
func (c *otCtx) recvCall(e ast.Expr) (field, method string, args []ast.Expr, ok bool) {
	call, isCall := e.(*ast.CallExpr)
	if !isCall {
		return
	}
	x, m, isSel := selOf(call.Fun)
	if !isSel {
		return
	}
	x2, f, isSel := selOf(x)
	if !isSel {
		return
	}
	id, isId := x2.(*ast.Ident)
	if !isId || id.Name != c.recv {
		return
	}
	return f, m, call.Args, true
}

// errConst translates common.ErrX
func (c *otCtx) errConst(env *otEnv, e ast.Expr) (string, bool) {
	pkg, n, ok := c.pkgSel(env, e)
	if !ok || pkg != "common" || !strings.HasPrefix(n, "Err") {
		return "", false
	}
	coq := "E" + n[3:]
	if !c.errNames[coq] {
		c.fail(e.Pos(), "common.%s is not one of the errors the model numbers (constgen errList)", n)
	}
	return coq, true
}

// value translates an expression denoting a byte string, a number, a boolean or a get response;
// deps collects the Gallina variables it mentions
func (c *otCtx) value(env *otEnv, e ast.Expr, deps map[string]bool) (term, kind string) {
	switch x := e.(type) {
	case *ast.ParenExpr:
		return c.value(env, x.X, deps)
	case *ast.BasicLit:
		if x.Kind == token.INT {
			return x.Value, "N"
		}
	case *ast.Ident:
		switch x.Name {
		case "true", "false":
			if env.lookup(x.Name) == nil {
				return x.Name, "bool"
			}
		case "nil":
			if env.lookup(x.Name) == nil {
				return "[]", "bytes"
			}
		}
		if v := env.lookup(x.Name); v != nil && (v.kind == "gres" || otIsList(v.kind)) {
			deps[v.coq] = true
			return v.coq, v.kind
		}
		// a common.GetResponse / GetEResponse built by a composite literal, used as a value
		if v := env.lookup(x.Name); v != nil && v.kind == "struct" && (v.styp == "GetResponse" || v.styp == "GetEResponse") {
			var parts []string
			for _, f := range []string{"Key", "Data", "Flags", "Exptime", "Opaque", "Quiet", "Miss"} {
				if f == "Exptime" && v.styp == "GetResponse" {
					parts = append(parts, "0") // the type has no such field
					continue
				}
				t, _ := c.value(env, &ast.SelectorExpr{X: x, Sel: &ast.Ident{Name: f, NamePos: x.Pos()}}, deps)
				parts = append(parts, t)
			}
			return "(mkGR " + strings.Join(parts, " ") + ")", "gres"
		}
	case *ast.CallExpr:
		// append(xs, v)
		if id, ok := x.Fun.(*ast.Ident); ok && id.Name == "append" && env.lookup("append") == nil && len(x.Args) == 2 && !x.Ellipsis.IsValid() {
			ta, ka := c.value(env, x.Args[0], deps)
			tb, kb := c.value(env, x.Args[1], deps)
			if !otIsList(ka) || ka != "l"+kb {
				c.fail(x.Pos(), "append of a %s to a %s", kb, ka)
			}
			return fmt.Sprintf("(%s ++ [%s])", ta, tb), ka
		}
	case *ast.SelectorExpr:
		id, ok := x.X.(*ast.Ident)
		if !ok {
			break
		}
		v := env.lookup(id.Name)
		if v == nil {
			break
		}
		switch v.kind {
		case "gres":
			p, ok := otGresProj[x.Sel.Name]
			if !ok {
				c.fail(x.Pos(), "field %s of a get response is not in the model", x.Sel.Name)
			}
			deps[v.coq] = true
			return fmt.Sprintf("(%s %s)", p[0], v.coq), p[1]
		case "struct":
			if v.stale != "" {
				c.fail(x.Pos(), "%s", v.stale)
			}
			k, ok := c.structs[v.styp][x.Sel.Name]
			if !ok {
				c.fail(x.Pos(), "common.%s has no field %s of a supported type", v.styp, x.Sel.Name)
			}
			t, ok := v.fields[x.Sel.Name]
			if !ok {
				if v.param {
					c.fail(x.Pos(), "field %s of the request is not carried by the model's request for this method", x.Sel.Name)
				}
				t = otZero(k)
			}
			for d := range v.deps {
				deps[d] = true
			}
			return t, k
		}
	}
	c.fail(e.Pos(), "expression not supported here")
	return "", ""
}

func otZero(kind string) string {
	switch kind {
	case "bytes", "lbytes", "lN", "lbool":
		return "[]"
	case "bool":
		return "false"
	}
	return "0"
}

// cond translates a condition
func (c *otCtx) cond(env *otEnv, e ast.Expr) string {
	switch x := e.(type) {
	case *ast.ParenExpr:
		return c.cond(env, x.X)
	case *ast.UnaryExpr:
		if x.Op == token.NOT {
			return "negb (" + c.cond(env, x.X) + ")"
		}
	case *ast.BinaryExpr:
		switch x.Op {
		case token.LAND:
			return "(" + c.cond(env, x.X) + ") && (" + c.cond(env, x.Y) + ")"
		case token.LOR:
			return "(" + c.cond(env, x.X) + ") || (" + c.cond(env, x.Y) + ")"
		case token.EQL, token.NEQ:
			l, r := x.X, x.Y
			// len(xs) == 0, len(xs) != 0 (either way round)
			for _, pr := range [][2]ast.Expr{{l, r}, {r, l}} {
				call, isCall := pr[0].(*ast.CallExpr)
				lit, isLit := pr[1].(*ast.BasicLit)
				if !isCall || !isLit || lit.Kind != token.INT || lit.Value != "0" || len(call.Args) != 1 {
					continue
				}
				if id, ok := call.Fun.(*ast.Ident); !ok || id.Name != "len" || env.lookup("len") != nil {
					continue
				}
				t, k := c.value(env, call.Args[0], map[string]bool{})
				if !otIsList(k) && k != "bytes" {
					c.fail(x.Pos(), "len of something that is not a slice")
				}
				if x.Op == token.EQL {
					return "is_empty " + t
				}
				return "negb (is_empty " + t + ")"
			}
			if _, ok := c.errVar(env, l); !ok {
				l, r = r, l
			}
			ev, ok := c.errVar(env, l)
			if !ok {
				c.fail(x.Pos(), "comparison is not between an error variable and nil / common.ErrX")
			}
			if id, ok := r.(*ast.Ident); ok && id.Name == "nil" && env.lookup("nil") == nil {
				if x.Op == token.EQL {
					return "err_nil " + ev
				}
				return "err_nonnil " + ev
			}
			if k, ok := c.errConst(env, r); ok {
				if x.Op == token.EQL {
					return fmt.Sprintf("err_is %s %s", ev, k)
				}
				return fmt.Sprintf("negb (err_is %s %s)", ev, k)
			}
			c.fail(x.Pos(), "comparison is not between an error variable and nil / common.ErrX")
		}
	case *ast.SelectorExpr, *ast.Ident:
		deps := map[string]bool{}
		t, k := c.value(env, e, deps)
		if k != "bool" {
			c.fail(e.Pos(), "condition is not a boolean")
		}
		return t
	}
	c.fail(e.Pos(), "condition not supported")
	return ""
}

func (c *otCtx) errVar(env *otEnv, e ast.Expr) (string, bool) {
	if id, ok := e.(*ast.Ident); ok {
		if v := env.lookup(id.Name); v != nil && v.kind == "err" {
			return v.coq, true
		}
	}
	return "", false
}

// hreq builds the handler request of l.<tier>.<method>(arg)
func (c *otCtx) hreq(env *otEnv, pos token.Pos, field, method string, args []ast.Expr) (tier, q string, gat bool) {
	if c.recvFields[field] != "handlers.Handler" {
		c.fail(pos, "%s.%s is not a handlers.Handler field of the receiver", c.recv, field)
	}
	switch field {
	case "l1":
		tier = "L1"
	case "l2":
		tier = "L2"
	default:
		c.fail(pos, "handler field %s is neither l1 nor l2", field)
	}
	h, ok := otHandler[method]
	if !ok {
		c.fail(pos, "handler method %s is not part of the translated subset", method)
	}
	if len(args) != 1 {
		c.fail(pos, "handler call with %d arguments", len(args))
	}
	id, ok := args[0].(*ast.Ident)
	var v *otVar
	if ok {
		v = env.lookup(id.Name)
	}
	if v == nil || v.kind != "struct" {
		c.fail(pos, "argument of the handler call is neither the request nor a local built by a composite literal")
	}
	if v.styp != h.ReqType {
		c.fail(pos, "%s takes a common.%s, the argument is a common.%s", method, h.ReqType, v.styp)
	}
	parts := []string{h.Ctor}
	for _, f := range h.Fields {
		t, _ := c.value(env, &ast.SelectorExpr{X: id, Sel: &ast.Ident{Name: f, NamePos: pos}}, map[string]bool{})
		parts = append(parts, t)
	}
	if h.Chan { // the three parallel slices of a GetRequest are the model's list of items
		return tier, fmt.Sprintf("%s (gitems %s)", h.Ctor, strings.Join(parts[1:], " ")), false
	}
	return tier, strings.Join(parts, " "), h.Gat
}

// rcall builds the responder call of l.res.<method>(args)
func (c *otCtx) rcall(env *otEnv, pos token.Pos, field, method string, args []ast.Expr) string {
	if c.recvFields[field] != "protocol.Responder" {
		c.fail(pos, "%s.%s is not the protocol.Responder field of the receiver", c.recv, field)
	}
	r, ok := otResponder[method]
	if !ok {
		c.fail(pos, "responder method %s is not part of the translated subset", method)
	}
	if len(args) != len(r.Args) {
		c.fail(pos, "responder call %s with %d arguments", method, len(args))
	}
	parts := []string{r.Ctor}
	for i, a := range args {
		t, k := c.value(env, a, map[string]bool{})
		if k != r.Args[i] {
			c.fail(a.Pos(), "argument %d of %s has the wrong type", i+1, method)
		}
		parts = append(parts, t)
	}
	return strings.Join(parts, " ")
}

// noop: does the statement consist of dropped statements only (env is not changed)?
func (c *otCtx) noop(env *otEnv, s ast.Stmt) bool {
	switch x := s.(type) {
	case *ast.ExprStmt:
		return c.droppedCall(env, x.X)
	case *ast.EmptyStmt:
		return true
	case *ast.BlockStmt:
		for _, t := range x.List {
			if !c.noop(env, t) {
				return false
			}
		}
		return true
	case *ast.IfStmt:
		if x.Init != nil || !c.noop(env, x.Body) {
			return false
		}
		if x.Else != nil && !c.noop(env, x.Else) {
			return false
		}
		c.cond(env, x.Cond) // must still be a condition of the subset (no effects)
		return true
	}
	return false
}

// declare binds the Go variable name for a `:=` (define) or looks it up for a `=`; returns the
// Gallina binder
func (c *otCtx) assignTarget(env *otEnv, lhs ast.Expr, define bool, kind string) string {
	id, ok := lhs.(*ast.Ident)
	if !ok {
		c.fail(lhs.Pos(), "assignment to something that is not a variable")
	}
	if id.Name == "_" {
		return "_"
	}
	if define {
		if v, ok := env.top()[id.Name]; ok { // declared in this very scope: `:=` assigns
			if v.kind != kind {
				c.fail(lhs.Pos(), "%s changes its type", id.Name)
			}
			env.bound(v.coq)
			return v.coq
		}
		n := c.fresh(env, id.Name)
		env.top()[id.Name] = &otVar{kind: kind, coq: n, seq: c.nextSeq()}
		env.bound(n)
		return n
	}
	v, idx := env.lookupIdx(id.Name)
	if v == nil || v.kind != kind {
		c.fail(lhs.Pos(), "assignment to %s, which is not a variable of the expected type", id.Name)
	}
	if c.loop != nil && idx < c.loop.depth {
		// a variable declared outside the drain loop is assigned inside: it is part of the loop's state
		if kind != "err" && !otIsList(kind) {
			c.fail(lhs.Pos(), "%s is declared outside the loop and assigned inside it: only error and slice variables can be loop state", id.Name)
		}
		c.loop.assigned[v.coq] = v
	}
	env.bound(v.coq)
	return v.coq
}

// simpleValue: right-hand sides that are plain values of kind err or slice: another error
// variable, nil, common.ErrX, append(xs, v), a slice variable
func (c *otCtx) simpleValue(env *otEnv, lhs, rhs ast.Expr, define bool) (term, kind string, ok bool) {
	if ev, isErr := c.errVar(env, rhs); isErr {
		return ev, "err", true
	}
	if k, isConst := c.errConst(env, rhs); isConst {
		return "(Some " + k + ")", "err", true
	}
	if id, isId := rhs.(*ast.Ident); isId && id.Name == "nil" && env.lookup("nil") == nil && !define {
		if l, isId := lhs.(*ast.Ident); isId {
			if v := env.lookup(l.Name); v != nil && v.kind == "err" {
				return "None", "err", true
			}
			if v := env.lookup(l.Name); v != nil && otIsList(v.kind) {
				return "[]", v.kind, true
			}
		}
		return "", "", false
	}
	switch x := rhs.(type) {
	case *ast.CallExpr:
		if id, isId := x.Fun.(*ast.Ident); isId && id.Name == "append" && env.lookup("append") == nil {
			t, k := c.value(env, rhs, map[string]bool{})
			return t, k, true
		}
	case *ast.Ident:
		if v := env.lookup(x.Name); v != nil && otIsList(v.kind) {
			return v.coq, v.kind, true
		}
	}
	return "", "", false
}

// chanTarget binds one of the two channel variables of `rc, ec := l.lN.Get(x)`
func (c *otCtx) chanTarget(env *otEnv, lhs ast.Expr, define bool, role string, p *otPending) {
	id, ok := lhs.(*ast.Ident)
	if !ok || id.Name == "_" {
		c.fail(lhs.Pos(), "the channels of a handler Get must be assigned to variables")
	}
	var v *otVar
	if define {
		v = env.top()[id.Name] // declared in this very scope: `:=` assigns
	} else if v = env.lookup(id.Name); v == nil {
		c.fail(lhs.Pos(), "assignment to %s, which is not declared", id.Name)
	}
	if v == nil {
		env.top()[id.Name] = &otVar{kind: "chan", role: role, pend: p, seq: c.nextSeq()}
		return
	}
	if v.kind != "chan" || v.role != role {
		c.fail(lhs.Pos(), "%s is not a %s channel variable", id.Name, role)
	}
	if v.pend != nil {
		c.fail(lhs.Pos(), "%s is assigned again before the loop that drains it", id.Name)
	}
	v.pend = p
}

// otVarDeclKind: the kind and initial value of `var x T`
func otVarDeclKind(t ast.Expr) (kind, zero string) {
	switch x := t.(type) {
	case *ast.Ident:
		if x.Name == "error" {
			return "err", "None"
		}
	case *ast.ArrayType:
		if x.Len != nil {
			break
		}
		switch el := x.Elt.(type) {
		case *ast.Ident:
			switch el.Name {
			case "uint32":
				return "lN", "[]"
			case "bool":
				return "lbool", "[]"
			}
		case *ast.ArrayType:
			if id, ok := el.Elt.(*ast.Ident); ok && el.Len == nil && id.Name == "byte" {
				return "lbytes", "[]"
			}
		}
	}
	return "", ""
}

func isNilIdent(env *otEnv, e ast.Expr) bool {
	id, ok := e.(*ast.Ident)
	return ok && id.Name == "nil" && env.lookup("nil") == nil
}

// drainClause matches one case of the select:  case V, OK := <-CH: if !OK { CH = nil } else { BODY }
func (c *otCtx) drainClause(env *otEnv, st ast.Stmt) (val, okv, ch string, body *ast.BlockStmt) {
	bad := func(pos token.Pos, what string) {
		c.fail(pos, "select case is not of the form `case v, ok := <-ch: if !ok { ch = nil } else { ... }` (%s)", what)
	}
	cc, ok := st.(*ast.CommClause)
	if !ok || cc.Comm == nil {
		bad(st.Pos(), "default case")
	}
	as, ok := cc.Comm.(*ast.AssignStmt)
	if !ok || as.Tok != token.DEFINE || len(as.Lhs) != 2 || len(as.Rhs) != 1 {
		bad(cc.Pos(), "not a two-value receive")
	}
	v, ok1 := as.Lhs[0].(*ast.Ident)
	o, ok2 := as.Lhs[1].(*ast.Ident)
	rcv, ok3 := as.Rhs[0].(*ast.UnaryExpr)
	if !ok1 || !ok2 || !ok3 || rcv.Op != token.ARROW || o.Name == "_" {
		bad(cc.Pos(), "not a two-value receive")
	}
	chid, ok := rcv.X.(*ast.Ident)
	if !ok {
		bad(cc.Pos(), "receive from something that is not a variable")
	}
	if len(cc.Body) != 1 {
		bad(cc.Pos(), "the case body is not a single if statement")
	}
	ifs, ok := cc.Body[0].(*ast.IfStmt)
	if !ok || ifs.Init != nil {
		bad(cc.Pos(), "the case body is not a single if statement")
	}
	neg, ok := ifs.Cond.(*ast.UnaryExpr)
	if !ok || neg.Op != token.NOT {
		bad(ifs.Pos(), "condition is not !ok")
	}
	if cid, ok := neg.X.(*ast.Ident); !ok || cid.Name != o.Name {
		bad(ifs.Pos(), "condition is not !ok")
	}
	if len(ifs.Body.List) != 1 {
		bad(ifs.Pos(), "the closed branch is not `ch = nil`")
	}
	cl, ok := ifs.Body.List[0].(*ast.AssignStmt)
	if !ok || cl.Tok != token.ASSIGN || len(cl.Lhs) != 1 || len(cl.Rhs) != 1 || !isNilIdent(env, cl.Rhs[0]) {
		bad(ifs.Pos(), "the closed branch is not `ch = nil`")
	}
	if lid, ok := cl.Lhs[0].(*ast.Ident); !ok || lid.Name != chid.Name {
		bad(ifs.Pos(), "the closed branch is not `ch = nil`")
	}
	eb, ok := ifs.Else.(*ast.BlockStmt)
	if !ok {
		bad(ifs.Pos(), "no else block")
	}
	return v.Name, o.Name, chid.Name, eb
}

// drainLoop translates the loop that drains the two channels of a handler Get (see the header)
func (c *otCtx) drainLoop(x *ast.ForStmt, env *otEnv, next func(*otEnv) oterm) oterm {
	if c.loop != nil {
		c.fail(x.Pos(), "a loop inside a drain loop")
	}
	if x.Init != nil || x.Cond != nil || x.Post != nil || len(x.Body.List) != 2 {
		c.fail(x.Pos(), "for statement is not `for { select {..}; if rc == nil && ec == nil { break } }`")
	}
	sel, ok := x.Body.List[0].(*ast.SelectStmt)
	if !ok || len(sel.Body.List) != 2 {
		c.fail(x.Pos(), "the loop does not start with a select of two cases")
	}
	type clause struct {
		val, okv, ch string
		body         *ast.BlockStmt
	}
	var resC, errC *clause
	var pend *otPending
	for _, st := range sel.Body.List {
		cl := &clause{}
		cl.val, cl.okv, cl.ch, cl.body = c.drainClause(env, st)
		v := env.lookup(cl.ch)
		if v == nil || v.kind != "chan" || v.pend == nil {
			c.fail(st.Pos(), "%s is not a channel of a handler Get call that is still to be drained", cl.ch)
		}
		if pend != nil && pend != v.pend {
			c.fail(st.Pos(), "the two channels come from different handler calls")
		}
		pend = v.pend
		switch {
		case v.role == "res" && resC == nil:
			resC = cl
		case v.role == "err" && errC == nil:
			errC = cl
		default:
			c.fail(st.Pos(), "two cases receive from the same channel")
		}
	}
	// if rc == nil && ec == nil { break }
	exit, ok := x.Body.List[1].(*ast.IfStmt)
	badExit := func() {
		c.fail(x.Body.List[1].Pos(), "the loop does not end with `if rc == nil && ec == nil { break }`")
	}
	if !ok || exit.Init != nil || exit.Else != nil || len(exit.Body.List) != 1 {
		badExit()
	}
	if br, ok := exit.Body.List[0].(*ast.BranchStmt); !ok || br.Tok != token.BREAK || br.Label != nil {
		badExit()
	}
	and, ok := exit.Cond.(*ast.BinaryExpr)
	if !ok || and.Op != token.LAND {
		badExit()
	}
	seen := map[string]bool{}
	for _, e := range []ast.Expr{and.X, and.Y} {
		cmp, ok := e.(*ast.BinaryExpr)
		if !ok || cmp.Op != token.EQL || !isNilIdent(env, cmp.Y) {
			badExit()
		}
		id, ok := cmp.X.(*ast.Ident)
		if !ok {
			badExit()
		}
		seen[id.Name] = true
	}
	if !seen[resC.ch] || !seen[errC.ch] || resC.ch == errC.ch {
		badExit()
	}

	st := &otState{}
	tail := func(*otEnv) oterm { return otCont{st} }
	bind := func(cl *clause, kind string) (*otEnv, string) {
		e := env.clone()
		e.lookup(resC.ch).pend = nil // inside the loop the call is being consumed
		e.lookup(errC.ch).pend = nil
		e.push()
		e.top()[cl.okv] = &otVar{kind: "ok"}
		name := "_"
		if cl.val != "_" {
			name = c.fresh(e, cl.val)
			e.top()[cl.val] = &otVar{kind: kind, coq: name, seq: c.nextSeq()}
		}
		return e.push(), name
	}
	var lp *otLoop
	var body, onerr oterm
	var resName, errName string
	translate := func() {
		lp = &otLoop{depth: len(env.scopes), assigned: map[string]*otVar{}}
		c.loop = lp
		var benv, eenv *otEnv
		benv, resName = bind(resC, "gres")
		body = c.block(resC.body.List, benv, tail)
		eenv, errName = bind(errC, "err")
		onerr = c.block(errC.body.List, eenv, tail)
		c.loop = nil
	}
	// first pass: which outer variables does the loop assign? They are bound anew by the loop
	// (in its body and after it), so a tracked struct built from one of them can no longer be used
	translate()
	var vars []*otVar
	for _, v := range lp.assigned {
		vars = append(vars, v)
	}
	for i := range vars {
		for j := i + 1; j < len(vars); j++ {
			if vars[j].seq < vars[i].seq {
				vars[i], vars[j] = vars[j], vars[i]
			}
		}
	}
	for _, v := range vars {
		st.names = append(st.names, v.coq)
		env.bound(v.coq)
	}
	// second pass: the translation proper
	translate()
	// after the loop both channel variables are nil
	env.lookup(resC.ch).pend = nil
	env.lookup(errC.ch).pend = nil
	return otDrain{tier: pend.tier, q: pend.q, st: st, res: resName, geterr: errName, body: body, onerr: onerr, k: next(env)}
}

// block translates stmts; tail gives what follows when they fall through (nil: nothing may)
func (c *otCtx) block(stmts []ast.Stmt, env *otEnv, tail func(*otEnv) oterm) oterm {
	if len(stmts) == 0 {
		if tail == nil {
			panic(otFailure{"control reaches the end of the function"})
		}
		return tail(env)
	}
	s, rest := stmts[0], stmts[1:]
	next := func(e *otEnv) oterm { return c.block(rest, e, tail) }
	if c.noop(env, s) {
		return next(env)
	}
	if p := env.pending(); p != nil {
		// between a handler Get and the loop that drains its channels: declarations only
		switch s.(type) {
		case *ast.DeclStmt, *ast.ForStmt:
		default:
			c.fail(s.Pos(), "statement between the handler Get call of line %d and the loop that drains its channels", c.fs.Position(p.pos).Line)
		}
	}
	switch x := s.(type) {
	case *ast.DeclStmt:
		gd, ok := x.Decl.(*ast.GenDecl)
		if !ok || gd.Tok != token.VAR {
			c.fail(x.Pos(), "declaration not supported")
		}
		type decl struct{ name, kind, zero string }
		var ds []decl
		for _, sp := range gd.Specs {
			vs := sp.(*ast.ValueSpec)
			if len(vs.Values) != 0 || vs.Type == nil {
				c.fail(vs.Pos(), "var declaration with an initial value")
			}
			kind, zero := otVarDeclKind(vs.Type)
			if kind == "" {
				c.fail(vs.Pos(), "var declaration of an unsupported type")
			}
			for _, n := range vs.Names {
				if n.Name == "_" {
					continue
				}
				if _, dup := env.top()[n.Name]; dup {
					c.fail(n.Pos(), "%s is already declared in this block", n.Name)
				}
				coq := c.fresh(env, n.Name)
				env.top()[n.Name] = &otVar{kind: kind, coq: coq, seq: c.nextSeq()}
				env.bound(coq)
				ds = append(ds, decl{coq, kind, zero})
			}
		}
		t := next(env)
		for i := len(ds) - 1; i >= 0; i-- {
			t = otLet{ds[i].name, otCoqType(ds[i].kind), ds[i].zero, t}
		}
		return t
	case *ast.ForStmt:
		return c.drainLoop(x, env, next)
	case *ast.ExprStmt:
		if f, m, args, ok := c.recvCall(x.X); ok {
			return otEmit{c.rcall(env, x.Pos(), f, m, args), next(env)}
		}
		c.fail(x.Pos(), "call statement not supported")
	case *ast.ReturnStmt:
		if c.loop != nil {
			c.fail(x.Pos(), "return inside a drain loop")
		}
		if len(x.Results) != 1 {
			c.fail(x.Pos(), "return of %d values", len(x.Results))
		}
		r := x.Results[0]
		if p := env.pending(); p != nil {
			c.fail(x.Pos(), "return while the channels of the handler call of line %d are still to be drained", c.fs.Position(p.pos).Line)
		}
		if ev, ok := c.errVar(env, r); ok {
			return otRet{ev}
		}
		if id, ok := r.(*ast.Ident); ok && id.Name == "nil" && env.lookup("nil") == nil {
			return otRet{"None"}
		}
		if k, ok := c.errConst(env, r); ok {
			return otRet{"(Some " + k + ")"}
		}
		if f, m, args, ok := c.recvCall(r); ok {
			return otEmit{c.rcall(env, x.Pos(), f, m, args), otRet{"None"}}
		}
		c.fail(x.Pos(), "returned expression not supported")
	case *ast.BlockStmt:
		d := len(env.scopes)
		return c.block(x.List, env.push(), func(e *otEnv) oterm { e.scopes = e.scopes[:d]; return next(e) })
	case *ast.IfStmt:
		if x.Init != nil {
			c.fail(x.Pos(), "if with an init statement")
		}
		cond := c.cond(env, x.Cond)
		d := len(env.scopes)
		after := func(e *otEnv) oterm { e.scopes = e.scopes[:d]; return next(e) }
		a := c.block(x.Body.List, env.clone().push(), after)
		var b oterm
		switch el := x.Else.(type) {
		case nil:
			b = after(env.clone())
		case *ast.BlockStmt:
			b = c.block(el.List, env.clone().push(), after)
		case *ast.IfStmt:
			b = c.block([]ast.Stmt{el}, env.clone().push(), after)
		default:
			c.fail(x.Pos(), "else form not supported")
		}
		return otIf{cond, a, b}
	case *ast.AssignStmt:
		if x.Tok != token.DEFINE && x.Tok != token.ASSIGN {
			c.fail(x.Pos(), "assignment operator %s", x.Tok)
		}
		define := x.Tok == token.DEFINE
		// timing variables
		allDropped := len(x.Rhs) > 0
		for _, r := range x.Rhs {
			if !c.droppedCall(env, r) {
				allDropped = false
			}
		}
		if allDropped {
			for _, l := range x.Lhs {
				id, ok := l.(*ast.Ident)
				if !ok {
					c.fail(l.Pos(), "assignment to something that is not a variable")
				}
				if define {
					if v, ok := env.top()[id.Name]; ok && v.kind != "dropped" {
						c.fail(l.Pos(), "%s changes its type", id.Name)
					}
					env.top()[id.Name] = &otVar{kind: "dropped"}
				} else if v := env.lookup(id.Name); v == nil || v.kind != "dropped" {
					c.fail(l.Pos(), "a timer/metrics value is assigned to %s, which the program uses", id.Name)
				}
			}
			return next(env)
		}
		if len(x.Rhs) != 1 {
			c.fail(x.Pos(), "assignment with %d right-hand sides", len(x.Rhs))
		}
		rhs := x.Rhs[0]
		// x := common.T{...}
		if cl, ok := rhs.(*ast.CompositeLit); ok {
			if len(x.Lhs) != 1 {
				c.fail(x.Pos(), "a composite literal assigned to several variables")
			}
			id, ok := x.Lhs[0].(*ast.Ident)
			if !ok || id.Name == "_" {
				c.fail(x.Pos(), "assignment to something that is not a variable")
			}
			pkg, tn, ok := c.pkgSel(env, cl.Type)
			if !ok || pkg != "common" || c.structs[tn] == nil {
				c.fail(x.Pos(), "composite literal of an unknown type")
			}
			target := env.top()
			if define {
				if _, dup := env.top()[id.Name]; dup {
					c.fail(x.Pos(), "%s is already declared in this block", id.Name)
				}
			} else {
				// x = common.T{...}: the tracked struct is replaced (the literal is evaluated first)
				old, idx := env.lookupIdx(id.Name)
				if old == nil || old.kind != "struct" || old.styp != tn {
					c.fail(x.Pos(), "a composite literal is assigned to %s, which is not a struct variable of that type", id.Name)
				}
				if c.loop != nil && idx < c.loop.depth {
					c.fail(x.Pos(), "%s is declared outside the loop and assigned inside it: only error and slice variables can be loop state", id.Name)
				}
				target = env.scopes[idx]
			}
			v := &otVar{kind: "struct", styp: tn, fields: map[string]string{}, deps: map[string]bool{}}
			for _, el := range cl.Elts {
				kv, ok := el.(*ast.KeyValueExpr)
				var key *ast.Ident
				if ok {
					key, ok = kv.Key.(*ast.Ident)
				}
				if !ok {
					c.fail(el.Pos(), "composite literal without field names")
				}
				fk, ok := c.structs[tn][key.Name]
				if !ok {
					c.fail(el.Pos(), "common.%s has no field %s of a supported type", tn, key.Name)
				}
				t, k := c.value(env, kv.Value, v.deps)
				if k != fk {
					c.fail(el.Pos(), "field %s is given a value of the wrong type", key.Name)
				}
				if _, dup := v.fields[key.Name]; dup {
					c.fail(el.Pos(), "field %s given twice", key.Name)
				}
				v.fields[key.Name] = t
			}
			v.seq = c.nextSeq()
			target[id.Name] = v
			return next(env)
		}
		// e = e2 | nil | common.ErrX,  xs = append(xs, v)
		if len(x.Lhs) == 1 {
			if t, k, ok := c.simpleValue(env, x.Lhs[0], rhs, define); ok {
				b := c.assignTarget(env, x.Lhs[0], define, k)
				if b == "_" {
					return next(env)
				}
				return otLet{b, otCoqType(k), t, next(env)}
			}
		}
		f, m, args, ok := c.recvCall(rhs)
		if !ok {
			c.fail(x.Pos(), "right-hand side is neither a handler call, a responder call, a composite literal, an error nor an append")
		}
		if c.recvFields[f] == "protocol.Responder" {
			if len(x.Lhs) != 1 {
				c.fail(x.Pos(), "responder call assigned to %d variables", len(x.Lhs))
			}
			call := c.rcall(env, x.Pos(), f, m, args) // evaluated before the variable is rebound
			b := c.assignTarget(env, x.Lhs[0], define, "err")
			return otBind{"emit_err (" + call + ")", b, next(env)}
		}
		tier, q, gat := c.hreq(env, x.Pos(), f, m, args)
		if h := otHandler[m]; h.Chan {
			// rc, ec := l.lN.Get(x): the call is made here; its result is consumed by the drain loop
			if len(x.Lhs) != 2 {
				c.fail(x.Pos(), "%s returns a response channel and an error channel", m)
			}
			if c.loop != nil {
				c.fail(x.Pos(), "a handler %s inside a drain loop", m)
			}
			if p := env.pending(); p != nil {
				c.fail(x.Pos(), "a handler %s while the channels of the call of line %d are still to be drained", m, c.fs.Position(p.pos).Line)
			}
			p := &otPending{tier: tier, q: q, pos: x.Pos()}
			c.chanTarget(env, x.Lhs[0], define, "res", p)
			c.chanTarget(env, x.Lhs[1], define, "err", p)
			return next(env)
		}
		if gat {
			if len(x.Lhs) != 2 {
				c.fail(x.Pos(), "GAT returns a response and an error")
			}
			b1 := c.assignTarget(env, x.Lhs[0], define, "gres")
			b2 := c.assignTarget(env, x.Lhs[1], define, "err")
			return otBind{fmt.Sprintf("call_gat %s (%s)", tier, q), b1 + " " + b2, next(env)}
		}
		if len(x.Lhs) != 1 {
			c.fail(x.Pos(), "%s returns one error", m)
		}
		b := c.assignTarget(env, x.Lhs[0], define, "err")
		return otBind{fmt.Sprintf("call_err %s (%s)", tier, q), b, next(env)}
	}
	c.fail(s.Pos(), "statement %T not supported", s)
	return nil
}

// otParseStructs reads the struct types of common/datatypes.go: field -> kind for the fields of
// type []byte, uint32 and bool
func otParseStructs(repo string) (map[string]map[string]string, error) {
	fs := token.NewFileSet()
	af, err := parser.ParseFile(fs, filepath.Join(repo, "common", "datatypes.go"), nil, 0)
	if err != nil {
		return nil, err
	}
	out := map[string]map[string]string{}
	for _, d := range af.Decls {
		gd, ok := d.(*ast.GenDecl)
		if !ok || gd.Tok != token.TYPE {
			continue
		}
		for _, sp := range gd.Specs {
			ts := sp.(*ast.TypeSpec)
			st, ok := ts.Type.(*ast.StructType)
			if !ok {
				continue
			}
			m := map[string]string{}
			for _, fl := range st.Fields.List {
				k := ""
				switch t := fl.Type.(type) {
				case *ast.Ident:
					switch t.Name {
					case "uint32":
						k = "N"
					case "bool":
						k = "bool"
					}
				case *ast.ArrayType:
					if id, ok := t.Elt.(*ast.Ident); ok && t.Len == nil && id.Name == "byte" {
						k = "bytes"
					} else if lk, _ := otVarDeclKind(t); lk != "" && lk != "err" {
						k = lk // [][]byte, []uint32, []bool
					}
				}
				if k == "" {
					continue
				}
				for _, n := range fl.Names {
					m[n.Name] = k
				}
			}
			out[ts.Name.Name] = m
		}
	}
	return out, nil
}

func typeString(e ast.Expr) string {
	switch x := e.(type) {
	case *ast.Ident:
		return x.Name
	case *ast.SelectorExpr:
		return typeString(x.X) + "." + x.Sel.Name
	case *ast.StarExpr:
		return "*" + typeString(x.X)
	}
	return "?"
}

// otTranslate translates one method of one orchestrator
func otTranslate(fs *token.FileSet, af *ast.File, o otOrca, m otMethod, structs map[string]map[string]string) (out string, err error) {
	defer func() {
		if r := recover(); r != nil {
			f, ok := r.(otFailure)
			if !ok {
				panic(r)
			}
			err = fmt.Errorf("%s", f.msg)
		}
	}()
	c := &otCtx{fs: fs, recvFields: map[string]string{}, structs: structs, errNames: map[string]bool{}, paramNames: map[string]bool{}}
	for _, e := range errList {
		c.errNames[e.name] = true
	}
	var fd *ast.FuncDecl
	for _, d := range af.Decls {
		switch x := d.(type) {
		case *ast.FuncDecl:
			if x.Name.Name == m.Name && x.Recv != nil && len(x.Recv.List) == 1 && typeString(x.Recv.List[0].Type) == "*"+o.Recv {
				fd = x
			}
		case *ast.GenDecl:
			if x.Tok != token.TYPE {
				continue
			}
			for _, sp := range x.Specs {
				ts := sp.(*ast.TypeSpec)
				if st, ok := ts.Type.(*ast.StructType); ok && ts.Name.Name == o.Recv {
					for _, fl := range st.Fields.List {
						for _, n := range fl.Names {
							c.recvFields[n.Name] = typeString(fl.Type)
						}
					}
				}
			}
		}
	}
	if fd == nil {
		return "", fmt.Errorf("method not found")
	}
	if len(fd.Recv.List[0].Names) != 1 {
		return "", fmt.Errorf("receiver has no name")
	}
	c.recv = fd.Recv.List[0].Names[0].Name
	ps := fd.Type.Params.List
	if len(ps) != 1 || len(ps[0].Names) != 1 || typeString(ps[0].Type) != "common."+m.ReqType {
		return "", fmt.Errorf("parameter list is not (req common.%s)", m.ReqType)
	}
	if fd.Type.Results == nil || len(fd.Type.Results.List) != 1 || len(fd.Type.Results.List[0].Names) != 0 || typeString(fd.Type.Results.List[0].Type) != "error" {
		return "", fmt.Errorf("result is not a single unnamed error")
	}
	req := &otVar{kind: "struct", styp: m.ReqType, fields: map[string]string{}, deps: map[string]bool{}, param: true}
	var binders []string
	if m.Binders != "" {
		// the model's parameters are not one per field: each field stands for a term over them
		for _, f := range m.Fields {
			if structs[m.ReqType][f.Go] != f.Typ {
				return "", fmt.Errorf("common.%s has no field %s of type %s", m.ReqType, f.Go, f.Typ)
			}
			req.fields[f.Go] = f.Coq
		}
		for _, n := range m.Params {
			c.paramNames[n] = true
		}
		binders = []string{m.Binders}
	}
	for i := 0; m.Binders == "" && i < len(m.Fields); {
		j := i
		var names []string
		for ; j < len(m.Fields) && m.Fields[j].Typ == m.Fields[i].Typ; j++ {
			f := m.Fields[j]
			if structs[m.ReqType][f.Go] != f.Typ {
				return "", fmt.Errorf("common.%s has no field %s of type %s", m.ReqType, f.Go, f.Typ)
			}
			req.fields[f.Go] = f.Coq
			c.paramNames[f.Coq] = true
			names = append(names, f.Coq)
		}
		binders = append(binders, fmt.Sprintf("(%s : %s)", strings.Join(names, " "), m.Fields[i].Typ))
		i = j
	}
	env := (&otEnv{}).push()
	env.top()[ps[0].Names[0].Name] = req
	body := c.block(fd.Body.List, env.push(), nil)
	name := fmt.Sprintf("%s_%s_src", o.Prefix, m.Name)
	return fmt.Sprintf("(* %s: func (%s *%s) %s *)\nDefinition %s %s : prog :=\n%s.\n", o.File, c.recv, o.Recv, m.Name,
		name, strings.Join(binders, " "), otPrint(body, "  ")), nil
}

// otCommentSafe makes a message fit inside a Coq comment
func otCommentSafe(s string) string {
	return strings.NewReplacer("*)", "* )", "(*", "( *", "\"", "'").Replace(s)
}

func orctrans(e *env) {
	repo := "/repo"
	if v := os.Getenv("VERIF_REPO"); v != "" {
		repo = v
	}
	var sb strings.Builder
	sb.WriteString("(* GENERATED by harness orctrans from the SOURCE of /repo/orcas — do not edit.\n" +
		"   One interaction program per orchestrator method (rules: harness/cmd/rendharness/orctrans.go,\n" +
		"   helpers: orca/OrcaSem.v); gen/OrcasLink.v and gen/OrcasGetLink.v (Get, GetE) prove each equivalent to\n" +
		"   the model of orca/Orcas.v. *)\n")
	sb.WriteString("From Rend Require Import base.Bytes gen.Consts_gen spec.MapSpec orca.Types orca.OrcaSem.\nOpen Scope N_scope.\nOpen Scope bool_scope.\n\n")
	structs, serr := otParseStructs(repo)
	done, total := 0, 0
	for _, o := range otOrcas {
		fs := token.NewFileSet()
		af, perr := parser.ParseFile(fs, filepath.Join(repo, o.File), nil, 0)
		for _, m := range otMethods {
			total++
			var s string
			err := perr
			if err == nil {
				err = serr
			}
			if err == nil {
				s, err = otTranslate(fs, af, o, m, structs)
			}
			if err != nil {
				// the method left the translatable subset: say so in the generated file; its link
				// lemma then fails to compile and the check reports it
				fmt.Fprintf(&sb, "(* %s: %s.%s could not be translated: %s *)\n\n", o.File, o.Recv, m.Name, otCommentSafe(err.Error()))
				fmt.Fprintf(os.Stderr, "orctrans: %s.%s: %v\n", o.Recv, m.Name, err)
				continue
			}
			done++
			sb.WriteString(s + "\n")
		}
	}
	fmt.Fprintf(&sb, "(* translated %d of %d methods *)\n", done, total)
	root := os.Getenv("VERIF_ROOT")
	if root == "" {
		root = "/verif"
	}
	writeIfChanged(filepath.Join(root, "coq", "gen", "Orcas_gen.v"), []byte(sb.String()))
}
