package main

// orctrans: a translator from the SOURCE of rend's orchestrators (orcas/l1only.go, l1l2.go,
// l1l2batch.go) to Gallina interaction programs (coq/orca/Types.v `prog`). Like gotrans it reads
// /repo with go/parser on every run; coq/gen/OrcasLink.v proves each generated method equivalent
// (coq/orca/ProgEq.v) to the hand-written model of coq/orca/Orcas.v the theorems are about. A
// change to one of the methods changes the generated program and breaks its link lemma.
//
// Translated: the methods Set, Add, Replace, Append, Prepend, Delete, Touch, Gat of L1OnlyOrca,
// L1L2Orca and L1L2BatchOrca. Each becomes a function from the fields of its request that the
// model carries to `prog`. The translation is statement by statement and does no reasoning of
// its own (no branch is decided here): Coq does that in the link proofs.
//
// Subset and rules (helpers: coq/orca/OrcaSem.v):
//   - expression statements calling metrics.*, timer.*, log.* are dropped; so are assignments
//     whose right-hand sides are all such calls (start := timer.Now()) — the variables they
//     define can only be used inside dropped calls; an `if` whose branches contain nothing but
//     dropped statements is dropped with them (conditions have no effects);
//   - err := l.l1.M(x) / err = l.l2.M(x), M one of Set Add Replace Append Prepend Delete Touch:
//     call_err L1|L2 (H... fields of x) (fun err => rest); x is the method's request or a local
//     defined by a composite literal common.T{F: e, ...} (tracked symbolically; a field that is
//     not given is the zero value); res, err := l.l1.GAT(x): call_gat ... (fun res err => rest);
//   - l.res.M(args) as a statement: Emit (P...) rest; err = l.res.M(args): emit_err (P...)
//     (fun err => rest) — the responder's own error is not modelled, err becomes nil;
//   - return err | nil | common.ErrX | l.res.M(args): Ret err | Ret None | Ret (Some EX) |
//     Emit (P...) (Ret None);
//   - if c {..} else {..} / else if: `if c then .. else ..`, the statements after the `if` are
//     repeated in every branch that falls through; c is built from err == nil, err != nil,
//     err == common.ErrX, err != common.ErrX, x.Miss, !, &&, ||;
//   - variables: `=` rebinds the Gallina variable of the same name (the rest is textually inside
//     the binder), `:=` in an inner block that shadows gets a fresh name; blocks scope as in Go.
// Anything else makes the method untranslatable: the generated file then carries a comment
// `(* <method> could not be translated: <reason> *)` instead of the definition, so exactly that
// method's link lemma stops compiling.

import (
	"fmt"
	"go/ast"
	"go/parser"
	"go/token"
	"os"
	"path/filepath"
	"strings"
)

func init() { commands["orctrans"] = orctrans }

// ---- what the translator knows about the model side ----

type otOrca struct {
	File   string // below /repo
	Recv   string // receiver struct type
	Prefix string // of the Gallina names
}

var otOrcas = []otOrca{
	{"orcas/l1only.go", "L1OnlyOrca", "l1only"},
	{"orcas/l1l2.go", "L1L2Orca", "l1l2"},
	{"orcas/l1l2batch.go", "L1L2BatchOrca", "l1l2batch"},
}

type otField struct{ Go, Coq, Typ string }

// the translated methods: the type of the request parameter and the fields of it that the model's
// request carries (orca/Types.v req), in the order of the Gallina parameters
type otMethod struct {
	Name    string
	ReqType string
	Fields  []otField
}

var (
	otSetFields = []otField{{"Key", "k", "bytes"}, {"Data", "d", "bytes"}, {"Flags", "flags", "N"}, {"Exptime", "ttl", "N"}, {"Opaque", "opaque", "N"}, {"Quiet", "quiet", "bool"}}
	otCatFields = []otField{{"Key", "k", "bytes"}, {"Data", "d", "bytes"}, {"Opaque", "opaque", "N"}, {"Quiet", "quiet", "bool"}}
	otKeyTTL    = []otField{{"Key", "k", "bytes"}, {"Exptime", "ttl", "N"}, {"Opaque", "opaque", "N"}}
	otMethods   = []otMethod{
		{"Set", "SetRequest", otSetFields}, {"Add", "SetRequest", otSetFields}, {"Replace", "SetRequest", otSetFields},
		{"Append", "SetRequest", otCatFields}, {"Prepend", "SetRequest", otCatFields},
		{"Delete", "DeleteRequest", []otField{{"Key", "k", "bytes"}, {"Opaque", "opaque", "N"}}},
		{"Touch", "TouchRequest", otKeyTTL}, {"Gat", "GATRequest", otKeyTTL},
	}
)

// handlers.Handler methods: request struct type, hreq constructor, the fields it is built from
type otHandlerCall struct {
	ReqType string
	Ctor    string
	Fields  []string
	Gat     bool
}

var otHandler = map[string]otHandlerCall{
	"Set":     {"SetRequest", "HSet MSet", []string{"Key", "Data", "Flags", "Exptime"}, false},
	"Add":     {"SetRequest", "HSet MAdd", []string{"Key", "Data", "Flags", "Exptime"}, false},
	"Replace": {"SetRequest", "HSet MReplace", []string{"Key", "Data", "Flags", "Exptime"}, false},
	"Append":  {"SetRequest", "HCat false", []string{"Key", "Data"}, false},
	"Prepend": {"SetRequest", "HCat true", []string{"Key", "Data"}, false},
	"Delete":  {"DeleteRequest", "HDelete", []string{"Key"}, false},
	"Touch":   {"TouchRequest", "HTouch", []string{"Key", "Exptime"}, false},
	"GAT":     {"GATRequest", "HGat", []string{"Key", "Exptime", "Opaque"}, true},
}

// protocol.Responder methods: rcall constructor and the kinds of its arguments
var otResponder = map[string]struct {
	Ctor string
	Args []string
}{
	"Set": {"PStored RtSet", []string{"N", "bool"}}, "Add": {"PStored RtAdd", []string{"N", "bool"}},
	"Replace": {"PStored RtReplace", []string{"N", "bool"}}, "Append": {"PStored RtAppend", []string{"N", "bool"}},
	"Prepend": {"PStored RtPrepend", []string{"N", "bool"}},
	"Delete":  {"PDelete", []string{"N"}}, "Touch": {"PTouch", []string{"N"}}, "GAT": {"PGat", []string{"gres"}},
}

// common.GetResponse fields as projections of orca/Types.v gres
var otGresProj = map[string][2]string{
	"Key": {"g_key", "bytes"}, "Data": {"g_data", "bytes"}, "Flags": {"g_flags", "N"}, "Opaque": {"g_opaque", "N"},
	"Quiet": {"g_quiet", "bool"}, "Miss": {"g_miss", "bool"},
}

// names the generated text uses: a local variable of the same name is renamed
var otReserved = map[string]bool{"Ret": true, "Call": true, "Emit": true, "L1": true, "L2": true, "None": true, "Some": true,
	"negb": true, "true": true, "false": true, "prog": true, "bytes": true, "N": true, "bool": true,
	"call_err": true, "call_gat": true, "emit_err": true, "err_nil": true, "err_nonnil": true, "err_is": true}

// ---- Gallina terms of type prog ----

type oterm interface{}
type otRet struct{ e string }
type otEmit struct {
	c string
	k oterm
}
type otBind struct { // head (fun binders => k)
	head, binders string
	k             oterm
}
type otIf struct {
	c    string
	a, b oterm
}

func otPrint(t oterm, ind string) string {
	switch x := t.(type) {
	case otRet:
		return ind + "Ret " + x.e
	case otEmit:
		if r, ok := x.k.(otRet); ok {
			return fmt.Sprintf("%sEmit (%s) (Ret %s)", ind, x.c, r.e)
		}
		return fmt.Sprintf("%sEmit (%s) (\n%s)", ind, x.c, otPrint(x.k, ind))
	case otBind:
		return fmt.Sprintf("%s%s (fun %s =>\n%s)", ind, x.head, x.binders, otPrint(x.k, ind))
	case otIf:
		return fmt.Sprintf("%sif %s then\n%s\n%selse\n%s", ind, x.c, otPrint(x.a, ind+"  "), ind, otPrint(x.b, ind+"  "))
	}
	return ind + "?"
}

// ---- environment ----

type otVar struct {
	kind   string            // "err", "gres", "struct", "dropped"
	coq    string            // err, gres: the Gallina variable
	styp   string            // struct: its type in package common
	fields map[string]string // struct: field -> Gallina term
	param  bool              // the method's request: a field that is not in `fields` is not in the model
	deps   map[string]bool   // struct: Gallina variables its field terms mention
	stale  string            // struct: why it can no longer be used
}

type otEnv struct{ scopes []map[string]*otVar }

func (e *otEnv) clone() *otEnv {
	n := &otEnv{}
	for _, s := range e.scopes {
		m := map[string]*otVar{}
		for k, v := range s {
			c := *v
			m[k] = &c
		}
		n.scopes = append(n.scopes, m)
	}
	return n
}
func (e *otEnv) push() *otEnv { e.scopes = append(e.scopes, map[string]*otVar{}); return e }
func (e *otEnv) lookup(n string) *otVar {
	for i := len(e.scopes) - 1; i >= 0; i-- {
		if v, ok := e.scopes[i][n]; ok {
			return v
		}
	}
	return nil
}
func (e *otEnv) top() map[string]*otVar { return e.scopes[len(e.scopes)-1] }

// coqInUse: is the Gallina name n taken by a visible variable (or by the generated vocabulary)?
func (c *otCtx) coqInUse(e *otEnv, n string) bool {
	if otReserved[n] || c.paramNames[n] {
		return true
	}
	for _, s := range e.scopes {
		for _, v := range s {
			if v.coq == n {
				return true
			}
		}
	}
	return false
}

func (c *otCtx) fresh(e *otEnv, base string) string {
	base = coqName(base)
	n := base
	for i := 1; c.coqInUse(e, n); i++ {
		n = fmt.Sprintf("%s%d", base, i)
	}
	return n
}

// bound: the Gallina variable n is (re)bound from here on: symbolic structs mentioning it are stale
func (e *otEnv) bound(n string) {
	for _, s := range e.scopes {
		for name, v := range s {
			if v.kind == "struct" && v.deps[n] {
				v.stale = fmt.Sprintf("%s was built from %s, which is assigned again before this use", name, n)
			}
		}
	}
}

// ---- translation context ----

type otFailure struct{ msg string }

type otCtx struct {
	fs         *token.FileSet
	recv       string                       // receiver variable
	recvFields map[string]string            // receiver field -> its type as written ("handlers.Handler")
	structs    map[string]map[string]string // common struct type -> field -> kind (bytes, N, bool)
	errNames   map[string]bool              // common.Err* the model numbers
	paramNames map[string]bool
}

func (c *otCtx) fail(pos token.Pos, format string, a ...interface{}) {
	p := c.fs.Position(pos)
	panic(otFailure{fmt.Sprintf("%s:%d: %s", filepath.Base(p.Filename), p.Line, fmt.Sprintf(format, a...))})
}

func selOf(e ast.Expr) (x ast.Expr, name string, ok bool) {
	if s, isSel := e.(*ast.SelectorExpr); isSel {
		return s.X, s.Sel.Name, true
	}
	return nil, "", false
}

// pkgSel matches pkg.Name where pkg is not a local variable
func (c *otCtx) pkgSel(env *otEnv, e ast.Expr) (pkg, name string, ok bool) {
	x, n, isSel := selOf(e)
	if !isSel {
		return "", "", false
	}
	id, isId := x.(*ast.Ident)
	if !isId || env.lookup(id.Name) != nil || id.Name == c.recv {
		return "", "", false
	}
	return id.Name, n, true
}

// dropped: a call on metrics / timer / log
func (c *otCtx) droppedCall(env *otEnv, e ast.Expr) bool {
	call, ok := e.(*ast.CallExpr)
	if !ok {
		return false
	}
	pkg, _, ok := c.pkgSel(env, call.Fun)
	return ok && (pkg == "metrics" || pkg == "timer" || pkg == "log")
}

// recvCall matches l.<field>.<method>(args)
func (c *otCtx) recvCall(e ast.Expr) (field, method string, args []ast.Expr, ok bool) {
	call, isCall := e.(*ast.CallExpr)
	if !isCall {
		return
	}
	x, m, isSel := selOf(call.Fun)
	if !isSel {
		return
	}
	x2, f, isSel := selOf(x)
	if !isSel {
		return
	}
	id, isId := x2.(*ast.Ident)
	if !isId || id.Name != c.recv {
		return
	}
	return f, m, call.Args, true
}

// errConst translates common.ErrX
func (c *otCtx) errConst(env *otEnv, e ast.Expr) (string, bool) {
	pkg, n, ok := c.pkgSel(env, e)
	if !ok || pkg != "common" || !strings.HasPrefix(n, "Err") {
		return "", false
	}
	coq := "E" + n[3:]
	if !c.errNames[coq] {
		c.fail(e.Pos(), "common.%s is not one of the errors the model numbers (constgen errList)", n)
	}
	return coq, true
}

// value translates an expression denoting a byte string, a number, a boolean or a get response;
// deps collects the Gallina variables it mentions
func (c *otCtx) value(env *otEnv, e ast.Expr, deps map[string]bool) (term, kind string) {
	switch x := e.(type) {
	case *ast.ParenExpr:
		return c.value(env, x.X, deps)
	case *ast.BasicLit:
		if x.Kind == token.INT {
			return x.Value, "N"
		}
	case *ast.Ident:
		switch x.Name {
		case "true", "false":
			if env.lookup(x.Name) == nil {
				return x.Name, "bool"
			}
		case "nil":
			if env.lookup(x.Name) == nil {
				return "[]", "bytes"
			}
		}
		if v := env.lookup(x.Name); v != nil && v.kind == "gres" {
			deps[v.coq] = true
			return v.coq, "gres"
		}
	case *ast.SelectorExpr:
		id, ok := x.X.(*ast.Ident)
		if !ok {
			break
		}
		v := env.lookup(id.Name)
		if v == nil {
			break
		}
		switch v.kind {
		case "gres":
			p, ok := otGresProj[x.Sel.Name]
			if !ok {
				c.fail(x.Pos(), "field %s of a get response is not in the model", x.Sel.Name)
			}
			deps[v.coq] = true
			return fmt.Sprintf("(%s %s)", p[0], v.coq), p[1]
		case "struct":
			if v.stale != "" {
				c.fail(x.Pos(), "%s", v.stale)
			}
			k, ok := c.structs[v.styp][x.Sel.Name]
			if !ok {
				c.fail(x.Pos(), "common.%s has no field %s of a supported type", v.styp, x.Sel.Name)
			}
			t, ok := v.fields[x.Sel.Name]
			if !ok {
				if v.param {
					c.fail(x.Pos(), "field %s of the request is not carried by the model's request for this method", x.Sel.Name)
				}
				t = otZero(k)
			}
			for d := range v.deps {
				deps[d] = true
			}
			return t, k
		}
	}
	c.fail(e.Pos(), "expression not supported here")
	return "", ""
}

func otZero(kind string) string {
	switch kind {
	case "bytes":
		return "[]"
	case "bool":
		return "false"
	}
	return "0"
}

// cond translates a condition
func (c *otCtx) cond(env *otEnv, e ast.Expr) string {
	switch x := e.(type) {
	case *ast.ParenExpr:
		return c.cond(env, x.X)
	case *ast.UnaryExpr:
		if x.Op == token.NOT {
			return "negb (" + c.cond(env, x.X) + ")"
		}
	case *ast.BinaryExpr:
		switch x.Op {
		case token.LAND:
			return "(" + c.cond(env, x.X) + ") && (" + c.cond(env, x.Y) + ")"
		case token.LOR:
			return "(" + c.cond(env, x.X) + ") || (" + c.cond(env, x.Y) + ")"
		case token.EQL, token.NEQ:
			l, r := x.X, x.Y
			if _, ok := c.errVar(env, l); !ok {
				l, r = r, l
			}
			ev, ok := c.errVar(env, l)
			if !ok {
				c.fail(x.Pos(), "comparison is not between an error variable and nil / common.ErrX")
			}
			if id, ok := r.(*ast.Ident); ok && id.Name == "nil" && env.lookup("nil") == nil {
				if x.Op == token.EQL {
					return "err_nil " + ev
				}
				return "err_nonnil " + ev
			}
			if k, ok := c.errConst(env, r); ok {
				if x.Op == token.EQL {
					return fmt.Sprintf("err_is %s %s", ev, k)
				}
				return fmt.Sprintf("negb (err_is %s %s)", ev, k)
			}
			c.fail(x.Pos(), "comparison is not between an error variable and nil / common.ErrX")
		}
	case *ast.SelectorExpr, *ast.Ident:
		deps := map[string]bool{}
		t, k := c.value(env, e, deps)
		if k != "bool" {
			c.fail(e.Pos(), "condition is not a boolean")
		}
		return t
	}
	c.fail(e.Pos(), "condition not supported")
	return ""
}

func (c *otCtx) errVar(env *otEnv, e ast.Expr) (string, bool) {
	if id, ok := e.(*ast.Ident); ok {
		if v := env.lookup(id.Name); v != nil && v.kind == "err" {
			return v.coq, true
		}
	}
	return "", false
}

// hreq builds the handler request of l.<tier>.<method>(arg)
func (c *otCtx) hreq(env *otEnv, pos token.Pos, field, method string, args []ast.Expr) (tier, q string, gat bool) {
	if c.recvFields[field] != "handlers.Handler" {
		c.fail(pos, "%s.%s is not a handlers.Handler field of the receiver", c.recv, field)
	}
	switch field {
	case "l1":
		tier = "L1"
	case "l2":
		tier = "L2"
	default:
		c.fail(pos, "handler field %s is neither l1 nor l2", field)
	}
	h, ok := otHandler[method]
	if !ok {
		c.fail(pos, "handler method %s is not part of the translated subset", method)
	}
	if len(args) != 1 {
		c.fail(pos, "handler call with %d arguments", len(args))
	}
	id, ok := args[0].(*ast.Ident)
	var v *otVar
	if ok {
		v = env.lookup(id.Name)
	}
	if v == nil || v.kind != "struct" {
		c.fail(pos, "argument of the handler call is neither the request nor a local built by a composite literal")
	}
	if v.styp != h.ReqType {
		c.fail(pos, "%s takes a common.%s, the argument is a common.%s", method, h.ReqType, v.styp)
	}
	parts := []string{h.Ctor}
	for _, f := range h.Fields {
		t, _ := c.value(env, &ast.SelectorExpr{X: id, Sel: &ast.Ident{Name: f, NamePos: pos}}, map[string]bool{})
		parts = append(parts, t)
	}
	return tier, strings.Join(parts, " "), h.Gat
}

// rcall builds the responder call of l.res.<method>(args)
func (c *otCtx) rcall(env *otEnv, pos token.Pos, field, method string, args []ast.Expr) string {
	if c.recvFields[field] != "protocol.Responder" {
		c.fail(pos, "%s.%s is not the protocol.Responder field of the receiver", c.recv, field)
	}
	r, ok := otResponder[method]
	if !ok {
		c.fail(pos, "responder method %s is not part of the translated subset", method)
	}
	if len(args) != len(r.Args) {
		c.fail(pos, "responder call %s with %d arguments", method, len(args))
	}
	parts := []string{r.Ctor}
	for i, a := range args {
		t, k := c.value(env, a, map[string]bool{})
		if k != r.Args[i] {
			c.fail(a.Pos(), "argument %d of %s has the wrong type", i+1, method)
		}
		parts = append(parts, t)
	}
	return strings.Join(parts, " ")
}

// noop: does the statement consist of dropped statements only (env is not changed)?
func (c *otCtx) noop(env *otEnv, s ast.Stmt) bool {
	switch x := s.(type) {
	case *ast.ExprStmt:
		return c.droppedCall(env, x.X)
	case *ast.EmptyStmt:
		return true
	case *ast.BlockStmt:
		for _, t := range x.List {
			if !c.noop(env, t) {
				return false
			}
		}
		return true
	case *ast.IfStmt:
		if x.Init != nil || !c.noop(env, x.Body) {
			return false
		}
		if x.Else != nil && !c.noop(env, x.Else) {
			return false
		}
		c.cond(env, x.Cond) // must still be a condition of the subset (no effects)
		return true
	}
	return false
}

// declare binds the Go variable name for a `:=` (define) or looks it up for a `=`; returns the
// Gallina binder
func (c *otCtx) assignTarget(env *otEnv, lhs ast.Expr, define bool, kind string) string {
	id, ok := lhs.(*ast.Ident)
	if !ok {
		c.fail(lhs.Pos(), "assignment to something that is not a variable")
	}
	if id.Name == "_" {
		return "_"
	}
	if define {
		if v, ok := env.top()[id.Name]; ok { // declared in this very scope: `:=` assigns
			if v.kind != kind {
				c.fail(lhs.Pos(), "%s changes its type", id.Name)
			}
			env.bound(v.coq)
			return v.coq
		}
		n := c.fresh(env, id.Name)
		env.top()[id.Name] = &otVar{kind: kind, coq: n}
		env.bound(n)
		return n
	}
	v := env.lookup(id.Name)
	if v == nil || v.kind != kind {
		c.fail(lhs.Pos(), "assignment to %s, which is not a variable of the expected type", id.Name)
	}
	env.bound(v.coq)
	return v.coq
}

// block translates stmts; tail gives what follows when they fall through (nil: nothing may)
func (c *otCtx) block(stmts []ast.Stmt, env *otEnv, tail func(*otEnv) oterm) oterm {
	if len(stmts) == 0 {
		if tail == nil {
			panic(otFailure{"control reaches the end of the function"})
		}
		return tail(env)
	}
	s, rest := stmts[0], stmts[1:]
	next := func(e *otEnv) oterm { return c.block(rest, e, tail) }
	if c.noop(env, s) {
		return next(env)
	}
	switch x := s.(type) {
	case *ast.ExprStmt:
		if f, m, args, ok := c.recvCall(x.X); ok {
			return otEmit{c.rcall(env, x.Pos(), f, m, args), next(env)}
		}
		c.fail(x.Pos(), "call statement not supported")
	case *ast.ReturnStmt:
		if len(x.Results) != 1 {
			c.fail(x.Pos(), "return of %d values", len(x.Results))
		}
		r := x.Results[0]
		if ev, ok := c.errVar(env, r); ok {
			return otRet{ev}
		}
		if id, ok := r.(*ast.Ident); ok && id.Name == "nil" && env.lookup("nil") == nil {
			return otRet{"None"}
		}
		if k, ok := c.errConst(env, r); ok {
			return otRet{"(Some " + k + ")"}
		}
		if f, m, args, ok := c.recvCall(r); ok {
			return otEmit{c.rcall(env, x.Pos(), f, m, args), otRet{"None"}}
		}
		c.fail(x.Pos(), "returned expression not supported")
	case *ast.BlockStmt:
		d := len(env.scopes)
		return c.block(x.List, env.push(), func(e *otEnv) oterm { e.scopes = e.scopes[:d]; return next(e) })
	case *ast.IfStmt:
		if x.Init != nil {
			c.fail(x.Pos(), "if with an init statement")
		}
		cond := c.cond(env, x.Cond)
		d := len(env.scopes)
		after := func(e *otEnv) oterm { e.scopes = e.scopes[:d]; return next(e) }
		a := c.block(x.Body.List, env.clone().push(), after)
		var b oterm
		switch el := x.Else.(type) {
		case nil:
			b = after(env.clone())
		case *ast.BlockStmt:
			b = c.block(el.List, env.clone().push(), after)
		case *ast.IfStmt:
			b = c.block([]ast.Stmt{el}, env.clone().push(), after)
		default:
			c.fail(x.Pos(), "else form not supported")
		}
		return otIf{cond, a, b}
	case *ast.AssignStmt:
		if x.Tok != token.DEFINE && x.Tok != token.ASSIGN {
			c.fail(x.Pos(), "assignment operator %s", x.Tok)
		}
		define := x.Tok == token.DEFINE
		// timing variables
		allDropped := len(x.Rhs) > 0
		for _, r := range x.Rhs {
			if !c.droppedCall(env, r) {
				allDropped = false
			}
		}
		if allDropped {
			for _, l := range x.Lhs {
				id, ok := l.(*ast.Ident)
				if !ok {
					c.fail(l.Pos(), "assignment to something that is not a variable")
				}
				if define {
					if v, ok := env.top()[id.Name]; ok && v.kind != "dropped" {
						c.fail(l.Pos(), "%s changes its type", id.Name)
					}
					env.top()[id.Name] = &otVar{kind: "dropped"}
				} else if v := env.lookup(id.Name); v == nil || v.kind != "dropped" {
					c.fail(l.Pos(), "a timer/metrics value is assigned to %s, which the program uses", id.Name)
				}
			}
			return next(env)
		}
		if len(x.Rhs) != 1 {
			c.fail(x.Pos(), "assignment with %d right-hand sides", len(x.Rhs))
		}
		rhs := x.Rhs[0]
		// x := common.T{...}
		if cl, ok := rhs.(*ast.CompositeLit); ok {
			if !define || len(x.Lhs) != 1 {
				c.fail(x.Pos(), "a composite literal may only define a new variable")
			}
			id, ok := x.Lhs[0].(*ast.Ident)
			if !ok || id.Name == "_" {
				c.fail(x.Pos(), "assignment to something that is not a variable")
			}
			if _, dup := env.top()[id.Name]; dup {
				c.fail(x.Pos(), "%s is already declared in this block", id.Name)
			}
			pkg, tn, ok := c.pkgSel(env, cl.Type)
			if !ok || pkg != "common" || c.structs[tn] == nil {
				c.fail(x.Pos(), "composite literal of an unknown type")
			}
			v := &otVar{kind: "struct", styp: tn, fields: map[string]string{}, deps: map[string]bool{}}
			for _, el := range cl.Elts {
				kv, ok := el.(*ast.KeyValueExpr)
				var key *ast.Ident
				if ok {
					key, ok = kv.Key.(*ast.Ident)
				}
				if !ok {
					c.fail(el.Pos(), "composite literal without field names")
				}
				fk, ok := c.structs[tn][key.Name]
				if !ok {
					c.fail(el.Pos(), "common.%s has no field %s of a supported type", tn, key.Name)
				}
				t, k := c.value(env, kv.Value, v.deps)
				if k != fk {
					c.fail(el.Pos(), "field %s is given a value of the wrong type", key.Name)
				}
				if _, dup := v.fields[key.Name]; dup {
					c.fail(el.Pos(), "field %s given twice", key.Name)
				}
				v.fields[key.Name] = t
			}
			env.top()[id.Name] = v
			return next(env)
		}
		f, m, args, ok := c.recvCall(rhs)
		if !ok {
			c.fail(x.Pos(), "right-hand side is neither a handler call, a responder call nor a composite literal")
		}
		if c.recvFields[f] == "protocol.Responder" {
			if len(x.Lhs) != 1 {
				c.fail(x.Pos(), "responder call assigned to %d variables", len(x.Lhs))
			}
			call := c.rcall(env, x.Pos(), f, m, args) // evaluated before the variable is rebound
			b := c.assignTarget(env, x.Lhs[0], define, "err")
			return otBind{"emit_err (" + call + ")", b, next(env)}
		}
		tier, q, gat := c.hreq(env, x.Pos(), f, m, args)
		if gat {
			if len(x.Lhs) != 2 {
				c.fail(x.Pos(), "GAT returns a response and an error")
			}
			b1 := c.assignTarget(env, x.Lhs[0], define, "gres")
			b2 := c.assignTarget(env, x.Lhs[1], define, "err")
			return otBind{fmt.Sprintf("call_gat %s (%s)", tier, q), b1 + " " + b2, next(env)}
		}
		if len(x.Lhs) != 1 {
			c.fail(x.Pos(), "%s returns one error", m)
		}
		b := c.assignTarget(env, x.Lhs[0], define, "err")
		return otBind{fmt.Sprintf("call_err %s (%s)", tier, q), b, next(env)}
	}
	c.fail(s.Pos(), "statement %T not supported", s)
	return nil
}

// otParseStructs reads the struct types of common/datatypes.go: field -> kind for the fields of
// type []byte, uint32 and bool
func otParseStructs(repo string) (map[string]map[string]string, error) {
	fs := token.NewFileSet()
	af, err := parser.ParseFile(fs, filepath.Join(repo, "common", "datatypes.go"), nil, 0)
	if err != nil {
		return nil, err
	}
	out := map[string]map[string]string{}
	for _, d := range af.Decls {
		gd, ok := d.(*ast.GenDecl)
		if !ok || gd.Tok != token.TYPE {
			continue
		}
		for _, sp := range gd.Specs {
			ts := sp.(*ast.TypeSpec)
			st, ok := ts.Type.(*ast.StructType)
			if !ok {
				continue
			}
			m := map[string]string{}
			for _, fl := range st.Fields.List {
				k := ""
				switch t := fl.Type.(type) {
				case *ast.Ident:
					switch t.Name {
					case "uint32":
						k = "N"
					case "bool":
						k = "bool"
					}
				case *ast.ArrayType:
					if id, ok := t.Elt.(*ast.Ident); ok && t.Len == nil && id.Name == "byte" {
						k = "bytes"
					}
				}
				if k == "" {
					continue
				}
				for _, n := range fl.Names {
					m[n.Name] = k
				}
			}
			out[ts.Name.Name] = m
		}
	}
	return out, nil
}

func typeString(e ast.Expr) string {
	switch x := e.(type) {
	case *ast.Ident:
		return x.Name
	case *ast.SelectorExpr:
		return typeString(x.X) + "." + x.Sel.Name
	case *ast.StarExpr:
		return "*" + typeString(x.X)
	}
	return "?"
}

// otTranslate translates one method of one orchestrator
func otTranslate(fs *token.FileSet, af *ast.File, o otOrca, m otMethod, structs map[string]map[string]string) (out string, err error) {
	defer func() {
		if r := recover(); r != nil {
			f, ok := r.(otFailure)
			if !ok {
				panic(r)
			}
			err = fmt.Errorf("%s", f.msg)
		}
	}()
	c := &otCtx{fs: fs, recvFields: map[string]string{}, structs: structs, errNames: map[string]bool{}, paramNames: map[string]bool{}}
	for _, e := range errList {
		c.errNames[e.name] = true
	}
	var fd *ast.FuncDecl
	for _, d := range af.Decls {
		switch x := d.(type) {
		case *ast.FuncDecl:
			if x.Name.Name == m.Name && x.Recv != nil && len(x.Recv.List) == 1 && typeString(x.Recv.List[0].Type) == "*"+o.Recv {
				fd = x
			}
		case *ast.GenDecl:
			if x.Tok != token.TYPE {
				continue
			}
			for _, sp := range x.Specs {
				ts := sp.(*ast.TypeSpec)
				if st, ok := ts.Type.(*ast.StructType); ok && ts.Name.Name == o.Recv {
					for _, fl := range st.Fields.List {
						for _, n := range fl.Names {
							c.recvFields[n.Name] = typeString(fl.Type)
						}
					}
				}
			}
		}
	}
	if fd == nil {
		return "", fmt.Errorf("method not found")
	}
	if len(fd.Recv.List[0].Names) != 1 {
		return "", fmt.Errorf("receiver has no name")
	}
	c.recv = fd.Recv.List[0].Names[0].Name
	ps := fd.Type.Params.List
	if len(ps) != 1 || len(ps[0].Names) != 1 || typeString(ps[0].Type) != "common."+m.ReqType {
		return "", fmt.Errorf("parameter list is not (req common.%s)", m.ReqType)
	}
	if fd.Type.Results == nil || len(fd.Type.Results.List) != 1 || len(fd.Type.Results.List[0].Names) != 0 || typeString(fd.Type.Results.List[0].Type) != "error" {
		return "", fmt.Errorf("result is not a single unnamed error")
	}
	req := &otVar{kind: "struct", styp: m.ReqType, fields: map[string]string{}, deps: map[string]bool{}, param: true}
	var binders []string
	for i := 0; i < len(m.Fields); {
		j := i
		var names []string
		for ; j < len(m.Fields) && m.Fields[j].Typ == m.Fields[i].Typ; j++ {
			f := m.Fields[j]
			if structs[m.ReqType][f.Go] != f.Typ {
				return "", fmt.Errorf("common.%s has no field %s of type %s", m.ReqType, f.Go, f.Typ)
			}
			req.fields[f.Go] = f.Coq
			c.paramNames[f.Coq] = true
			names = append(names, f.Coq)
		}
		binders = append(binders, fmt.Sprintf("(%s : %s)", strings.Join(names, " "), m.Fields[i].Typ))
		i = j
	}
	env := (&otEnv{}).push()
	env.top()[ps[0].Names[0].Name] = req
	body := c.block(fd.Body.List, env.push(), nil)
	name := fmt.Sprintf("%s_%s_src", o.Prefix, m.Name)
	return fmt.Sprintf("(* %s: func (%s *%s) %s *)\nDefinition %s %s : prog :=\n%s.\n", o.File, c.recv, o.Recv, m.Name,
		name, strings.Join(binders, " "), otPrint(body, "  ")), nil
}

// otCommentSafe makes a message fit inside a Coq comment
func otCommentSafe(s string) string {
	return strings.NewReplacer("*)", "* )", "(*", "( *", "\"", "'").Replace(s)
}

func orctrans(e *env) {
	repo := "/repo"
	if v := os.Getenv("VERIF_REPO"); v != "" {
		repo = v
	}
	var sb strings.Builder
	sb.WriteString("(* GENERATED by harness orctrans from the SOURCE of /repo/orcas — do not edit.\n" +
		"   One interaction program per orchestrator method (rules: harness/cmd/rendharness/orctrans.go,\n" +
		"   helpers: orca/OrcaSem.v); gen/OrcasLink.v proves each equivalent to the model of orca/Orcas.v. *)\n")
	sb.WriteString("From Rend Require Import base.Bytes gen.Consts_gen spec.MapSpec orca.Types orca.OrcaSem.\nOpen Scope N_scope.\nOpen Scope bool_scope.\n\n")
	structs, serr := otParseStructs(repo)
	done, total := 0, 0
	for _, o := range otOrcas {
		fs := token.NewFileSet()
		af, perr := parser.ParseFile(fs, filepath.Join(repo, o.File), nil, 0)
		for _, m := range otMethods {
			total++
			var s string
			err := perr
			if err == nil {
				err = serr
			}
			if err == nil {
				s, err = otTranslate(fs, af, o, m, structs)
			}
			if err != nil {
				// the method left the translatable subset: say so in the generated file; its link
				// lemma then fails to compile and the check reports it
				fmt.Fprintf(&sb, "(* %s: %s.%s could not be translated: %s *)\n\n", o.File, o.Recv, m.Name, otCommentSafe(err.Error()))
				fmt.Fprintf(os.Stderr, "orctrans: %s.%s: %v\n", o.Recv, m.Name, err)
				continue
			}
			done++
			sb.WriteString(s + "\n")
		}
	}
	fmt.Fprintf(&sb, "(* translated %d of %d methods *)\n", done, total)
	root := os.Getenv("VERIF_ROOT")
	if root == "" {
		root = "/verif"
	}
	writeIfChanged(filepath.Join(root, "coq", "gen", "Orcas_gen.v"), []byte(sb.String()))
}
