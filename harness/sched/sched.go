// Package sched runs several client connections through rend's real server loop and
// orchestrators under a controlled scheduler: a thread can only block at (a) a backend request
// (gated inside the fake memcached), (b) a key lock (the lockers of the lock set are replaced by
// scheduler-owned ones through the verif hook), (c) the end of a command. Exactly one thread
// runs at a time, so a schedule is a list of thread ids and every run is reproducible.
package sched

import (
	"bufio"
	"bytes"
	"fmt"
	"io"
	"sync"
	"time"

	"github.com/netflix/rend/common"
	"github.com/netflix/rend/handlers"
	"github.com/netflix/rend/handlers/memcached/std"
	"github.com/netflix/rend/orcas"
	"github.com/netflix/rend/protocol/binprot"
	"github.com/netflix/rend/server"
	"verifharness/fakemc"
	"verifharness/stack"
)

type evKind int

const (
	evGate evKind = iota
	evLockReq
	evUnlock
	evCmdDone
	evFinished
)

type event struct {
	kind  evKind
	slot  int
	excl  bool
	owner *Thread
	key   string // evGate: the key of the backend request
}

// Thread is one client connection.
type Thread struct {
	ID          int
	Orca        string // l1only | l1l2 | l1l2batch
	Reqs        []stack.Req
	FailAt      int    // backend-call index (per thread, from 0) at which the handler wrapper panics/fails; -1 = never
	FailKind    string // "panic" | "error"
	resume      chan struct{}
	pending     event // the blocking event the thread is parked at
	started     bool
	finished    bool
	out         *bytes.Buffer
	Replies     [][]byte
	mark        int
	next        int
	closed      bool
	calls       int
	failed      bool // the injected failure fired
	FailedAtReq int  // number of requests parsed when it fired
	rig         *Rig
}

// Grant records a lock event: an acquisition, or (Release) the matching unlock.
type Grant struct {
	Thread, Slot int
	Excl         bool
	Release      bool
}

type Rig struct {
	B       *stack.Backends
	Threads []*Thread
	Locking bool
	Multi   bool
	events  chan event
	owner   map[[2]int]*Thread // (server 1|2, conn id) -> thread
	mu      sync.Mutex
	current *Thread
	// lock table (the scheduler owns the locks)
	excl       map[int]*Thread
	shared     map[int]map[*Thread]bool
	Grants     []Grant
	Events     []Grant  // acquisitions and releases in the order they happened
	MultiHeld  string   // set when a connection was granted a key lock while holding another one
	// SplitKey: set when backend requests on one key were made under different key locks (or
	// under none): whatever the striping function is, one key must have one lock
	SplitKey string
	keySlot  map[string]int
	ModelSched [][2]int // model-level schedule: (thread, panic 0/1)
	LockSlot   uint32
	Err        string
}

// schedLocker is the lock: Lock() is a request granted by the scheduler, Unlock() a notification.
type schedLocker struct {
	r    *Rig
	slot int
	excl bool
}

func (l *schedLocker) Lock() {
	r := l.r
	t := r.current
	r.events <- event{kind: evLockReq, slot: l.slot, excl: l.excl, owner: t}
	<-t.resume
}
func (l *schedLocker) Unlock() {
	r := l.r
	r.events <- event{kind: evUnlock, slot: l.slot, excl: l.excl, owner: r.current}
}

// stubParser feeds the thread's requests to the real server loop.
type stubParser struct{ t *Thread }

func (p stubParser) Parse() (common.Request, common.RequestType, uint64, error) {
	t := p.t
	// everything written since the previous Parse is the reply to the previous command
	if t.started {
		t.Replies = append(t.Replies, append([]byte(nil), t.out.Bytes()[t.mark:]...))
		t.mark = t.out.Len()
	}
	if t.next >= len(t.Reqs) {
		return nil, common.RequestUnknown, 0, io.EOF
	}
	// park until scheduled (the Invoke step)
	t.rig.events <- event{kind: evCmdDone, owner: t}
	<-t.resume
	t.started = true
	r := t.Reqs[t.next]
	t.next++
	req, typ := toCommon(r)
	return req, typ, 0, nil
}

func toCommon(r stack.Req) (common.Request, common.RequestType) {
	switch r.Kind {
	case "set":
		return common.SetRequest{Key: r.Key, Data: r.Data, Flags: r.Flags, Exptime: r.TTL, Opaque: r.Opaque, Quiet: r.Quiet}, common.RequestSet
	case "add":
		return common.SetRequest{Key: r.Key, Data: r.Data, Flags: r.Flags, Exptime: r.TTL, Opaque: r.Opaque, Quiet: r.Quiet}, common.RequestAdd
	case "replace":
		return common.SetRequest{Key: r.Key, Data: r.Data, Flags: r.Flags, Exptime: r.TTL, Opaque: r.Opaque, Quiet: r.Quiet}, common.RequestReplace
	case "append":
		return common.SetRequest{Key: r.Key, Data: r.Data, Opaque: r.Opaque, Quiet: r.Quiet}, common.RequestAppend
	case "prepend":
		return common.SetRequest{Key: r.Key, Data: r.Data, Opaque: r.Opaque, Quiet: r.Quiet}, common.RequestPrepend
	case "delete":
		return common.DeleteRequest{Key: r.Key, Opaque: r.Opaque}, common.RequestDelete
	case "touch":
		return common.TouchRequest{Key: r.Key, Exptime: r.TTL, Opaque: r.Opaque}, common.RequestTouch
	case "gat":
		return common.GATRequest{Key: r.Key, Exptime: r.TTL, Opaque: r.Opaque}, common.RequestGat
	case "get":
		g := common.GetRequest{NoopOpaque: r.NoopOpq, NoopEnd: r.NoopEnd}
		for _, it := range r.Items {
			g.Keys = append(g.Keys, it.Key)
			g.Opaques = append(g.Opaques, it.Opaque)
			g.Quiet = append(g.Quiet, it.Quiet)
		}
		return g, common.RequestGet
	case "gete":
		g := common.GetRequest{NoopOpaque: r.NoopOpq, NoopEnd: r.NoopEnd}
		for _, it := range r.Items {
			g.Keys = append(g.Keys, it.Key)
			g.Opaques = append(g.Opaques, it.Opaque)
			g.Quiet = append(g.Quiet, it.Quiet)
		}
		return g, common.RequestGetE
	case "noop":
		return common.NoopRequest{Opaque: r.Opaque}, common.RequestNoop
	case "version":
		return common.VersionRequest{Opaque: r.Opaque}, common.RequestVersion
	}
	panic("sched: unsupported request kind " + r.Kind)
}

// failing handler wrapper (C12): panics or fails at the FailAt-th handler call of the thread
type failHandler struct {
	handlers.Handler
	t *Thread
}

// The value a layer below panics with, and the error it fails with, must not matter: rotate
// through the kinds that occur in practice (a string, a plain error, the io sentinels a handler
// may pass on from a backend that went away, a runtime error).
func injectedPanic(n int) interface{} {
	switch n % 5 {
	case 0:
		return "injected panic below the locking wrapper"
	case 1:
		return io.EOF
	case 2:
		return fmt.Errorf("injected panic (error value)")
	case 3:
		return io.ErrUnexpectedEOF
	}
	var m map[string]int
	defer func() {}()
	return func() (v interface{}) {
		defer func() { v = recover() }()
		m["x"] = 1 // runtime error: assignment to entry in nil map
		return nil
	}()
}

func injectedError(n int) error {
	switch n % 3 {
	case 0:
		return fmt.Errorf("injected I/O error")
	case 1:
		return io.EOF
	}
	return io.ErrUnexpectedEOF
}

func (f failHandler) hit() bool {
	i := f.t.calls
	f.t.calls++
	return f.t.FailAt >= 0 && i == f.t.FailAt
}
func (f failHandler) boom() error {
	f.t.failed = true
	f.t.FailedAtReq = f.t.next
	if f.t.FailKind == "panic" {
		panic(injectedPanic(f.t.FailAt))
	}
	return injectedError(f.t.FailAt)
}
func (f failHandler) Set(c common.SetRequest) error {
	if f.hit() {
		return f.boom()
	}
	return f.Handler.Set(c)
}
func (f failHandler) Add(c common.SetRequest) error {
	if f.hit() {
		return f.boom()
	}
	return f.Handler.Add(c)
}
func (f failHandler) Replace(c common.SetRequest) error {
	if f.hit() {
		return f.boom()
	}
	return f.Handler.Replace(c)
}
func (f failHandler) Append(c common.SetRequest) error {
	if f.hit() {
		return f.boom()
	}
	return f.Handler.Append(c)
}
func (f failHandler) Prepend(c common.SetRequest) error {
	if f.hit() {
		return f.boom()
	}
	return f.Handler.Prepend(c)
}
func (f failHandler) Delete(c common.DeleteRequest) error {
	if f.hit() {
		return f.boom()
	}
	return f.Handler.Delete(c)
}
func (f failHandler) Touch(c common.TouchRequest) error {
	if f.hit() {
		return f.boom()
	}
	return f.Handler.Touch(c)
}
func (f failHandler) GAT(c common.GATRequest) (common.GetResponse, error) {
	if f.hit() {
		return common.GetResponse{}, f.boom()
	}
	return f.Handler.GAT(c)
}
func (f failHandler) Get(c common.GetRequest) (<-chan common.GetResponse, <-chan error) {
	if f.hit() {
		f.t.failed = true
		f.t.FailedAtReq = f.t.next
		if f.t.FailKind == "panic" {
			panic(injectedPanic(f.t.FailAt))
		}
		d := make(chan common.GetResponse)
		e := make(chan error, 1)
		e <- injectedError(f.t.FailAt)
		close(d)
		close(e)
		return d, e
	}
	return f.Handler.Get(c)
}
func (f failHandler) GetE(c common.GetRequest) (<-chan common.GetEResponse, <-chan error) {
	if f.hit() {
		f.t.failed = true
		f.t.FailedAtReq = f.t.next
		if f.t.FailKind == "panic" {
			panic(injectedPanic(f.t.FailAt))
		}
		d := make(chan common.GetEResponse)
		e := make(chan error, 1)
		e <- injectedError(f.t.FailAt)
		close(d)
		close(e)
		return d, e
	}
	return f.Handler.GetE(c)
}

type closeRec struct{ t *Thread }

func (c closeRec) Close() error { c.t.closed = true; return nil }

const concBits = 4

// New prepares a run: fresh backends, one server loop per thread, scheduler-owned locks.
func New(threads []*Thread, locking, multi bool) *Rig {
	r := &Rig{B: stack.NewBackends(), Threads: threads, Locking: locking, Multi: multi,
		events: make(chan event), owner: map[[2]int]*Thread{}, excl: map[int]*Thread{}, shared: map[int]map[*Thread]bool{}}
	r.B.L1.LogOn, r.B.L2.LogOn = false, false
	gate := func(srv int) func(int, *fakemc.Req) {
		return func(conn int, q *fakemc.Req) {
			t := r.owner[[2]int{srv, conn}]
			if t == nil {
				return
			}
			r.events <- event{kind: evGate, owner: t, key: q.Key}
			<-t.resume
		}
	}
	r.B.L1.Gate = gate(1)
	r.B.L2.Gate = gate(2)
	if locking {
		r.LockSlot = stack.LockSlot(multi)
		n := orcas.VerifLockSetSize(r.LockSlot)
		for i := 0; i < n; i++ {
			w := &schedLocker{r: r, slot: i, excl: true}
			var rd sync.Locker = w
			if multi {
				rd = &schedLocker{r: r, slot: i, excl: false}
			}
			orcas.VerifSetLockers(r.LockSlot, i, w, rd)
		}
	}
	for i, t := range threads {
		t.ID = i
		t.rig = r
		t.resume = make(chan struct{})
		t.out = &bytes.Buffer{}
		c1, id1 := r.B.L1.PipeID()
		r.owner[[2]int{1, id1}] = t
		var l1 handlers.Handler = std.NewHandler(c1)
		var l2 handlers.Handler
		if t.Orca == "l1only" {
			l2, _ = handlers.NilHandler()
		} else {
			c2, id2 := r.B.L2.PipeID()
			r.owner[[2]int{2, id2}] = t
			l2 = std.NewHandler(c2)
		}
		if t.FailAt >= 0 {
			l1 = failHandler{l1, t}
			if t.Orca != "l1only" {
				l2 = failHandler{l2, t}
			}
		}
		var oc orcas.OrcaConst
		switch t.Orca {
		case "l1only":
			oc = orcas.L1Only
		case "l1l2":
			oc = orcas.L1L2
		default:
			oc = orcas.L1L2Batch
		}
		if locking {
			oc = orcas.LockedWithExisting(oc, r.LockSlot)
		}
		resp := binprot.NewBinaryResponder(bufio.NewWriter(t.out))
		s := server.Default([]io.Closer{closeRec{t}, l1, l2}, stubParser{t}, oc(l1, l2, resp))
		tt := t
		go func() {
			s.Loop()
			r.events <- event{kind: evFinished, owner: tt}
		}()
	}
	// every thread runs to its first Parse and parks there
	for range threads {
		ev := <-r.events
		ev.owner.pending = ev
		if ev.kind == evFinished {
			ev.owner.finished = true
		}
	}
	return r
}

func (r *Rig) compatible(t *Thread, ev event) bool {
	if ev.kind != evLockReq {
		return true
	}
	if r.excl[ev.slot] != nil {
		return false
	}
	if ev.excl && len(r.shared[ev.slot]) > 0 {
		return false
	}
	return true
}

// Enabled lists the threads that can take a step now.
func (r *Rig) Enabled() []int {
	var en []int
	for _, t := range r.Threads {
		if !t.finished && r.compatible(t, t.pending) {
			en = append(en, t.ID)
		}
	}
	return en
}

func (r *Rig) Unfinished() bool {
	for _, t := range r.Threads {
		if !t.finished {
			return true
		}
	}
	return false
}

// Step lets thread id run until its next blocking point. ok=false on a hang.
func (r *Rig) Step(id int) bool {
	t := r.Threads[id]
	r.current = t
	if t.pending.kind == evLockReq {
		if t.pending.excl {
			r.excl[t.pending.slot] = t
		} else {
			if r.shared[t.pending.slot] == nil {
				r.shared[t.pending.slot] = map[*Thread]bool{}
			}
			r.shared[t.pending.slot][t] = true
		}
		// the property: a connection never holds more than one key lock at a time
		for sl, h := range r.excl {
			if h == t && sl != t.pending.slot {
				r.MultiHeld = fmt.Sprintf("thread %d was granted lock %d while still holding lock %d", t.ID, t.pending.slot, sl)
			}
		}
		for sl, m := range r.shared {
			if m[t] && sl != t.pending.slot {
				r.MultiHeld = fmt.Sprintf("thread %d was granted lock %d while still holding lock %d", t.ID, t.pending.slot, sl)
			}
		}
		r.Grants = append(r.Grants, Grant{t.ID, t.pending.slot, t.pending.excl, false})
		r.Events = append(r.Events, Grant{t.ID, t.pending.slot, t.pending.excl, false})
	}
	failedBefore := t.failed
	t.resume <- struct{}{}
	for {
		select {
		case ev := <-r.events:
			if ev.kind == evUnlock {
				if ev.excl {
					delete(r.excl, ev.slot)
				} else {
					delete(r.shared[ev.slot], ev.owner)
				}
				r.Events = append(r.Events, Grant{id, ev.slot, ev.excl, true})
				continue
			}
			if ev.kind == evGate && r.Locking && ev.key != "" && r.SplitKey == "" {
				held := -1
				for sl, h := range r.excl {
					if h == ev.owner {
						held = sl
					}
				}
				for sl, m := range r.shared {
					if m[ev.owner] {
						held = sl
					}
				}
				if r.Multi && held >= 0 && r.excl[held] != ev.owner && ev.owner.next >= 1 && ev.owner.next <= len(ev.owner.Reqs) {
					if k := ev.owner.Reqs[ev.owner.next-1].Kind; k != "get" && k != "gete" {
						r.SplitKey = fmt.Sprintf("thread %d ran the backend requests of a %s on key %q while holding the key's lock only in shared (reader) mode", ev.owner.ID, k, ev.key)
					}
				}
				if r.keySlot == nil {
					r.keySlot = map[string]int{}
				}
				if prev, ok := r.keySlot[ev.key]; ok && prev != held || held < 0 {
					r.SplitKey = fmt.Sprintf("thread %d sent a backend request for key %q while holding lock %d; an earlier backend request for that key was made under lock %d (-1 = no lock)", ev.owner.ID, ev.key, held, r.keySlot[ev.key])
				}
				r.keySlot[ev.key] = held
			}
			ev.owner.pending = ev
			if ev.kind == evFinished {
				ev.owner.finished = true
			}
			pn := 0
			if t.failed && !failedBefore {
				pn = 1 // the injected panic fired during this step: in the model the thread dies after it
			}
			r.ModelSched = append(r.ModelSched, [2]int{id, pn})
			return true
		case <-time.After(10 * time.Second):
			r.Err = fmt.Sprintf("thread %d did not reach its next scheduling point within 10 s", id)
			return false
		}
	}
}

// LocksHeld reports the scheduler's lock table size.
func (r *Rig) LocksHeld() int {
	n := len(r.excl)
	for _, m := range r.shared {
		n += len(m)
	}
	return n
}

func (t *Thread) Closed() bool   { return t.closed }
func (t *Thread) Finished() bool { return t.finished }
func (t *Thread) CallsMade() int { return t.calls }
func (t *Thread) Failed() bool   { return t.failed }
func (t *Thread) Parsed() int    { return t.next }
