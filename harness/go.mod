module verifharness

go 1.14

require github.com/netflix/rend v0.0.0

replace github.com/netflix/rend => /repo
