// Package rig holds what every property sub-command shares: the PRNG, the case file
// writer, and statistics.
package rig

import (
	"crypto/sha256"
	"encoding/hex"
	"encoding/json"
	"fmt"
	"os"
	"path/filepath"
	"regexp"
	"sort"
	"strings"
)

// Rand is splitmix64; every random choice of a run derives from one state.
type Rand struct{ s uint64 }

func NewRand(seed uint64) *Rand { return &Rand{s: seed*0x9E3779B97F4A7C15 + 0x1234567} }
func (r *Rand) U64() uint64 {
	r.s += 0x9E3779B97F4A7C15
	z := r.s
	z = (z ^ (z >> 30)) * 0xBF58476D1CE4E5B9
	z = (z ^ (z >> 27)) * 0x94D049BB133111EB
	return z ^ (z >> 31)
}
func (r *Rand) Intn(n int) int {
	if n <= 0 {
		return 0
	}
	return int(r.U64() % uint64(n))
}
func (r *Rand) Bool() bool        { return r.U64()&1 == 1 }
func (r *Rand) Chance(p int) bool { return r.Intn(100) < p } // p percent
func (r *Rand) Bytes(n int) []byte {
	b := make([]byte, n)
	for i := range b {
		b[i] = byte(r.U64())
	}
	return b
}

// Case is one case of a run.
type Case struct {
	Desc       interface{} `json:"desc"` // human-readable form (also the replay input)
	Coq        string      `json:"-"`    // Gallina term
	Nontrivial bool        `json:"nontrivial"`
	Tags       []string    `json:"tags,omitempty"`
}

// Result is what a sub-command writes next to cases.v.
type Result struct {
	Property   string                 `json:"property"`
	Tier       string                 `json:"tier"`
	Seed       uint64                 `json:"seed"`
	Cases      []Case                 `json:"cases"`
	Distinct   int                    `json:"distinct_nontrivial"`
	Stats      map[string]interface{} `json:"stats"`
	GoFailures []GoFailure            `json:"go_failures"`
	Exhaustive bool                   `json:"exhaustive"`
	Rule       string                 `json:"rule"`
	KnownHits  []string               `json:"known_hits,omitempty"`
	// ShardOffsets maps a case file name to the index of its first case
	ShardOffsets map[string]int `json:"shard_offsets,omitempty"`
}

// GoFailure is a violation decided on the Go side (no model involved), e.g. a hang,
// a crash, a race report, a leaked goroutine.
type GoFailure struct {
	Kind   string      `json:"kind"` // "counterexample" or "broken-correspondence"
	What   string      `json:"what"`
	Input  interface{} `json:"input"`
	Detail string      `json:"detail"`
	// Tags are matched against KNOWN_FINDINGS.json signatures by ./check (optional)
	Tags []string `json:"tags,omitempty"`
}

type Writer struct {
	Dir string
	// Shards > 1 splits the cases over cases_1.v .. cases_N.v (evaluated in parallel by ./check)
	Shards int
	Res    Result
	hashes map[string]bool
	counts map[string]int
}

func NewWriter(dir, prop, tier string, seed uint64) *Writer {
	os.MkdirAll(dir, 0o755)
	return &Writer{Dir: dir, Res: Result{Property: prop, Tier: tier, Seed: seed, Stats: map[string]interface{}{}},
		hashes: map[string]bool{}, counts: map[string]int{}}
}

func (w *Writer) Add(c Case) {
	if c.Nontrivial {
		h := sha256.Sum256([]byte(c.Coq))
		k := hex.EncodeToString(h[:8])
		if !w.hashes[k] {
			w.hashes[k] = true
			w.Res.Distinct++
		}
	}
	w.Res.Cases = append(w.Res.Cases, c)
}

// Count increments a named distribution counter (reported in the evidence).
func (w *Writer) Count(name string)         { w.counts[name]++ }
func (w *Writer) CountN(name string, n int) { w.counts[name] += n }

func (w *Writer) Fail(f GoFailure) { w.Res.GoFailures = append(w.Res.GoFailures, f) }

// Finish writes cases.v (header + `Definition cases := [...]` + footer) and result.json.
// checkFn is the Gallina function : case -> N (0 = agree, 1 = model/impl differ with oracle
// true, 2 = oracle false), applied to every case.
func (w *Writer) Finish(imports []string, caseType, checkFn string) error {
	nsh := w.Shards
	if nsh < 1 {
		nsh = 1
	}
	// keep every case file small enough for coqc to digest in about a gigabyte: at most ~6 MB of
	// case terms per shard (the evaluation pool of ./check runs as many shards at once as fit)
	total := 0
	for _, c := range w.Res.Cases {
		total += len(c.Coq)
	}
	if need := (total + (6<<20 - 1)) / (6 << 20); need > nsh {
		nsh = need
		if nsh > 512 {
			nsh = 512
		}
	}
	if nsh > len(w.Res.Cases) {
		nsh = len(w.Res.Cases)
	}
	if nsh < 1 {
		nsh = 1
	}
	per := (len(w.Res.Cases) + nsh - 1) / nsh
	w.Res.ShardOffsets = map[string]int{}
	for sh := 0; sh < nsh; sh++ {
		lo, hi := sh*per, (sh+1)*per
		if hi > len(w.Res.Cases) {
			hi = len(w.Res.Cases)
		}
		if lo > hi {
			lo = hi
		}
		var sb strings.Builder
		sb.WriteString("From Coq Require Import String Uint63.\n")
		for _, im := range imports {
			sb.WriteString("From Rend Require Import " + im + ".\n")
		}
		sb.WriteString("Open Scope N_scope.\nOpen Scope string_scope.\n")
		// intern the byte-string literals of this shard: each distinct (hx "..") longer than
		// 4 bytes becomes one definition, packed 7 bytes per primitive integer
		in := map[string]string{}
		var defs strings.Builder
		body := make([]string, 0, hi-lo)
		for _, c := range w.Res.Cases[lo:hi] {
			body = append(body, hxRe.ReplaceAllStringFunc(c.Coq, func(m string) string {
				h := m[5 : len(m)-2]
				if len(h) <= 64 {
					return packHex(h)
				}
				if name, ok := in[h]; ok {
					return name
				}
				name := fmt.Sprintf("b_%d", len(in))
				in[h] = name
				fmt.Fprintf(&defs, "Definition %s : bytes := %s.\n", name, packHex(h))
				return name
			}))
		}
		sb.WriteString(defs.String())
		sb.WriteString("Definition cases : list (" + caseType + ") := [\n")
		for i, c := range body {
			if i > 0 {
				sb.WriteString(";\n")
			}
			sb.WriteString("  " + c)
		}
		sb.WriteString("\n].\n")
		sb.WriteString("Definition bad := Eval vm_compute in Rend.base.Harness.bad_cases (" + checkFn + ") cases.\n")
		sb.WriteString("Print bad.\n")
		name := "cases.v"
		if nsh > 1 {
			name = fmt.Sprintf("cases_%d.v", sh+1)
		}
		w.Res.ShardOffsets[name] = lo
		if err := os.WriteFile(filepath.Join(w.Dir, name), []byte(sb.String()), 0o644); err != nil {
			return err
		}
	}
	keys := make([]string, 0, len(w.counts))
	for k := range w.counts {
		keys = append(keys, k)
	}
	sort.Strings(keys)
	dist := map[string]int{}
	for _, k := range keys {
		dist[k] = w.counts[k]
	}
	w.Res.Stats["distribution"] = dist
	b, _ := json.MarshalIndent(w.Res, "", " ")
	return os.WriteFile(filepath.Join(w.Dir, "result.json"), b, 0o644)
}

var hxRe = regexp.MustCompile(`\(hx "[0-9a-f]*"\)`)

// packHex turns a hex string into (bx n [w1; w2; ...]%uint63), 7 bytes per word.
func packHex(h string) string {
	b, _ := hex.DecodeString(h)
	var ws []string
	for i := 0; i < len(b); i += 7 {
		j := i + 7
		if j > len(b) {
			j = len(b)
		}
		var v uint64
		for _, x := range b[i:j] {
			v = v<<8 | uint64(x)
		}
		ws = append(ws, fmt.Sprintf("%d", v))
	}
	return fmt.Sprintf("(bx %d [%s]%%uint63)", len(b), strings.Join(ws, "; "))
}

func Die(format string, a ...interface{}) {
	fmt.Fprintf(os.Stderr, format+"\n", a...)
	os.Exit(3)
}
