// Package fakemc is an in-process fake memcached speaking the subset of the binary protocol
// that rend's backend handlers use. Its semantics are the reference backend of the Coq
// development (coq/spec/MapSpec.v, b_* operations); its contents are compared with the Coq
// store after every command, which is what validates it.
package fakemc

import (
	"bufio"
	"bytes"
	"encoding/binary"
	"io"
	"net"
	"os"
	"sort"
	"sync"
	"sync/atomic"
	"time"
)

const MaxDelta = 60 * 60 * 24 * 30

const (
	OpGet     = 0x00
	OpSet     = 0x01
	OpAdd     = 0x02
	OpReplace = 0x03
	OpDelete  = 0x04
	OpGetQ    = 0x09
	OpNoop    = 0x0a
	OpAppend  = 0x0e
	OpPrepend = 0x0f
	OpTouch   = 0x1c
	OpGat     = 0x1d
	OpGatQ    = 0x1e
	OpGetE    = 0x40
	OpGetEQ   = 0x41
)

const (
	StOK        = 0x00
	StNotFound  = 0x01
	StExists    = 0x02
	StTooBig    = 0x03
	StInval     = 0x04
	StNotStored = 0x05
	StUnknown   = 0x81
	StNoMem     = 0x82
	StBusy      = 0x85
	StTemp      = 0x86
)

// Entry is one stored item. Deadline < 0 means never expires.
type Entry struct {
	Cas      uint64 // memcached's per-item version: new on every mutation, returned in replies, honoured in requests
	Flags    uint32
	Value    []byte
	RawExp   uint32 // exptime argument of the request that last set the deadline
	Deadline int64
}

// Req is one logged request.
type Req struct {
	Seq    int // global sequence number on this server
	Conn   int
	Op     uint8
	Key    string
	ValLen int
	Flags  uint32
	Exp    uint32
	Now    int64
	Opaque uint32
	Status uint16 // status replied (0xffff if no reply: quiet miss or fault)
	Cas    uint64 // CAS field of the request header (rend always sends 0 = unconditional)
}

// FaultKind enumerates injected faults.
type FaultKind int

const (
	FNone FaultKind = iota
	FStatus
	FCloseBefore     // close without applying, without reply
	FCloseAfterApply // apply, close without reply
	FCloseAfterReply // apply, reply, close
	FCloseMid        // apply, write first half of the reply, close
)

type Fault struct {
	Kind   FaultKind
	Status uint16
	// Tail (FCloseMid only): when > 0 the reply is cut that many bytes before its end (for a hit:
	// inside the value) instead of in the middle
	Tail int
	// Body (FStatus only): the message body of the injected reply ("injected error" when nil)
	Body []byte
}

type Server struct {
	mu        sync.Mutex
	data      map[string]*Entry
	now       int64
	RealClock func() int64
	log       []Req
	LogOn     bool
	seq       int
	casCtr    uint64 // last CAS value handed out (starts well above 0: low bytes non-zero)
	// BodyDelay > 0: a reply is written in two pieces, its 24-byte header first and the rest after
	// this pause (a body that arrives after its header, as over a real network)
	BodyDelay time.Duration
	// Segment > 0: connections handed out by Pipe() deliver the backend's bytes to their reader
	// in pieces of 1..Segment bytes
	Segment int
	segSeed int
	faults  map[int]Fault
	// Gate, when set, is called before each request is processed (after it was read).
	Gate func(conn int, r *Req)
	// GateAfter, when set, is called after a request was applied and before its reply is written
	// (the value has been read, the caller has not heard of it yet).
	GateAfter func(conn int, r *Req)
	nextConn  int32
	open      int32
	accepted  int32
	conns     map[int]io.Closer
	RefuseNew int32 // when non-zero, unix-socket accepts are closed immediately
}

func New() *Server {
	return &Server{data: map[string]*Entry{}, faults: map[int]Fault{}, conns: map[int]io.Closer{}, LogOn: true, casCtr: 0x0102030405060708}
}

func (s *Server) SetNow(t int64) { s.mu.Lock(); s.now = t; s.mu.Unlock() }
func (s *Server) Now() int64 {
	if s.RealClock != nil {
		return s.RealClock()
	}
	return s.now
}
func (s *Server) OpenConns() int { return int(atomic.LoadInt32(&s.open)) }
func (s *Server) Accepted() int  { return int(atomic.LoadInt32(&s.accepted)) }

// OpenConnIDs lists the ids (as PipeID / Req.Conn report them) of the connections that are
// currently being served, ascending.
func (s *Server) OpenConnIDs() []int {
	s.mu.Lock()
	ids := make([]int, 0, len(s.conns))
	for id := range s.conns {
		ids = append(ids, id)
	}
	s.mu.Unlock()
	sort.Ints(ids)
	return ids
}
func (s *Server) SetFault(seq int, f Fault) { s.mu.Lock(); s.faults[seq] = f; s.mu.Unlock() }
func (s *Server) ClearFaults()              { s.mu.Lock(); s.faults = map[int]Fault{}; s.mu.Unlock() }
func (s *Server) Seq() int                  { s.mu.Lock(); defer s.mu.Unlock(); return s.seq }

func (s *Server) Reset() {
	s.mu.Lock()
	s.data = map[string]*Entry{}
	s.log = nil
	s.seq = 0
	s.faults = map[int]Fault{}
	s.mu.Unlock()
}

func (s *Server) TakeLog() []Req {
	s.mu.Lock()
	l := s.log
	s.log = nil
	s.mu.Unlock()
	return l
}

// Evict removes a key unconditionally (models LRU eviction).
func (s *Server) Evict(key string) { s.mu.Lock(); delete(s.data, key); s.mu.Unlock() }

// Put stores an entry directly (test setup).
func (s *Server) Put(key string, e Entry) {
	s.mu.Lock()
	c := e
	s.casCtr++
	c.Cas = s.casCtr
	s.data[key] = &c
	s.mu.Unlock()
}

// Dump returns a copy of the live entries at the server's current time.
func (s *Server) Dump() map[string]Entry {
	s.mu.Lock()
	defer s.mu.Unlock()
	now := s.Now()
	r := map[string]Entry{}
	for k, e := range s.data {
		if s.alive(e, now) {
			c := *e
			c.Value = append([]byte(nil), e.Value...)
			r[k] = c
		}
	}
	return r
}

func (s *Server) Keys() []string {
	d := s.Dump()
	ks := make([]string, 0, len(d))
	for k := range d {
		ks = append(ks, k)
	}
	sort.Strings(ks)
	return ks
}

func (s *Server) alive(e *Entry, now int64) bool { return e.Deadline < 0 || now < e.Deadline }

func norm(now int64, ttl uint32) int64 {
	if ttl == 0 {
		return -1
	}
	if ttl > MaxDelta {
		return int64(ttl)
	}
	return now + int64(ttl)
}

// PipeFactory creates the two ends of an in-memory connection; net.Pipe by default, the
// harness installs an unbounded buffered pipe.
var PipeFactory = func() (net.Conn, net.Conn) { return net.Pipe() }

// Pipe returns the client end of a new in-memory connection served by s.
// segConn delivers what it reads in pieces of at most max bytes (sizes from a small LCG): the
// backend's replies reach the handler split at arbitrary places, as TCP segments would.
type segConn struct {
	net.Conn
	max   int
	state uint32
}

func (c *segConn) Read(b []byte) (int, error) {
	c.state = c.state*1664525 + 1013904223
	n := 1 + int(c.state>>16)%c.max
	if n < len(b) {
		b = b[:n]
	}
	return c.Conn.Read(b)
}

func (s *Server) Pipe() net.Conn {
	if s.Segment > 0 {
		c, _ := s.PipeID()
		s.segSeed++
		return &segConn{Conn: c, max: s.Segment, state: uint32(s.segSeed) * 2654435761}
	}
	return s.pipe()
}

func (s *Server) pipe() net.Conn {
	c, _ := s.PipeID()
	return c
}

// PipeID is Pipe that also returns the connection id the Gate hook and the log will report.
func (s *Server) PipeID() (net.Conn, int) {
	c, srv := PipeFactory()
	id := int(atomic.AddInt32(&s.nextConn, 1))
	atomic.AddInt32(&s.open, 1)
	atomic.AddInt32(&s.accepted, 1)
	s.mu.Lock()
	s.conns[id] = srv
	s.mu.Unlock()
	go s.serve(srv, id)
	return c, id
}

// ListenUnix serves connections on a unix socket path until the listener is closed.
func (s *Server) ListenUnix(path string) (net.Listener, error) {
	os.Remove(path)
	l, err := net.Listen("unix", path)
	if err != nil {
		return nil, err
	}
	s.acceptLoop(l)
	return l, nil
}

// ListenTCP serves on a loopback TCP port chosen by the system (l.Addr() tells which).
func (s *Server) ListenTCP() (net.Listener, error) {
	l, err := net.Listen("tcp", "127.0.0.1:0")
	if err != nil {
		return nil, err
	}
	s.acceptLoop(l)
	return l, nil
}

// ListenTCPAt serves on the given loopback address (to bring a node back on its old address).
func (s *Server) ListenTCPAt(addr string) (net.Listener, error) {
	l, err := net.Listen("tcp", addr)
	if err != nil {
		return nil, err
	}
	s.acceptLoop(l)
	return l, nil
}

func (s *Server) acceptLoop(l net.Listener) {
	go func() {
		for {
			c, err := l.Accept()
			if err != nil {
				return
			}
			if atomic.LoadInt32(&s.RefuseNew) != 0 {
				c.Close()
				continue
			}
			id := int(atomic.AddInt32(&s.nextConn, 1))
			atomic.AddInt32(&s.open, 1)
			atomic.AddInt32(&s.accepted, 1)
			s.mu.Lock()
			s.conns[id] = c
			s.mu.Unlock()
			go s.serve(c, id)
		}
	}()
}

// CloseAll cuts every open connection.
func (s *Server) CloseAll() {
	s.mu.Lock()
	cs := make([]io.Closer, 0, len(s.conns))
	for _, c := range s.conns {
		cs = append(cs, c)
	}
	s.mu.Unlock()
	for _, c := range cs {
		c.Close()
	}
}

func (s *Server) serve(c io.ReadWriteCloser, id int) {
	defer func() {
		c.Close()
		atomic.AddInt32(&s.open, -1)
		s.mu.Lock()
		delete(s.conns, id)
		s.mu.Unlock()
	}()
	r := bufio.NewReaderSize(c, 1<<16)
	// replies are accumulated without bound and written out only with a non-quiet reply:
	// over a synchronous net.Pipe the client may still be busy writing a pipelined batch
	var out bytes.Buffer
	hdr := make([]byte, 24)
	for {
		if _, err := io.ReadFull(r, hdr); err != nil {
			return
		}
		if hdr[0] != 0x80 {
			return
		}
		op := hdr[1]
		keylen := int(binary.BigEndian.Uint16(hdr[2:4]))
		extlen := int(hdr[4])
		total := int(binary.BigEndian.Uint32(hdr[8:12]))
		opaque := binary.BigEndian.Uint32(hdr[12:16])
		if total < keylen+extlen {
			return
		}
		body := make([]byte, total)
		if _, err := io.ReadFull(r, body); err != nil {
			return
		}
		ext := body[:extlen]
		key := string(body[extlen : extlen+keylen])
		val := body[extlen+keylen:]

		req := Req{Conn: id, Op: op, Key: key, ValLen: len(val), Opaque: opaque, Status: 0xffff, Cas: binary.BigEndian.Uint64(hdr[16:24])}
		switch op {
		case OpSet, OpAdd, OpReplace:
			if extlen >= 8 {
				req.Flags = binary.BigEndian.Uint32(ext[0:4])
				req.Exp = binary.BigEndian.Uint32(ext[4:8])
			}
		case OpTouch, OpGat, OpGatQ:
			if extlen >= 4 {
				req.Exp = binary.BigEndian.Uint32(ext[0:4])
			}
		}
		if g := s.Gate; g != nil {
			g(id, &req)
		}

		s.mu.Lock()
		req.Seq = s.seq
		s.seq++
		req.Now = s.Now()
		f := s.faults[req.Seq]
		var reply []byte
		if f.Kind == FStatus {
			if f.Status == StNotFound || f.Status == StNotStored {
				// keep the injected reply truthful: the key vanishes at this moment
				delete(s.data, key)
			}
			ebody := []byte("injected error")
			if f.Body != nil {
				ebody = f.Body
			}
			reply = respond(op, f.Status, opaque, nil, ebody)
			req.Status = f.Status
		} else if f.Kind == FCloseBefore {
			if s.LogOn {
				s.log = append(s.log, req)
			}
			s.mu.Unlock()
			return
		} else {
			reply = s.apply(&req, val)
		}
		if s.LogOn {
			s.log = append(s.log, req)
		}
		s.mu.Unlock()
		if g := s.GateAfter; g != nil {
			g(id, &req)
		}

		switch f.Kind {
		case FCloseAfterApply:
			return
		case FCloseMid:
			cut := len(reply) / 2
			if f.Tail > 0 && f.Tail < len(reply) {
				cut = len(reply) - f.Tail
			}
			out.Write(reply[:cut])
			c.Write(out.Bytes())
			return
		}
		out.Write(reply)
		if !isQuiet(op) {
			b := out.Bytes()
			if s.BodyDelay > 0 && len(b) > 24 {
				if _, err := c.Write(b[:24]); err != nil {
					return
				}
				time.Sleep(s.BodyDelay)
				b = b[24:]
			}
			if _, err := c.Write(b); err != nil {
				return
			}
			out.Reset()
		}
		if f.Kind == FCloseAfterReply {
			return
		}
	}
}

func isQuiet(op uint8) bool { return op == OpGetQ || op == OpGatQ || op == OpGetEQ }

func respond(op uint8, status uint16, opaque uint32, extras, value []byte) []byte {
	b := make([]byte, 24+len(extras)+len(value))
	b[0] = 0x81
	b[1] = op
	b[4] = uint8(len(extras))
	binary.BigEndian.PutUint16(b[6:8], status)
	binary.BigEndian.PutUint32(b[8:12], uint32(len(extras)+len(value)))
	binary.BigEndian.PutUint32(b[12:16], opaque)
	copy(b[24:], extras)
	copy(b[24+len(extras):], value)
	return b
}

func errBody(st uint16) []byte {
	switch st {
	case StNotFound:
		return []byte("Not found")
	case StExists:
		return []byte("Data exists for key.")
	case StNotStored:
		return []byte("Not stored.")
	}
	return []byte("error")
}

// apply executes the request on the store and returns the reply bytes (nil for none).
// Caller holds s.mu.
func (s *Server) apply(q *Req, val []byte) []byte {
	now := q.Now
	e, ok := s.data[q.Key]
	live := ok && s.alive(e, now)
	fail := func(st uint16) []byte {
		q.Status = st
		return respond(q.Op, st, q.Opaque, nil, errBody(st))
	}
	okr := func(ext, v []byte) []byte {
		q.Status = StOK
		rep := respond(q.Op, StOK, q.Opaque, ext, v)
		// like memcached, a successful reply carries the item's CAS
		if cur, ok := s.data[q.Key]; ok && len(rep) >= 24 && q.Op != OpDelete && q.Op != OpNoop {
			binary.BigEndian.PutUint64(rep[16:24], cur.Cas)
		}
		return rep
	}
	store := func() {
		s.casCtr++
		s.data[q.Key] = &Entry{Cas: s.casCtr, Flags: q.Flags, Value: append([]byte(nil), val...), RawExp: q.Exp, Deadline: norm(now, q.Exp)}
	}
	// a non-zero CAS in a mutating request makes it conditional, as in memcached
	if q.Cas != 0 {
		switch q.Op {
		case OpSet, OpReplace, OpAppend, OpPrepend, OpDelete:
			if !live {
				return fail(StNotFound)
			}
			if e.Cas != q.Cas {
				return fail(StExists)
			}
		}
	}
	switch q.Op {
	case OpSet:
		store()
		return okr(nil, nil)
	case OpAdd:
		if live {
			return fail(StExists)
		}
		store()
		return okr(nil, nil)
	case OpReplace:
		if !live {
			return fail(StNotFound)
		}
		store()
		return okr(nil, nil)
	case OpAppend, OpPrepend:
		if !live {
			return fail(StNotStored)
		}
		var nv []byte
		if q.Op == OpAppend {
			nv = append(append([]byte(nil), e.Value...), val...)
		} else {
			nv = append(append([]byte(nil), val...), e.Value...)
		}
		e.Value = nv
		s.casCtr++
		e.Cas = s.casCtr
		return okr(nil, nil)
	case OpDelete:
		if !live {
			if ok {
				delete(s.data, q.Key)
			}
			return fail(StNotFound)
		}
		delete(s.data, q.Key)
		return okr(nil, nil)
	case OpTouch:
		if !live {
			return fail(StNotFound)
		}
		e.RawExp = q.Exp
		e.Deadline = norm(now, q.Exp)
		// like memcached, a successful touch reply carries the item's flags as 4 bytes of extras
		// (and no value)
		fl := make([]byte, 4)
		binary.BigEndian.PutUint32(fl, e.Flags)
		return okr(fl, nil)
	case OpGet, OpGetQ, OpGat, OpGatQ, OpGetE, OpGetEQ:
		if !live {
			if isQuiet(q.Op) {
				return nil
			}
			return fail(StNotFound)
		}
		if q.Op == OpGat || q.Op == OpGatQ {
			e.RawExp = q.Exp
			e.Deadline = norm(now, q.Exp)
		}
		ext := make([]byte, 4, 8)
		binary.BigEndian.PutUint32(ext, e.Flags)
		if q.Op == OpGetE || q.Op == OpGetEQ {
			rem := uint32(0)
			if e.Deadline >= 0 {
				rem = uint32(e.Deadline - now)
			}
			ext = ext[:8]
			binary.BigEndian.PutUint32(ext[4:], rem)
		}
		return okr(ext, e.Value)
	case OpNoop:
		return okr(nil, nil)
	}
	return fail(StUnknown)
}
