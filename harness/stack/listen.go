package stack

import (
	"bufio"
	"fmt"
	"io"
	"net"
	"sync"
	"sync/atomic"
	"time"

	"github.com/netflix/rend/handlers"
	"github.com/netflix/rend/handlers/memcached/chunked"
	"github.com/netflix/rend/handlers/memcached/std"
	"github.com/netflix/rend/protocol"
	"github.com/netflix/rend/protocol/binprot"
	"github.com/netflix/rend/protocol/textprot"
	"github.com/netflix/rend/server"
)

// Listener runs rend's real accept loop (server.ListenAndServe: accept, per-connection handler
// construction, protocol detection by the first byte, server loop) on an in-memory listener.
// The per-connection handlers are std/chunked handlers on pipes to the fake backends that are
// current when the connection is accepted.
type Listener struct {
	cfg   Config
	ch    chan net.Conn
	built chan struct{} // one token per accepted connection, sent when its handlers were constructed

	mu sync.Mutex
	b  *Backends
	// FailL2: the next that many constructions of an L2 handler fail (L2 down or refusing at the
	// moment a client connects)
	FailL2 int32
}

type memListener struct{ ch chan net.Conn }

func (l *memListener) Accept() (net.Conn, error)              { return <-l.ch, nil }
func (l *memListener) Configure(c net.Conn) (net.Conn, error) { return c, nil }

// Listen starts one accept loop for cfg (Orca, Locked, MultiRd, L1; the protocol is detected per
// connection). ListenAndServe never returns: a Listener lives as long as the process.
func Listen(cfg Config) *Listener {
	l := &Listener{cfg: cfg, ch: make(chan net.Conn), built: make(chan struct{}, 1024)}
	h1 := func() (handlers.Handler, error) {
		l.mu.Lock()
		b := l.b
		l.mu.Unlock()
		if cfg.L1 == "chunked" {
			return chunked.NewHandler(b.L1.Pipe()), nil
		}
		return std.NewHandler(b.L1.Pipe()), nil
	}
	h2 := func() (handlers.Handler, error) {
		defer func() { l.built <- struct{}{} }()
		if cfg.Orca == "l1only" {
			return handlers.NilHandler()
		}
		if atomic.AddInt32(&l.FailL2, -1) >= 0 {
			return nil, fmt.Errorf("dial L2: connection refused (injected)")
		}
		atomic.AddInt32(&l.FailL2, 1)
		l.mu.Lock()
		b := l.b
		l.mu.Unlock()
		return std.NewHandler(b.L2.Pipe()), nil
	}
	ps := []protocol.Components{binprot.Components, textprot.Components} // as in app/
	go server.ListenAndServe(func() (server.Listener, error) { return &memListener{l.ch}, nil }, ps, server.Default, orcaConst(cfg), h1, h2)
	return l
}

// SetBackends chooses the fake backends for connections accepted from now on.
func (l *Listener) SetBackends(b *Backends) { l.mu.Lock(); l.b = b; l.mu.Unlock() }

// Dial opens a client connection through the accept loop and returns once the loop has built the
// connection's handlers (so that connections are accepted in the order of the Dial calls). The
// protocol is fixed by the first byte the client sends; proto says how Exchange frames requests.
// Done is closed when the server closed its end of the connection.
func (l *Listener) Dial(proto string) (*Conn, error) {
	cl, srv := BufPipe()
	select {
	case l.ch <- srv:
	case <-time.After(10 * time.Second):
		return nil, fmt.Errorf("the accept loop did not accept a new connection within 10 s")
	}
	select {
	case <-l.built:
	case <-time.After(10 * time.Second):
		return nil, fmt.Errorf("the accept loop did not construct the handlers of a new connection within 10 s")
	}
	cfg := l.cfg
	cfg.Proto = proto
	c := &Conn{cfg: cfg, client: cl, rd: bufio.NewReaderSize(cl, 1<<16), Done: make(chan struct{}), nextSentinel: 0xFEED0000}
	go func() {
		<-srv.(*pipeEnd).closedCh()
		close(c.Done)
	}()
	return c, nil
}

var _ io.Closer = (*pipeEnd)(nil)
