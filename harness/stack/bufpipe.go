// Package stack assembles rend's real components (parser, server loop, orchestrator,
// handlers) in-process, wired to fake memcached backends through unbounded in-memory pipes.
package stack

import (
	"io"
	"net"
	"sync"
	"time"
)

// half is one direction of a buffered in-memory duplex connection (unbounded buffer, so a
// writer never blocks: no lock-step deadlocks between a pipelining client and a replying server).
type half struct {
	mu     sync.Mutex
	cond   *sync.Cond
	buf    []byte
	closed bool // writer side closed: reader gets EOF after draining
	rdead  bool // reader side closed: writes fail
	dl     time.Time
}

func newHalf() *half { h := &half{}; h.cond = sync.NewCond(&h.mu); return h }

type pipeEnd struct {
	r, w *half
	once sync.Once
	cmu  sync.Mutex
	cch  chan struct{} // closed by Close
	// onIdle, when set, is called by Read (in the reader's goroutine) each time it finds nothing
	// to read and is about to wait
	onIdle func()
}

// closedCh is closed when Close has been called on this end.
func (p *pipeEnd) closedCh() <-chan struct{} {
	p.cmu.Lock()
	defer p.cmu.Unlock()
	if p.cch == nil {
		p.cch = make(chan struct{})
	}
	return p.cch
}

// BufPipe returns the two ends of an in-memory full-duplex connection.
func BufPipe() (net.Conn, net.Conn) {
	a, b := newHalf(), newHalf()
	return &pipeEnd{r: a, w: b}, &pipeEnd{r: b, w: a}
}

func (p *pipeEnd) Read(b []byte) (int, error) {
	h := p.r
	h.mu.Lock()
	defer h.mu.Unlock()
	for len(h.buf) == 0 {
		if h.closed || h.rdead {
			return 0, io.EOF
		}
		if p.onIdle != nil {
			h.mu.Unlock()
			p.onIdle()
			h.mu.Lock()
			if len(h.buf) != 0 {
				break
			}
			if h.closed || h.rdead {
				return 0, io.EOF
			}
		}
		if !h.dl.IsZero() && !time.Now().Before(h.dl) {
			return 0, timeoutErr{}
		}
		if !h.dl.IsZero() {
			d := time.Until(h.dl)
			t := time.AfterFunc(d, func() { h.mu.Lock(); h.cond.Broadcast(); h.mu.Unlock() })
			h.cond.Wait()
			t.Stop()
		} else {
			h.cond.Wait()
		}
	}
	n := copy(b, h.buf)
	h.buf = h.buf[n:]
	return n, nil
}

func (p *pipeEnd) Write(b []byte) (int, error) {
	h := p.w
	h.mu.Lock()
	defer h.mu.Unlock()
	if h.closed || h.rdead {
		return 0, io.ErrClosedPipe
	}
	h.buf = append(h.buf, b...)
	h.cond.Broadcast()
	return len(b), nil
}

func (p *pipeEnd) Close() error {
	p.once.Do(func() {
		p.cmu.Lock()
		if p.cch == nil {
			p.cch = make(chan struct{})
		}
		close(p.cch)
		p.cmu.Unlock()
		p.w.mu.Lock()
		p.w.closed = true
		p.w.cond.Broadcast()
		p.w.mu.Unlock()
		p.r.mu.Lock()
		p.r.rdead = true
		p.r.cond.Broadcast()
		p.r.mu.Unlock()
	})
	return nil
}

// CloseWrite half-closes the connection: the peer reads EOF after draining what was written,
// while this end can still read (a client that stops sending but reads the replies).
func (p *pipeEnd) CloseWrite() error {
	p.w.mu.Lock()
	p.w.closed = true
	p.w.cond.Broadcast()
	p.w.mu.Unlock()
	return nil
}

type timeoutErr struct{}

func (timeoutErr) Error() string   { return "i/o timeout" }
func (timeoutErr) Timeout() bool   { return true }
func (timeoutErr) Temporary() bool { return true }

type addr struct{}

func (addr) Network() string { return "mem" }
func (addr) String() string  { return "mem" }

func (p *pipeEnd) LocalAddr() net.Addr  { return addr{} }
func (p *pipeEnd) RemoteAddr() net.Addr { return addr{} }
func (p *pipeEnd) SetDeadline(t time.Time) error {
	p.SetReadDeadline(t)
	return nil
}
func (p *pipeEnd) SetReadDeadline(t time.Time) error {
	p.r.mu.Lock()
	p.r.dl = t
	p.r.cond.Broadcast()
	p.r.mu.Unlock()
	return nil
}
func (p *pipeEnd) SetWriteDeadline(t time.Time) error { return nil }
