package stack

import (
	"bufio"
	"bytes"
	"encoding/binary"
	"fmt"
	"io"
	"net"
	"runtime"
	"strconv"
	"sync"
	"time"

	"github.com/netflix/rend/handlers"
	"github.com/netflix/rend/handlers/memcached"
	"github.com/netflix/rend/handlers/memcached/batched"
	"github.com/netflix/rend/handlers/memcached/chunked"
	"github.com/netflix/rend/handlers/memcached/std"
	"github.com/netflix/rend/orcas"
	"github.com/netflix/rend/protocol"
	"github.com/netflix/rend/protocol/binprot"
	"github.com/netflix/rend/protocol/textprot"
	"github.com/netflix/rend/server"
	"verifharness/fakemc"
	"verifharness/gal"
)

func init() { fakemc.PipeFactory = BufPipe }

// ---------------------------------------------------------------- requests
type GItem struct {
	Key    []byte `json:"key"`
	Opaque uint32 `json:"opaque"`
	Quiet  bool   `json:"quiet"`
}

// Req mirrors the Coq type orca/Types.v `req`.
type Req struct {
	Kind    string  `json:"kind"` // set add replace append prepend delete touch gat get gete noop quit version stat unknown
	Key     []byte  `json:"key,omitempty"`
	Data    []byte  `json:"data,omitempty"`
	Flags   uint32  `json:"flags,omitempty"`
	TTL     uint32  `json:"ttl,omitempty"`
	Opaque  uint32  `json:"opaque,omitempty"`
	Quiet   bool    `json:"quiet,omitempty"`
	Items   []GItem `json:"items,omitempty"`
	NoopOpq uint32  `json:"noop_opaque,omitempty"`
	NoopEnd bool    `json:"noop_end,omitempty"`
}

func (r Req) Gallina() string {
	n := func(v uint32) string { return gal.N(uint64(v)) }
	switch r.Kind {
	case "set", "add", "replace":
		m := map[string]string{"set": "MSet", "add": "MAdd", "replace": "MReplace"}[r.Kind]
		return gal.App("RSet", m, gal.Bytes(r.Key), gal.Bytes(r.Data), n(r.Flags), n(r.TTL), n(r.Opaque), gal.Bool(r.Quiet))
	case "append", "prepend":
		return gal.App("RCat", gal.Bool(r.Kind == "prepend"), gal.Bytes(r.Key), gal.Bytes(r.Data), n(r.Opaque), gal.Bool(r.Quiet))
	case "delete":
		return gal.App("RDelete", gal.Bytes(r.Key), n(r.Opaque))
	case "touch":
		return gal.App("RTouch", gal.Bytes(r.Key), n(r.TTL), n(r.Opaque))
	case "gat":
		return gal.App("RGat", gal.Bytes(r.Key), n(r.TTL), n(r.Opaque))
	case "get", "gete":
		its := make([]string, len(r.Items))
		for i, it := range r.Items {
			its[i] = gal.App("mkGI", gal.Bytes(it.Key), n(it.Opaque), gal.Bool(it.Quiet))
		}
		c := "RGet"
		if r.Kind == "gete" {
			c = "RGetE"
		}
		return gal.App(c, gal.List(its), n(r.NoopOpq), gal.Bool(r.NoopEnd))
	case "noop":
		return gal.App("RNoop", n(r.Opaque))
	case "quit":
		return gal.App("RQuit", n(r.Opaque), gal.Bool(r.Quiet))
	case "version":
		return gal.App("RVersion", n(r.Opaque))
	case "stat":
		return gal.App("RStat", n(r.Opaque))
	}
	return "RUnknown"
}

func binHdr(op uint8, keylen, extlen, total int, opaque uint32) []byte {
	b := make([]byte, 24)
	b[0] = 0x80
	b[1] = op
	binary.BigEndian.PutUint16(b[2:4], uint16(keylen))
	b[4] = uint8(extlen)
	binary.BigEndian.PutUint32(b[8:12], uint32(total))
	binary.BigEndian.PutUint32(b[12:16], opaque)
	return b
}

func u32(v uint32) []byte { b := make([]byte, 4); binary.BigEndian.PutUint32(b, v); return b }

// EncodeBin is the harness's own encoder of the binary protocol (independent of /repo).
func (r Req) EncodeBin() []byte {
	var out []byte
	q := func(nq, qq uint8) uint8 {
		if r.Quiet {
			return qq
		}
		return nq
	}
	switch r.Kind {
	case "set", "add", "replace":
		op := map[string][2]uint8{"set": {0x01, 0x11}, "add": {0x02, 0x12}, "replace": {0x03, 0x13}}[r.Kind]
		out = append(out, binHdr(q(op[0], op[1]), len(r.Key), 8, 8+len(r.Key)+len(r.Data), r.Opaque)...)
		out = append(out, u32(r.Flags)...)
		out = append(out, u32(r.TTL)...)
		out = append(out, r.Key...)
		out = append(out, r.Data...)
	case "append", "prepend":
		op := map[string][2]uint8{"append": {0x0e, 0x19}, "prepend": {0x0f, 0x1a}}[r.Kind]
		out = append(out, binHdr(q(op[0], op[1]), len(r.Key), 0, len(r.Key)+len(r.Data), r.Opaque)...)
		out = append(out, r.Key...)
		out = append(out, r.Data...)
	case "delete":
		out = append(out, binHdr(0x04, len(r.Key), 0, len(r.Key), r.Opaque)...)
		out = append(out, r.Key...)
	case "touch", "gat":
		op := uint8(0x1c)
		if r.Kind == "gat" {
			op = 0x1d
		}
		out = append(out, binHdr(op, len(r.Key), 4, 4+len(r.Key), r.Opaque)...)
		out = append(out, u32(r.TTL)...)
		out = append(out, r.Key...)
	case "get", "gete":
		nq, qq := uint8(0x00), uint8(0x09)
		if r.Kind == "gete" {
			nq, qq = 0x40, 0x41
		}
		for _, it := range r.Items {
			op := nq
			if it.Quiet {
				op = qq
			}
			out = append(out, binHdr(op, len(it.Key), 0, len(it.Key), it.Opaque)...)
			out = append(out, it.Key...)
		}
		if r.NoopEnd {
			out = append(out, binHdr(0x0a, 0, 0, 0, r.NoopOpq)...)
		}
	case "noop":
		out = binHdr(0x0a, 0, 0, 0, r.Opaque)
	case "quit":
		out = binHdr(q(0x07, 0x17), 0, 0, 0, r.Opaque)
	case "version":
		out = binHdr(0x0b, 0, 0, 0, r.Opaque)
	case "stat":
		out = binHdr(0x10, 0, 0, 0, r.Opaque)
	}
	return out
}

// EncodeText is the harness's own encoder of the text protocol.
func (r Req) EncodeText() []byte {
	var b bytes.Buffer
	switch r.Kind {
	case "set", "add", "replace", "append", "prepend":
		fmt.Fprintf(&b, "%s %s %d %d %d\r\n", r.Kind, r.Key, r.Flags, r.TTL, len(r.Data))
		b.Write(r.Data)
		b.WriteString("\r\n")
	case "delete":
		fmt.Fprintf(&b, "delete %s\r\n", r.Key)
	case "touch":
		fmt.Fprintf(&b, "touch %s %d\r\n", r.Key, r.TTL)
	case "get":
		b.WriteString("get")
		for _, it := range r.Items {
			b.WriteByte(' ')
			b.Write(it.Key)
		}
		b.WriteString("\r\n")
	case "noop":
		b.WriteString("noop\r\n")
	case "quit":
		b.WriteString("quit\r\n")
	case "version":
		b.WriteString("version\r\n")
	case "stat":
		b.WriteString("stats\r\n")
	case "unknown":
		b.WriteString("bogus command\r\n")
	}
	return b.Bytes()
}

// ---------------------------------------------------------------- configuration
type Config struct {
	Orca    string `json:"orca"` // l1only | l1l2 | l1l2batch   (orchestrator of this port)
	Locked  bool   `json:"locked"`
	MultiRd bool   `json:"multi_reader"`
	L1      string `json:"l1"`    // std | chunked
	Proto   string `json:"proto"` // bin | text
	// L1Sock / L2Sock: when set, that tier is served by the batching handler (handlers/memcached/
	// batched) over the unix socket on which the fake backend listens, instead of a std handler
	// with its own connection
	L1Sock string `json:"l1_sock,omitempty"`
	L2Sock string `json:"l2_sock,omitempty"`
}

// BatchOpts are the options of the batching pools used for L1Sock/L2Sock.
var BatchOpts = batched.Opts{BatchSize: 4, BatchDelayMicros: 200}

// Backends are the two fake memcacheds of one deployment.
type Backends struct {
	L1, L2 *fakemc.Server
}

func NewBackends() *Backends { return &Backends{L1: fakemc.New(), L2: fakemc.New()} }

// lock sets are a global, never-released resource of rend (1023 per process): reuse them.
var (
	lockMu   sync.Mutex
	lockSets = map[[2]bool]uint32{} // (multiReader, _) -> slot
)

func LockSlot(multi bool) uint32 {
	lockMu.Lock()
	defer lockMu.Unlock()
	k := [2]bool{multi, false}
	if s, ok := lockSets[k]; ok {
		return s
	}
	_, slot := orcas.Locked(orcas.L1Only, multi, 4)
	lockSets[k] = slot
	return slot
}

func orcaConst(cfg Config) orcas.OrcaConst {
	var o orcas.OrcaConst
	switch cfg.Orca {
	case "l1only":
		o = orcas.L1Only
	case "l1l2":
		o = orcas.L1L2
	case "l1l2batch":
		o = orcas.L1L2Batch
	default:
		panic("bad orca " + cfg.Orca)
	}
	if cfg.Locked {
		o = orcas.LockedWithExisting(o, LockSlot(cfg.MultiRd))
	}
	return o
}

// Conn is one client connection to an in-process rend server loop.
type Conn struct {
	cfg          Config
	client       net.Conn
	rd           *bufio.Reader
	Done         chan struct{} // closed when the server loop returned
	l1c          io.Closer
	l2c          io.Closer
	nextSentinel uint32
	// SplitAt > 0: Exchange writes the first SplitAt bytes, pauses (SplitPause, or yields), then the rest
	SplitAt    int
	SplitPause time.Duration
	// Strict: Exchange sends the request alone, waits until the server has gone back to waiting
	// for input, notes whether reply bytes were still sitting unflushed in its write buffer at
	// that moment (Unflushed, sticky), and only then sends the sentinel
	Strict    bool
	Unflushed int // > 0: that many bytes were found unflushed while the server waited for input
	idle      chan int
}

// pooledHandler gives a connection its handler on the batching pool of sock the way the
// deployment does: app/memproxy.go calls the constructor memcached.Batched(sock, opts) ONCE and
// hands the resulting handlers.HandlerConst to server.ListenAndServe, which calls it for every
// accepted connection. One HandlerConst per socket, one call per connection.
var (
	pooledMu     sync.Mutex
	pooledConsts = map[string]handlers.HandlerConst{}
)

func pooledHandler(sock string) handlers.Handler {
	pooledMu.Lock()
	hc, ok := pooledConsts[sock]
	if !ok {
		hc = memcached.Batched(sock, BatchOpts)
		pooledConsts[sock] = hc
	}
	pooledMu.Unlock()
	h, err := hc()
	if err != nil {
		panic(err)
	}
	return h
}

// Dial starts a server loop for a new client connection on the given deployment.
func Dial(b *Backends, cfg Config) *Conn {
	cl, srv := BufPipe()
	var l1 handlers.Handler
	switch {
	case cfg.L1Sock != "":
		l1 = pooledHandler(cfg.L1Sock)
	case cfg.L1 == "chunked":
		l1 = chunked.NewHandler(b.L1.Pipe())
	default:
		l1 = std.NewHandler(b.L1.Pipe())
	}
	var l2 handlers.Handler
	if cfg.Orca == "l1only" {
		l2, _ = handlers.NilHandler()
	} else if cfg.L2Sock != "" {
		l2 = pooledHandler(cfg.L2Sock)
	} else {
		l2 = std.NewHandler(b.L2.Pipe())
	}
	var comps protocol.Components = binprot.Components
	if cfg.Proto == "text" {
		comps = textprot.Components
	}
	rr := bufio.NewReader(srv)
	ww := bufio.NewWriter(srv)
	parser := comps.NewRequestParser(rr)
	resp := comps.NewResponder(ww)
	s := server.Default([]io.Closer{srv, l1, l2}, parser, orcaConst(cfg)(l1, l2, resp))
	c := &Conn{cfg: cfg, client: cl, rd: bufio.NewReaderSize(cl, 1<<16), Done: make(chan struct{}), l1c: l1, l2c: l2, nextSentinel: 0xFEED0000, idle: make(chan int, 1)}
	srv.(*pipeEnd).onIdle = func() {
		// runs in the server loop's goroutine (the only user of ww) when it waits for client input
		n := ww.Buffered()
		select {
		case <-c.idle:
		default:
		}
		c.idle <- n
	}
	go func() {
		s.Loop()
		close(c.Done)
	}()
	return c
}

func (c *Conn) Close() { c.client.Close() }

// Raw gives access to the client end (for disconnect / malformed input tests).
func (c *Conn) Raw() net.Conn { return c.client }

// ErrTimeout is returned by Exchange when the reply did not complete in time.
var ErrTimeout = fmt.Errorf("timeout waiting for reply")

// Exchange sends the request bytes followed by a sentinel noop and returns every byte the
// server sent before the sentinel's reply. closed = the server closed the connection instead.
func (c *Conn) Exchange(req []byte, timeout time.Duration) (reply []byte, closed bool, err error) {
	c.nextSentinel++
	var sentinel []byte
	if c.cfg.Proto == "text" {
		sentinel = []byte("noop\r\n")
	} else {
		sentinel = binHdr(0x0a, 0, 0, 0, c.nextSentinel)
	}
	if c.Strict && c.idle != nil && len(req) > 0 {
		// the server is waiting for input (it posted a token when it got there, after the dial or
		// after the previous exchange): take that token, so that the next one belongs to this request
		select {
		case <-c.idle:
		case <-c.Done:
		case <-time.After(2 * time.Second):
		}
		if _, err := c.client.Write(req); err != nil {
			return nil, true, nil
		}
		select {
		case n := <-c.idle:
			if n > 0 && c.Unflushed == 0 {
				c.Unflushed = n
			}
		case <-c.Done:
		case <-time.After(timeout):
		}
		req = nil
	}
	all := append(append([]byte(nil), req...), sentinel...)
	if c.SplitAt > 0 && c.SplitAt < len(all) {
		// the request arrives in two pieces (e.g. a header split over two packets)
		if _, err := c.client.Write(all[:c.SplitAt]); err != nil {
			return nil, true, nil
		}
		if c.SplitPause > 0 {
			time.Sleep(c.SplitPause)
		} else {
			runtime.Gosched()
		}
		all = all[c.SplitAt:]
	}
	if _, err := c.client.Write(all); err != nil {
		return nil, true, nil
	}
	c.client.SetReadDeadline(time.Now().Add(timeout))
	defer c.client.SetReadDeadline(time.Time{})
	var out []byte
	if c.cfg.Proto == "text" {
		for {
			line, err := c.rd.ReadBytes('\n')
			if err != nil {
				out = append(out, line...)
				if ne, ok := err.(net.Error); ok && ne.Timeout() {
					return out, false, ErrTimeout
				}
				return out, true, nil
			}
			if bytes.Equal(line, []byte("Yep, it works.\r\n")) {
				return out, false, nil
			}
			out = append(out, line...)
			if bytes.HasPrefix(line, []byte("VALUE ")) {
				parts := bytes.Split(bytes.TrimRight(line, "\r\n"), []byte(" "))
				n, perr := strconv.Atoi(string(parts[len(parts)-1]))
				if perr != nil {
					continue
				}
				blk := make([]byte, n+2)
				k, err := io.ReadFull(c.rd, blk)
				out = append(out, blk[:k]...)
				if err != nil {
					if ne, ok := err.(net.Error); ok && ne.Timeout() {
						return out, false, ErrTimeout
					}
					return out, true, nil
				}
			}
		}
	}
	for {
		hdr := make([]byte, 24)
		k, err := io.ReadFull(c.rd, hdr)
		if err != nil {
			out = append(out, hdr[:k]...)
			if ne, ok := err.(net.Error); ok && ne.Timeout() {
				return out, false, ErrTimeout
			}
			return out, true, nil
		}
		total := int(binary.BigEndian.Uint32(hdr[8:12]))
		if hdr[1] == 0x0a && binary.BigEndian.Uint32(hdr[12:16]) == c.nextSentinel && total == 0 {
			return out, false, nil
		}
		out = append(out, hdr...)
		if total > 0 {
			body := make([]byte, total)
			k, err := io.ReadFull(c.rd, body)
			out = append(out, body[:k]...)
			if err != nil {
				if ne, ok := err.(net.Error); ok && ne.Timeout() {
					return out, false, ErrTimeout
				}
				return out, true, nil
			}
		}
	}
}

// DumpGallina prints a fake's live contents as a Gallina list (bytes * entry), sorted by key.
func DumpGallina(s *fakemc.Server) string {
	d := s.Dump()
	var items []string
	for _, k := range s.Keys() {
		e := d[k]
		dl := "Never"
		if e.Deadline >= 0 {
			dl = gal.App("At", gal.N(uint64(e.Deadline)))
		}
		items = append(items, gal.Pair(gal.Bytes([]byte(k)), gal.App("mkE", gal.Bytes(e.Value), gal.N(uint64(e.Flags)), dl)))
	}
	return gal.List(items)
}
