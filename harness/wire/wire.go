// Package wire is the harness's own encoder of memcached requests (binary and text protocol).
// It is written from the protocol descriptions, not from rend's code, and imports nothing of
// /repo: it is the independent third party in the C07 comparison (generator's intent / Coq
// model / rend's parsers), and the source of the valid requests that C11 mutates.
package wire

import (
	"encoding/binary"
	"encoding/hex"
	"encoding/json"
	"fmt"
	"strconv"
	"strings"
)

// Hex is a byte string that prints as hex in JSON (case descriptions, replay files).
type Hex []byte

func (h Hex) MarshalJSON() ([]byte, error) { return json.Marshal(hex.EncodeToString(h)) }
func (h *Hex) UnmarshalJSON(b []byte) error {
	var s string
	if err := json.Unmarshal(b, &s); err != nil {
		return err
	}
	d, err := hex.DecodeString(s)
	*h = d
	return err
}

type Kind string

const (
	Set     Kind = "set"
	Add     Kind = "add"
	Replace Kind = "replace"
	Append  Kind = "append"
	Prepend Kind = "prepend"
	Delete  Kind = "delete"
	Touch   Kind = "touch"
	Gat     Kind = "gat"
	Get     Kind = "get"
	GetE    Kind = "gete"
	Noop    Kind = "noop"
	Quit    Kind = "quit"
	Version Kind = "version"
	Stat    Kind = "stat"
	Unknown Kind = "unknown"
)

// Item is one key of a get batch.
type Item struct {
	Key    Hex    `json:"key"`
	Opaque uint32 `json:"opaque"`
	Quiet  bool   `json:"quiet"`
}

// Req is a request as the client means it.
type Req struct {
	Kind       Kind   `json:"kind"`
	Key        Hex    `json:"key,omitempty"`
	Data       Hex    `json:"data,omitempty"`
	Flags      uint32 `json:"flags,omitempty"`
	TTL        uint32 `json:"ttl,omitempty"`
	Opaque     uint32 `json:"opaque,omitempty"`
	Quiet      bool   `json:"quiet,omitempty"`
	Items      []Item `json:"items,omitempty"`
	NoopOpaque uint32 `json:"noop_opaque,omitempty"`
	NoopEnd    bool   `json:"noop_end,omitempty"`
}

// opcodes of the memcached binary protocol (protocol_binary.h) plus the two rend adds
const (
	magicReq    = 0x80
	opGet       = 0x00
	opSet       = 0x01
	opAdd       = 0x02
	opReplace   = 0x03
	opDelete    = 0x04
	opQuit      = 0x07
	opGetQ      = 0x09
	opNoop      = 0x0a
	opVersion   = 0x0b
	opAppend    = 0x0e
	opPrepend   = 0x0f
	opStat      = 0x10
	opSetQ      = 0x11
	opAddQ      = 0x12
	opReplaceQ  = 0x13
	opQuitQ     = 0x17
	opAppendQ   = 0x19
	opPrependQ  = 0x1a
	opTouch     = 0x1c
	opGat       = 0x1d
	opGetE      = 0x40 // rend extension: get with expiry
	opGetEQ     = 0x41
	HeaderLen   = 24
	OffKeyLen   = 2
	OffExtraLen = 4
	OffTotal    = 8
	OffOpaque   = 12
)

// Header builds a 24-byte binary request header.
func Header(opcode byte, keyLen uint16, extraLen byte, total uint32, opaque uint32) []byte {
	h := make([]byte, HeaderLen)
	h[0] = magicReq
	h[1] = opcode
	binary.BigEndian.PutUint16(h[2:], keyLen)
	h[4] = extraLen
	binary.BigEndian.PutUint32(h[8:], total)
	binary.BigEndian.PutUint32(h[12:], opaque)
	return h
}

func u32(v uint32) []byte {
	b := make([]byte, 4)
	binary.BigEndian.PutUint32(b, v)
	return b
}

func cat(parts ...[]byte) []byte {
	var out []byte
	for _, p := range parts {
		out = append(out, p...)
	}
	return out
}

func pick(quiet bool, q, n byte) byte {
	if quiet {
		return q
	}
	return n
}

// Binary encodes r in the binary protocol. Unsupported kinds give nil.
func Binary(r Req) []byte {
	kl := uint16(len(r.Key))
	switch r.Kind {
	case Set, Add, Replace:
		var op byte
		switch r.Kind {
		case Set:
			op = pick(r.Quiet, opSetQ, opSet)
		case Add:
			op = pick(r.Quiet, opAddQ, opAdd)
		default:
			op = pick(r.Quiet, opReplaceQ, opReplace)
		}
		return cat(Header(op, kl, 8, uint32(8+len(r.Key)+len(r.Data)), r.Opaque), u32(r.Flags), u32(r.TTL), r.Key, r.Data)
	case Append, Prepend:
		op := pick(r.Quiet, opAppendQ, opAppend)
		if r.Kind == Prepend {
			op = pick(r.Quiet, opPrependQ, opPrepend)
		}
		return cat(Header(op, kl, 0, uint32(len(r.Key)+len(r.Data)), r.Opaque), r.Key, r.Data)
	case Delete:
		return cat(Header(opDelete, kl, 0, uint32(len(r.Key)), r.Opaque), r.Key)
	case Touch:
		return cat(Header(opTouch, kl, 4, uint32(4+len(r.Key)), r.Opaque), u32(r.TTL), r.Key)
	case Gat:
		return cat(Header(opGat, kl, 4, uint32(4+len(r.Key)), r.Opaque), u32(r.TTL), r.Key)
	case Get, GetE:
		q, n := byte(opGetQ), byte(opGet)
		if r.Kind == GetE {
			q, n = opGetEQ, opGetE
		}
		var out []byte
		for _, it := range r.Items {
			out = append(out, Header(pick(it.Quiet, q, n), uint16(len(it.Key)), 0, uint32(len(it.Key)), it.Opaque)...)
			out = append(out, it.Key...)
		}
		if r.NoopEnd {
			out = append(out, Header(opNoop, 0, 0, 0, r.NoopOpaque)...)
		}
		return out
	case Noop:
		return Header(opNoop, 0, 0, 0, r.Opaque)
	case Quit:
		return Header(pick(r.Quiet, opQuitQ, opQuit), 0, 0, 0, r.Opaque)
	case Version:
		return Header(opVersion, 0, 0, 0, r.Opaque)
	case Stat:
		return Header(opStat, 0, 0, 0, r.Opaque)
	}
	return nil
}

func dec(v uint32) string { return strconv.FormatUint(uint64(v), 10) }

// Text encodes r in the text protocol. Unsupported kinds give nil.
func Text(r Req) []byte {
	switch r.Kind {
	case Set, Add, Replace, Append, Prepend:
		line := string(r.Kind) + " " + string(r.Key) + " " + dec(r.Flags) + " " + dec(r.TTL) + " " + strconv.Itoa(len(r.Data)) + "\r\n"
		return cat([]byte(line), r.Data, []byte("\r\n"))
	case Get:
		var sb strings.Builder
		sb.WriteString("get")
		for _, it := range r.Items {
			sb.WriteString(" ")
			sb.Write(it.Key)
		}
		sb.WriteString("\r\n")
		return []byte(sb.String())
	case Delete:
		return []byte("delete " + string(r.Key) + "\r\n")
	case Touch:
		return []byte("touch " + string(r.Key) + " " + dec(r.TTL) + "\r\n")
	case Noop:
		return []byte("noop\r\n")
	case Quit:
		return []byte("quit\r\n")
	case Version:
		return []byte("version\r\n")
	case Stat:
		return []byte("stats\r\n")
	}
	return nil
}

// ---- Gallina printing (the `req` type of coq/orca/Types.v) ----

func hx(b []byte) string {
	if len(b) == 0 {
		return "[]"
	}
	return `(hx "` + hex.EncodeToString(b) + `")`
}

func b2s(b bool) string {
	if b {
		return "true"
	}
	return "false"
}

func items(its []Item) string {
	if len(its) == 0 {
		return "[]"
	}
	parts := make([]string, len(its))
	for i, it := range its {
		parts[i] = fmt.Sprintf("mkGI %s %d %s", hx(it.Key), it.Opaque, b2s(it.Quiet))
	}
	return "[" + strings.Join(parts, "; ") + "]"
}

// Coq prints r as a term of type req. Flags/TTL of append/prepend are not part of that type.
func (r Req) Coq() string {
	switch r.Kind {
	case Set:
		return fmt.Sprintf("(RSet MSet %s %s %d %d %d %s)", hx(r.Key), hx(r.Data), r.Flags, r.TTL, r.Opaque, b2s(r.Quiet))
	case Add:
		return fmt.Sprintf("(RSet MAdd %s %s %d %d %d %s)", hx(r.Key), hx(r.Data), r.Flags, r.TTL, r.Opaque, b2s(r.Quiet))
	case Replace:
		return fmt.Sprintf("(RSet MReplace %s %s %d %d %d %s)", hx(r.Key), hx(r.Data), r.Flags, r.TTL, r.Opaque, b2s(r.Quiet))
	case Append:
		return fmt.Sprintf("(RCat false %s %s %d %s)", hx(r.Key), hx(r.Data), r.Opaque, b2s(r.Quiet))
	case Prepend:
		return fmt.Sprintf("(RCat true %s %s %d %s)", hx(r.Key), hx(r.Data), r.Opaque, b2s(r.Quiet))
	case Delete:
		return fmt.Sprintf("(RDelete %s %d)", hx(r.Key), r.Opaque)
	case Touch:
		return fmt.Sprintf("(RTouch %s %d %d)", hx(r.Key), r.TTL, r.Opaque)
	case Gat:
		return fmt.Sprintf("(RGat %s %d %d)", hx(r.Key), r.TTL, r.Opaque)
	case Get:
		return fmt.Sprintf("(RGet %s %d %s)", items(r.Items), r.NoopOpaque, b2s(r.NoopEnd))
	case GetE:
		return fmt.Sprintf("(RGetE %s %d %s)", items(r.Items), r.NoopOpaque, b2s(r.NoopEnd))
	case Noop:
		return fmt.Sprintf("(RNoop %d)", r.Opaque)
	case Quit:
		return fmt.Sprintf("(RQuit %d %s)", r.Opaque, b2s(r.Quiet))
	case Version:
		return fmt.Sprintf("(RVersion %d)", r.Opaque)
	case Stat:
		return fmt.Sprintf("(RStat %d)", r.Opaque)
	}
	return "RUnknown"
}

// Equal compares everything, including the flags/TTL of append/prepend.
func Equal(a, b Req) bool {
	ja, _ := json.Marshal(a)
	jb, _ := json.Marshal(b)
	return string(ja) == string(jb)
}

// IsStoreOpcode / IsConcatOpcode: the opcodes whose frames carry a data block.
func IsStoreOpcode(op byte) bool {
	switch op {
	case opSet, opSetQ, opAdd, opAddQ, opReplace, opReplaceQ:
		return true
	}
	return false
}
func IsConcatOpcode(op byte) bool {
	switch op {
	case opAppend, opAppendQ, opPrepend, opPrependQ:
		return true
	}
	return false
}

// HeaderFields reads the length fields of a 24-byte request header.
func HeaderFields(h []byte) (op byte, keyLen uint16, extraLen byte, total uint32) {
	return h[1], binary.BigEndian.Uint16(h[OffKeyLen:]), h[OffExtraLen], binary.BigEndian.Uint32(h[OffTotal:])
}

// Inconsistent reports whether a frame starting with header h declares a total body shorter
// than its extras plus key (store opcodes) or than its key (append/prepend).
func Inconsistent(h []byte) bool {
	if len(h) < HeaderLen || h[0] != magicReq {
		return false
	}
	op, k, e, t := HeaderFields(h)
	if IsStoreOpcode(op) {
		return uint64(t) < uint64(e)+uint64(k)
	}
	if IsConcatOpcode(op) {
		return uint64(t) < uint64(k)
	}
	return false
}
