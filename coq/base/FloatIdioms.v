(* FloatIdioms - the two float64 idioms of /repo/handlers/memcached/chunked, modelled with Flocq 4.1
   (definitions only; the proofs are in base/FloatIdiomsProofs.v, the statements in props/C16float.v).

     numChunks := int(math.Ceil(float64(a) / float64(b)))
     end       := int(math.Min(float64(x), float64(y)))

   Two levels are given.

   REAL LEVEL.  [round64 x] is the real number obtained by rounding the real x to the nearest
   element of the binary64 format, ties to even, ignoring overflow:
       round radix2 (FLT_exp (-1074) 53) ZnearestE x          (Flocq.Core: Generic_fmt, FLT, Round_NE)
   [format64 x] says that the real x is an element of that format (generic_format).

   BINARY64 LEVEL.  Values of type [binary64] = [binary_float 53 1024] (Flocq.IEEE754.Bits/Binary:
   signed zeros, infinities, NaNs with payload, finite numbers with bounded mantissa/exponent) and the
   IEEE-754 operations on them:
     go_float64_of_int z  = Binary.binary_normalize 53 1024 _ _ mode_NE z 0 false
                            (the integer z*2^0 rounded to nearest even: Go's float64(z) for an int z;
                             same definition as CompCert's BofZ)
     go_div x y           = Bits.b64_div mode_NE x y = Binary.Bdiv 53 1024 _ _ binop_nan_pl64 mode_NE x y
                            (Go's x / y on float64: IEEE-754 division, round to nearest even)
     go_ceil x            = Binary.Bnearbyint 53 1024 _ unop_nan_pl64 mode_UP x
                            (math.Ceil: round to an integral value towards +infinity, exact)
     go_int_of_float64 x  = Binary.Btrunc 53 1024 x
                            (Go's int(x) for a finite x in range: truncation towards zero)
     go_min x y           = math.Min of Go's standard library, case by case (see below), with the
                            comparison x < y taken from Bits.b64_compare = Binary.Bcompare. *)
From Coq Require Import ZArith Reals.
From Flocq Require Import Core.Core IEEE754.BinarySingleNaN IEEE754.Binary IEEE754.Bits.

(* ---- real level ---- *)
Definition fexp64 : Z -> Z := FLT_exp (-1074) 53.
Definition format64 (x : R) : Prop := generic_format radix2 fexp64 x.
Definition round64 (x : R) : R := round radix2 fexp64 ZnearestE x.

(* ---- binary64 level ---- *)
Definition prec64_gt_0 : Prec_gt_0 53 := eq_refl.
Definition prec64_lt_emax : Prec_lt_emax 53 1024 := eq_refl.

Definition go_float64_of_int (z : Z) : binary64 :=
  binary_normalize 53 1024 prec64_gt_0 prec64_lt_emax mode_NE z 0 false.

Definition go_div (x y : binary64) : binary64 := b64_div mode_NE x y.

Definition go_ceil (x : binary64) : binary64 :=
  Bnearbyint 53 1024 prec64_lt_emax unop_nan_pl64 mode_UP x.

Definition go_int_of_float64 (x : binary64) : Z := Btrunc 53 1024 x.

Definition go_nan : binary64 := proj1_sig default_nan_pl64.

(* src/math/dim.go:
     func min(x, y float64) float64 {
       switch {
       case IsInf(x, -1) || IsInf(y, -1): return Inf(-1)
       case IsNaN(x) || IsNaN(y):         return NaN()
       case x == 0 && x == y:             if Signbit(x) { return x }; return y
       }
       if x < y { return x }
       return y } *)
Definition go_min (x y : binary64) : binary64 :=
  match x, y with
  | B754_infinity _ _ true, _ => B754_infinity 53 1024 true
  | _, B754_infinity _ _ true => B754_infinity 53 1024 true
  | B754_nan _ _ _ _ _, _ => go_nan
  | _, B754_nan _ _ _ _ _ => go_nan
  | B754_zero _ _ sx, B754_zero _ _ _ => if sx then x else y
  | _, _ => match b64_compare x y with Some Lt => x | _ => y end
  end.

(* the two idioms as they are written in the source *)
Definition go_ceil_div (a b : Z) : Z :=
  go_int_of_float64 (go_ceil (go_div (go_float64_of_int a) (go_float64_of_int b))).
Definition go_min_int (x y : Z) : Z :=
  go_int_of_float64 (go_min (go_float64_of_int x) (go_float64_of_int y)).
