(* Harness.v — glue evaluated by harness-generated case files. *)
From Coq Require Import Uint63.
From Rend Require Import base.Bytes.
Open Scope N_scope.

(* byte strings packed 7 bytes per primitive 63-bit integer: case files of hundreds of
   kilobytes parse in seconds this way (string literals take minutes). [bx n ws] is the
   byte string of length n whose bytes are the big-endian digits of the words, 7 per word,
   the last word holding the remaining n mod 7 (or 7) bytes. Used only in case files. *)
Definition word_bytes (k : nat) (w : int) : bytes :=
  (fix go (k : nat) (w : int) (acc : bytes) : bytes :=
     match k with
     | O => acc
     | S k' => go k' (w >> 8)%uint63 (Z.to_N (to_Z (w land 255)%uint63) :: acc)
     end) k w [].
Fixpoint bx_nat (n : nat) (ws : list int) : bytes :=
  match ws with
  | [] => []
  | w :: r => match r with
              | [] => word_bytes n w
              | _ => word_bytes 7 w ++ bx_nat (n - 7) r
              end
  end.
Definition bx (n : N) (ws : list int) : bytes := bx_nat (N.to_nat n) ws.

Fixpoint bad_from {A} (f : A -> N) (i : N) (l : list A) : list (N * N) :=
  match l with
  | [] => []
  | x :: r => let c := f x in
              if c =? 0 then bad_from f (i + 1) r else (i, c) :: bad_from f (i + 1) r
  end.
(* indices (from 0) and codes of the cases whose check is not 0.
   code 1: model and implementation differ, the property oracle holds on what was observed;
   code 2: the property oracle fails on the implementation's observed behaviour. *)
Definition bad_cases {A} (f : A -> N) (l : list A) : list (N * N) := bad_from f 0 l.

Definition list_eqb {A} (eqb : A -> A -> bool) : list A -> list A -> bool :=
  fix go a b := match a, b with
                | [], [] => true
                | x :: a', y :: b' => eqb x y && go a' b'
                | _, _ => false
                end.
Definition pairN_eqb (a b : N * N) : bool := (fst a =? fst b) && (snd a =? snd b).
Definition optN_eqb (a b : option N) : bool :=
  match a, b with Some x, Some y => x =? y | None, None => true | _, _ => false end.
