(* Harness.v — glue evaluated by harness-generated case files. *)
From Rend Require Import base.Bytes.
Open Scope N_scope.

Fixpoint bad_from {A} (f : A -> N) (i : N) (l : list A) : list (N * N) :=
  match l with
  | [] => []
  | x :: r => let c := f x in
              if c =? 0 then bad_from f (i + 1) r else (i, c) :: bad_from f (i + 1) r
  end.
(* indices (from 0) and codes of the cases whose check is not 0.
   code 1: model and implementation differ, the property oracle holds on what was observed;
   code 2: the property oracle fails on the implementation's observed behaviour. *)
Definition bad_cases {A} (f : A -> N) (l : list A) : list (N * N) := bad_from f 0 l.

Definition list_eqb {A} (eqb : A -> A -> bool) : list A -> list A -> bool :=
  fix go a b := match a, b with
                | [], [] => true
                | x :: a', y :: b' => eqb x y && go a' b'
                | _, _ => false
                end.
Definition pairN_eqb (a b : N * N) : bool := (fst a =? fst b) && (snd a =? snd b).
Definition optN_eqb (a b : option N) : bool :=
  match a, b with Some x, Some y => x =? y | None, None => true | _, _ => false end.
