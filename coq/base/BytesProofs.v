(* BytesProofs.v — lemmas about base/Bytes.v used by the wire-format proofs: the decimal
   printer [dec] and strconv.ParseUint's model [parse_u32] are inverse below 2^32. *)
From Rend Require Import base.Bytes.
Open Scope N_scope.

(* value of a digit string read left to right from accumulator [a] *)
Fixpoint dval (l : bytes) (a : N) : N :=
  match l with [] => a | b :: r => dval r (a * 10 + (b - 48)) end.
Definition digitsb (l : bytes) : bool := forallb is_digit l.

Lemma dec_fuel_acc f : forall n acc, dec_fuel f n acc = dec_fuel f n [] ++ acc.
Proof.
  induction f as [|f IH]; intros n acc; cbn [dec_fuel]; [reflexivity|].
  destruct (n <? 10); [reflexivity|].
  rewrite (IH (n / 10) (_ :: acc)), (IH (n / 10) [_]), <- app_assoc. reflexivity.
Qed.

Lemma dval_app p : forall q a, dval (p ++ q) a = dval q (dval p a).
Proof. induction p as [|b p IH]; intros q a; cbn [app dval]; [reflexivity | apply IH]. Qed.

Lemma dval_ge l : forall a, a <= dval l a.
Proof.
  induction l as [|b l IH]; intros a; cbn [dval]; [lia|].
  specialize (IH (a * 10 + (b - 48))). lia.
Qed.

Lemma dec_fuel_val f : forall n, n < 10 ^ N.of_nat f -> dval (dec_fuel f n []) 0 = n.
Proof.
  induction f as [|f IH]; intros n Hn.
  - cbn in Hn. cbn [dec_fuel dval]. lia.
  - rewrite Nat2N.inj_succ, N.pow_succ_r' in Hn. cbn [dec_fuel].
    destruct (n <? 10) eqn:E.
    + cbn [dval]. apply N.ltb_lt in E. lia.
    + apply N.ltb_ge in E. rewrite dec_fuel_acc, dval_app. cbn [dval].
      set (p := 10 ^ N.of_nat f) in *.
      rewrite (IH (n / 10)) by lia. lia.
Qed.

Lemma dec_fuel_digits f : forall n acc, digitsb acc = true -> digitsb (dec_fuel f n acc) = true.
Proof.
  induction f as [|f IH]; intros n acc H; cbn [dec_fuel]; [exact H|].
  assert (D : digitsb ((48 + n mod 10) :: acc) = true).
  { unfold digitsb in *. cbn [forallb]. rewrite H. unfold is_digit. lia. }
  destruct (n <? 10); [exact D | apply IH, D].
Qed.

Lemma dec_fuel_nonempty f n acc : dec_fuel (S f) n acc <> [].
Proof.
  cbn [dec_fuel]. destruct (n <? 10); [discriminate|].
  rewrite dec_fuel_acc. destruct (dec_fuel f (n / 10) []); discriminate.
Qed.

Lemma parse_dec_acc_val l : forall a,
  digitsb l = true -> dval l a <= 4294967295 -> parse_dec_acc l a = Some (dval l a).
Proof.
  induction l as [|b l IH]; intros a D V; cbn [parse_dec_acc dval] in *; [reflexivity|].
  unfold digitsb in D. cbn [forallb] in D. apply andb_true_iff in D. destruct D as [Db Dl].
  rewrite Db.
  pose proof (dval_ge l (a * 10 + (b - 48))) as G.
  destruct (4294967295 <? a * 10 + (b - 48)) eqn:E; [lia|].
  apply IH; assumption.
Qed.

Lemma dec_digits n : digitsb (dec n) = true.
Proof. apply dec_fuel_digits. reflexivity. Qed.

Lemma dec_nonempty n : dec n <> [].
Proof. apply dec_fuel_nonempty. Qed.

Lemma dec_val n : n < 4294967296 -> dval (dec n) 0 = n.
Proof.
  intros H. apply dec_fuel_val.
  replace (10 ^ N.of_nat 20) with 100000000000000000000 by (vm_compute; reflexivity). lia.
Qed.

(* strconv.ParseUint(FormatUint(n, 10), 10, 32) = n *)
Theorem parse_u32_dec n : n < 4294967296 -> parse_u32 (dec n) = Some n.
Proof.
  intros H. unfold parse_u32.
  destruct (dec n) eqn:E; [exfalso; exact (dec_nonempty n E)|].
  rewrite <- E. rewrite parse_dec_acc_val.
  - rewrite dec_val by exact H. reflexivity.
  - apply dec_digits.
  - rewrite dec_val by exact H. lia.
Qed.

(* every byte of a decimal numeral is an ASCII digit *)
Lemma dec_bytes n : Forall (fun b => 48 <= b <= 57) (dec n).
Proof.
  pose proof (dec_digits n) as D. unfold digitsb in D. rewrite forallb_forall in D.
  apply Forall_forall. intros b Hb. specialize (D b Hb). unfold is_digit in D. lia.
Qed.

(* ParseUint(_, 10, 32) never yields a value outside uint32 *)
Lemma parse_dec_acc_lt l : forall a n, a < 4294967296 -> parse_dec_acc l a = Some n -> n < 4294967296.
Proof.
  induction l as [|b l IH]; intros a n Ha H; cbn [parse_dec_acc] in H.
  - inversion H; subst. exact Ha.
  - destruct (is_digit b); [|discriminate].
    destruct (4294967295 <? a * 10 + (b - 48)) eqn:E; [discriminate|].
    refine (IH _ _ _ H). lia.
Qed.
Lemma parse_u32_lt l n : parse_u32 l = Some n -> n < 4294967296.
Proof.
  unfold parse_u32. destruct l; [discriminate|]. apply parse_dec_acc_lt. lia.
Qed.
