(* Bytes.v — byte strings as [list N], fixed-width big-endian integers, decimal text,
   and the hex-literal reader used by harness-generated case files. Model conventions:
   a byte is an [N] below 256; lengths cross into [N] through [len]. *)
From Coq Require Import String Ascii.
From Coq Require Export NArith List Lia ZArith Bool.
From Coq Require Export ZifyN ZifyNat ZifyBool.
Export ListNotations.
Open Scope N_scope.

Ltac Zify.zify_post_hook ::= Z.div_mod_to_equations.

Definition byte := N.
Definition bytes := list N.

Definition byte_okb (b : N) : bool := b <? 256.
Definition bytes_okb (l : bytes) : bool := forallb byte_okb l.
Definition bytes_ok (l : bytes) : Prop := Forall (fun b => b < 256) l.

Definition len {A} (l : list A) : N := N.of_nat (length l).

Fixpoint bytes_eqb (a b : bytes) : bool :=
  match a, b with
  | [], [] => true
  | x :: a', y :: b' => (x =? y) && bytes_eqb a' b'
  | _, _ => false
  end.

Definition key_eq_dec : forall a b : bytes, {a = b} + {a <> b} := list_eq_dec N.eq_dec.

(* ---- fixed width big endian ---- *)
Definition u16be (x : N) : bytes := [(x / 256) mod 256; x mod 256].
Definition u32be (x : N) : bytes :=
  [(x / 16777216) mod 256; (x / 65536) mod 256; (x / 256) mod 256; x mod 256].
Definition u64be (x : N) : bytes := u32be (x / 4294967296) ++ u32be (x mod 4294967296).

Definition rd16 (l : bytes) : N := match l with a :: b :: _ => a * 256 + b | _ => 0 end.
Definition rd32 (l : bytes) : N :=
  match l with a :: b :: c :: d :: _ => a * 16777216 + b * 65536 + c * 256 + d | _ => 0 end.

Definition u32le_rd (l : bytes) : N :=
  match l with a :: b :: c :: d :: _ => d * 16777216 + c * 65536 + b * 256 + a | _ => 0 end.

Definition take {A} (n : N) (l : list A) : list A := firstn (N.to_nat n) l.
Definition drop {A} (n : N) (l : list A) : list A := skipn (N.to_nat n) l.

Definition zeros (n : N) : bytes := repeat 0 (N.to_nat n).

(* ---- decimal ---- *)
Fixpoint dec_fuel (fuel : nat) (n : N) (acc : bytes) : bytes :=
  match fuel with
  | O => acc
  | S f => let acc' := (48 + n mod 10) :: acc in
           if n <? 10 then acc' else dec_fuel f (n / 10) acc'
  end.
(* 20 digits are enough for every value below 2^64 *)
Definition dec (n : N) : bytes := dec_fuel 20 n [].

Definition is_digit (b : N) : bool := (48 <=? b) && (b <=? 57).

(* strconv.ParseUint(s, 10, 32): digits only, non-empty, value <= 2^32-1 *)
Fixpoint parse_dec_acc (l : bytes) (acc : N) : option N :=
  match l with
  | [] => Some acc
  | b :: r => if is_digit b then
                let acc' := acc * 10 + (b - 48) in
                if 4294967295 <? acc' then None else parse_dec_acc r acc'
              else None
  end.
Definition parse_u32 (l : bytes) : option N :=
  match l with [] => None | _ => parse_dec_acc l 0 end.

(* ---- hex literals (harness -> Coq) ---- *)
Definition hexval (c : Ascii.ascii) : N :=
  let n := Ascii.N_of_ascii c in
  if (48 <=? n) && (n <=? 57) then n - 48
  else if (97 <=? n) && (n <=? 102) then n - 87
  else if (65 <=? n) && (n <=? 70) then n - 55 else 0.
Fixpoint hx (s : String.string) : bytes :=
  match s with
  | String.String a (String.String b r) => (hexval a * 16 + hexval b) :: hx r
  | _ => []
  end.
(* ASCII text literal *)
Fixpoint asc (s : String.string) : bytes :=
  match s with String.String a r => Ascii.N_of_ascii a :: asc r | String.EmptyString => [] end.
Arguments hx s%string.
Arguments asc s%string.

(* ---- basic facts ---- *)
Lemma len_app {A} (a b : list A) : len (a ++ b) = len a + len b.
Proof. unfold len. rewrite app_length. lia. Qed.
Lemma len_nil {A} : len (@nil A) = 0. Proof. reflexivity. Qed.
Lemma len_cons {A} (x : A) l : len (x :: l) = 1 + len l.
Proof. unfold len. cbn [length]. lia. Qed.

Lemma bytes_eqb_eq a b : bytes_eqb a b = true <-> a = b.
Proof.
  revert b; induction a as [|x a IH]; intros [|y b]; cbn [bytes_eqb]; split; intros H;
    try reflexivity; try discriminate.
  - apply andb_true_iff in H. destruct H as [H1 H2]. apply N.eqb_eq in H1. apply IH in H2. congruence.
  - inversion H; subst. apply andb_true_iff. split; [apply N.eqb_refl | apply IH; reflexivity].
Qed.
Lemma bytes_eqb_refl a : bytes_eqb a a = true.
Proof. apply bytes_eqb_eq. reflexivity. Qed.
Lemma bytes_eqb_neq a b : bytes_eqb a b = false <-> a <> b.
Proof.
  split; intros H.
  - intros ->. rewrite bytes_eqb_refl in H. discriminate.
  - destruct (bytes_eqb a b) eqn:E; [apply bytes_eqb_eq in E; contradiction | reflexivity].
Qed.

Lemma bytes_okb_ok l : bytes_okb l = true <-> bytes_ok l.
Proof.
  unfold bytes_okb, bytes_ok, byte_okb. rewrite forallb_forall, Forall_forall.
  split; intros H x Hx; specialize (H x Hx); lia.
Qed.

Lemma rd16_u16be x r : x < 65536 -> rd16 (u16be x ++ r) = x.
Proof. intros H. unfold rd16, u16be. cbn [app]. lia. Qed.
Lemma rd32_u32be x r : x < 4294967296 -> rd32 (u32be x ++ r) = x.
Proof. intros H. unfold rd32, u32be. cbn [app]. lia. Qed.
Lemma u16be_ok x : bytes_ok (u16be x).
Proof. unfold u16be, bytes_ok. repeat constructor; lia. Qed.
Lemma u32be_ok x : bytes_ok (u32be x).
Proof. unfold u32be, bytes_ok. repeat constructor; lia. Qed.
Lemma u16be_len x : length (u16be x) = 2%nat. Proof. reflexivity. Qed.
Lemma u32be_len x : length (u32be x) = 4%nat. Proof. reflexivity. Qed.
