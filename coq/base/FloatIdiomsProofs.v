(* Proofs for base/FloatIdioms.v: the float64 idioms  int(math.Ceil(float64(a)/float64(b)))  and
   int(math.Min(float64(x), float64(y)))  agree with the integer ceiling (a+b-1)/b and Z.min on the
   ranges that occur in /repo/handlers/memcached/chunked.

   What "float64 division" means in each theorem:
   * [ceil_div_float64], [ceil_div_float64_N]: the real quotient IZR a / IZR b rounded by
     [round64] = round radix2 (FLT_exp (-1074) 53) ZnearestE  (Flocq.Core; binary64 format with
     subnormals, round to nearest, ties to even, no overflow).
   * [ceil_div_b64], [ceil_div_b64_N]: Flocq.IEEE754.Bits.b64_div mode_NE, i.e. Binary.Bdiv on
     binary_float 53 1024 (signed zeros, infinities, NaNs, overflow), applied to the binary64 values
     produced by Binary.binary_normalize mode_NE (int -> float64 conversion), followed by
     Binary.Bnearbyint mode_UP (math.Ceil) and Binary.Btrunc (float64 -> int conversion).
   Only monotonicity of rounding and representability of small dyadic numbers are used:
   n = a/b and n+1 are binary64 numbers, and if b does not divide a then n + 2^-12 is a binary64
   number with n < n + 2^-12 <= a/b (because 1/b > 2^-12), hence n < round(a/b) <= n+1. *)
From Coq Require Import ZArith Reals Lia Lra.
From Flocq Require Import Core.Core IEEE754.BinarySingleNaN IEEE754.Binary IEEE754.Bits.
From Rend Require Import base.FloatIdioms.
Open Scope Z_scope.

Local Instance prec64_gt_0_inst : Prec_gt_0 53 := prec64_gt_0.
Local Instance prec64_lt_emax_inst : Prec_lt_emax 53 1024 := prec64_lt_emax.
Local Instance fexp64_valid : Valid_exp fexp64 := FLT_exp_valid (-1074) 53.

(* ------------------------------------------------------------------ *)
(* real level *)

Lemma format64_F2R m e : Z.abs m < 2^53 -> -1074 <= e -> format64 (F2R (Float radix2 m e)).
Proof.
  intros Hm He. apply generic_format_FLT. exists (Float radix2 m e); auto.
Qed.

Lemma F2R_exp0 z : F2R (Float radix2 z 0) = IZR z.
Proof. unfold F2R. simpl. ring. Qed.

Lemma format64_IZR z : Z.abs z < 2^53 -> format64 (IZR z).
Proof. intros H. rewrite <- F2R_exp0. apply format64_F2R; [assumption | lia]. Qed.

Lemma round64_le x y : (x <= y)%R -> (round64 x <= round64 y)%R.
Proof. unfold round64. apply round_le; auto with typeclass_instances. Qed.

Lemma round64_id x : format64 x -> round64 x = x.
Proof. unfold round64, format64. apply round_generic; auto with typeclass_instances. Qed.

Lemma IZR_pos_lt z : 0 < z -> (0 < IZR z)%R.
Proof. intros H. apply (IZR_lt 0 z H). Qed.

(* the rounded quotient stays in [0, 2^32] *)
Lemma round64_quot_range a b : 0 <= a < 2^32 -> 1 <= b ->
  (0 <= round64 (IZR a / IZR b) <= IZR (2^32))%R.
Proof.
  intros Ha Hb.
  assert (Hb0 : (0 < IZR b)%R) by (apply IZR_pos_lt; lia).
  assert (Hb1 : (1 <= IZR b)%R) by (apply IZR_le; lia).
  assert (Ha0 : (0 <= IZR a)%R) by (apply IZR_le; lia).
  assert (Ha1 : (IZR a <= IZR (2^32))%R) by (apply IZR_le; lia).
  split.
  - rewrite <- (round64_id 0%R) by (apply (format64_IZR 0); reflexivity).
    apply round64_le. apply Rmult_le_pos; [assumption|]. left. now apply Rinv_0_lt_compat.
  - rewrite <- (round64_id (IZR (2^32))) by (apply format64_IZR; reflexivity).
    apply round64_le.
    apply Rmult_le_reg_r with (IZR b); [assumption|].
    unfold Rdiv. rewrite Rmult_assoc, Rinv_l, Rmult_1_r by lra.
    apply Rle_trans with (1 := Ha1).
    rewrite <- (Rmult_1_r (IZR (2^32))) at 1.
    apply Rmult_le_compat_l; [apply IZR_le; lia | assumption].
Qed.

Theorem ceil_div_float64 : forall a b : Z, 0 <= a < 2^32 -> 1 <= b < 2^12 ->
  format64 (IZR a) /\ format64 (IZR b) /\
  Zceil (round64 (IZR a / IZR b)) = (a + b - 1) / b.
Proof.
  intros a b Ha Hb.
  change (2^32) with 4294967296 in Ha. change (2^12) with 4096 in Hb.
  split; [apply format64_IZR; change (2^53) with 9007199254740992; lia|].
  split; [apply format64_IZR; change (2^53) with 9007199254740992; lia|].
  assert (Hbpos : 0 < b) by lia.
  pose proof (Z.div_mod a b ltac:(lia)) as Hdm.
  pose proof (Z.mod_pos_bound a b Hbpos) as Hr.
  assert (Hn : 0 <= a / b <= a).
  { split; [apply Z.div_pos; lia | apply Z.div_le_upper_bound; [lia|]].
    rewrite <- (Z.mul_1_l a) at 1. apply Z.mul_le_mono_nonneg_r; lia. }
  set (n := a / b) in *. set (r := a mod b) in *. clearbody n r.
  assert (Hb0 : (0 < IZR b)%R) by (apply IZR_pos_lt; lia).
  assert (HaR : IZR a = (IZR b * IZR n + IZR r)%R) by (rewrite <- mult_IZR, <- plus_IZR; now f_equal).
  destruct (Z.eq_dec r 0) as [Hr0|Hr0].
  - (* b divides a: the quotient is the integer n, representable *)
    assert (Hq : (IZR a / IZR b)%R = IZR n).
    { rewrite HaR, Hr0. field. lra. }
    rewrite Hq, round64_id by (apply format64_IZR; change (2^53) with 9007199254740992; lia).
    rewrite Zceil_IZR.
    apply Z.div_unique with (b - 1); lia.
  - (* n < a/b < n+1 *)
    assert (Hres : (a + b - 1) / b = n + 1).
    { symmetry. apply Z.div_unique with (r - 1); lia. }
    rewrite Hres. apply Zceil_imp.
    assert (Hr1 : (1 <= IZR r)%R) by (apply IZR_le; lia).
    assert (Hrb : (IZR r <= IZR b)%R) by (apply IZR_le; lia).
    assert (Hb4 : (IZR b <= 4096)%R) by (apply IZR_le; lia).
    split.
    + (* w = n + 2^-12 is a binary64 number with n < w <= a/b *)
      set (w := F2R (Float radix2 (n * 4096 + 1) (-12))).
      assert (Hw : w = (IZR n + / 4096)%R).
      { unfold w, F2R. simpl. change (Z.pow_pos 2 12) with 4096. rewrite plus_IZR, mult_IZR. field. }
      assert (Hwf : format64 w).
      { apply format64_F2R; [change (2^53) with 9007199254740992|]; lia. }
      apply Rlt_le_trans with w.
      * replace (n + 1 - 1) with n by ring. rewrite Hw. lra.
      * rewrite <- (round64_id w Hwf). apply round64_le.
        apply Rmult_le_reg_r with (IZR b); [assumption|].
        unfold Rdiv. rewrite Rmult_assoc, Rinv_l, Rmult_1_r by lra.
        rewrite Hw, HaR. nra.
    + rewrite <- (round64_id (IZR (n + 1)))
        by (apply format64_IZR; change (2^53) with 9007199254740992; lia).
      apply round64_le.
      apply Rmult_le_reg_r with (IZR b); [assumption|].
      unfold Rdiv. rewrite Rmult_assoc, Rinv_l, Rmult_1_r by lra.
      rewrite HaR, plus_IZR. simpl. nra.
Qed.

Theorem min_real64 : forall x y : Z, 0 <= x < 2^53 -> 0 <= y < 2^53 ->
  format64 (IZR x) /\ format64 (IZR y) /\ Rmin (IZR x) (IZR y) = IZR (Z.min x y).
Proof.
  intros x y Hx Hy.
  split; [apply format64_IZR; lia|]. split; [apply format64_IZR; lia|].
  unfold Rmin. destruct (Rle_dec (IZR x) (IZR y)) as [H|H].
  - apply le_IZR in H. now rewrite Z.min_l.
  - apply Rnot_le_lt, lt_IZR in H. rewrite Z.min_r; [reflexivity | lia].
Qed.

(* ------------------------------------------------------------------ *)
(* binary64 level *)

Lemma bpow53_lt_emax : (IZR (2^53) < bpow radix2 1024)%R.
Proof.
  change (2^53) with (Zpower radix2 53). rewrite IZR_Zpower by lia. apply bpow_lt. lia.
Qed.

(* int -> float64 conversion is exact for |z| < 2^53 *)
Lemma go_float64_of_int_exact z : Z.abs z < 2^53 ->
  B2R 53 1024 (go_float64_of_int z) = IZR z /\ is_finite 53 1024 (go_float64_of_int z) = true.
Proof.
  intros Hz. unfold go_float64_of_int.
  generalize (binary_normalize_correct 53 1024 prec64_gt_0 prec64_lt_emax mode_NE z 0 false).
  rewrite F2R_exp0.
  change (round radix2 (SpecFloat.fexp 53 1024) (round_mode mode_NE) (IZR z)) with (round64 (IZR z)).
  rewrite round64_id by now apply format64_IZR.
  rewrite Rlt_bool_true.
  - intros (H1 & H2 & _). now split.
  - rewrite <- abs_IZR. apply Rlt_trans with (IZR (2^53)); [now apply IZR_lt | apply bpow53_lt_emax].
Qed.

Lemma int_of_integral (f : binary64) k : B2R 53 1024 f = IZR k -> go_int_of_float64 f = k.
Proof.
  intros H. unfold go_int_of_float64. apply eq_IZR.
  rewrite (Btrunc_correct 53 1024 prec64_lt_emax), H, round_FIX_IZR, Ztrunc_IZR. reflexivity.
Qed.

Theorem ceil_div_b64 : forall a b : Z, 0 <= a < 2^32 -> 1 <= b < 2^12 ->
  let fa := go_float64_of_int a in
  let fb := go_float64_of_int b in
  B2R 53 1024 fa = IZR a /\ B2R 53 1024 fb = IZR b /\
  is_finite 53 1024 (go_div fa fb) = true /\
  B2R 53 1024 (go_div fa fb) = round64 (IZR a / IZR b) /\
  is_finite 53 1024 (go_ceil (go_div fa fb)) = true /\
  B2R 53 1024 (go_ceil (go_div fa fb)) = IZR ((a + b - 1) / b) /\
  go_ceil_div a b = (a + b - 1) / b.
Proof.
  intros a b Ha Hb fa fb.
  destruct (go_float64_of_int_exact a) as [Ra Fa];
    [change (2^32) with 4294967296 in Ha; change (2^53) with 9007199254740992; lia|].
  destruct (go_float64_of_int_exact b) as [Rb Fb];
    [change (2^12) with 4096 in Hb; change (2^53) with 9007199254740992; lia|].
  fold fa in Ra, Fa. fold fb in Rb, Fb.
  destruct (ceil_div_float64 a b Ha Hb) as (_ & _ & Hceil).
  destruct (round64_quot_range a b Ha ltac:(lia)) as [Hq0 Hq1].
  assert (Hdiv : B2R 53 1024 (go_div fa fb) = round64 (IZR a / IZR b) /\
                 is_finite 53 1024 (go_div fa fb) = true).
  { unfold go_div, b64_div.
    match goal with |- context [Bdiv 53 1024 ?p ?q ?nan mode_NE fa fb] =>
      generalize (Bdiv_correct 53 1024 p q nan mode_NE fa fb) end.
    rewrite Ra, Rb.
    change (round radix2 (SpecFloat.fexp 53 1024) (round_mode mode_NE) (IZR a / IZR b))
      with (round64 (IZR a / IZR b)).
    rewrite Rlt_bool_true.
    - intros H. destruct H as (H1 & H2 & _).
      + apply Rgt_not_eq. apply IZR_pos_lt. lia.
      + split; [exact H1 | now rewrite H2].
    - rewrite Rabs_pos_eq by assumption.
      apply Rle_lt_trans with (1 := Hq1). apply Rlt_trans with (IZR (2^53)).
      + apply IZR_lt. reflexivity.
      + apply bpow53_lt_emax. }
  destruct Hdiv as [Rd Fd].
  assert (Hc : B2R 53 1024 (go_ceil (go_div fa fb)) = IZR ((a + b - 1) / b) /\
               is_finite 53 1024 (go_ceil (go_div fa fb)) = true).
  { unfold go_ceil.
    destruct (Bnearbyint_correct 53 1024 prec64_lt_emax unop_nan_pl64 mode_UP (go_div fa fb))
      as (H1 & H2 & _).
    rewrite H1, H2, Rd, round_FIX_IZR. simpl round_mode. rewrite Hceil. now split. }
  destruct Hc as [Rc Fc].
  repeat split; try assumption.
  unfold go_ceil_div. fold fa fb. now apply int_of_integral.
Qed.

(* math.Min on finite arguments returns one of them, the smaller *)
Lemma go_min_finite (x y : binary64) :
  is_finite 53 1024 x = true -> is_finite 53 1024 y = true ->
  (go_min x y = x /\ (B2R 53 1024 x <= B2R 53 1024 y)%R) \/
  (go_min x y = y /\ (B2R 53 1024 y <= B2R 53 1024 x)%R).
Proof.
  intros Fx Fy.
  assert (Hcmp : match b64_compare x y with Some Lt => x | _ => y end = x /\
                   (B2R 53 1024 x <= B2R 53 1024 y)%R \/
                 match b64_compare x y with Some Lt => x | _ => y end = y /\
                   (B2R 53 1024 y <= B2R 53 1024 x)%R).
  { unfold b64_compare. rewrite (Bcompare_correct 53 1024 x y Fx Fy).
    destruct (Rcompare_spec (B2R 53 1024 x) (B2R 53 1024 y)) as [H|H|H].
    - left. split; [reflexivity | lra].
    - right. split; [reflexivity | lra].
    - right. split; [reflexivity | lra]. }
  destruct x as [sx|sx|sx px Hpx|sx mx ex Hx]; try discriminate Fx;
  destruct y as [sy|sy|sy py Hpy|sy my ey Hy]; try discriminate Fy;
  try exact Hcmp.
  (* both zero *)
  unfold go_min. destruct sx; [left | right]; split; try reflexivity; simpl; lra.
Qed.

Theorem min_float64 : forall x y : Z, 0 <= x < 2^53 -> 0 <= y < 2^53 ->
  let fx := go_float64_of_int x in
  let fy := go_float64_of_int y in
  B2R 53 1024 fx = IZR x /\ B2R 53 1024 fy = IZR y /\
  is_finite 53 1024 (go_min fx fy) = true /\
  B2R 53 1024 (go_min fx fy) = IZR (Z.min x y) /\
  go_min_int x y = Z.min x y.
Proof.
  intros x y Hx Hy fx fy.
  destruct (go_float64_of_int_exact x) as [Rx Fx]; [lia|].
  destruct (go_float64_of_int_exact y) as [Ry Fy]; [lia|].
  fold fx in Rx, Fx. fold fy in Ry, Fy.
  assert (H : is_finite 53 1024 (go_min fx fy) = true /\
              B2R 53 1024 (go_min fx fy) = IZR (Z.min x y)).
  { destruct (go_min_finite fx fy Fx Fy) as [[-> Hle]|[-> Hle]]; rewrite Rx, Ry in Hle;
      apply le_IZR in Hle.
    - split; [assumption|]. now rewrite Z.min_l.
    - split; [assumption|]. now rewrite Z.min_r. }
  destruct H as [Fm Rm].
  repeat split; try assumption.
  unfold go_min_int. fold fx fy. now apply int_of_integral.
Qed.

(* ------------------------------------------------------------------ *)
(* corollaries in N, the shape used by the model (handlers/ChunkFmt.num_chunks) *)

Lemma ceil_N_aux (a b : N) : (1 <= b)%N ->
  Z.to_N ((Z.of_N a + Z.of_N b - 1) / Z.of_N b) = ((a + b - 1) / b)%N.
Proof.
  intros Hb.
  replace (Z.of_N a + Z.of_N b - 1) with (Z.of_N (a + b - 1)) by lia.
  rewrite <- N2Z.inj_div. apply N2Z.id.
Qed.

Lemma N_range_to_Z (a b : N) : (a < 2^32)%N -> (1 <= b)%N -> (b < 2^12)%N ->
  0 <= Z.of_N a < 2^32 /\ 1 <= Z.of_N b < 2^12.
Proof.
  intros Ha Hb1 Hb2. change (2^32)%N with 4294967296%N in Ha. change (2^12)%N with 4096%N in Hb2.
  change (2^32) with 4294967296. change (2^12) with 4096. lia.
Qed.

Theorem ceil_div_float64_N : forall a b : N, (a < 2^32)%N -> (1 <= b)%N -> (b < 2^12)%N ->
  Z.to_N (Zceil (round64 (IZR (Z.of_N a) / IZR (Z.of_N b)))) = ((a + b - 1) / b)%N.
Proof.
  intros a b Ha Hb1 Hb2. destruct (N_range_to_Z a b Ha Hb1 Hb2) as [HA HB].
  destruct (ceil_div_float64 _ _ HA HB) as (_ & _ & ->). now apply ceil_N_aux.
Qed.

Theorem ceil_div_b64_N : forall a b : N, (a < 2^32)%N -> (1 <= b)%N -> (b < 2^12)%N ->
  Z.to_N (go_ceil_div (Z.of_N a) (Z.of_N b)) = ((a + b - 1) / b)%N.
Proof.
  intros a b Ha Hb1 Hb2. destruct (N_range_to_Z a b Ha Hb1 Hb2) as [HA HB].
  destruct (ceil_div_b64 _ _ HA HB) as (_ & _ & _ & _ & _ & _ & ->). now apply ceil_N_aux.
Qed.

Theorem min_float64_N : forall x y : N, (x < 2^53)%N -> (y < 2^53)%N ->
  Z.to_N (go_min_int (Z.of_N x) (Z.of_N y)) = N.min x y.
Proof.
  intros x y Hx Hy.
  assert (HX : 0 <= Z.of_N x < 2^53)
    by (change (2^53)%N with 9007199254740992%N in Hx; change (2^53) with 9007199254740992; lia).
  assert (HY : 0 <= Z.of_N y < 2^53)
    by (change (2^53)%N with 9007199254740992%N in Hy; change (2^53) with 9007199254740992; lia).
  destruct (min_float64 _ _ HX HY) as (_ & _ & _ & _ & ->).
  rewrite <- N2Z.inj_min. apply N2Z.id.
Qed.
