(* LockProofs.v — everything props/C03.v, C12.v and C14.v refer to:
     LockBasics       updates, C12 (released, panic_closes, at_most_one, no_deadlock, next_proceeds)
     LockOld          the pre-fix LockedOrca.Get panic model and its refutation (C12)
     LockLin          linearizable_generic (C03)
     LockNI           noninterference (C14)
     LockInstLemmas   cell programs vs. [run]: locality, live values, write sections
     LockInstReaders  read sections
     LockInstProofs   orca_sections_good(_one), linearizable_orcas(_one), ref_is_single_map (C03)
     LockUnlocked     unlocked_refuted (C03) *)
From Rend Require Export conc.LockBasics conc.LockOld conc.LockLin conc.LockNI conc.LockInstLemmas
  conc.LockInstReaders conc.LockInstProofs conc.LockUnlocked.
