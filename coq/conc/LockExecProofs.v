(* LockExecProofs.v — the executable scheduler of conc/LockExec.v only produces executions of
   the transition system of conc/LockLTS.v (lemmas behind props/C03b.v). *)
From Rend Require Import base.Bytes conc.LockLTS conc.LockBasics conc.LockExec.
Open Scope N_scope.

Section S.
Variables (Cell Res : Type) (slot_of : bytes -> N) (multi_reader locking : bool) (n : nat).

Notation state := (state Cell Res).
Notation thr := (thr Cell Res).
Notation step := (step Cell Res slot_of multi_reader locking).
Notation exec := (exec Cell Res slot_of multi_reader locking).
Notation tstep := (tstep Cell Res slot_of multi_reader locking n).
Notation tpanic := (tpanic Cell Res).
Notation drain := (drain Cell Res slot_of multi_reader locking n).
Notation tmacro := (tmacro Cell Res slot_of multi_reader locking n).
Notation run_sched := (run_sched Cell Res slot_of multi_reader locking n).
Notation in_section := (in_section Cell Res slot_of multi_reader).
Notation holds := (holds Cell Res slot_of multi_reader).
Notation in_sectionb := (in_sectionb Cell Res slot_of multi_reader).
Notation holdsb := (holdsb Cell Res slot_of multi_reader).

(* threads beyond the first n are idle with nothing to do *)
Definition quiet_above (st : state) : Prop :=
  forall u, (n <= u)%nat -> exists d, thr st u = TIdle Cell Res [] d.

(* ---------------- reflection of the lock tests ---------------- *)
Lemma in_section_b st t a e : in_section st t a e -> in_sectionb st t a e = true.
Proof.
  intros (s & p & rest & acc & todo & done & E & A & X). unfold LockExec.in_sectionb. rewrite E.
  apply andb_true_iff. split; [apply N.eqb_eq; exact A|]. rewrite X. apply Bool.eqb_reflx.
Qed.

Lemma holds_b st t a : holds st t a -> holdsb st t a = true.
Proof.
  intros (e & H). apply in_section_b in H. unfold LockExec.holdsb.
  destruct e; rewrite H; [reflexivity|apply orb_true_r].
Qed.

Lemma quiet_not_in_section st u a e : quiet_above st -> (n <= u)%nat -> ~ in_section st u a e.
Proof.
  intros Q Hu (s & p & rest & acc & todo & done & E & _). destruct (Q u Hu) as (d & E'). congruence.
Qed.

Lemma in_seq0 u : (u < n)%nat -> In u (seq 0 n).
Proof. intros H. apply in_seq. lia. Qed.

Lemma can_acquireb_sound st s : quiet_above st ->
  can_acquireb Cell Res slot_of multi_reader locking n st s = true ->
  can_acquire Cell Res slot_of multi_reader locking st s.
Proof.
  intros Q H. unfold can_acquireb in H. unfold can_acquire.
  destruct (negb locking); [exact I|].
  destruct (exclusive Cell Res multi_reader s).
  - intros u Hh. destruct (Nat.lt_ge_cases u n) as [Hu|Hu].
    + rewrite forallb_forall in H. specialize (H u (in_seq0 u Hu)).
      apply holds_b in Hh. rewrite Hh in H. discriminate H.
    + destruct Hh as (e & Hh). exact (quiet_not_in_section st u _ e Q Hu Hh).
  - intros u Hh. destruct (Nat.lt_ge_cases u n) as [Hu|Hu].
    + rewrite forallb_forall in H. specialize (H u (in_seq0 u Hu)).
      apply in_section_b in Hh. rewrite Hh in H. discriminate H.
    + exact (quiet_not_in_section st u _ true Q Hu Hh).
Qed.

(* ---------------- quiet_above is kept by a step of a thread below n ---------------- *)
Lemma quiet_upd st t x c : quiet_above st -> (t < n)%nat ->
  quiet_above (mkSt Cell Res c (upd_thr Cell Res (thr st) t x)).
Proof.
  intros Q Ht u Hu. cbn [LockLTS.thr]. rewrite upd_thr_other by lia. exact (Q u Hu).
Qed.

Lemma tstep_lt st t r : quiet_above st -> tstep st t = Some r -> (t < n)%nat.
Proof.
  intros Q H. destruct (Nat.lt_ge_cases t n) as [Hu|Hu]; [exact Hu|].
  destruct (Q t Hu) as (d & E). unfold LockExec.tstep in H. rewrite E in H. discriminate H.
Qed.

(* one step, given t < n *)
Lemma tstep_sound_lt : forall st t st' l,
  quiet_above st -> (t < n)%nat -> tstep st t = Some (st', l) -> step st l st' /\ quiet_above st'.
Proof.
  intros st t st' l Q Ht H. unfold LockExec.tstep in H.
  destruct (thr st t) as [todo done|s rest acc todo done|s p rest acc todo done|done] eqn:E.
  - destruct todo as [|c todo]; [discriminate H|]. inversion H; subst; clear H.
    split; [eapply st_invoke; exact E|apply quiet_upd; assumption].
  - destruct (can_acquireb Cell Res slot_of multi_reader locking n st s) eqn:C; [|discriminate H].
    inversion H; subst; clear H.
    split; [eapply st_acquire; [exact E|apply can_acquireb_sound; assumption]|apply quiet_upd; assumption].
  - destruct p as [r|f]; inversion H; subst; clear H.
    + split; [eapply st_release; exact E|apply quiet_upd; assumption].
    + split; [eapply st_step; exact E|apply quiet_upd; assumption].
  - discriminate H.
Qed.

Lemma tstep_sound : forall st t st' l,
  quiet_above st -> tstep st t = Some (st', l) -> step st l st' /\ quiet_above st'.
Proof.
  intros st t st' l Q H. eapply tstep_sound_lt; [exact Q|eapply tstep_lt; eassumption|exact H].
Qed.

Lemma tpanic_sound : forall st t st' l,
  quiet_above st -> (t < n)%nat -> tpanic st t = Some (st', l) -> step st l st' /\ quiet_above st'.
Proof.
  intros st t st' l Q Ht H. unfold LockExec.tpanic in H.
  destruct (thr st t) as [todo done|s rest acc todo done|s p rest acc todo done|done] eqn:E;
    [| | |discriminate H]; inversion H; subst; clear H.
  - split; [eapply st_panic_idle; exact E|apply quiet_upd; assumption].
  - split; [eapply st_panic_wait; exact E|apply quiet_upd; assumption].
  - split; [eapply st_panic_run; exact E|apply quiet_upd; assumption].
Qed.

(* ---------------- executions ---------------- *)
Lemma exec_app : forall st ls st' ls' st'',
  exec st ls st' -> exec st' ls' st'' -> exec st (ls ++ ls') st''.
Proof.
  intros st ls st' ls' st'' H. induction H as [st|st l st1 ls st2 Hs He IH]; intros H'; [exact H'|].
  cbn [app]. econstructor; [exact Hs|apply IH; exact H'].
Qed.

Lemma exec_one st l st' : step st l st' -> exec st [l] st'.
Proof. intros H. econstructor; [exact H|constructor]. Qed.

Lemma drain_sound : forall fuel st t acc st' ls st0,
  quiet_above st -> (t < n)%nat -> exec st0 (rev acc) st ->
  drain fuel st t acc = (st', ls) -> exec st0 ls st' /\ quiet_above st'.
Proof.
  induction fuel as [|f IH]; intros st t acc st' ls st0 Q Ht He H; cbn [LockExec.drain] in H.
  - inversion H; subst. split; assumption.
  - destruct (silent Cell Res locking st t).
    + destruct (tstep st t) as [[st1 l]|] eqn:T.
      * destruct (tstep_sound_lt st t st1 l Q Ht T) as (Hs & Q1).
        eapply IH; [exact Q1|exact Ht| |exact H].
        cbn [rev]. eapply exec_app; [exact He|apply exec_one; exact Hs].
      * inversion H; subst. split; assumption.
    + inversion H; subst. split; assumption.
Qed.

Lemma tmacro_sound : forall st t st' ls,
  quiet_above st -> (t < n)%nat -> tmacro st t = Some (st', ls) -> exec st ls st' /\ quiet_above st'.
Proof.
  intros st t st' ls Q Ht H. unfold LockExec.tmacro in H.
  destruct (tstep st t) as [[st1 l]|] eqn:T; [|discriminate H].
  destruct (tstep_sound_lt st t st1 l Q Ht T) as (Hs & Q1).
  destruct (drain 64 st1 t [l]) as [a b] eqn:D. inversion H; subst a b; clear H.
  eapply drain_sound; [exact Q1|exact Ht| |exact D]. cbn [rev app]. apply exec_one. exact Hs.
Qed.

Lemma run_sched_sound : forall sched st st' ls,
  quiet_above st -> (forall t pn, In (t, pn) sched -> (t < n)%nat) ->
  run_sched st sched = Some (st', ls) -> exec st ls st' /\ quiet_above st'.
Proof.
  induction sched as [|[t pn] r IH]; intros st st' ls Q Hb H; cbn [LockExec.run_sched] in H.
  - inversion H; subst. split; [constructor|exact Q].
  - assert (Ht : (t < n)%nat) by (apply (Hb t pn); left; reflexivity).
    assert (Hr : forall t' pn', In (t', pn') r -> (t' < n)%nat) by (intros t' pn' I; apply (Hb t' pn'); right; exact I).
    destruct (tmacro st t) as [[st1 ls1]|] eqn:M; [|discriminate H].
    destruct (tmacro_sound st t st1 ls1 Q Ht M) as (E1 & Q1).
    assert (P : exists st2 ls2,
      (if pn then match tpanic st1 t with Some (s, l) => (s, [l]) | None => (st1, []) end else (st1, [])) = (st2, ls2)
      /\ exec st1 ls2 st2 /\ quiet_above st2).
    { destruct pn.
      - destruct (tpanic st1 t) as [[s l]|] eqn:P.
        + destruct (tpanic_sound st1 t s l Q1 Ht P) as (Hs & Q2).
          exists s, [l]. split; [reflexivity|]. split; [apply exec_one; exact Hs|exact Q2].
        + exists st1, []. split; [reflexivity|]. split; [constructor|exact Q1].
      - exists st1, []. split; [reflexivity|]. split; [constructor|exact Q1]. }
    destruct P as (st2 & ls2 & EP & E2 & Q2). rewrite EP in H.
    destruct (run_sched st2 r) as [[st3 ls3]|] eqn:R; [|discriminate H].
    inversion H; subst; clear H.
    destruct (IH st2 st' ls3 Q2 Hr R) as (E3 & Q3).
    split; [|exact Q3]. eapply exec_app; [exact E1|]. eapply exec_app; [exact E2|exact E3].
Qed.

End S.
