(* LockLin.v — the generic linearizability theorem behind props/C03.v: ghost reference map
   advanced as [lin_replay] does, invariant over all reachable states. *)
From Rend Require Import base.Bytes conc.LockLTS conc.LockBasics.
Open Scope N_scope.

Local Arguments thr {Cell Res} s _.
Local Arguments cells {Cell Res} s _.
Local Arguments mkSt {Cell Res} cells thr.
Local Arguments TIdle {Cell Res} todo done.
Local Arguments TWait {Cell Res} s rest acc todo done.
Local Arguments TRun {Cell Res} s p rest acc todo done.
Local Arguments TDead {Cell Res} done.
Local Arguments upd_cell {Cell} f k c _.
Local Arguments upd_thr {Cell Res} f t x _.
Local Arguments next_after {Cell Res} rest acc todo done.
Local Arguments exclusive {Cell Res} multi_reader s.
Local Arguments in_section {Cell Res} slot_of multi_reader st t a excl.
Local Arguments holds {Cell Res} slot_of multi_reader st t a.
Local Arguments can_acquire {Cell Res} slot_of multi_reader locking st s.
Local Arguments LInvoke {Cell Res} t.
Local Arguments LAcquire {Cell Res} t s.
Local Arguments LStep {Cell Res} t.
Local Arguments LRelease {Cell Res} t s r.
Local Arguments LPanic {Cell Res} t.
Local Arguments step {Cell Res} slot_of multi_reader locking _ _ _.
Local Arguments exec {Cell Res} slot_of multi_reader locking _ _ _.
Local Arguments quiescent {Cell Res} st.
Local Arguments no_panic {Cell Res} ls.
Local Arguments initial {Cell Res} st.
Local Arguments observed {Cell Res} ls t.
Local Arguments predicted {Res} out t.

Section Lin.
Variables (Cell Res V : Type) (slot_of : bytes -> N) (multi_reader : bool).
Variables (cinv : Cell -> Prop) (absv : Cell -> V).
Variables (wspec : section Cell Res -> V -> V * Res) (rspec : section Cell Res -> V -> Res).

Notation good := (good_section Cell Res V cinv absv wspec rspec).
Notation grp := (good_reader_prog Cell Res V cinv absv rspec).
Notation lin := (lin_replay Cell Res V wspec rspec).
Notation excl := (exclusive multi_reader).
Notation tstate := (tstate Cell Res).

Definition isrun (x : tstate) (s : section Cell Res) (p : cprog Cell Res) : Prop :=
  exists rest acc todo done, x = TRun s p rest acc todo done.
Definition runs (th : nat -> tstate) (t : nat) s p : Prop := isrun (th t) s p.

Lemma runs_upd_same th t x s p : runs (upd_thr th t x) t s p <-> isrun x s p.
Proof. unfold runs. rewrite upd_thr_same. tauto. Qed.
Lemma runs_upd_other th t x u s p : u <> t -> (runs (upd_thr th t x) u s p <-> runs th u s p).
Proof. intros H. unfold runs. rewrite upd_thr_other by exact H. tauto. Qed.
Lemma runs_upd th t x u s p : runs (upd_thr th t x) u s p ->
  (u = t /\ isrun x s p) \/ (u <> t /\ runs th u s p).
Proof.
  intros H. destruct (Nat.eq_dec u t) as [->|N].
  - left. split; [reflexivity|]. exact (proj1 (runs_upd_same _ _ _ _ _) H).
  - right. split; [exact N|]. exact (proj1 (runs_upd_other _ _ _ _ _ _ N) H).
Qed.
Lemma isrun_inj s p rest acc todo done s' p' :
  isrun (TRun s p rest acc todo done) s' p' -> s' = s /\ p' = p.
Proof. intros (a & b & c & d & E). inversion E; subst; auto. Qed.
Lemma next_after_norun rest acc todo done s p : ~ isrun (next_after rest acc todo done) s p.
Proof. intros (a & b & c & d & E). destruct rest; discriminate E. Qed.

Definition secs_good (l : list (section Cell Res)) : Prop := forall s, In s l -> good s.
Definition todo_good (l : list (command Cell Res)) : Prop := forall c s, In c l -> In s c -> good s.
Definition tgood (x : tstate) : Prop :=
  match x with
  | TIdle todo _ => todo_good todo
  | TWait s rest _ todo _ => good s /\ secs_good rest /\ todo_good todo
  | TRun s _ rest _ todo _ => good s /\ secs_good rest /\ todo_good todo
  | TDead _ => True
  end.
Lemma tgood_next rest acc todo done : secs_good rest -> todo_good todo -> tgood (next_after rest acc todo done).
Proof.
  intros H1 H2. destruct rest as [|s r]; cbn [next_after tgood]; [exact H2|].
  split; [apply H1; left; reflexivity|]. split; [|exact H2]. intros s' I. apply H1. right. exact I.
Qed.

Record Inv (cs : bytes -> Cell) (th : nat -> tstate) (m : bytes -> V) : Prop := mkInv {
  i_good : forall t, tgood (th t);
  i_excl : forall t u s p s' p', t <> u -> runs th t s p -> runs th u s' p' ->
             slot_of (s_key s) = slot_of (s_key s') -> excl s = false;
  i_idle : forall k, (forall t s p, runs th t s p -> s_write s = true -> s_key s <> k) ->
             cinv (cs k) /\ absv (cs k) = m k;
  i_wr : forall t s p, runs th t s p -> s_write s = true ->
           cinv (fst (crun p (cs (s_key s)))) /\ absv (fst (crun p (cs (s_key s)))) = m (s_key s);
  i_rd : forall t s p, runs th t s p -> s_write s = false -> grp s (m (s_key s)) p }.

Lemma wr_excl cs th m t u s p s' p' : Inv cs th m -> t <> u -> runs th t s p -> runs th u s' p' ->
  s_write s = true -> s_key s' <> s_key s.
Proof.
  intros I N R R' W E. pose proof (i_excl _ _ _ I t u s p s' p' N R R') as X.
  rewrite E in X. specialize (X eq_refl). unfold exclusive in X. rewrite W in X. discriminate X.
Qed.
(* a reader's key has no writer *)
Lemma rd_nowriter cs th m t s p : Inv cs th m -> runs th t s p -> s_write s = false ->
  forall u s' p', runs th u s' p' -> s_write s' = true -> s_key s' <> s_key s.
Proof.
  intros I R W u s' p' R' W' E. destruct (Nat.eq_dec u t) as [->|N].
  - destruct R as (a & b & c & d & R), R' as (a' & b' & c' & d' & R'). rewrite R in R'. inversion R'; subst. congruence.
  - pose proof (i_excl _ _ _ I u t s' p' s p N R' R) as X. rewrite E in X. specialize (X eq_refl).
    unfold exclusive in X. rewrite W' in X. discriminate X.
Qed.

Definition pending (cs : bytes -> Cell) (th : nat -> tstate) (t : nat) : list Res :=
  match th t with
  | TRun s p _ _ _ _ => if s_write s then [snd (crun p (cs (s_key s)))] else []
  | _ => []
  end.

Lemma pending_other cs th t x u : u <> t -> pending cs (upd_thr th t x) u = pending cs th u.
Proof. intros H. unfold pending. rewrite upd_thr_other by exact H. reflexivity. Qed.

Lemma obs_nil_cons (l : label Cell Res) ls t : observed (l :: ls) t = observed [l] t ++ observed ls t.
Proof. unfold observed. cbn [flat_map]. rewrite app_nil_r. reflexivity. Qed.
Lemma pred_app (a b : list (nat * Res)) t : predicted (a ++ b) t = predicted a t ++ predicted b t.
Proof. unfold predicted. apply flat_map_app. Qed.
Lemma lin_cons l ls m :
  lin (l :: ls) m = let '(m1, o1) := lin [l] m in let '(m', out) := lin ls m1 in (m', o1 ++ out).
Proof.
  destruct l as [t|t s|t|t s r|t]; cbn [lin_replay]; try (destruct (lin ls m); reflexivity).
  - destruct (s_write s); [|destruct (lin ls m); reflexivity].
    destruct (wspec s (m (s_key s))) as [v' res]. destruct (lin ls _); reflexivity.
  - destruct (s_write s); destruct (lin ls m); reflexivity.
Qed.

(* ---------------- one step ---------------- *)
Lemma step_inv st l st1 m :
  step slot_of multi_reader true st l st1 -> (forall u, l <> LPanic u) -> Inv (cells st) (thr st) m ->
  let '(m1, o1) := lin [l] m in
  Inv (cells st1) (thr st1) m1 /\
  forall u, observed [l] u ++ pending (cells st1) (thr st1) u = pending (cells st) (thr st) u ++ predicted o1 u.
Proof.
  intros Hs Hnp I. inversion Hs; subst; cbn [lin_replay cells thr]; try (exfalso; eapply Hnp; reflexivity).
  - (* invoke *)
    rename H into E. pose proof (i_good _ _ _ I t) as G. rewrite E in G. cbn [tgood] in G.
    assert (NR : forall s p, ~ runs (thr st) t s p).
    { intros s p (a & b & c' & d & R). congruence. }
    split.
    + constructor.
      * intros u. destruct (Nat.eq_dec u t) as [->|N]; [rewrite upd_thr_same|rewrite upd_thr_other by exact N; apply (i_good _ _ _ I)].
        apply tgood_next; [intros s Hin; apply (G c s); [left; reflexivity|exact Hin]|].
        intros c' s Hc Hin. apply (G c' s); [right; exact Hc|exact Hin].
      * intros a b s p s' p' N R R' Es.
        apply runs_upd in R. destruct R as [[_ R]|[Na R]]; [exfalso; eapply next_after_norun; exact R|].
        apply runs_upd in R'. destruct R' as [[_ R']|[Nb R']]; [exfalso; eapply next_after_norun; exact R'|].
        exact (i_excl _ _ _ I a b s p s' p' N R R' Es).
      * intros k Hk. apply (i_idle _ _ _ I). intros u s p R W.
        destruct (Nat.eq_dec u t) as [->|N]; [exfalso; eapply NR; exact R|].
        apply (Hk u s p); [apply runs_upd_other; assumption|exact W].
      * intros u s p R W. apply runs_upd in R.
        destruct R as [[_ R]|[N R]]; [exfalso; eapply next_after_norun; exact R|]. eapply (i_wr _ _ _ I); eauto.
      * intros u s p R W. apply runs_upd in R.
        destruct R as [[_ R]|[N R]]; [exfalso; eapply next_after_norun; exact R|]. eapply (i_rd _ _ _ I); eauto.
    + intros u. cbn [observed flat_map predicted app]. rewrite app_nil_r.
      destruct (Nat.eq_dec u t) as [->|N]; [|apply pending_other; exact N].
      unfold pending. rewrite upd_thr_same, E. destruct c; reflexivity.
  - (* acquire *)
    rename H into E, H0 into CA. pose proof (i_good _ _ _ I t) as G. rewrite E in G. cbn [tgood] in G.
    destruct G as (Gs & Gr & Gt).
    assert (NR : forall s p, ~ runs (thr st) t s p).
    { intros s' p (a & b & c' & d & R). congruence. }
    set (k := s_key s) in *.
    (* nobody else is in a section that conflicts with s *)
    assert (X : forall u s' p', runs (thr st) u s' p' -> slot_of (s_key s') = slot_of k ->
                excl s = false /\ excl s' = false).
    { intros u s' p' (a & b & c' & d & R) Es. unfold can_acquire in CA. cbn [negb] in CA. fold k in CA.
      destruct (excl s) eqn:Ex.
      - exfalso. apply (CA u). exists (excl s'), s', p', a, b, c', d. auto.
      - split; [reflexivity|]. destruct (excl s') eqn:Ex'; [|reflexivity].
        exfalso. apply (CA u). exists s', p', a, b, c', d. auto. }
    assert (Gex : forall a b s0 p s' p', a <> b -> runs (upd_thr (thr st) t (TRun s (s_prog s) rest acc todo done)) a s0 p ->
                  runs (upd_thr (thr st) t (TRun s (s_prog s) rest acc todo done)) b s' p' ->
                  slot_of (s_key s0) = slot_of (s_key s') -> excl s0 = false).
    { intros a b s0 p s' p' N R R' Es.
      apply runs_upd in R. apply runs_upd in R'.
      destruct R as [[-> R]|[Na R]], R' as [[-> R']|[Nb R']].
      - congruence.
      - apply isrun_inj in R. destruct R as [-> ->]. destruct (X b s' p' R' (eq_sym Es)) as [A _]. exact A.
      - apply isrun_inj in R'. destruct R' as [-> ->]. destruct (X a s0 p R Es) as [_ A]. exact A.
      - exact (i_excl _ _ _ I a b s0 p s' p' N R R' Es). }
    assert (Ggood : forall u, tgood (upd_thr (thr st) t (TRun s (s_prog s) rest acc todo done) u)).
    { intros u. destruct (Nat.eq_dec u t) as [->|N]; [rewrite upd_thr_same|rewrite upd_thr_other by exact N; apply (i_good _ _ _ I)].
      cbn [tgood]. auto. }
    destruct (s_write s) eqn:W.
    + (* write section *)
      assert (Ex : excl s = true) by (unfold exclusive; rewrite W; reflexivity).
      assert (NK : forall u s' p', runs (thr st) u s' p' -> s_key s' <> k).
      { intros u s' p' R Ek. destruct (X u s' p' R) as [A _]; [rewrite Ek; reflexivity|congruence]. }
      destruct (i_idle _ _ _ I k) as [Ci Ca].
      { intros u s' p' R _. eapply NK; eauto. }
      pose proof Gs as Gw. unfold good_section in Gw. rewrite W in Gw. unfold good_writer in Gw.
      specialize (Gw (cells st k) Ci). fold k in Gw.
      destruct (crun (s_prog s) (cells st k)) as [c' r] eqn:Ec. destruct Gw as [Ci' Ew].
      rewrite Ca in Ew. destruct (wspec s (m k)) as [v' res]. inversion Ew; subst v' res. clear Ew.
      split.
      * constructor.
        -- exact Ggood.
        -- exact Gex.
        -- intros k' Hk.
           assert (Nk : k' <> k).
           { intros ->. apply (Hk t s (s_prog s)); [apply runs_upd_same; do 4 eexists; reflexivity|exact W|reflexivity]. }
           apply bytes_eqb_neq in Nk. rewrite Nk. apply (i_idle _ _ _ I). intros u s' p' R W'.
           destruct (Nat.eq_dec u t) as [->|N]; [exfalso; eapply NR; exact R|].
           apply (Hk u s' p'); [apply runs_upd_other; assumption|exact W'].
        -- intros u s' p' R W'. apply runs_upd in R. destruct R as [[-> R]|[N R]].
           ++ apply isrun_inj in R. destruct R as [-> ->]. fold k. rewrite Ec, bytes_eqb_refl. cbn [fst]. auto.
           ++ pose proof (NK u s' p' R) as Nk. apply bytes_eqb_neq in Nk. rewrite Nk. eapply (i_wr _ _ _ I); eauto.
        -- intros u s' p' R W'. apply runs_upd in R. destruct R as [[-> R]|[N R]].
           ++ apply isrun_inj in R. destruct R as [-> ->]. congruence.
           ++ pose proof (NK u s' p' R) as Nk. apply bytes_eqb_neq in Nk. rewrite Nk. eapply (i_rd _ _ _ I); eauto.
      * intros u. cbn [observed flat_map predicted app fst snd].
        destruct (Nat.eq_dec u t) as [->|N].
        -- rewrite Nat.eqb_refl. unfold pending. rewrite upd_thr_same, E, W. fold k. rewrite Ec. reflexivity.
        -- rewrite pending_other by exact N. apply not_eq_sym in N. apply Nat.eqb_neq in N. rewrite N.
           cbn [app]. rewrite app_nil_r. reflexivity.
    + (* read section *)
      split.
      * constructor.
        -- exact Ggood.
        -- exact Gex.
        -- intros k' Hk. apply (i_idle _ _ _ I). intros u s' p' R W'.
           destruct (Nat.eq_dec u t) as [->|N]; [exfalso; eapply NR; exact R|].
           apply (Hk u s' p'); [apply runs_upd_other; assumption|exact W'].
        -- intros u s' p' R W'. apply runs_upd in R. destruct R as [[-> R]|[N R]].
           ++ apply isrun_inj in R. destruct R as [-> ->]. congruence.
           ++ eapply (i_wr _ _ _ I); eauto.
        -- intros u s' p' R W'. apply runs_upd in R. destruct R as [[-> R]|[N R]].
           ++ apply isrun_inj in R. destruct R as [-> ->].
              unfold good_section in Gs. rewrite W in Gs. apply Gs.
           ++ eapply (i_rd _ _ _ I); eauto.
      * intros u. cbn [observed flat_map predicted app]. rewrite app_nil_r.
        destruct (Nat.eq_dec u t) as [->|N]; [|apply pending_other; exact N].
        unfold pending. rewrite upd_thr_same, E, W. reflexivity.
  - (* step *)
    rename H into E. set (k := s_key s) in *.
    assert (R0 : runs (thr st) t s (CStep f)) by (do 4 eexists; exact E).
    pose proof (i_good _ _ _ I t) as G. rewrite E in G. cbn [tgood] in G.
    assert (Ggood : forall u, tgood (upd_thr (thr st) t (TRun s (snd cp) rest acc todo done) u)).
    { intros u. destruct (Nat.eq_dec u t) as [->|N]; [rewrite upd_thr_same|rewrite upd_thr_other by exact N; apply (i_good _ _ _ I)].
      exact G. }
    assert (Gex : forall a b s0 p s' p', a <> b -> runs (upd_thr (thr st) t (TRun s (snd cp) rest acc todo done)) a s0 p ->
                  runs (upd_thr (thr st) t (TRun s (snd cp) rest acc todo done)) b s' p' ->
                  slot_of (s_key s0) = slot_of (s_key s') -> excl s0 = false).
    { intros a b s0 p s' p' N R R' Es.
      apply runs_upd in R. apply runs_upd in R'.
      destruct R as [[-> R]|[Na R]], R' as [[-> R']|[Nb R']].
      - congruence.
      - apply isrun_inj in R. destruct R as [-> ->]. exact (i_excl _ _ _ I t b s (CStep f) s' p' N R0 R' Es).
      - apply isrun_inj in R'. destruct R' as [-> ->]. exact (i_excl _ _ _ I a t s0 p s (CStep f) N R R0 Es).
      - exact (i_excl _ _ _ I a b s0 p s' p' N R R' Es). }
    (* writers of other threads are on other keys *)
    assert (OW : forall u s' p', u <> t -> runs (thr st) u s' p' -> s_write s' = true -> s_key s' <> k).
    { intros u s' p' N R W' Ek. destruct (s_write s) eqn:W.
      - eapply (wr_excl _ _ _ u t s' p' s (CStep f) I); eauto.
      - eapply (rd_nowriter _ _ _ t s (CStep f) I R0 W u s' p'); eauto. }
    destruct (s_write s) eqn:W.
    + (* a writer's step *)
      split.
      * constructor.
        -- exact Ggood.
        -- exact Gex.
        -- intros k' Hk.
           assert (Nk : k' <> k).
           { intros ->. apply (Hk t s (snd cp)); [apply runs_upd_same; do 4 eexists; reflexivity|exact W|reflexivity]. }
           rewrite upd_cell_other by exact Nk. apply (i_idle _ _ _ I). intros u s' p' R W'.
           destruct (Nat.eq_dec u t) as [->|N].
           ++ destruct R0 as (a & b & c' & d & R0), R as (a' & b' & c'' & d' & R). rewrite R0 in R. inversion R; subst.
              apply not_eq_sym. exact Nk.
           ++ apply (Hk u s' p'); [apply runs_upd_other; assumption|exact W'].
        -- intros u s' p' R W'. apply runs_upd in R. destruct R as [[-> R]|[N R]].
           ++ apply isrun_inj in R. destruct R as [-> ->]. fold k. rewrite upd_cell_same.
              pose proof (i_wr _ _ _ I t s (CStep f) R0 W) as Q. exact Q.
           ++ rewrite upd_cell_other by (eapply OW; eauto). eapply (i_wr _ _ _ I); eauto.
        -- intros u s' p' R W'. apply runs_upd in R. destruct R as [[-> R]|[N R]].
           ++ apply isrun_inj in R. destruct R as [-> ->]. congruence.
           ++ eapply (i_rd _ _ _ I); eauto.
      * intros u. cbn [observed flat_map predicted app]. rewrite app_nil_r.
        destruct (Nat.eq_dec u t) as [->|N].
        -- unfold pending. rewrite upd_thr_same, E, W. fold k. rewrite upd_cell_same. reflexivity.
        -- rewrite pending_other by exact N. unfold pending.
           destruct (thr st u) as [| |s' p' r' a' t' d'|] eqn:Eu; try reflexivity.
           destruct (s_write s') eqn:W'; [|reflexivity].
           rewrite upd_cell_other; [reflexivity|]. eapply (OW u s' p'); eauto. do 4 eexists; exact Eu.
    + (* a reader's step *)
      destruct (i_idle _ _ _ I k) as [Ci Ca].
      { intros u s' p' R W'. destruct (Nat.eq_dec u t) as [->|N]; [|eapply OW; eauto].
        destruct R0 as (a & b & c' & d & R0), R as (a' & b' & c'' & d' & R). rewrite R0 in R. inversion R; subst. congruence. }
      pose proof (i_rd _ _ _ I t s (CStep f) R0 W) as Q. cbn [good_reader_prog] in Q. fold k in Q.
      destruct (Q (cells st k) Ci Ca) as (Q1 & Q2 & Q3). fold cp in Q1, Q2, Q3.
      split.
      * constructor.
        -- exact Ggood.
        -- exact Gex.
        -- intros k' Hk. destruct (key_eq_dec k' k) as [->|Nk].
           ++ rewrite upd_cell_same. auto.
           ++ rewrite upd_cell_other by exact Nk. apply (i_idle _ _ _ I). intros u s' p' R W'.
              destruct (Nat.eq_dec u t) as [->|N].
              ** destruct R0 as (a & b & c' & d & R0), R as (a' & b' & c'' & d' & R). rewrite R0 in R. inversion R; subst. congruence.
              ** apply (Hk u s' p'); [apply runs_upd_other; assumption|exact W'].
        -- intros u s' p' R W'. apply runs_upd in R. destruct R as [[-> R]|[N R]].
           ++ apply isrun_inj in R. destruct R as [-> ->]. congruence.
           ++ rewrite upd_cell_other by (eapply OW; eauto). eapply (i_wr _ _ _ I); eauto.
        -- intros u s' p' R W'. apply runs_upd in R. destruct R as [[-> R]|[N R]].
           ++ apply isrun_inj in R. destruct R as [-> ->]. exact Q3.
           ++ eapply (i_rd _ _ _ I); eauto.
      * intros u. cbn [observed flat_map predicted app]. rewrite app_nil_r.
        destruct (Nat.eq_dec u t) as [->|N].
        -- unfold pending. rewrite upd_thr_same, E, W. reflexivity.
        -- rewrite pending_other by exact N. unfold pending.
           destruct (thr st u) as [| |s' p' r' a' t' d'|] eqn:Eu; try reflexivity.
           destruct (s_write s') eqn:W'; [|reflexivity].
           rewrite upd_cell_other; [reflexivity|]. eapply (OW u s' p'); eauto. do 4 eexists; exact Eu.
  - (* release *)
    rename H into E. set (k := s_key s) in *.
    assert (R0 : runs (thr st) t s (CRet r)) by (do 4 eexists; exact E).
    pose proof (i_good _ _ _ I t) as G. rewrite E in G. cbn [tgood] in G. destruct G as (Gs & Gr & Gt).
    assert (Ggood : forall u, tgood (upd_thr (thr st) t (next_after rest (acc ++ [r]) todo done) u)).
    { intros u. destruct (Nat.eq_dec u t) as [->|N]; [rewrite upd_thr_same|rewrite upd_thr_other by exact N; apply (i_good _ _ _ I)].
      apply tgood_next; assumption. }
    assert (Gex : forall a b s0 p s' p', a <> b -> runs (upd_thr (thr st) t (next_after rest (acc ++ [r]) todo done)) a s0 p ->
                  runs (upd_thr (thr st) t (next_after rest (acc ++ [r]) todo done)) b s' p' ->
                  slot_of (s_key s0) = slot_of (s_key s') -> excl s0 = false).
    { intros a b s0 p s' p' N R R' Es.
      apply runs_upd in R. destruct R as [[_ R]|[Na R]]; [exfalso; eapply next_after_norun; exact R|].
      apply runs_upd in R'. destruct R' as [[_ R']|[Nb R']]; [exfalso; eapply next_after_norun; exact R'|].
      exact (i_excl _ _ _ I a b s0 p s' p' N R R' Es). }
    assert (Gwr : forall u s' p', runs (upd_thr (thr st) t (next_after rest (acc ++ [r]) todo done)) u s' p' -> s_write s' = true ->
              cinv (fst (crun p' (cells st (s_key s')))) /\ absv (fst (crun p' (cells st (s_key s')))) = m (s_key s')).
    { intros u s' p' R W'. apply runs_upd in R.
      destruct R as [[_ R]|[N R]]; [exfalso; eapply next_after_norun; exact R|]. eapply (i_wr _ _ _ I); eauto. }
    assert (Grd : forall u s' p', runs (upd_thr (thr st) t (next_after rest (acc ++ [r]) todo done)) u s' p' -> s_write s' = false ->
              grp s' (m (s_key s')) p').
    { intros u s' p' R W'. apply runs_upd in R.
      destruct R as [[_ R]|[N R]]; [exfalso; eapply next_after_norun; exact R|]. eapply (i_rd _ _ _ I); eauto. }
    assert (PO : forall u, u <> t -> pending (cells st) (upd_thr (thr st) t (next_after rest (acc ++ [r]) todo done)) u =
                                      pending (cells st) (thr st) u).
    { intros u N. apply pending_other; exact N. }
    assert (PT : pending (cells st) (upd_thr (thr st) t (next_after rest (acc ++ [r]) todo done)) t = []).
    { unfold pending. rewrite upd_thr_same. destruct rest; reflexivity. }
    destruct (s_write s) eqn:W.
    + split.
      * constructor; auto.
        intros k' Hk. destruct (key_eq_dec k' k) as [->|Nk].
        -- pose proof (i_wr _ _ _ I t s (CRet r) R0 W) as Q. cbn [crun fst] in Q. exact Q.
        -- apply (i_idle _ _ _ I). intros u s' p' R W'.
           destruct (Nat.eq_dec u t) as [->|N].
           ++ destruct R0 as (a & b & c' & d & R0), R as (a' & b' & c'' & d' & R). rewrite R0 in R. inversion R; subst.
              apply not_eq_sym. exact Nk.
           ++ apply (Hk u s' p'); [apply runs_upd_other; assumption|exact W'].
      * intros u. cbn [observed flat_map predicted app]. rewrite app_nil_r.
        destruct (Nat.eq_dec u t) as [->|N].
        -- rewrite Nat.eqb_refl, PT. unfold pending. rewrite E, W. reflexivity.
        -- rewrite PO by exact N. apply not_eq_sym in N. apply Nat.eqb_neq in N. rewrite N.
           cbn [app]. rewrite app_nil_r. reflexivity.
    + split.
      * constructor; auto.
        intros k' Hk. apply (i_idle _ _ _ I). intros u s' p' R W'.
        destruct (Nat.eq_dec u t) as [->|N].
        -- destruct R0 as (a & b & c' & d & R0), R as (a' & b' & c'' & d' & R). rewrite R0 in R. inversion R; subst. congruence.
        -- apply (Hk u s' p'); [apply runs_upd_other; assumption|exact W'].
      * intros u. cbn [observed flat_map predicted app fst snd].
        pose proof (i_rd _ _ _ I t s (CRet r) R0 W) as Q. cbn [good_reader_prog] in Q. fold k in Q.
        destruct (Nat.eq_dec u t) as [->|N].
        -- rewrite Nat.eqb_refl, PT. unfold pending. rewrite E, W. cbn [app]. rewrite Q. reflexivity.
        -- rewrite PO by exact N. apply not_eq_sym in N. apply Nat.eqb_neq in N. rewrite N.
           cbn [app]. rewrite app_nil_r. reflexivity.
Qed.

Lemma exec_inv st ls st' : exec slot_of multi_reader true st ls st' -> no_panic ls ->
  forall m, Inv (cells st) (thr st) m ->
  let '(m', out) := lin ls m in
  Inv (cells st') (thr st') m' /\
  forall u, observed ls u ++ pending (cells st') (thr st') u = pending (cells st) (thr st) u ++ predicted out u.
Proof.
  induction 1 as [st|st l st1 ls st2 Hs He IH]; intros Hnp m I.
  - cbn [lin_replay]. split; [exact I|]. intros u. cbn. rewrite app_nil_r. reflexivity.
  - assert (Hnp1 : forall u, l <> LPanic u).
    { intros u ->. apply (Hnp u). left. reflexivity. }
    assert (Hnp2 : no_panic ls).
    { intros u Hin. apply (Hnp u). right. exact Hin. }
    rewrite lin_cons. pose proof (step_inv _ _ _ m Hs Hnp1 I) as S.
    destruct (lin [l] m) as [m1 o1]. destruct S as [I1 O1].
    specialize (IH Hnp2 m1 I1). destruct (lin ls m1) as [m' out]. destruct IH as [I2 O2].
    split; [exact I2|]. intros u. rewrite obs_nil_cons, pred_app, <- app_assoc, O2, app_assoc, O1, app_assoc. reflexivity.
Qed.

Lemma linearizable_generic :
  forall (st0 st : state Cell Res) (ls : list (label Cell Res)),
  initial st0 -> all_good Cell Res V cinv absv wspec rspec st0 ->
  (forall k, cinv (cells st0 k)) ->
  exec slot_of multi_reader true st0 ls st -> no_panic ls -> quiescent st ->
  let '(m, out) := lin ls (fun k => absv (cells st0 k)) in
  (forall t, observed ls t = predicted out t) /\
  (forall k, cinv (cells st k) /\ absv (cells st k) = m k).
Proof.
  intros st0 st ls Hi Hg Hc He Hnp Hq.
  assert (NR : forall t s p, ~ runs (thr st0) t s p).
  { intros t s p (a & b & c & d & R). destruct (Hi t) as (todo & E). congruence. }
  assert (I0 : Inv (cells st0) (thr st0) (fun k => absv (cells st0 k))).
  { constructor.
    - intros t. destruct (Hi t) as (todo & E). rewrite E. cbn [tgood]. intros c s Hc' Hs. eapply Hg; eauto.
    - intros t u s p s' p' _ R. exfalso. eapply NR; eauto.
    - intros k _. auto.
    - intros t s p R. exfalso. eapply NR; eauto.
    - intros t s p R. exfalso. eapply NR; eauto. }
  pose proof (exec_inv _ _ _ He Hnp _ I0) as X.
  destruct (lin ls (fun k => absv (cells st0 k))) as [m out]. destruct X as [I O].
  split.
  - intros t. specialize (O t). unfold pending in O.
    destruct (Hi t) as (todo & E). destruct (Hq t) as (todo' & done' & E'). rewrite E, E' in O.
    rewrite app_nil_r in O. exact O.
  - intros k. apply (i_idle _ _ _ I). intros t s p (a & b & c & d & R). destruct (Hq t) as (todo' & done' & E'). congruence.
Qed.
End Lin.
