(* LockExec.v — an executable scheduler for the lock LTS (the harness replays the schedule the
   real code was driven through) and the lock striping function of orcas/locked.go. *)
From Rend Require Import base.Bytes conc.LockLTS.
Open Scope N_scope.

(* hash/fnv New32a: offset basis 2166136261, prime 16777619, xor then multiply, mod 2^32 *)
Definition fnv1a32 (k : bytes) : N :=
  fold_left (fun h b => (N.lxor h b * 16777619) mod 4294967296) k 2166136261.
(* bucket := int(h.Sum32()); bucket &= len(locks)-1   with len(locks) = 2^c *)
Definition lock_slot (c : N) (k : bytes) : N := N.land (fnv1a32 k) (2 ^ c - 1).

Section Exec.
Variables Cell Res : Type.
Variable slot_of : bytes -> N.
Variables multi_reader locking : bool.
Variable nthreads : nat.

Notation state := (state Cell Res).
Notation exclusive := (exclusive Cell Res multi_reader).

Definition in_sectionb (st : state) (t : nat) (a : N) (excl : bool) : bool :=
  match thr Cell Res st t with
  | TRun _ _ s _ _ _ _ _ => (slot_of (s_key s) =? a) && Bool.eqb (exclusive s) excl
  | _ => false
  end.
Definition holdsb (st : state) (t : nat) (a : N) : bool := in_sectionb st t a true || in_sectionb st t a false.
Definition can_acquireb (st : state) (s : section Cell Res) : bool :=
  let a := slot_of (s_key s) in
  if negb locking then true
  else if exclusive s then forallb (fun t => negb (holdsb st t a)) (seq 0 nthreads)
  else forallb (fun t => negb (in_sectionb st t a true)) (seq 0 nthreads).

(* thread t takes its next step, if it has one that is enabled *)
Definition tstep (st : state) (t : nat) : option (state * label Cell Res) :=
  match thr Cell Res st t with
  | TIdle _ _ (c :: todo) done =>
      Some (mkSt Cell Res (cells Cell Res st) (upd_thr Cell Res (thr Cell Res st) t (next_after Cell Res c [] todo done)),
            LInvoke Cell Res t)
  | TWait _ _ s rest acc todo done =>
      if can_acquireb st s
      then Some (mkSt Cell Res (cells Cell Res st)
                      (upd_thr Cell Res (thr Cell Res st) t (TRun Cell Res s (s_prog s) rest acc todo done)),
                 LAcquire Cell Res t s)
      else None
  | TRun _ _ s (CStep f) rest acc todo done =>
      let cp := f (cells Cell Res st (s_key s)) in
      Some (mkSt Cell Res (upd_cell Cell (cells Cell Res st) (s_key s) (fst cp))
                 (upd_thr Cell Res (thr Cell Res st) t (TRun Cell Res s (snd cp) rest acc todo done)),
            LStep Cell Res t)
  | TRun _ _ s (CRet r) rest acc todo done =>
      Some (mkSt Cell Res (cells Cell Res st)
                 (upd_thr Cell Res (thr Cell Res st) t (next_after Cell Res rest (acc ++ [r]) todo done)),
            LRelease Cell Res t s r)
  | _ => None
  end.

(* a panic of thread t (any state but finished/dead) *)
Definition tpanic (st : state) (t : nat) : option (state * label Cell Res) :=
  let dead := fun done => Some (mkSt Cell Res (cells Cell Res st) (upd_thr Cell Res (thr Cell Res st) t (TDead Cell Res done)),
                                LPanic Cell Res t) in
  match thr Cell Res st t with
  | TRun _ _ _ _ _ _ _ done | TWait _ _ _ _ _ _ done | TIdle _ _ _ done => dead done
  | TDead _ _ _ => None
  end.

(* The implementation's scheduling points are: a backend call about to be executed, a lock
   request (only with the wrapper), the end of a command. Between two of them a thread performs
   one visible step followed by the silent ones: releases, and — without the wrapper —
   acquisitions. [silent] says whether thread t would move on without being scheduled. *)
Definition silent (st : state) (t : nat) : bool :=
  match thr Cell Res st t with
  | TRun _ _ _ (CRet _) _ _ _ _ => true
  | TWait _ _ _ _ _ _ _ => negb locking
  | _ => false
  end.
Fixpoint drain (fuel : nat) (st : state) (t : nat) (acc : list (label Cell Res)) : state * list (label Cell Res) :=
  match fuel with
  | O => (st, rev acc)
  | S f => if silent st t then
             match tstep st t with
             | Some (st', l) => drain f st' t (l :: acc)
             | None => (st, rev acc)
             end
           else (st, rev acc)
  end.
Definition tmacro (st : state) (t : nat) : option (state * list (label Cell Res)) :=
  match tstep st t with
  | Some (st', l) => Some (drain 64 st' t [l])
  | None => None
  end.

(* schedule entries: (thread, the injected panic fired during this step) *)
Fixpoint run_sched (st : state) (sched : list (nat * bool)) : option (state * list (label Cell Res)) :=
  match sched with
  | [] => Some (st, [])
  | (t, pn) :: r =>
      match tmacro st t with
      | Some (st1, ls1) =>
          let '(st2, ls2) := if pn then match tpanic st1 t with Some (s, l) => (s, [l]) | None => (st1, []) end
                             else (st1, []) in
          match run_sched st2 r with Some (st'', ls) => Some (st'', ls1 ++ ls2 ++ ls) | None => None end
      | None => None
      end
  end.

Definition thread_done (st : state) (t : nat) : list (list Res) :=
  match thr Cell Res st t with
  | TIdle _ _ _ d | TWait _ _ _ _ _ _ d | TRun _ _ _ _ _ _ _ d | TDead _ _ d => d
  end.
End Exec.
