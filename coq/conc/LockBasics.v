(* LockBasics.v — bookkeeping facts about the lock LTS and the lemmas behind props/C12.v
   (locks are released on every outcome, at most one lock per connection, no deadlock). *)
From Rend Require Import base.Bytes conc.LockLTS.
Open Scope N_scope.

Local Arguments thr {Cell Res} s _.
Local Arguments cells {Cell Res} s _.
Local Arguments mkSt {Cell Res} cells thr.
Local Arguments TIdle {Cell Res} todo done.
Local Arguments TWait {Cell Res} s rest acc todo done.
Local Arguments TRun {Cell Res} s p rest acc todo done.
Local Arguments TDead {Cell Res} done.
Local Arguments upd_cell {Cell} f k c _.
Local Arguments upd_thr {Cell Res} f t x _.
Local Arguments next_after {Cell Res} rest acc todo done.
Local Arguments exclusive {Cell Res} multi_reader s.
Local Arguments in_section {Cell Res} slot_of multi_reader st t a excl.
Local Arguments holds {Cell Res} slot_of multi_reader st t a.
Local Arguments can_acquire {Cell Res} slot_of multi_reader locking st s.
Local Arguments LInvoke {Cell Res} t.
Local Arguments LAcquire {Cell Res} t s.
Local Arguments LStep {Cell Res} t.
Local Arguments LRelease {Cell Res} t s r.
Local Arguments LPanic {Cell Res} t.
Local Arguments step {Cell Res} slot_of multi_reader locking _ _ _.
Local Arguments exec {Cell Res} slot_of multi_reader locking _ _ _.
Local Arguments unfinished {Cell Res} st t.
Local Arguments initial {Cell Res} st.

(* ---------------- updates ---------------- *)
Lemma upd_thr_same {Cell Res} (f : nat -> tstate Cell Res) t x : upd_thr f t x t = x.
Proof. unfold upd_thr. rewrite Nat.eqb_refl. reflexivity. Qed.
Lemma upd_thr_other {Cell Res} (f : nat -> tstate Cell Res) t x u : u <> t -> upd_thr f t x u = f u.
Proof. intros H. unfold upd_thr. apply Nat.eqb_neq in H. rewrite H. reflexivity. Qed.
Lemma upd_cell_same {Cell} (f : bytes -> Cell) k c : upd_cell f k c k = c.
Proof. unfold upd_cell. rewrite bytes_eqb_refl. reflexivity. Qed.
Lemma upd_cell_other {Cell} (f : bytes -> Cell) k c k' : k' <> k -> upd_cell f k c k' = f k'.
Proof. intros H. unfold upd_cell. apply bytes_eqb_neq in H. rewrite H. reflexivity. Qed.

(* a step by thread t leaves every other thread's state alone *)
Definition actor {Cell Res} (l : label Cell Res) : nat :=
  match l with LInvoke t | LAcquire t _ | LStep t | LRelease t _ _ | LPanic t => t end.

Lemma step_other {Cell Res} slot_of mr lk (st st' : state Cell Res) l u :
  step slot_of mr lk st l st' -> u <> actor l -> thr st' u = thr st u.
Proof. intros H Hu. inversion H; subst; cbn [thr actor] in *; apply upd_thr_other; exact Hu. Qed.

(* ---------------- C12 ---------------- *)
Section C12.
Variables (Cell Res : Type) (slot_of : bytes -> N) (multi_reader : bool).

Lemma holds_run (st : state Cell Res) t a : holds slot_of multi_reader st t a ->
  exists s p rest acc todo done, thr st t = TRun s p rest acc todo done /\ slot_of (s_key s) = a.
Proof. intros (e & s & p & rest & acc & todo & done & H & A & _). eauto 10. Qed.

Lemma released : forall (st0 : state Cell Res) ls st t,
  exec slot_of multi_reader true st0 ls st ->
  (match thr st t with TIdle _ _ | TDead _ | TWait _ _ _ _ _ => True | TRun _ _ _ _ _ _ => False end) ->
  forall a, ~ holds slot_of multi_reader st t a.
Proof.
  intros st0 ls st t _ H a Hh. apply holds_run in Hh.
  destruct Hh as (s & p & rest & acc & todo & done & E & _). rewrite E in H. exact H.
Qed.

Lemma panic_closes : forall (st st' : state Cell Res) t,
  step slot_of multi_reader true st (LPanic t) st' ->
  (exists done, thr st' t = TDead done) /\ forall a, ~ holds slot_of multi_reader st' t a.
Proof.
  intros st st' t H.
  assert (E : exists done, thr st' t = TDead done).
  { inversion H; subst; cbn [thr]; rewrite upd_thr_same; eauto. }
  split; [exact E|]. intros a Hh. apply holds_run in Hh.
  destruct E as (d & E). destruct Hh as (s & p & rest & acc & todo & done & E' & _). congruence.
Qed.

Lemma at_most_one : forall (st : state Cell Res) t a b,
  holds slot_of multi_reader st t a -> holds slot_of multi_reader st t b -> a = b.
Proof.
  intros st t a b Ha Hb. apply holds_run in Ha. apply holds_run in Hb.
  destruct Ha as (s & p & rest & acc & todo & done & E & A).
  destruct Hb as (s' & p' & rest' & acc' & todo' & done' & E' & B).
  rewrite E in E'. inversion E'; subst. reflexivity.
Qed.

Lemma next_proceeds : forall (st : state Cell Res) t s rest acc todo done,
  thr st t = TWait s rest acc todo done ->
  (forall u, ~ holds slot_of multi_reader st u (slot_of (s_key s))) ->
  exists st', step slot_of multi_reader true st (LAcquire t s) st'.
Proof.
  intros st t s rest acc todo done E H. eexists. eapply st_acquire; [exact E|].
  unfold can_acquire. cbn [negb]. destruct (exclusive multi_reader s); [exact H|].
  intros u Hu. apply (H u). exists true. exact Hu.
Qed.

(* all but finitely many threads are idle *)
Definition is_run (x : tstate Cell Res) : bool := match x with TRun _ _ _ _ _ _ => true | _ => false end.
Definition fin_support (st : state Cell Res) (L : list nat) : Prop :=
  forall u, ~ In u L -> is_run (thr st u) = false.

Lemma fin_support_step lk st l st' L :
  step slot_of multi_reader lk st l st' -> fin_support st L -> fin_support st' (actor l :: L).
Proof.
  intros H F u Hu. rewrite (step_other _ _ _ _ _ _ _ H); [apply F|]; intros C; apply Hu; [right|left]; auto.
Qed.
Lemma fin_support_exec lk st ls st' : exec slot_of multi_reader lk st ls st' ->
  forall L, fin_support st L -> exists L', fin_support st' L'.
Proof.
  induction 1 as [st|st l st1 ls st2 Hs He IH]; intros L F; [eauto|].
  eapply IH. eapply fin_support_step; eauto.
Qed.

Lemma find_runner (st : state Cell Res) L :
  (exists u, is_run (thr st u) = true) \/ (forall u, In u L -> is_run (thr st u) = false).
Proof.
  induction L as [|a L IH]; [right; intros u []|].
  destruct IH as [IH|IH]; [left; exact IH|].
  destruct (is_run (thr st a)) eqn:E; [left; eauto|].
  right. intros u [<-|Hu]; auto.
Qed.

(* [initial st0] is needed: over an arbitrary (infinite) thread table "is somebody inside a
   section" is not decidable, and the conclusion is a constructive existence of a step *)
Lemma no_deadlock : forall (st0 : state Cell Res) ls st t,
  initial st0 -> exec slot_of multi_reader true st0 ls st -> unfinished st t ->
  exists l st', step slot_of multi_reader true st l st' /\ (forall u, l <> LPanic u).
Proof.
  intros st0 ls st t Hi He Hu.
  assert (F0 : fin_support st0 []).
  { intros u _. destruct (Hi u) as (todo & E). rewrite E. reflexivity. }
  destruct (fin_support_exec _ _ _ _ He [] F0) as (L & F).
  assert (D : (exists u, is_run (thr st u) = true) \/ (forall u, is_run (thr st u) = false)).
  { destruct (find_runner st L) as [D|D]; [left; exact D|]. right. intros u.
    destruct (in_dec Nat.eq_dec u L) as [I|I]; [apply D; exact I|apply F; exact I]. }
  destruct D as [(u & R)|D].
  - destruct (thr st u) as [| |s p rest acc todo done|] eqn:E; try discriminate R.
    destruct p as [r|f].
    + eexists (LRelease u s r), _. split; [eapply st_release; exact E|]. intros; discriminate.
    + eexists (LStep u), _. split; [eapply st_step; exact E|]. intros; discriminate.
  - unfold unfinished in Hu. destruct (thr st t) as [todo done|s rest acc todo done|s p rest acc todo done|done] eqn:E.
    + destruct todo as [|c todo]; [destruct Hu|].
      eexists (LInvoke t), _. split; [eapply st_invoke; exact E|]. intros; discriminate.
    + eexists (LAcquire t s), _. split; [|intros; discriminate].
      eapply st_acquire; [exact E|].
      assert (N : forall u a, ~ holds slot_of multi_reader st u a).
      { intros u a Hh. apply holds_run in Hh. destruct Hh as (s' & p' & r' & a' & t' & d' & E' & _).
        specialize (D u). rewrite E' in D. discriminate D. }
      unfold can_acquire. cbn [negb]. destruct (exclusive multi_reader s); [intros u; apply N|].
      intros u Hh. apply (N u (slot_of (s_key s))). exists true. exact Hh.
    + specialize (D t). rewrite E in D. discriminate D.
    + destruct Hu.
Qed.
End C12.
