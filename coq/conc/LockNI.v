(* LockNI.v — the lemma behind props/C14.v: threads working on disjoint key sets observe
   exactly their solo runs, with or without the locking wrapper. *)
From Rend Require Import base.Bytes conc.LockLTS conc.LockBasics.
Open Scope N_scope.

Local Arguments thr {Cell Res} s _.
Local Arguments cells {Cell Res} s _.
Local Arguments mkSt {Cell Res} cells thr.
Local Arguments TIdle {Cell Res} todo done.
Local Arguments TWait {Cell Res} s rest acc todo done.
Local Arguments TRun {Cell Res} s p rest acc todo done.
Local Arguments TDead {Cell Res} done.
Local Arguments upd_cell {Cell} f k c _.
Local Arguments upd_thr {Cell Res} f t x _.
Local Arguments next_after {Cell Res} rest acc todo done.
Local Arguments LInvoke {Cell Res} t.
Local Arguments LAcquire {Cell Res} t s.
Local Arguments LStep {Cell Res} t.
Local Arguments LRelease {Cell Res} t s r.
Local Arguments LPanic {Cell Res} t.
Local Arguments step {Cell Res} slot_of multi_reader locking _ _ _.
Local Arguments exec {Cell Res} slot_of multi_reader locking _ _ _.
Local Arguments quiescent {Cell Res} st.
Local Arguments no_panic {Cell Res} ls.
Local Arguments unfinished {Cell Res} st t.
Local Arguments initial {Cell Res} st.
Local Arguments observed {Cell Res} ls t.

(* the same definitions as in props/C14.v (convertible) *)
Definition ni_thread_keys {Cell Res} (st0 : state Cell Res) (t : nat) (k : bytes) : Prop :=
  exists todo done c s, thr st0 t = TIdle todo done /\ In c todo /\ In s c /\ s_key s = k.

Fixpoint ni_solo_secs {Cell Res} (secs : list (section Cell Res)) (cs : bytes -> Cell) : (bytes -> Cell) * list Res :=
  match secs with
  | [] => (cs, [])
  | s :: r => let '(c', x) := crun (s_prog s) (cs (s_key s)) in
              let '(cs', xs) := ni_solo_secs r (upd_cell cs (s_key s) c') in (cs', x :: xs)
  end.

Section NI.
Variables (Cell Res : Type) (slot_of : bytes -> N) (multi_reader locking : bool).
Notation tstate := (tstate Cell Res).
Notation solo := (@ni_solo_secs Cell Res).

(* the sections a thread still has to run, the current one with its residual program *)
Definition remsecs (x : tstate) : list (section Cell Res) :=
  match x with
  | TIdle todo _ => concat todo
  | TWait s rest _ todo _ => s :: rest ++ concat todo
  | TRun s p rest _ todo _ => mkSec (s_key s) (s_write s) p :: rest ++ concat todo
  | TDead _ => []
  end.

Lemma remsecs_next rest acc todo done : remsecs (next_after rest acc todo done) = rest ++ concat todo.
Proof. destruct rest; reflexivity. Qed.

(* solo runs only look at, and only change, the keys of their sections *)
Lemma solo_agree (P : bytes -> Prop) : forall secs cs1 cs2,
  (forall s, In s secs -> P (s_key s)) -> (forall k, P k -> cs1 k = cs2 k) ->
  snd (solo secs cs1) = snd (solo secs cs2) /\ forall k, P k -> fst (solo secs cs1) k = fst (solo secs cs2) k.
Proof.
  induction secs as [|s r IH]; intros cs1 cs2 HP Hc; cbn [ni_solo_secs].
  - cbn [fst snd]. auto.
  - rewrite <- (Hc (s_key s)) by (apply HP; left; reflexivity).
    destruct (crun (s_prog s) (cs1 (s_key s))) as [c' x].
    specialize (IH (upd_cell cs1 (s_key s) c') (upd_cell cs2 (s_key s) c')).
    destruct IH as [A B].
    + intros s' I. apply HP. right. exact I.
    + intros k Pk. unfold upd_cell. destruct (bytes_eqb k (s_key s)); auto.
    + destruct (solo r (upd_cell cs1 (s_key s) c')) as [a xs], (solo r (upd_cell cs2 (s_key s) c')) as [b ys].
      cbn [fst snd] in *. split; [congruence|exact B].
Qed.

Lemma solo_ext secs cs1 cs2 : (forall k, cs1 k = cs2 k) ->
  snd (solo secs cs1) = snd (solo secs cs2) /\ forall k, fst (solo secs cs1) k = fst (solo secs cs2) k.
Proof.
  intros H. destruct (solo_agree (fun _ => True) secs cs1 cs2) as [A B]; auto.
Qed.

Variable st0 : state Cell Res.
Notation owns := (ni_thread_keys st0).
Hypothesis disjoint : forall t u k, t <> u -> owns t k -> ~ owns u k.

(* every section a thread still has is on one of its keys *)
Definition owned (th : nat -> tstate) : Prop := forall u s, In s (remsecs (th u)) -> owns u (s_key s).

Lemma owned_step st l st' : step slot_of multi_reader locking st l st' -> owned (thr st) -> owned (thr st').
Proof.
  intros Hs O u s0 I. destruct (Nat.eq_dec u (actor l)) as [->|N].
  2:{ rewrite (step_other _ _ _ _ _ _ _ Hs N) in I. apply O. exact I. }
  inversion Hs; subst; cbn [thr actor] in *; rewrite upd_thr_same in I;
    match goal with E : thr st ?t = _ |- _ => pose proof (O t) as Ot; rewrite E in Ot; cbn [remsecs] in Ot end.
  - rewrite remsecs_next in I. apply Ot. exact I.
  - cbn [remsecs] in I. destruct I as [<-|I]; [apply (Ot s); left; reflexivity|apply Ot; right; exact I].
  - cbn [remsecs] in I. destruct I as [<-|I]; [apply (Ot (mkSec (s_key s) (s_write s) (CStep f))); left; reflexivity|apply Ot; right; exact I].
  - rewrite remsecs_next in I. apply Ot. right. exact I.
  - destruct I.
  - destruct I.
  - destruct I.
Qed.

(* one step, seen from thread t *)
Lemma step_solo st l st' t : step slot_of multi_reader locking st l st' -> (forall u, l <> LPanic u) ->
  owned (thr st) ->
  snd (solo (remsecs (thr st t)) (cells st)) = observed [l] t ++ snd (solo (remsecs (thr st' t)) (cells st')) /\
  forall k, owns t k -> fst (solo (remsecs (thr st t)) (cells st)) k = fst (solo (remsecs (thr st' t)) (cells st')) k.
Proof.
  intros Hs Hnp O. destruct (Nat.eq_dec t (actor l)) as [->|N].
  - inversion Hs; subst; cbn [thr cells actor observed flat_map app] in *; try (exfalso; eapply Hnp; reflexivity);
      rewrite upd_thr_same; match goal with E : thr st ?t = _ |- _ => rewrite E end.
    + rewrite remsecs_next. cbn [remsecs concat]. auto.
    + cbn [remsecs ni_solo_secs s_key s_prog]. auto.
    + cbn [remsecs ni_solo_secs s_key s_prog crun]. fold cp.
      rewrite upd_cell_same. destruct (crun (snd cp) (fst cp)) as [c' x].
      destruct (solo_ext (rest ++ concat todo) (upd_cell (cells st) (s_key s) c')
                  (upd_cell (upd_cell (cells st) (s_key s) (fst cp)) (s_key s) c')) as [A B].
      { intros k. unfold upd_cell. destruct (bytes_eqb k (s_key s)); reflexivity. }
      destruct (solo (rest ++ concat todo) (upd_cell (cells st) (s_key s) c')) as [a xs].
      destruct (solo (rest ++ concat todo) (upd_cell (upd_cell (cells st) (s_key s) (fst cp)) (s_key s) c')) as [b ys].
      cbn [fst snd] in *. split; [congruence|intros; apply B].
    + rewrite remsecs_next, Nat.eqb_refl. cbn [remsecs ni_solo_secs s_key s_prog crun app].
      destruct (solo_ext (rest ++ concat todo) (upd_cell (cells st) (s_key s) (cells st (s_key s))) (cells st)) as [A B].
      { intros k. unfold upd_cell. destruct (bytes_eqb k (s_key s)) eqn:Ek; [|reflexivity].
        apply bytes_eqb_eq in Ek. subst. reflexivity. }
      destruct (solo (rest ++ concat todo) (upd_cell (cells st) (s_key s) (cells st (s_key s)))) as [a xs].
      destruct (solo (rest ++ concat todo) (cells st)) as [b ys].
      cbn [fst snd] in *. split; [congruence|intros; apply B].
  - rewrite (step_other _ _ _ _ _ _ _ Hs N).
    assert (Ob : observed [l] t = []).
    { destruct l; cbn [observed flat_map app actor] in *; try reflexivity.
      apply not_eq_sym in N. apply Nat.eqb_neq in N. rewrite N. reflexivity. }
    rewrite Ob. cbn [app].
    apply (solo_agree (owns t)).
    + intros s I. apply O. exact I.
    + intros k Hk. inversion Hs; subst; cbn [cells actor] in *; try reflexivity.
      rewrite upd_cell_other; [reflexivity|]. intros ->.
      apply (disjoint t t0 (s_key s) N Hk). apply (O t0 (mkSec (s_key s) (s_write s) (CStep f))).
      match goal with E : thr st ?t0 = _ |- _ => rewrite E end. cbn [remsecs]. left. reflexivity.
Qed.

Lemma exec_solo st ls st' t : exec slot_of multi_reader locking st ls st' -> no_panic ls -> owned (thr st) ->
  snd (solo (remsecs (thr st t)) (cells st)) = observed ls t ++ snd (solo (remsecs (thr st' t)) (cells st')) /\
  forall k, owns t k -> fst (solo (remsecs (thr st t)) (cells st)) k = fst (solo (remsecs (thr st' t)) (cells st')) k.
Proof.
  induction 1 as [st|st l st1 ls st2 Hs He IH]; intros Hnp O.
  - cbn. auto.
  - assert (Hnp1 : forall u, l <> LPanic u).
    { intros u ->. apply (Hnp u). left. reflexivity. }
    assert (Hnp2 : no_panic ls).
    { intros u Hin. apply (Hnp u). right. exact Hin. }
    destruct (step_solo _ _ _ t Hs Hnp1 O) as [A B].
    destruct (IH Hnp2 (owned_step _ _ _ Hs O)) as [A' B'].
    split.
    + rewrite A, A'. unfold observed. cbn [flat_map]. rewrite app_nil_r, app_assoc. reflexivity.
    + intros k Hk. rewrite B, B' by exact Hk. reflexivity.
Qed.
End NI.

(* Statement change w.r.t. the first draft of props/C14.v: [~ unfinished st t] is required of
   the thread whose observations are compared with its solo run ([quiescent] alone allows
   commands that were never invoked: st = st0, ls = [] is a counterexample). *)
Lemma noninterference :
  forall (Cell Res : Type) (slot_of : bytes -> N) (multi_reader locking : bool)
         (st0 st : state Cell Res) (ls : list (label Cell Res)),
  initial st0 ->
  (forall t u k, t <> u -> ni_thread_keys st0 t k -> ~ ni_thread_keys st0 u k) ->
  exec slot_of multi_reader locking st0 ls st -> no_panic ls -> quiescent st ->
  forall t todo, thr st0 t = TIdle todo [] -> ~ unfinished st t ->
    let '(cs', xs) := ni_solo_secs (concat todo) (cells st0) in
    observed ls t = xs /\ (forall k, ni_thread_keys st0 t k -> cells st k = cs' k).
Proof.
  intros Cell Res slot_of mr lk st0 st ls Hi Hd He Hnp Hq t todo E Hf.
  assert (O : owned Cell Res st0 (thr st0)).
  { intros u s I. destruct (Hi u) as (td & Eu). rewrite Eu in I. cbn [remsecs] in I.
    apply in_concat in I. destruct I as (c & Ic & Is). exists td, [], c, s. auto. }
  destruct (exec_solo Cell Res slot_of mr lk st0 Hd st0 ls st t He Hnp O) as [A B].
  rewrite E in A, B. cbn [remsecs] in A, B.
  destruct (Hq t) as (todo' & done' & E'). unfold unfinished in Hf. rewrite E' in Hf.
  destruct todo' as [|c todo']; [|exfalso; apply Hf; exact I].
  rewrite E' in A, B. cbn [remsecs concat ni_solo_secs fst snd] in A, B. rewrite app_nil_r in A.
  destruct (ni_solo_secs (concat todo) (cells st0)) as [cs' xs]. cbn [fst snd] in A, B.
  split; [symmetry; exact A|]. intros k Hk. symmetry. apply B. exact Hk.
Qed.
