(* LockShape.v — the LOCK DISCIPLINE of orcas/locked.go as data.
   `rendharness locktrans` reads /repo/orcas/locked.go on every run and writes, for every request
   method of *LockedOrca, one value of [lock_shape] (gen/Locked_gen.v): which lock the method
   takes, in which mode, how it is acquired and released, what it hands to the wrapped
   orchestrator, what its panic handler does. [locked_model] is what the hand-written models
   (orca/Orcas.v [locked], conc/LockInst.v [sections_of]) assume; gen/LockedLink.v proves the
   extracted shapes equal to it, conc/LockShapeProofs.v proves that [sections_of] and [locked]
   are exactly what the shapes of [locked_model] prescribe ([shape_plan], [shape_prog]).
   Everything the extractor does not recognise is an `...Other "<source text>"` constructor: it is
   equal to no model entry, so the link lemma of that method fails.
   Definitions only. *)
From Coq Require Import String.
From Rend Require Import base.Bytes gen.Consts_gen spec.MapSpec orca.Types handlers.Std orca.Orcas
  proto.Resp orca.OrcaSpec conc.LockLTS conc.LockExec conc.LockInst.
Open Scope N_scope.

(* the request methods of LockedOrca (LM...: MSet/MAdd/MReplace are taken by MapSpec.smode) *)
Inductive lmethod := LMSet | LMAdd | LMReplace | LMAppend | LMPrepend | LMDelete | LMTouch | LMGat
                   | LMGet | LMGetE | LMNoop | LMQuit | LMVersion | LMStat | LMUnknown.
Definition all_lmethods : list lmethod :=
  [LMSet; LMAdd; LMReplace; LMAppend; LMPrepend; LMDelete; LMTouch; LMGat; LMGet; LMGetE;
   LMNoop; LMQuit; LMVersion; LMStat; LMUnknown].

(* ---------------- the per-method record ---------------- *)
(* (b) first argument of getlock *)
Inductive key_expr :=
| KeyOfReq                       (* req.Key *)
| KeyOfLoop                      (* the value variable of `for idx, key := range req.Keys` *)
| KeyOther (src : string).       (* anything else, e.g. req.Keys[0] *)
(* (c) second argument of getlock: the literal false / true *)
Inductive lock_mode := ModeWrite | ModeRead | ModeOther (src : string).
(* (e) `v := l.getlock(..)` (or `v = ..`), `v.Lock()` as the very next statement, exactly once,
   before the call of the wrapped orchestrator *)
Inductive acquire_shape := AcquireBeforeCall | AcquireOther (what : string).
(* (d) *)
Inductive release_shape :=
| ReleaseDeferred                (* `defer v.Unlock()` as the statement right after `v.Lock()`, no other Unlock *)
| ReleaseBeforeErrCheck          (* `v.Unlock()` as the statement right after the wrapped call and before
                                    `if ret != nil { break }`; no defer, no other Unlock *)
| ReleaseOther (what : string).
(* (f) *)
Inductive call_shape :=
| CallSame                       (* l.wrapped.<this method>(req), its result is what the method returns *)
| CallPerKeySub                  (* l.wrapped.<this method>(subreq), subreq = common.GetRequest{Keys: [][]byte{key},
                                    Opaques: []uint32{req.Opaques[idx]}, Quiet: []bool{req.Quiet[idx]},
                                    NoopOpaque/NoopEnd: zero, req.NoopOpaque/req.NoopEnd iff idx == len(req.Keys)-1} *)
| CallOther (what : string).
(* (g) the deferred `func() { if r := recover(); r != nil { ... } }()` registered before the loop *)
Inductive panic_shape :=
| NoPanicHandler
| PanicHandler (unlocks repanics : bool)   (* unlocks: `if v != nil { v.Unlock() }` on the variable the loop locks;
                                              repanics: `panic(r)` after it; nothing else in the handler *)
| PanicHandlerExtra (unlocks repanics : bool) (extra : string)   (* the same plus statements that are neither *)
| PanicOther (what : string).
(* the loop ends with `if ret != nil { break }` on the wrapped call's result (a method-level
   `var ret error`), and `return ret` follows the loop *)
Inductive stop_shape := StopOnError | StopOther (what : string).

(* (a) *)
Inductive lock_shape :=
| LNone (c : call_shape)                                                      (* no getlock, no Lock/Unlock *)
| LSingle (k : key_expr) (m : lock_mode) (a : acquire_shape) (r : release_shape) (c : call_shape)
| LPerKey (k : key_expr) (m : lock_mode) (a : acquire_shape) (r : release_shape) (c : call_shape)
          (p : panic_shape) (s : stop_shape)                                  (* inside `for idx, key := range req.Keys` *)
| LOther (what : string).

(* ---------------- the model table ---------------- *)
Definition single_write : lock_shape := LSingle KeyOfReq ModeWrite AcquireBeforeCall ReleaseDeferred CallSame.
Definition per_key_read : lock_shape :=
  LPerKey KeyOfLoop ModeRead AcquireBeforeCall ReleaseBeforeErrCheck CallPerKeySub (PanicHandler true true) StopOnError.
Definition pass_through : lock_shape := LNone CallSame.

Definition locked_model (m : lmethod) : lock_shape :=
  match m with
  | LMSet | LMAdd | LMReplace | LMAppend | LMPrepend | LMDelete | LMTouch | LMGat => single_write
  | LMGet | LMGetE => per_key_read
  | LMNoop | LMQuit | LMVersion | LMStat | LMUnknown => pass_through
  end.

(* the method the server loop dispatches a request to *)
Definition method_of (r : req) : lmethod :=
  match r with
  | RSet MSet _ _ _ _ _ _ => LMSet | RSet MAdd _ _ _ _ _ _ => LMAdd | RSet MReplace _ _ _ _ _ _ => LMReplace
  | RCat false _ _ _ _ => LMAppend | RCat true _ _ _ _ => LMPrepend
  | RDelete _ _ => LMDelete | RTouch _ _ _ => LMTouch | RGat _ _ _ => LMGat
  | RGet _ _ _ => LMGet | RGetE _ _ _ => LMGetE
  | RNoop _ => LMNoop | RQuit _ _ => LMQuit | RVersion _ => LMVersion | RStat _ => LMStat | RUnknown => LMUnknown
  end.

(* ---------------- what a shape prescribes ---------------- *)
Definition mode_write (m : lock_mode) : option bool :=
  match m with ModeWrite => Some true | ModeRead => Some false | ModeOther _ => None end.

Definition req_gets (r : req) : option (bool * list gitem * N * bool) :=
  match r with
  | RGet items no ne => Some (false, items, no, ne)
  | RGetE items no ne => Some (true, items, no, ne)
  | _ => None
  end.

Definition enumerate {A} (l : list A) : list (nat * A) := combine (seq 0 (length l)) l.

(* the sub-request of the idx-th of n keys, as the loop body builds it: one key, its opaque and
   quiet flag, the noop fields only when idx == n-1 *)
Definition sub_get_at (gete : bool) (n : nat) (no : N) (ne : bool) (idx : nat) (it : gitem) : req :=
  let last := Nat.eqb idx (n - 1) in
  let no' := if last then no else 0 in
  let ne' := if last then ne else false in
  if gete then RGetE [it] no' ne' else RGet [it] no' ne'.
Definition sub_gets (gete : bool) (items : list gitem) (no : N) (ne : bool) : list (bytes * req) :=
  map (fun x => (gi_key (snd x), sub_get_at gete (length items) no ne (fst x) (snd x))) (enumerate items).

(* The PLAN of a request under a shape: the ordered list of (key whose lock is taken, write mode?,
   request handed to the wrapped orchestrator while it is held); each lock is released before
   the next is taken. Only the fully recognised shapes have a plan. *)
Definition shape_plan (sh : lock_shape) (r : req) : option (list (bytes * bool * req)) :=
  match sh with
  | LNone CallSame => Some []
  | LSingle KeyOfReq m AcquireBeforeCall ReleaseDeferred CallSame =>
      match req_key r, mode_write m with
      | Some k, Some w => Some [(k, w, r)]
      | _, _ => None
      end
  | LPerKey KeyOfLoop m AcquireBeforeCall ReleaseBeforeErrCheck CallPerKeySub (PanicHandler true true) StopOnError =>
      match req_gets r, mode_write m with
      | Some (gete, items, no, ne), Some w => Some (map (fun kq => (fst kq, w, snd kq)) (sub_gets gete items no ne))
      | _, _ => None
      end
  | _ => None
  end.

(* a plan as sections of the lock LTS: the body of a section is the wrapped orchestrator's
   program for the planned request, on the cell of the locked key *)
Definition plan_sections (now : N) (k : orcakind) (pl : list (bytes * bool * req)) : list (section cell sres) :=
  map (fun x => let '(key, w, q) := x in mkSec key w (to_cprog_gen now (is_one k) key (base_orca k q) [])) pl.

(* the (lock index, exclusive?) pairs a list of sections acquires, in order *)
Definition sec_locks {C R : Type} (slot_of : bytes -> N) (multi_reader : bool) (secs : list (section C R)) : list (N * bool) :=
  map (fun s => (slot_of (s_key s), exclusive C R multi_reader s)) secs.

(* sequential view: run the planned requests in order, stop at the first error (the lock is
   released BEFORE the error is looked at, so nothing else happens in between) *)
Fixpoint seq_progs (ps : list prog) : prog :=
  match ps with
  | [] => Ret None
  | [p] => p
  | p :: rest => thenp p (seq_progs rest)
  end.
Definition shape_prog (wrapped : req -> prog) (sh : lock_shape) (r : req) : option prog :=
  match sh, shape_plan sh r with
  | LPerKey _ _ _ _ _ _ _, Some pl => Some (seq_progs (map (fun x => wrapped (snd x)) pl))
  | _, Some _ => Some (wrapped r)
  | _, None => None
  end.

(* ---------------- the lock set: getlock, the constructors, getNewLocks ---------------- *)
Inductive gtable := GLocks | GRlocks | GTabOther (src : string).   (* package-level locks[slot] / rlocks[slot] *)
Inductive ftable := FLocks | FRlocks | FTabOther (src : string).   (* fields l.locks / l.rlocks *)
Inductive slot_shape :=
| SlotNew                        (* Locked: slot := getNewLocks(multipleReaders, concurrency), both tables indexed by it *)
| SlotExisting                   (* LockedWithExisting: both tables indexed by the locksetID parameter *)
| SlotOther (src : string).
Inductive hash_shape := HashFnv32a | HashOther (src : string).       (* hashpool's New returns fnv.New32a() *)
(* &LockedOrca{wrapped: oc(l1, l2, res), locks: <gtable>[i], rlocks: <gtable>[i], hpool: hashpool} *)
Inductive ctor_shape :=
| Ctor (locks_from rlocks_from : gtable) (slot : slot_shape) (h : hash_shape)
| CtorOther (what : string).
(* h := l.hpool.Get().(hash.Hash32); defer l.hpool.Put(h); h.Reset(); h.Write(key);
   bucket := int(h.Sum32()); bucket &= len(l.locks) - 1 *)
Inductive bucket_shape := BucketHashMask | BucketOther (what : string).
(* ...; if read { return l.<read_from>[bucket] }; return l.<write_from>[bucket] *)
Inductive getlock_shape :=
| GetLock (b : bucket_shape) (read_from write_from : ftable)
| GetLockOther (what : string).
(* what getNewLocks stores at one index of locks[slot] / rlocks[slot] *)
Inductive locker_pair :=
| PairRW                         (* temp := &sync.RWMutex{}: locks = temp, rlocks = temp.RLocker() *)
| PairMutex                      (* temp := &sync.Mutex{}: locks = temp, rlocks = temp *)
| PairOther (what : string).
Inductive size_shape := SizePow2 | SizeOther (src : string).          (* make([]sync.Locker, 1<<concurrency), both *)
Inductive newlocks_shape :=
| NewLocks (sz : size_shape) (multi single : locker_pair)
| NewLocksOther (what : string).

Definition getlock_model : getlock_shape := GetLock BucketHashMask FRlocks FLocks.
Definition ctor_new_model : ctor_shape := Ctor GLocks GRlocks SlotNew HashFnv32a.
Definition ctor_existing_model : ctor_shape := Ctor GLocks GRlocks SlotExisting HashFnv32a.
Definition newlocks_model : newlocks_shape := NewLocks SizePow2 PairRW PairMutex.

(* Does an acquisition in mode m exclude every other holder of the same index? Follow the mode
   through getlock (which field), the constructor (which package table the field is) and
   getNewLocks (what that table holds in this reader mode). *)
Definition acq_exclusive (nl : newlocks_shape) (ct : ctor_shape) (gl : getlock_shape)
                         (multi_reader : bool) (m : lock_mode) : option bool :=
  match gl, ct, nl, mode_write m with
  | GetLock _ rf wf, Ctor lf rlf _ _, NewLocks _ pm ps, Some w =>
      let f := if w then wf else rf in
      let g := match f with FLocks => Some lf | FRlocks => Some rlf | FTabOther _ => None end in
      match g, (if multi_reader then pm else ps) with
      | Some GLocks, PairRW => Some true
      | Some GRlocks, PairRW => Some false
      | Some GLocks, PairMutex | Some GRlocks, PairMutex => Some true
      | _, _ => None
      end
  | _, _, _, _ => None
  end.

(* The index of the lock: with 2^c lockers per table, an FNV-1a hash and the mask len-1, it is
   [lock_slot c]; the write and the read locker of one index are the same mutex (PairRW/PairMutex
   build both from one `temp`). *)
Definition shape_slot (nl : newlocks_shape) (ct : ctor_shape) (gl : getlock_shape) : option (N -> bytes -> N) :=
  match gl, ct, nl with
  | GetLock BucketHashMask _ _, Ctor _ _ _ HashFnv32a, NewLocks SizePow2 _ _ =>
      Some (fun c k => N.land (fnv1a32 k) (2 ^ c - 1))
  | _, _, _ => None
  end.
