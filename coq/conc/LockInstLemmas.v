(* LockInstLemmas.v — connecting the cell programs of conc/LockInst.v to the store-level
   semantics ([run]) of the orchestrators: key-locality, dependence on live values only,
   and the write sections (through OrcaReqLemmas.two_nonget). *)
From Rend Require Import base.Bytes gen.Consts_gen spec.MapSpec orca.Types handlers.Std orca.Orcas
  proto.Resp orca.OrcaSpec orca.OrcaProofs conc.LockLTS conc.LockInst.
Open Scope N_scope.

(* ---------------- one-key stores ---------------- *)
Lemma single_same k c : single k c k = c.
Proof. unfold single. rewrite bytes_eqb_refl. reflexivity. Qed.
Lemma single_other k c k' : k' <> k -> single k c k' = None.
Proof. intros H. unfold single. apply bytes_eqb_neq in H. rewrite H. reflexivity. Qed.
Lemma live_single now k c : live now (single k c) k = olive now c.
Proof. rewrite live_olive, single_same. reflexivity. Qed.
Lemma live_single0 now c : live now (single [] c) [] = olive now c.
Proof. reflexivity. Qed.
Lemma absv_olive now c : absv now c = olive now (snd c).
Proof. reflexivity. Qed.
Lemma olive_idem now o : olive now (olive now o) = olive now o.
Proof. destruct o as [e|]; [|reflexivity]. cbn [olive]. destruct (alive now e) eqn:A; [|reflexivity]. cbn [olive]. rewrite A. reflexivity. Qed.

Lemma upd_single k c v : store_eq (upd (single k c) k v) (single k v).
Proof. intros k'. unfold upd, single. destruct (bytes_eqb k' k); reflexivity. Qed.

Lemma cinv_rel now c : cinv now c <-> rel false now (fst c) (snd c).
Proof.
  unfold cinv, rel. rewrite !live_single0. split.
  - intros H. split; [|discriminate]. intros e1 E. destruct (H e1 E) as (e2 & A & B & C & D).
    exists e2. repeat split; auto. discriminate.
  - intros [H _] e1 E. destruct (H e1 E) as (e2 & A & B & C & D & _). eauto.
Qed.
Lemma cinv_pinv now k c : cinv now c -> pinv false now (single k (fst c)) (single k (snd c)).
Proof.
  intros H k'. unfold single. destruct (bytes_eqb k' k); [apply cinv_rel; exact H|].
  apply rel_any_none. reflexivity.
Qed.
Lemma pinv_cinv now l1 l2 k : pinv false now l1 l2 -> cinv now (l1 k, l2 k).
Proof. intros H. apply cinv_rel. apply (H k). Qed.
Lemma cinv_cold now v : cinv now (None, v).
Proof. apply cinv_rel. split; [intros e1 E; discriminate E|discriminate]. Qed.

(* ---------------- std_exec works on the key of its request only ---------------- *)
Definition hkey (q : hreq) (key : bytes) : Prop :=
  match q with
  | HSet _ k _ _ _ | HCat _ k _ | HDelete k | HTouch k _ | HGat k _ _ => k = key
  | HGet _ | HGetE _ => True
  end.

Lemma std_exec_single now key q c : hkey q key ->
  store_eq (fst (std_exec (single key c) now q)) (single key (fst (std_exec (single key c) now q) key)).
Proof.
  assert (S : forall v, store_eq (upd (single key c) key v) (single key (upd (single key c) key v key))).
  { intros v. rewrite upd_same. apply upd_single. }
  assert (S0 : store_eq (single key c) (single key (single key c key))).
  { rewrite single_same. apply store_eq_refl. }
  intros H. destruct q as [m k d f ttl|fr k d|k|k ttl|items|items|k ttl o]; cbn [hkey] in H; subst; cbn [std_exec].
  - unfold gb_set, gb_put. destruct m, (live now (single key c) key); cbn [fst]; auto.
  - unfold gb_cat. destruct (live now (single key c) key); cbn [fst]; auto.
  - unfold gb_delete. destruct (live now (single key c) key); cbn [fst]; auto.
  - unfold gb_touch. destruct (live now (single key c) key); cbn [fst]; auto.
  - cbn [fst]. auto.
  - cbn [fst]. auto.
  - unfold gb_gat, gb_touch. destruct (live now (single key c) key); cbn [fst]; auto.
Qed.

(* programs all of whose handler calls are on one key *)
Fixpoint onkey (key : bytes) (p : prog) : Prop :=
  match p with
  | Ret _ => True
  | Call _ q f => hkey q key /\ forall h, onkey key (f h)
  | Emit _ p' => onkey key p'
  end.

Ltac onkey_tac :=
  repeat (cbn [onkey hkey orca_misc];
          match goal with
          | |- _ /\ _ => split
          | |- forall _, _ => intro
          | |- True => exact I
          | |- ?a = ?a => reflexivity
          | |- onkey _ (match ?h with _ => _ end) => destruct h
          | |- onkey _ (if ?b then _ else _) => destruct b
          end).

Lemma onkey_base k r key : req_key r = Some key -> onkey key (base_orca k r).
Proof.
  intros H. destruct r; cbn [req_key] in H; inversion H; subst; clear H; destruct k; cbn [base_orca l1only l1l2 l1l2batch];
    try (destruct m); try (destruct front); onkey_tac.
Qed.

(* ---------------- locality: the cell program mirrors [run] on one-key stores ---------------- *)
Section Loc.
Variable now : N.

Lemma crun_call_L1 key q f acc c :
  crun (to_cprog_gen now false key (Call L1 q f) acc) c =
  crun (to_cprog_gen now false key (f (snd (std_exec (single key (fst c)) now q))) acc)
       (fst (std_exec (single key (fst c)) now q) key, snd c).
Proof. cbn [to_cprog_gen negb crun]. destruct (std_exec (single key (fst c)) now q); reflexivity. Qed.
Lemma crun_call_L2 one key q f acc c :
  crun (to_cprog_gen now one key (Call L2 q f) acc) c =
  crun (to_cprog_gen now one key (f (snd (std_exec (single key (snd c)) now q))) acc)
       (fst c, fst (std_exec (single key (snd c)) now q) key).
Proof. cbn [to_cprog_gen crun]. destruct (std_exec (single key (snd c)) now q); reflexivity. Qed.
Lemma crun_call_one key q f acc c :
  crun (to_cprog_gen now true key (Call L1 q f) acc) c =
  crun (to_cprog_gen now true key (f (snd (std_exec (single key (snd c)) now q))) acc)
       (fst c, fst (std_exec (single key (snd c)) now q) key).
Proof. cbn [to_cprog_gen negb crun]. destruct (std_exec (single key (snd c)) now q); reflexivity. Qed.

Definition mkres (acc cs : list rcall) (e : option N) : sres :=
  (render_all Bin (rev acc ++ cs), render_all Text (rev acc ++ cs), e).

Lemma loc2 key p : onkey key p -> forall c1 c2 l1 l2 acc,
  store_eq l1 (single key c1) -> store_eq l2 (single key c2) ->
  let '(l1', l2', cs, e) := run std_exec std_exec p l1 l2 now in
  crun (to_cprog_gen now false key p acc) (c1, c2) = ((l1' key, l2' key), mkres acc cs e).
Proof.
  induction p as [e|t q f IH|c p IH]; intros K c1 c2 l1 l2 acc S1 S2.
  - cbn [run to_cprog_gen crun]. unfold mkres. rewrite app_nil_r, S1, S2, !single_same. reflexivity.
  - cbn [onkey] in K. destruct K as [Kq Kf]. destruct t.
    + rewrite crun_call_L1. cbn [run fst snd].
      destruct (std_exec_ext l1 (single key c1) now q S1) as [A B].
      pose proof (std_exec_single now key q c1 Kq) as C.
      destruct (std_exec l1 now q) as [l1a r], (std_exec (single key c1) now q) as [sa ra].
      cbn [fst snd] in *. subst ra.
      apply (IH r (Kf r) (sa key) c2 l1a l2 acc); [|exact S2].
      eapply store_eq_trans; [exact A|exact C].
    + rewrite crun_call_L2. cbn [run fst snd].
      destruct (std_exec_ext l2 (single key c2) now q S2) as [A B].
      pose proof (std_exec_single now key q c2 Kq) as C.
      destruct (std_exec l2 now q) as [l2a r], (std_exec (single key c2) now q) as [sa ra].
      cbn [fst snd] in *. subst ra.
      apply (IH r (Kf r) c1 (sa key) l1 l2a acc); [exact S1|].
      eapply store_eq_trans; [exact A|exact C].
  - cbn [onkey run to_cprog_gen] in *. specialize (IH K c1 c2 l1 l2 (c :: acc) S1 S2).
    destruct (run std_exec std_exec p l1 l2 now) as [[[a b] cs] e]. rewrite IH. unfold mkres.
    cbn [rev]. rewrite <- !app_assoc. reflexivity.
Qed.

(* one-tier deployment: the only backend is the second component *)
Lemma loc1 key p : onkey key p -> noL2 p -> forall c1 c2 l1 x acc,
  store_eq l1 (single key c2) ->
  let '(l1', _, cs, e) := run std_exec std_exec p l1 x now in
  crun (to_cprog_gen now true key p acc) (c1, c2) = ((c1, l1' key), mkres acc cs e).
Proof.
  induction p as [e|t q f IH|c p IH]; intros K NL c1 c2 l1 x acc S1.
  - cbn [run to_cprog_gen crun]. unfold mkres. rewrite app_nil_r, S1, !single_same. reflexivity.
  - cbn [onkey] in K. destruct K as [Kq Kf]. destruct t; [|destruct NL]. cbn [noL2] in NL.
    rewrite crun_call_one. cbn [run fst snd].
    destruct (std_exec_ext l1 (single key c2) now q S1) as [A B].
    pose proof (std_exec_single now key q c2 Kq) as C.
    destruct (std_exec l1 now q) as [l1a r], (std_exec (single key c2) now q) as [sa ra].
    cbn [fst snd] in *. subst ra.
    apply (IH r (Kf r) (NL r) c1 (sa key) l1a x acc).
    eapply store_eq_trans; [exact A|exact C].
  - cbn [onkey noL2 run to_cprog_gen] in *. specialize (IH K NL c1 c2 l1 x (c :: acc) S1).
    destruct (run std_exec std_exec p l1 x now) as [[[a b] cs] e]. rewrite IH. unfold mkres.
    cbn [rev]. rewrite <- !app_assoc. reflexivity.
Qed.

(* ---------------- handlers see live values only ---------------- *)
Lemma same_live_upd s t k v : same_live now s t -> same_live now (upd s k v) (upd t k v).
Proof.
  intros H k'. rewrite !live_olive. unfold upd. destruct (bytes_eqb k' k); [reflexivity|].
  rewrite <- !live_olive. apply H.
Qed.

Lemma std_get1_live s t w it : same_live now s t -> std_get1 s now w it = std_get1 t now w it.
Proof. intros H. unfold std_get1, gb_get. rewrite (H (gi_key it)). reflexivity. Qed.

Lemma std_exec_live s t q : same_live now s t ->
  same_live now (fst (std_exec s now q)) (fst (std_exec t now q)) /\ snd (std_exec s now q) = snd (std_exec t now q).
Proof.
  intros H. destruct q as [m k d f ttl|fr k d|k|k ttl|items|items|k ttl o]; cbn [std_exec].
  - unfold gb_set, gb_put. rewrite (H k). destruct m, (live now t k); cbn [fst snd]; split; auto using same_live_upd.
  - unfold gb_cat. rewrite (H k). destruct (live now t k); cbn [fst snd]; split; auto using same_live_upd.
  - unfold gb_delete. rewrite (H k). destruct (live now t k); cbn [fst snd]; split; auto using same_live_upd.
  - unfold gb_touch. rewrite (H k). destruct (live now t k); cbn [fst snd]; split; auto using same_live_upd.
  - cbn [fst snd]. split; [exact H|]. f_equal. apply map_ext. intros it. apply std_get1_live; auto.
  - cbn [fst snd]. split; [exact H|]. f_equal. apply map_ext. intros it. apply std_get1_live; auto.
  - unfold gb_gat, gb_touch. rewrite (H k). destruct (live now t k); cbn [fst snd]; split; auto using same_live_upd.
Qed.

Lemma run_live p : noL2 p -> forall s t x y, same_live now s t ->
  let '(s', _, cs, e) := run std_exec std_exec p s x now in
  let '(t', _, cs', e') := run std_exec std_exec p t y now in
  same_live now s' t' /\ cs = cs' /\ e = e'.
Proof.
  induction p as [e|tr q k IH|c p IH]; intros NL s t x y H.
  - cbn [run]. auto.
  - destruct tr; [|destruct NL]. cbn [run noL2] in *.
    destruct (std_exec_live s t q H) as [A B].
    destruct (std_exec s now q) as [s1 r1], (std_exec t now q) as [t1 r2]. cbn [fst snd] in A, B. subst r2.
    apply IH; auto.
  - cbn [run noL2] in *. specialize (IH NL s t x y H).
    destruct (run std_exec std_exec p s x now) as [[[a b'] cs] e].
    destruct (run std_exec std_exec p t y now) as [[[a' b''] cs'] e'].
    destruct IH as (A & -> & ->). auto.
Qed.

Lemma same_live_single key c : same_live now (single key c) (single key (olive now c)).
Proof.
  intros k'. rewrite !live_olive. unfold single. destruct (bytes_eqb k' key); [|reflexivity].
  symmetry. apply olive_idem.
Qed.

(* ---------------- write sections ---------------- *)
Notation rs := (fun s v => ref_sec now s v).

(* two tiers *)
Lemma ref_two k r key v : k <> KL1Only -> req_key r = Some key ->
  let '(s', _, cs0, e0) := run std_exec std_exec (l1only r) (single key v) empty_store now in
  crun (to_cprog_gen now false key (base_orca k r) []) (None, v) =
  ((fst (crun (to_cprog_gen now false key (base_orca k r) []) (None, v))), mkres [] cs0 e0) /\
  absv now (fst (crun (to_cprog_gen now false key (base_orca k r) []) (None, v))) = live now s' key.
Proof.
  intros Hk Hr.
  assert (Hg : is_get r = false) by (destruct r; try discriminate Hr; reflexivity).
  pose proof (cinv_pinv now key (None, v) (cinv_cold now v)) as P. cbn [fst snd] in P.
  pose proof (two_nonget false now (single key None) (single key v) P k r empty_store Hk Hg ltac:(discriminate)) as G.
  unfold goal in G.
  destruct (run std_exec std_exec (l1only r) (single key v) empty_store now) as [[[s' x] cs0] e0].
  destruct G as (l1' & R & P').
  pose proof (loc2 key (base_orca k r) (onkey_base k r key Hr) None v (single key None) (single key v) []
                (store_eq_refl _) (store_eq_refl _)) as L.
  rewrite R in L. rewrite L. cbn [fst]. split; [reflexivity|]. rewrite absv_olive. reflexivity.
Qed.

Lemma writer_two k r key : k <> KL1Only -> req_key r = Some key ->
  good_writer cell sres (option entry) (cinv now) (absv now) rs
    (mkSec key true (to_cprog_gen now false key (base_orca k r) [])).
Proof.
  intros Hk Hr [c1 c2] Hc. cbn [s_prog].
  assert (Hg : is_get r = false) by (destruct r; try discriminate Hr; reflexivity).
  pose proof (cinv_pinv now key (c1, c2) Hc) as P. cbn [fst snd] in P.
  pose proof (two_nonget false now (single key c1) (single key c2) P k r empty_store Hk Hg ltac:(discriminate)) as G.
  unfold goal in G.
  pose proof (run_live (l1only r) (noL2_l1only r) (single key c2) (single key (olive now c2)) empty_store empty_store
                (same_live_single key c2)) as RL.
  destruct (run std_exec std_exec (l1only r) (single key c2) empty_store now) as [[[s' x] cs0] e0].
  destruct G as (l1' & R & P').
  pose proof (loc2 key (base_orca k r) (onkey_base k r key Hr) c1 c2 (single key c1) (single key c2) []
                (store_eq_refl _) (store_eq_refl _)) as L.
  rewrite R in L. rewrite L.
  split; [apply pinv_cinv; exact P'|].
  unfold ref_sec. cbn [s_prog]. rewrite (absv_olive now (c1, c2)). cbn [snd].
  pose proof (ref_two k r key (olive now c2) Hk Hr) as RT.
  destruct (run std_exec std_exec (l1only r) (single key (olive now c2)) empty_store now) as [[[s'' x'] cs0'] e0'].
  destruct RT as [RT1 RT2]. destruct RL as (A & -> & ->).
  rewrite RT1, RT2, absv_olive. cbn [snd]. rewrite <- live_olive, (A key). reflexivity.
Qed.

(* one tier *)
Lemma ref_one r key v : req_key r = Some key ->
  let '(s', _, cs0, e0) := run std_exec std_exec (l1only r) (single key v) empty_store now in
  crun (to_cprog_gen now true key (l1only r) []) (None, v) = ((None, s' key), mkres [] cs0 e0).
Proof.
  intros Hr.
  pose proof (loc1 key (l1only r) (onkey_base KL1Only r key Hr) (noL2_l1only r) None v (single key v) empty_store []
                (store_eq_refl _)) as L.
  destruct (run std_exec std_exec (l1only r) (single key v) empty_store now) as [[[s' x] cs0] e0]. exact L.
Qed.

Definition cinv1 (c : cell) : Prop := fst c = None.

Lemma writer_one r key : req_key r = Some key ->
  good_writer cell sres (option entry) cinv1 (absv now) rs
    (mkSec key true (to_cprog_gen now true key (l1only r) [])).
Proof.
  intros Hr [c1 c2] Hc. unfold cinv1 in Hc. cbn [fst] in Hc. subst c1. cbn [s_prog].
  pose proof (run_live (l1only r) (noL2_l1only r) (single key c2) (single key (olive now c2)) empty_store empty_store
                (same_live_single key c2)) as RL.
  pose proof (ref_one r key c2 Hr) as R1. pose proof (ref_one r key (olive now c2) Hr) as R2.
  destruct (run std_exec std_exec (l1only r) (single key c2) empty_store now) as [[[s' x] cs0] e0].
  destruct (run std_exec std_exec (l1only r) (single key (olive now c2)) empty_store now) as [[[s'' x'] cs0'] e0'].
  destruct RL as (A & -> & ->). rewrite R1. split; [reflexivity|].
  unfold ref_sec. cbn [s_prog]. rewrite (absv_olive now (None, c2)). cbn [snd]. rewrite R2.
  rewrite !absv_olive. cbn [snd]. rewrite <- !live_olive, (A key). reflexivity.
Qed.

Lemma ref_is_single_map_now k r key v :
  in_scope k r = true -> req_key r = Some key ->
  let s := mkSec key true (to_cprog_gen now (is_one k) key (base_orca k r) []) in
  let '(s', _, cs0, e0) := run std_exec std_exec (l1only r) (single key v) empty_store now in
  ref_sec now s v = (live now s' key, (render_all Bin cs0, render_all Text cs0, e0)).
Proof.
  intros _ Hr. cbn zeta. unfold ref_sec. cbn [s_prog].
  assert (K : k = KL1Only \/ k <> KL1Only) by (destruct k; [left; reflexivity|right; discriminate|right; discriminate]).
  destruct K as [->|Hk].
  - cbn [is_one base_orca]. pose proof (ref_one r key v Hr) as R.
    destruct (run std_exec std_exec (l1only r) (single key v) empty_store now) as [[[s' x] cs0] e0].
    rewrite R, absv_olive. reflexivity.
  - replace (is_one k) with false by (destruct k; [congruence|reflexivity|reflexivity]).
    pose proof (ref_two k r key v Hk Hr) as R.
    destruct (run std_exec std_exec (l1only r) (single key v) empty_store now) as [[[s' x] cs0] e0].
    destruct R as [R1 R2]. rewrite R1, R2. reflexivity.
Qed.
End Loc.
