(* LockOld.v — the behaviour of /repo/orcas/locked.go LockedOrca.Get BEFORE the fix: its
   deferred recover() unlocked the key and did not re-panic (GetE's did). In the LTS this is
   a variant of [step] in which a panic inside a READ section is swallowed: the lock is
   released, the command carries on with its remaining sections WITHOUT a result for the
   panicked one (nothing is written to the client) and the server loop keeps the connection. *)
From Rend Require Import base.Bytes conc.LockLTS.
Open Scope N_scope.

Section Old.
Variables Cell Res : Type.
Variable slot_of : bytes -> N.
Variables multi_reader locking : bool.

Inductive step_old : state Cell Res -> label Cell Res -> state Cell Res -> Prop :=
| so_invoke : forall st t c todo done,
    thr Cell Res st t = TIdle Cell Res (c :: todo) done ->
    step_old st (LInvoke Cell Res t)
      (mkSt Cell Res (cells Cell Res st) (upd_thr Cell Res (thr Cell Res st) t (next_after Cell Res c [] todo done)))
| so_acquire : forall st t s rest acc todo done,
    thr Cell Res st t = TWait Cell Res s rest acc todo done ->
    can_acquire Cell Res slot_of multi_reader locking st s ->
    step_old st (LAcquire Cell Res t s)
      (mkSt Cell Res (cells Cell Res st)
         (upd_thr Cell Res (thr Cell Res st) t (TRun Cell Res s (s_prog s) rest acc todo done)))
| so_step : forall st t s f rest acc todo done,
    thr Cell Res st t = TRun Cell Res s (CStep f) rest acc todo done ->
    let cp := f (cells Cell Res st (s_key s)) in
    step_old st (LStep Cell Res t)
      (mkSt Cell Res (upd_cell Cell (cells Cell Res st) (s_key s) (fst cp))
         (upd_thr Cell Res (thr Cell Res st) t (TRun Cell Res s (snd cp) rest acc todo done)))
| so_release : forall st t s r rest acc todo done,
    thr Cell Res st t = TRun Cell Res s (CRet r) rest acc todo done ->
    step_old st (LRelease Cell Res t s r)
      (mkSt Cell Res (cells Cell Res st)
         (upd_thr Cell Res (thr Cell Res st) t (next_after Cell Res rest (acc ++ [r]) todo done)))
(* a panic inside a WRITE section: as in [step] (deferred Unlock, the panic propagates) *)
| so_panic_write : forall st t s p rest acc todo done,
    thr Cell Res st t = TRun Cell Res s p rest acc todo done -> s_write s = true ->
    step_old st (LPanic Cell Res t)
      (mkSt Cell Res (cells Cell Res st) (upd_thr Cell Res (thr Cell Res st) t (TDead Cell Res done)))
(* a panic inside a READ section: recovered, unlocked, NOT re-raised *)
| so_panic_read : forall st t s p rest acc todo done,
    thr Cell Res st t = TRun Cell Res s p rest acc todo done -> s_write s = false ->
    step_old st (LPanic Cell Res t)
      (mkSt Cell Res (cells Cell Res st)
         (upd_thr Cell Res (thr Cell Res st) t (next_after Cell Res rest acc todo done)))
| so_panic_wait : forall st t s rest acc todo done,
    thr Cell Res st t = TWait Cell Res s rest acc todo done ->
    step_old st (LPanic Cell Res t)
      (mkSt Cell Res (cells Cell Res st) (upd_thr Cell Res (thr Cell Res st) t (TDead Cell Res done)))
| so_panic_idle : forall st t todo done,
    thr Cell Res st t = TIdle Cell Res todo done ->
    step_old st (LPanic Cell Res t)
      (mkSt Cell Res (cells Cell Res st) (upd_thr Cell Res (thr Cell Res st) t (TDead Cell Res done))).
End Old.

(* the old model violates C12's "a panic closes the connection": after a panic inside a get
   the connection is still served (and its reply was never written) *)
Definition old_get_panic_model_leaves_connection_open : Prop :=
  exists (st st' : state unit nat) (t : nat),
    step_old unit nat (fun _ => 0) true true st (LPanic unit nat t) st' /\
    (forall done, thr unit nat st' t <> TDead unit nat done).

Lemma old_get_panic_refuted : old_get_panic_model_leaves_connection_open.
Proof.
  pose (s := @mkSec unit nat [1] false (CRet 7%nat)).
  pose (st := mkSt unit nat (fun _ => tt)
                (fun t => match t with
                          | O => TRun unit nat s (CRet 7%nat) [] [] [] []
                          | _ => TIdle unit nat [] []
                          end)).
  exists st, (mkSt unit nat (cells unit nat st)
                (upd_thr unit nat (thr unit nat st) 0%nat (next_after unit nat [] [] [] []))), 0%nat.
  split.
  - eapply so_panic_read; reflexivity.
  - intros done H. cbn in H. discriminate H.
Qed.
