(* LockUnlocked.v — without the locking wrapper the orchestrator programs are not atomic:
   a concrete interleaving of two L1L2 sets on one key (T0:L2 set, T1:L2 set, T1:L1 set,
   T0:L1 set) leaves L1 with T0's value and L2 with T1's. The execution is produced by a
   small deterministic scheduler ([run_sched]: the thread named next does its only enabled
   move) that is proved to yield [exec] runs of the LTS with locking = false. *)
From Rend Require Import base.Bytes gen.Consts_gen spec.MapSpec orca.Types handlers.Std orca.Orcas
  proto.Resp orca.OrcaSpec orca.OrcaProofs conc.LockLTS conc.LockInst conc.LockInstLemmas.
Open Scope N_scope.

Section Sched.
Variables (Cell Res : Type) (slot_of : bytes -> N) (multi_reader : bool).
Definition sched_step (st : state Cell Res) (t : nat) : option (state Cell Res * label Cell Res) :=
  match thr Cell Res st t with
  | TIdle _ _ (c :: todo) done =>
      Some (mkSt Cell Res (cells Cell Res st) (upd_thr Cell Res (thr Cell Res st) t (next_after Cell Res c [] todo done)),
            LInvoke Cell Res t)
  | TWait _ _ s rest acc todo done =>
      Some (mkSt Cell Res (cells Cell Res st)
              (upd_thr Cell Res (thr Cell Res st) t (TRun Cell Res s (s_prog s) rest acc todo done)),
            LAcquire Cell Res t s)
  | TRun _ _ s (CStep f) rest acc todo done =>
      let cp := f (cells Cell Res st (s_key s)) in
      Some (mkSt Cell Res (upd_cell Cell (cells Cell Res st) (s_key s) (fst cp))
              (upd_thr Cell Res (thr Cell Res st) t (TRun Cell Res s (snd cp) rest acc todo done)),
            LStep Cell Res t)
  | TRun _ _ s (CRet r) rest acc todo done =>
      Some (mkSt Cell Res (cells Cell Res st)
              (upd_thr Cell Res (thr Cell Res st) t (next_after Cell Res rest (acc ++ [r]) todo done)),
            LRelease Cell Res t s r)
  | _ => None
  end.
Fixpoint run_sched (sch : list nat) (st : state Cell Res) : option (state Cell Res * list (label Cell Res)) :=
  match sch with
  | [] => Some (st, [])
  | t :: r => match sched_step st t with
              | Some (st1, l) => match run_sched r st1 with
                                 | Some (st2, ls) => Some (st2, l :: ls)
                                 | None => None
                                 end
              | None => None
              end
  end.

Lemma sched_step_ok st t st1 l : sched_step st t = Some (st1, l) ->
  step Cell Res slot_of multi_reader false st l st1.
Proof.
  unfold sched_step. destruct (thr Cell Res st t) as [todo done|s rest acc todo done|s p rest acc todo done|done] eqn:E.
  - destruct todo as [|c todo]; [discriminate|]. intros H. inversion H; subst. eapply st_invoke; exact E.
  - intros H. inversion H; subst. eapply st_acquire; [exact E|exact I].
  - destruct p as [r|f]; intros H; inversion H; subst.
    + eapply st_release; exact E.
    + eapply st_step; exact E.
  - discriminate.
Qed.

Lemma run_sched_ok : forall sch st st' ls, run_sched sch st = Some (st', ls) ->
  exec Cell Res slot_of multi_reader false st ls st'.
Proof.
  induction sch as [|t r IH]; intros st st' ls H; cbn [run_sched] in H.
  - inversion H; subst. apply ex_nil.
  - destruct (sched_step st t) as [[st1 l]|] eqn:E1; [|discriminate].
    destruct (run_sched r st1) as [[st2 ls2]|] eqn:E2; [|discriminate]. inversion H; subst.
    eapply ex_cons; [eapply sched_step_ok; exact E1|apply IH; exact E2].
Qed.

Definition sched_final (sch : list nat) (st : state Cell Res) : state Cell Res * list (label Cell Res) :=
  match run_sched sch st with Some x => x | None => (st, []) end.
Lemma sched_final_ok sch st : (if run_sched sch st then true else false) = true ->
  exec Cell Res slot_of multi_reader false st (snd (sched_final sch st)) (fst (sched_final sch st)).
Proof.
  unfold sched_final. destruct (run_sched sch st) as [[st' ls]|] eqn:E; [|discriminate].
  intros _. cbn [fst snd]. eapply run_sched_ok. exact E.
Qed.
End Sched.

Definition ur_sec (d : bytes) : section cell sres :=
  mkSec [1] true (to_cprog_gen 0 false [1] (l1l2 (RSet MSet [1] d 0 0 0 false)) []).
Definition ur_st0 : state cell sres :=
  mkSt cell sres (fun _ => (None, None))
    (fun t => match t with
              | O => TIdle cell sres [[ur_sec [10]]] []
              | S O => TIdle cell sres [[ur_sec [20]]] []
              | _ => TIdle cell sres [] []
              end).
Definition ur_sched : list nat := [0; 1; 0; 1; 0; 1; 1; 0; 0; 1]%nat.

Lemma ur_sections : sections_of 0 KL1L2 (RSet MSet [1] [10] 0 0 0 false) = [ur_sec [10]] /\
                    sections_of 0 KL1L2 (RSet MSet [1] [20] 0 0 0 false) = [ur_sec [20]].
Proof. split; reflexivity. Qed.

Lemma unlocked_refuted : exists now slot_of (st0 st : state cell sres) ls,
  initial cell sres st0 /\ (forall k, cinv now (cells cell sres st0 k)) /\
  exec cell sres slot_of true false st0 ls st /\ quiescent cell sres st /\
  exists k, ~ cinv now (cells cell sres st k).
Proof.
  exists 0, (fun _ => 0), ur_st0, (fst (sched_final cell sres ur_sched ur_st0)),
    (snd (sched_final cell sres ur_sched ur_st0)).
  split. { intros [|[|t]]; eexists; reflexivity. }
  split. { intros k e1 E. discriminate E. }
  split. { apply sched_final_ok. vm_compute. reflexivity. }
  split. { intros [|[|t]]; eexists; eexists; vm_compute; reflexivity. }
  exists [1]. intros H.
  assert (E : cells cell sres (fst (sched_final cell sres ur_sched ur_st0)) [1] =
              (Some (mkE [10] 0 Never), Some (mkE [20] 0 Never))) by (vm_compute; reflexivity).
  rewrite E in H. destruct (H (mkE [10] 0 Never) eq_refl) as (e2 & E2 & Hd & _).
  vm_compute in E2. inversion E2; subst. discriminate Hd.
Qed.
