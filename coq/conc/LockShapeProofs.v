(* LockShapeProofs.v — the hand-written models of the locking wrapper are exactly what the
   discipline table [locked_model] (conc/LockShape.v) prescribes:
     sections_follow_plan   conc/LockInst.v [sections_of] = the plan of the method's shape, as sections
     locked_follows_shape   orca/Orcas.v   [locked]       = the plan of the method's shape, run in sequence
   and the readable corollaries (one exclusive section on the key's lock for the single-key
   writes and gat; one section per key, in order, shared iff multi-reader, for get/gete; no
   section for the rest). All proved from the definitions of LockInst.v / Orcas.v / LockLTS.v. *)
From Coq Require Import String.
From Rend Require Import base.Bytes gen.Consts_gen spec.MapSpec orca.Types handlers.Std orca.Orcas
  proto.Resp orca.OrcaSpec conc.LockLTS conc.LockExec conc.LockInst conc.LockShape.
Open Scope N_scope.

(* ---------------- the per-key loop ---------------- *)
Lemma last_idx_true : forall off, Nat.eqb off (off + 1 - 1) = true.
Proof. intros. apply Nat.eqb_eq. lia. Qed.
Lemma last_idx_false : forall off m, Nat.eqb off (off + S (S m) - 1) = false.
Proof. intros. apply Nat.eqb_neq. lia. Qed.

Lemma sub_get_at_last gete off no ne it :
  sub_get_at gete (off + 1) no ne off it = if gete then RGetE [it] no ne else RGet [it] no ne.
Proof. unfold sub_get_at. rewrite last_idx_true. reflexivity. Qed.
Lemma sub_get_at_inner gete off m no ne it :
  sub_get_at gete (off + S (S m)) no ne off it = if gete then RGetE [it] 0 false else RGet [it] 0 false.
Proof. unfold sub_get_at. rewrite last_idx_false. reflexivity. Qed.

Lemma get_sections_cons2 now one o gete it it2 rest no ne :
  get_sections now one o gete (it :: it2 :: rest) no ne =
  mkSec (gi_key it) false (to_cprog_gen now one (gi_key it) (o (if gete then RGetE [it] 0 false else RGet [it] 0 false)) [])
  :: get_sections now one o gete (it2 :: rest) no ne.
Proof. reflexivity. Qed.

Lemma get_sections_enum now one o gete : forall items off n no ne,
  n = (off + length items)%nat ->
  get_sections now one o gete items no ne =
  map (fun x => mkSec (gi_key (snd x)) false
                  (to_cprog_gen now one (gi_key (snd x)) (o (sub_get_at gete n no ne (fst x) (snd x))) []))
      (combine (seq off (length items)) items).
Proof.
  induction items as [|it rest IH]; intros off n no ne E; [reflexivity|].
  destruct rest as [|it2 rest].
  - subst n. cbn [get_sections length seq combine map fst snd]. rewrite sub_get_at_last. reflexivity.
  - rewrite get_sections_cons2.
    rewrite (IH (S off) n no ne) by (subst n; cbn [length]; lia).
    subst n. remember (it2 :: rest) as tl eqn:Etl.
    cbn [length seq combine map fst snd].
    replace (off + S (length tl))%nat with (off + S (S (length rest)))%nat by (subst tl; reflexivity).
    rewrite sub_get_at_inner. reflexivity.
Qed.

Lemma locked_gets_cons2 w gete it it2 rest no ne :
  locked_gets w gete (it :: it2 :: rest) no ne =
  thenp (w (if gete then RGetE [it] 0 false else RGet [it] 0 false)) (locked_gets w gete (it2 :: rest) no ne).
Proof. reflexivity. Qed.

Lemma seq_progs_cons2 p q ps : seq_progs (p :: q :: ps) = thenp p (seq_progs (q :: ps)).
Proof. reflexivity. Qed.

Lemma locked_gets_enum w gete : forall items off n no ne,
  n = (off + length items)%nat ->
  locked_gets w gete items no ne =
  seq_progs (map (fun x => w (sub_get_at gete n no ne (fst x) (snd x))) (combine (seq off (length items)) items)).
Proof.
  induction items as [|it rest IH]; intros off n no ne E; [reflexivity|].
  destruct rest as [|it2 rest].
  - subst n. cbn [locked_gets length seq combine map fst snd seq_progs]. rewrite sub_get_at_last. reflexivity.
  - rewrite locked_gets_cons2.
    rewrite (IH (S off) n no ne) by (subst n; cbn [length]; lia).
    subst n. cbn [length seq combine map fst snd]. rewrite seq_progs_cons2.
    rewrite sub_get_at_inner. reflexivity.
Qed.

(* ---------------- the two models follow the table ---------------- *)
Theorem sections_follow_plan : forall now k r,
  option_map (plan_sections now k) (shape_plan (locked_model (method_of r)) r) = Some (sections_of now k r).
Proof.
  intros now k r.
  destruct r as [m ? ? ? ? ? ?|front ? ? ? ?| | | |items no ne|items no ne| | | | |];
    try destruct m; try destruct front; try reflexivity.
  - cbn [method_of locked_model per_key_read shape_plan req_gets mode_write option_map sections_of].
    unfold plan_sections, sub_gets, enumerate. rewrite !map_map. cbn [fst snd].
    rewrite (get_sections_enum now (is_one k) (base_orca k) false items 0 (length items) no ne eq_refl).
    reflexivity.
  - cbn [method_of locked_model per_key_read shape_plan req_gets mode_write option_map sections_of].
    unfold plan_sections, sub_gets, enumerate. rewrite !map_map. cbn [fst snd].
    rewrite (get_sections_enum now (is_one k) (base_orca k) true items 0 (length items) no ne eq_refl).
    reflexivity.
Qed.

Theorem locked_follows_shape : forall w r,
  shape_prog w (locked_model (method_of r)) r = Some (locked w r).
Proof.
  intros w r.
  destruct r as [m ? ? ? ? ? ?|front ? ? ? ?| | | |items no ne|items no ne| | | | |];
    try destruct m; try destruct front; try reflexivity.
  - unfold shape_prog. cbn [method_of locked_model per_key_read shape_plan req_gets mode_write locked].
    unfold sub_gets, enumerate. rewrite !map_map. cbn [fst snd].
    rewrite (locked_gets_enum w false items 0 (length items) no ne eq_refl). reflexivity.
  - unfold shape_prog. cbn [method_of locked_model per_key_read shape_plan req_gets mode_write locked].
    unfold sub_gets, enumerate. rewrite !map_map. cbn [fst snd].
    rewrite (locked_gets_enum w true items 0 (length items) no ne eq_refl). reflexivity.
Qed.

(* ---------------- readable corollaries ---------------- *)
(* single-key writes and gat: exactly one section, exclusive, on the lock of the request's key,
   whose body is the wrapped orchestrator's program for the same request *)
Theorem write_sections : forall now k c multi_reader r key,
  req_key r = Some key ->
  locked_model (method_of r) = single_write /\
  sections_of now k r = [mkSec key true (to_cprog_gen now (is_one k) key (base_orca k r) [])] /\
  sec_locks (lock_slot c) multi_reader (sections_of now k r) = [(lock_slot c key, true)] /\
  locked (base_orca k) r = base_orca k r.
Proof.
  intros now k c mr r key E.
  destruct r as [m ? ? ? ? ? ?|front ? ? ? ?| | | | | | | | | |]; try discriminate E;
    try destruct m; try destruct front; cbn [req_key] in E; inversion E; subst;
    (split; [reflexivity|split; [reflexivity|split; [|reflexivity]]]);
    unfold sections_of, sec_locks; cbn [req_key map s_key]; unfold exclusive; cbn [s_write orb]; reflexivity.
Qed.

Lemma map_snd_enum {A} : forall (l : list A) off, map snd (combine (seq off (length l)) l) = l.
Proof. induction l as [|a l IH]; intros off; [reflexivity|]. cbn [length seq combine map snd]. f_equal. apply IH. Qed.

(* get / gete of k1..kn: n sections in the order of the keys, the i-th on the lock of ki, shared
   in multi-reader mode and exclusive otherwise, its body the wrapped orchestrator's program for
   the single-key sub-request *)
Theorem get_sections_shape : forall now k c multi_reader (gete : bool) items no ne,
  let r := if gete then RGetE items no ne else RGet items no ne in
  locked_model (method_of r) = per_key_read /\
  sec_locks (lock_slot c) multi_reader (sections_of now k r) =
    map (fun it => (lock_slot c (gi_key it), negb multi_reader)) items /\
  map (fun s => (s_key s, s_write s)) (sections_of now k r) = map (fun it => (gi_key it, false)) items /\
  map (@s_prog cell sres) (sections_of now k r) =
    map (fun kq => to_cprog_gen now (is_one k) (fst kq) (base_orca k (snd kq)) []) (sub_gets gete items no ne).
Proof.
  intros now k c mr gete items no ne r.
  assert (Hs : sections_of now k r =
               map (fun kq => mkSec (fst kq) false (to_cprog_gen now (is_one k) (fst kq) (base_orca k (snd kq)) []))
                   (sub_gets gete items no ne)).
  { pose proof (sections_follow_plan now k r) as P. subst r.
    destruct gete;
      cbn [method_of locked_model per_key_read shape_plan req_gets mode_write option_map] in P;
      cbv iota; injection P as P; unfold sections_of; rewrite <- P; unfold plan_sections; rewrite map_map; reflexivity. }
  assert (Hk : map fst (sub_gets gete items no ne) = map gi_key items).
  { unfold sub_gets, enumerate. rewrite map_map. cbn [fst].
    rewrite <- (map_map snd gi_key). f_equal. apply map_snd_enum. }
  split; [subst r; destruct gete; reflexivity|].
  rewrite Hs. unfold sec_locks. rewrite !map_map. cbn [s_key s_write s_prog].
  unfold exclusive. cbn [s_write orb].
  split; [|split; [|reflexivity]].
  - rewrite <- (map_map fst (fun key => (lock_slot c key, negb mr))), Hk, map_map. reflexivity.
  - rewrite <- (map_map fst (fun key => (key, false))), Hk, map_map. reflexivity.
Qed.

(* noop, quit, version, stat, unknown: no section, the wrapped orchestrator is called as is *)
Theorem passthrough_sections : forall now k r,
  req_key r = None -> req_gets r = None ->
  locked_model (method_of r) = pass_through /\ sections_of now k r = [] /\
  forall w, locked w r = w r.
Proof.
  intros now k r E1 E2.
  destruct r as [m ? ? ? ? ? ?|front ? ? ? ?| | | | | | | | | |]; try discriminate E1; try discriminate E2;
    (split; [reflexivity|split; [reflexivity|intros w; reflexivity]]).
Qed.

(* ---------------- the lock set ---------------- *)
(* the LTS's notion of an exclusive section is what getlock / the constructors / getNewLocks give *)
Theorem lockset_exclusive : forall (C R : Type) multi_reader (s : section C R),
  acq_exclusive newlocks_model ctor_new_model getlock_model multi_reader (if s_write s then ModeWrite else ModeRead)
    = Some (exclusive C R multi_reader s) /\
  acq_exclusive newlocks_model ctor_existing_model getlock_model multi_reader (if s_write s then ModeWrite else ModeRead)
    = Some (exclusive C R multi_reader s).
Proof.
  intros C R mr s. unfold exclusive. destruct (s_write s), mr; split; reflexivity.
Qed.

Theorem lockset_slot :
  shape_slot newlocks_model ctor_new_model getlock_model = Some lock_slot /\
  shape_slot newlocks_model ctor_existing_model getlock_model = Some lock_slot.
Proof. split; reflexivity. Qed.
