(* LockLTS.v — the locking wrapper (orcas/locked.go) as a labelled transition system.
   Threads are client connections (main port and batch port alike: they share one lock set).
   A client command is a list of lock SECTIONS executed in order: one write section for every
   command but get; one read section per key for a get (LockedOrca.Get locks key by key).
   Inside a section the wrapped orchestrator runs step by step (one backend call per step);
   steps of different threads interleave arbitrarily. A section works on the CELL of its key
   (the entries of that key in L1 and L2) — key-locality is by construction here and is shown
   for the real orchestrator programs in conc/LockInst.v.
   Definitions only; proofs in conc/LockProofs.v. *)
From Rend Require Import base.Bytes.
Open Scope N_scope.

Section LTS.
Variables Cell Res V : Type.

(* a section body: a sequence of atomic steps on the cell *)
Inductive cprog :=
| CRet (r : Res)
| CStep (f : Cell -> Cell * cprog).

Fixpoint crun (p : cprog) (c : Cell) : Cell * Res :=
  match p with
  | CRet r => (c, r)
  | CStep f => let cp := f c in crun (snd cp) (fst cp)
  end.

Record section := mkSec { s_key : bytes; s_write : bool; s_prog : cprog }.
Definition command := list section.

(* lock striping: any function from keys to lock indices (the code: fnv1a32(key) & (2^c - 1));
   multi-reader mode: read sections share a lock; single-reader: they take it exclusively *)
Variable slot_of : bytes -> N.
Variable multi_reader : bool.
(* [locking] = false models the orchestrators WITHOUT the wrapper (every acquisition succeeds) *)
Variable locking : bool.

Definition exclusive (s : section) : bool := s_write s || negb multi_reader.

(* thread states; [acc] = results of the sections of the current command so far,
   [done] = results of the completed commands *)
Inductive tstate :=
| TIdle (todo : list command) (done : list (list Res))
| TWait (s : section) (rest : list section) (acc : list Res) (todo : list command) (done : list (list Res))
| TRun (s : section) (p : cprog) (rest : list section) (acc : list Res) (todo : list command) (done : list (list Res))
| TDead (done : list (list Res)).   (* the connection was closed (panic below, client went away) *)

Record state := mkSt {
  cells : bytes -> Cell;
  thr : nat -> tstate }.

Definition upd_cell (f : bytes -> Cell) (k : bytes) (c : Cell) : bytes -> Cell :=
  fun k' => if bytes_eqb k' k then c else f k'.
Definition upd_thr (f : nat -> tstate) (t : nat) (x : tstate) : nat -> tstate :=
  fun t' => if Nat.eqb t' t then x else f t'.

(* who is inside a section on lock [a] *)
Definition in_section (st : state) (t : nat) (a : N) (excl : bool) : Prop :=
  exists s p rest acc todo done, thr st t = TRun s p rest acc todo done /\ slot_of (s_key s) = a /\
                                 exclusive s = excl.
Definition holds (st : state) (t : nat) (a : N) : Prop := exists e, in_section st t a e.

(* the lock can be taken: exclusively if nobody is inside; shared if no exclusive holder is *)
Definition can_acquire (st : state) (s : section) : Prop :=
  let a := slot_of (s_key s) in
  if negb locking then True
  else if exclusive s then forall t, ~ holds st t a
  else forall t, ~ in_section st t a true.

Definition next_after (rest : list section) (acc : list Res) (todo : list command) (done : list (list Res)) : tstate :=
  match rest with
  | [] => TIdle todo (done ++ [acc])
  | s :: r => TWait s r acc todo done
  end.

Inductive label :=
| LInvoke (t : nat)
| LAcquire (t : nat) (s : section)
| LStep (t : nat)
| LRelease (t : nat) (s : section) (r : Res)
| LPanic (t : nat).    (* a panic in any layer underneath, at any point of a section; or the client vanishing between sections *)

Inductive step : state -> label -> state -> Prop :=
| st_invoke : forall st t c todo done,
    thr st t = TIdle (c :: todo) done ->
    step st (LInvoke t) (mkSt (cells st) (upd_thr (thr st) t (next_after c [] todo done)))
| st_acquire : forall st t s rest acc todo done,
    thr st t = TWait s rest acc todo done -> can_acquire st s ->
    step st (LAcquire t s) (mkSt (cells st) (upd_thr (thr st) t (TRun s (s_prog s) rest acc todo done)))
| st_step : forall st t s f rest acc todo done,
    thr st t = TRun s (CStep f) rest acc todo done ->
    let cp := f (cells st (s_key s)) in
    step st (LStep t) (mkSt (upd_cell (cells st) (s_key s) (fst cp))
                            (upd_thr (thr st) t (TRun s (snd cp) rest acc todo done)))
| st_release : forall st t s r rest acc todo done,
    thr st t = TRun s (CRet r) rest acc todo done ->
    step st (LRelease t s r) (mkSt (cells st) (upd_thr (thr st) t (next_after rest (acc ++ [r]) todo done)))
(* a panic inside a section: the deferred Unlock runs, the panic propagates to the server loop,
   which closes the connection; the cell stays as the completed steps left it *)
| st_panic_run : forall st t s p rest acc todo done,
    thr st t = TRun s p rest acc todo done ->
    step st (LPanic t) (mkSt (cells st) (upd_thr (thr st) t (TDead done)))
(* the client goes away (or a panic outside any section) while no lock is held *)
| st_panic_wait : forall st t s rest acc todo done,
    thr st t = TWait s rest acc todo done ->
    step st (LPanic t) (mkSt (cells st) (upd_thr (thr st) t (TDead done)))
| st_panic_idle : forall st t todo done,
    thr st t = TIdle todo done ->
    step st (LPanic t) (mkSt (cells st) (upd_thr (thr st) t (TDead done))).

Inductive exec : state -> list label -> state -> Prop :=
| ex_nil : forall st, exec st [] st
| ex_cons : forall st l st' ls st'', step st l st' -> exec st' ls st'' -> exec st (l :: ls) st''.

Definition quiescent (st : state) : Prop :=
  forall t, exists todo done, thr st t = TIdle todo done.
Definition no_panic (ls : list label) : Prop := forall t, ~ In (LPanic t) ls.
(* a thread that still has something to do *)
Definition unfinished (st : state) (t : nat) : Prop :=
  match thr st t with TIdle [] _ | TDead _ => False | _ => True end.
Definition initial (st : state) : Prop := forall t, exists todo, thr st t = TIdle todo [].

(* ---- the single-map specification the concurrent runs are measured against ---- *)
Variable cinv : Cell -> Prop.          (* per-key consistency of the tiers (L1 subset of L2) *)
Variable absv : Cell -> V.             (* the key's value in the reference map *)
Variable wspec : section -> V -> V * Res.   (* a write section on the reference map *)
Variable rspec : section -> V -> Res.       (* a read section on the reference map *)

(* a write section behaves like its specification when run alone on a consistent cell *)
Definition good_writer (s : section) : Prop :=
  forall c, cinv c -> let '(c', r) := crun (s_prog s) c in cinv c' /\ (absv c', r) = wspec s (absv c).
(* every step of a read section keeps the cell consistent and its value unchanged, whatever
   consistent cell with that value it finds (other readers may have touched it); its result
   is the specified one *)
Fixpoint good_reader_prog (s : section) (v : V) (p : cprog) : Prop :=
  match p with
  | CRet r => r = rspec s v
  | CStep f => forall c, cinv c -> absv c = v ->
                 cinv (fst (f c)) /\ absv (fst (f c)) = v /\ good_reader_prog s v (snd (f c))
  end.
Definition good_reader (s : section) : Prop := forall v, good_reader_prog s v (s_prog s).
Definition good_section (s : section) : Prop := if s_write s then good_writer s else good_reader s.

(* all sections any thread will ever run are good *)
Definition all_good (st : state) : Prop :=
  forall t todo done c s, thr st t = TIdle todo done -> In c todo -> In s c -> good_section s.

(* ---- linearization: the acquisitions of write sections and the releases of read sections,
   in the order they happen, replayed on the reference map ---- *)
Fixpoint lin_replay (ls : list label) (m : bytes -> V) : (bytes -> V) * list (nat * Res) :=
  match ls with
  | [] => (m, [])
  | LAcquire t s :: r =>
      if s_write s then
        let '(v', res) := wspec s (m (s_key s)) in
        let '(m', out) := lin_replay r (fun k => if bytes_eqb k (s_key s) then v' else m k) in
        (m', (t, res) :: out)
      else lin_replay r m
  | LRelease t s _ :: r =>
      if s_write s then lin_replay r m
      else let '(m', out) := lin_replay r m in (m', (t, rspec s (m (s_key s))) :: out)
  | _ :: r => lin_replay r m
  end.

(* what thread t observed: the results of its sections in the order they completed *)
Definition observed (ls : list label) (t : nat) : list Res :=
  flat_map (fun l => match l with LRelease t' _ r => if Nat.eqb t' t then [r] else [] | _ => [] end) ls.
Definition predicted (out : list (nat * Res)) (t : nat) : list Res :=
  flat_map (fun x => if Nat.eqb (fst x) t then [snd x] else []) out.

(* number of locks thread t is inside *)
Definition locks_held (st : state) (t : nat) : nat :=
  match thr st t with TRun _ _ _ _ _ _ => 1%nat | _ => 0%nat end.

End LTS.

Arguments CRet {Cell Res} r.
Arguments CStep {Cell Res} f.
Arguments crun {Cell Res} p c.
Arguments mkSec {Cell Res} s_key s_write s_prog.
Arguments s_key {Cell Res} s.
Arguments s_write {Cell Res} s.
Arguments s_prog {Cell Res} s.
