(* LockInst.v — the lock LTS instantiated with the real orchestrator programs.
   Cell of key k = (L1[k], L2[k]); every handler call of the wrapped orchestrator is one
   atomic step (the backend executes one request at a time); the clock is fixed during the
   concurrent history (one tick). Definitions only; proofs in conc/LockProofs.v. *)
From Rend Require Import base.Bytes gen.Consts_gen spec.MapSpec orca.Types handlers.Std orca.Orcas
  proto.Resp orca.OrcaSpec conc.LockLTS.
Open Scope N_scope.

Definition cell := (option entry * option entry)%type.
(* what a section returns to its connection: the bytes written to the client in either
   protocol, and the error handed to the server loop *)
Definition sres := (bytes * bytes * option N)%type.

(* a store holding only key k *)
Definition single (k : bytes) (c : option entry) : store := fun k' => if bytes_eqb k' k then c else None.

Section Inst.
Variable now : N.

(* [one] = a one-tier deployment (L1Only): its only backend is the authoritative one and lives
   in the SECOND component of the cell (the first stays empty), so that [absv]/[cinv] below
   read the same way for every deployment *)
Fixpoint to_cprog_gen (one : bool) (k : bytes) (p : prog) (acc : list rcall) : cprog cell sres :=
  match p with
  | Ret e => CRet (render_all Bin (rev acc), render_all Text (rev acc), e)
  | Call t q f =>
      if (match t with L1 => negb one | L2 => false end)
      then CStep (fun c => let '(s', r) := std_exec (single k (fst c)) now q in
                           ((s' k, snd c), to_cprog_gen one k (f r) acc))
      else CStep (fun c => let '(s', r) := std_exec (single k (snd c)) now q in
                           ((fst c, s' k), to_cprog_gen one k (f r) acc))
  | Emit c p' => to_cprog_gen one k p' (c :: acc)
  end.
Definition to_cprog := to_cprog_gen false.
Definition is_one (k : orcakind) : bool := match k with KL1Only => true | _ => false end.

(* the key a single-key request works on *)
Definition req_key (r : req) : option bytes :=
  match r with
  | RSet _ k _ _ _ _ _ | RCat _ k _ _ _ | RDelete k _ | RTouch k _ _ | RGat k _ _ => Some k
  | _ => None
  end.

(* LockedOrca: the sections of one client command (orcas/locked.go) *)
Fixpoint get_sections (one : bool) (o : req -> prog) (gete : bool) (items : list gitem) (no : N) (ne : bool)
  : list (section cell sres) :=
  match items with
  | [] => []
  | [it] => [mkSec (gi_key it) false (to_cprog_gen one (gi_key it) (o (if gete then RGetE [it] no ne else RGet [it] no ne)) [])]
  | it :: rest => mkSec (gi_key it) false
                    (to_cprog_gen one (gi_key it) (o (if gete then RGetE [it] 0 false else RGet [it] 0 false)) [])
                  :: get_sections one o gete rest no ne
  end.
Definition sections_of (k : orcakind) (r : req) : list (section cell sres) :=
  let o := base_orca k in
  match r with
  | RGet items no ne => get_sections (is_one k) o false items no ne
  | RGetE items no ne => get_sections (is_one k) o true items no ne
  | _ => match req_key r with
         | Some key => [mkSec key true (to_cprog_gen (is_one k) key (o r) [])]
         | None => []                       (* noop, version, stat, quit, unknown: no lock *)
         end
  end.

(* consistency of a cell and its value in the reference map *)
Definition cinv (c : cell) : Prop :=
  forall e1, live now (single [] (fst c)) [] = Some e1 ->
    exists e2, live now (single [] (snd c)) [] = Some e2 /\ e_data e1 = e_data e2 /\
               e_flags e1 = e_flags e2 /\ dl_le (e_dl e1) (e_dl e2).
Definition absv (c : cell) : option entry := live now (single [] (snd c)) [].

(* the reference map on the value of one key: the one-tier orchestrator on a one-key store *)
Definition ref_sec (s : section cell sres) (v : option entry) : option entry * sres :=
  let '(c', r) := crun (s_prog s) (None, v) in (absv c', r).
End Inst.
