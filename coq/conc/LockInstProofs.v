(* LockInstProofs.v — every section LockedOrca builds for an in-scope request is good
   (two-tier deployments w.r.t. [cinv]; the one-tier deployment w.r.t. [cinv1]: the unused
   first component of the cell stays empty), hence concurrent histories are linearizable. *)
From Rend Require Import base.Bytes gen.Consts_gen spec.MapSpec orca.Types handlers.Std orca.Orcas
  proto.Resp orca.OrcaSpec orca.OrcaProofs conc.LockLTS conc.LockInst conc.LockLin conc.LockInstLemmas
  conc.LockInstReaders.
Open Scope N_scope.

Lemma get_sections_in now one o gete : forall items no ne s,
  In s (get_sections now one o gete items no ne) ->
  exists it no' ne', s = mkSec (gi_key it) false
    (to_cprog_gen now one (gi_key it) (o (if gete then RGetE [it] no' ne' else RGet [it] no' ne')) []).
Proof.
  induction items as [|it rest IH]; intros no ne s I; [destruct I|].
  destruct rest as [|it2 rest].
  - destruct I as [<-|[]]. eauto.
  - destruct I as [<-|I]; [eauto|]. apply (IH no ne s I).
Qed.

Lemma orca_sections_good : forall now k r s,
  k <> KL1Only -> in_scope k r = true -> In s (sections_of now k r) ->
  good_section cell sres (option entry) (cinv now) (absv now)
               (fun s v => ref_sec now s v) (fun s v => snd (ref_sec now s v)) s.
Proof.
  intros now k r s Hk Hs I.
  assert (O : is_one k = false) by (destruct k; [congruence|reflexivity|reflexivity]).
  assert (W : forall key, req_key r = Some key -> In s [mkSec key true (to_cprog_gen now (is_one k) key (base_orca k r) [])] ->
              good_section cell sres (option entry) (cinv now) (absv now)
                (fun s v => ref_sec now s v) (fun s v => snd (ref_sec now s v)) s).
  { intros key Hr [<-|[]]. unfold good_section. cbn [s_write]. rewrite O. apply writer_two; assumption. }
  destruct r; unfold sections_of in I; cbn [req_key] in I;
    try (eapply W; [reflexivity|exact I]); try (destruct I; fail).
  - (* get *)
    apply get_sections_in in I. destruct I as ([kk o q] & no' & ne' & ->). rewrite O.
    unfold good_section. cbn [s_write gi_key].
    destruct k; [congruence| |]; cbn [base_orca l1l2 l1l2batch]; [apply reader_l1l2|apply reader_batch].
  - (* gete: not in scope for two tiers *)
    destruct k; [congruence| |]; discriminate Hs.
Qed.

Lemma orca_sections_good_one : forall now r s,
  in_scope KL1Only r = true -> In s (sections_of now KL1Only r) ->
  good_section cell sres (option entry) cinv1 (absv now)
               (fun s v => ref_sec now s v) (fun s v => snd (ref_sec now s v)) s.
Proof.
  intros now r s _ I.
  assert (W : forall key, req_key r = Some key -> In s [mkSec key true (to_cprog_gen now true key (l1only r) [])] ->
              good_section cell sres (option entry) cinv1 (absv now)
                (fun s v => ref_sec now s v) (fun s v => snd (ref_sec now s v)) s).
  { intros key Hr [<-|[]]. unfold good_section. cbn [s_write]. apply writer_one; assumption. }
  destruct r; unfold sections_of in I; cbn [req_key is_one base_orca] in I;
    try (eapply W; [reflexivity|exact I]); try (destruct I; fail).
  - apply get_sections_in in I. destruct I as ([kk o q] & no' & ne' & ->).
    unfold good_section. cbn [s_write gi_key]. apply (reader_one now false).
  - apply get_sections_in in I. destruct I as ([kk o q] & no' & ne' & ->).
    unfold good_section. cbn [s_write gi_key]. apply (reader_one now true).
Qed.

Lemma linearizable_orcas : forall now slot_of multi_reader (st0 st : state cell sres) ls,
  initial cell sres st0 ->
  (forall t todo done c s, thr cell sres st0 t = TIdle cell sres todo done -> In c todo -> In s c ->
     exists k r, k <> KL1Only /\ in_scope k r = true /\ In s (sections_of now k r)) ->
  (forall k, cinv now (cells cell sres st0 k)) ->
  exec cell sres slot_of multi_reader true st0 ls st -> no_panic cell sres ls -> quiescent cell sres st ->
  let '(m, out) := lin_replay cell sres (option entry) (fun s v => ref_sec now s v)
                     (fun s v => snd (ref_sec now s v)) ls (fun k => absv now (cells cell sres st0 k)) in
  (forall t, observed cell sres ls t = predicted sres out t) /\
  (forall k, cinv now (cells cell sres st k) /\ absv now (cells cell sres st k) = m k).
Proof.
  intros now slot_of mr st0 st ls Hi Hsec Hc He Hnp Hq.
  apply (linearizable_generic cell sres (option entry) slot_of mr (cinv now) (absv now)
           (fun s v => ref_sec now s v) (fun s v => snd (ref_sec now s v)) st0 st ls); auto.
  intros t todo done c s E Ic Is. destruct (Hsec t todo done c s E Ic Is) as (k & r & Hk & Hs & I).
  eapply orca_sections_good; eauto.
Qed.

Lemma linearizable_orcas_one : forall now slot_of multi_reader (st0 st : state cell sres) ls,
  initial cell sres st0 ->
  (forall t todo done c s, thr cell sres st0 t = TIdle cell sres todo done -> In c todo -> In s c ->
     exists r, in_scope KL1Only r = true /\ In s (sections_of now KL1Only r)) ->
  (forall k, cinv1 (cells cell sres st0 k)) ->
  exec cell sres slot_of multi_reader true st0 ls st -> no_panic cell sres ls -> quiescent cell sres st ->
  let '(m, out) := lin_replay cell sres (option entry) (fun s v => ref_sec now s v)
                     (fun s v => snd (ref_sec now s v)) ls (fun k => absv now (cells cell sres st0 k)) in
  (forall t, observed cell sres ls t = predicted sres out t) /\
  (forall k, cinv1 (cells cell sres st k) /\ absv now (cells cell sres st k) = m k).
Proof.
  intros now slot_of mr st0 st ls Hi Hsec Hc He Hnp Hq.
  apply (linearizable_generic cell sres (option entry) slot_of mr cinv1 (absv now)
           (fun s v => ref_sec now s v) (fun s v => snd (ref_sec now s v)) st0 st ls); auto.
  intros t todo done c s E Ic Is. destruct (Hsec t todo done c s E Ic Is) as (r & Hs & I).
  eapply orca_sections_good_one; eauto.
Qed.

Lemma ref_is_single_map : forall now k r key v,
  in_scope k r = true -> req_key r = Some key ->
  let s := mkSec key true (to_cprog_gen now (is_one k) key (base_orca k r) []) in
  let '(s', _, cs0, e0) := run std_exec std_exec (l1only r) (single key v) empty_store now in
  ref_sec now s v = (live now s' key, (render_all Bin cs0, render_all Text cs0, e0)).
Proof. exact ref_is_single_map_now. Qed.
