(* LockInstReaders.v — the read sections LockedOrca builds (single-key gets of each
   orchestrator) are good readers: every backend call keeps the cell consistent and its value
   unchanged whatever consistent cell it finds, and the bytes written are those of the same
   get on a cold L1. *)
From Rend Require Import base.Bytes gen.Consts_gen spec.MapSpec orca.Types handlers.Std orca.Orcas
  proto.Resp orca.OrcaSpec orca.OrcaProofs conc.LockLTS conc.LockInst conc.LockInstLemmas.
Open Scope N_scope.

Section Readers.
Variable now : N.
Notation rsp := (fun (s : section cell sres) v => snd (ref_sec now s v)).
Notation grp2 := (good_reader_prog cell sres (option entry) (cinv now) (absv now) rsp).
Notation grp1 := (good_reader_prog cell sres (option entry) cinv1 (absv now) rsp).

Definition gres_of (w : bool) (v : option entry) (it : gitem) : gres :=
  match v with Some e => hit_res it e (if w then remaining now (e_dl e) else 0) | None => miss_res it end.
Lemma std_get1_single kk it x w : gi_key it = kk ->
  std_get1 (single kk x) now w it = gres_of w (olive now x) it.
Proof. intros <-. unfold std_get1, gb_get. rewrite live_single. destruct (olive now x); reflexivity. Qed.

Definition final_res (gete : bool) (g : gres) (no : N) (ne : bool) : sres :=
  (render_all Bin [pg gete g; PGetEnd no ne], render_all Text [pg gete g; PGetEnd no ne], None).

Lemma final_res_eq g g' no ne : (forall p, render p (PGet g) = render p (PGet g')) ->
  final_res false g no ne = final_res false g' no ne.
Proof. intros H. unfold final_res, render_all. cbn [pg map concat]. rewrite !H. reflexivity. Qed.

Lemma snd_ref_sec (s : section cell sres) v : snd (ref_sec now s v) = snd (crun (s_prog s) (None, v)).
Proof. unfold ref_sec. destruct (crun (s_prog s) (None, v)); reflexivity. Qed.

(* ---------------- step lemmas ---------------- *)
Lemma grp2_get_L1 s v kk items f acc :
  (forall c, cinv now c -> absv now c = v ->
     grp2 s v (to_cprog_gen now false kk (f (HVals (map (std_get1 (single kk (fst c)) now false) items) None)) acc)) ->
  grp2 s v (to_cprog_gen now false kk (Call L1 (HGet items) f) acc).
Proof.
  intros H. cbn [to_cprog_gen negb good_reader_prog std_exec]. intros [c1 c2] Hc Hv. cbn [fst snd].
  rewrite single_same. split; [exact Hc|]. split; [exact Hv|]. apply (H (c1, c2) Hc Hv).
Qed.

Lemma grp2_get_L2 s v kk w items f acc :
  (forall c, cinv now c -> absv now c = v ->
     grp2 s v (to_cprog_gen now false kk (f (HVals (map (std_get1 (single kk (snd c)) now w) items) None)) acc)) ->
  grp2 s v (to_cprog_gen now false kk (Call L2 (if w then HGetE items else HGet items) f) acc).
Proof.
  intros H. destruct w; cbn [to_cprog_gen negb good_reader_prog std_exec]; intros [c1 c2] Hc Hv; cbn [fst snd];
    rewrite single_same; (split; [exact Hc|]); (split; [exact Hv|]); apply (H (c1, c2) Hc Hv).
Qed.

Lemma grp1_get s v kk w items f acc :
  (forall c, cinv1 c -> absv now c = v ->
     grp1 s v (to_cprog_gen now true kk (f (HVals (map (std_get1 (single kk (snd c)) now w) items) None)) acc)) ->
  grp1 s v (to_cprog_gen now true kk (Call L1 (if w then HGetE items else HGet items) f) acc).
Proof.
  intros H. destruct w; cbn [to_cprog_gen negb good_reader_prog std_exec]; intros [c1 c2] Hc Hv; cbn [fst snd];
    rewrite single_same; (split; [exact Hc|]); (split; [exact Hv|]); apply (H (c1, c2) Hc Hv).
Qed.

Lemma grp2_backfill s e2 kk f acc :
  grp2 s (Some e2) (to_cprog_gen now false kk (f HDone) acc) ->
  grp2 s (Some e2)
    (to_cprog_gen now false kk (Call L1 (HSet MSet kk (e_data e2) (e_flags e2) (remaining now (e_dl e2))) f) acc).
Proof.
  intros H. cbn [to_cprog_gen negb good_reader_prog]. intros [c1 c2] Hc Hv. rewrite std_set_set. cbn [fst snd].
  unfold gb_put. rewrite upd_same. rewrite absv_olive in Hv. cbn [snd] in Hv.
  split; [|split; [rewrite absv_olive; exact Hv|exact H]].
  apply cinv_rel. cbn [fst snd]. apply rel_backfill; [exact Hv|discriminate].
Qed.

Lemma to_cprog_emits one kk cs p acc :
  to_cprog_gen now one kk (emits cs p) acc = to_cprog_gen now one kk p (rev cs ++ acc).
Proof.
  revert acc. induction cs as [|c cs IH]; intros acc; cbn [emits to_cprog_gen rev app]; [reflexivity|].
  rewrite IH, <- app_assoc. reflexivity.
Qed.

Lemma cold_l1l2 kk o q no ne v :
  snd (crun (to_cprog_gen now false kk (l1l2_get [mkGI kk o q] no ne) []) (None, v)) =
  final_res false (gres_of true (olive now v) (mkGI kk o q)) no ne.
Proof.
  unfold l1l2_get. rewrite crun_call_L1. cbn [fst snd std_exec map].
  rewrite std_get1_single by reflexivity. cbn [olive gres_of filter miss_res g_miss negb map emits items_of g_key g_opaque g_quiet gi_key gi_opaque gi_quiet].
  rewrite crun_call_L2. cbn [fst snd std_exec map].
  rewrite std_get1_single by reflexivity.
  destruct (olive now v) as [e|];
    cbn [gres_of l1l2_backfill hit_res miss_res g_miss existsb negb orb l1l2_get_tail g_key g_data g_flags g_exp].
  - rewrite crun_call_L1, std_set_set. cbn [fst snd to_cprog_gen crun rev app]. reflexivity.
  - cbn [to_cprog_gen crun snd rev app]. reflexivity.
Qed.

Lemma reader_l1l2 kk o q no ne :
  good_reader cell sres (option entry) (cinv now) (absv now) rsp
    (mkSec kk false (to_cprog_gen now false kk (l1l2_get [mkGI kk o q] no ne) [])).
Proof.
  intros v. cbn [s_prog]. set (S := mkSec kk false _). unfold l1l2_get.
  apply grp2_get_L1. intros [c1 c2] Hc Hv. cbn [map fst]. rewrite std_get1_single by reflexivity.
  rewrite absv_olive in Hv. cbn [snd] in Hv.
  destruct (olive now c1) as [e1|] eqn:E1; cbn [gres_of filter hit_res miss_res g_miss negb map emits].
  - cbn [l1l2_get_tail to_cprog_gen good_reader_prog rev app].
    rewrite snd_ref_sec. cbn [s_prog S]. rewrite cold_l1l2.
    apply cinv_rel in Hc. destruct Hc as [Hc _]. destruct (Hc e1 E1) as (e2 & E2 & Hd & Hf & _). cbn [snd] in E2.
    subst v. rewrite olive_idem, E2. cbn [gres_of].
    change (final_res false (hit_res (mkGI kk o q) e1 0) no ne =
            final_res false (hit_res (mkGI kk o q) e2 (remaining now (e_dl e2))) no ne).
    apply final_res_eq. intros p. apply render_pget_eq; cbn; auto.
  - cbn [items_of g_key g_opaque g_quiet gi_key gi_opaque gi_quiet].
    apply (grp2_get_L2 S v kk true). intros [c1' c2'] Hc' Hv'.
    cbn [map snd items_of miss_res g_key g_opaque g_quiet].
    rewrite std_get1_single by reflexivity. rewrite absv_olive in Hv'. cbn [snd] in Hv'. rewrite Hv'.
    destruct v as [e2|];
      cbn [gres_of l1l2_backfill hit_res miss_res g_miss existsb negb orb l1l2_get_tail g_key g_data g_flags g_exp gi_key].
    + apply grp2_backfill. cbn [to_cprog_gen good_reader_prog rev app].
      rewrite snd_ref_sec. cbn [s_prog S]. rewrite cold_l1l2. rewrite <- Hv', olive_idem, Hv'. reflexivity.
    + cbn [to_cprog_gen good_reader_prog rev app].
      rewrite snd_ref_sec. cbn [s_prog S]. rewrite cold_l1l2. reflexivity.
Qed.

(* ---------------- L1L2Batch ---------------- *)
Lemma cold_batch kk o q no ne v :
  snd (crun (to_cprog_gen now false kk (l1l2batch_get [mkGI kk o q] no ne) []) (None, v)) =
  final_res false (gres_of false (olive now v) (mkGI kk o q)) no ne.
Proof.
  unfold l1l2batch_get. rewrite crun_call_L1. cbn [fst snd std_exec map].
  rewrite std_get1_single by reflexivity. cbn [olive gres_of filter miss_res g_miss negb map emits items_of g_key g_opaque g_quiet gi_key gi_opaque gi_quiet].
  rewrite crun_call_L2. cbn [fst snd std_exec map].
  rewrite std_get1_single by reflexivity.
  cbn [map emits l1l2_get_tail to_cprog_gen crun snd rev app]. reflexivity.
Qed.

Lemma reader_batch kk o q no ne :
  good_reader cell sres (option entry) (cinv now) (absv now) rsp
    (mkSec kk false (to_cprog_gen now false kk (l1l2batch_get [mkGI kk o q] no ne) [])).
Proof.
  intros v. cbn [s_prog]. set (S := mkSec kk false _). unfold l1l2batch_get.
  apply grp2_get_L1. intros [c1 c2] Hc Hv. cbn [map fst]. rewrite std_get1_single by reflexivity.
  rewrite absv_olive in Hv. cbn [snd] in Hv.
  destruct (olive now c1) as [e1|] eqn:E1; cbn [gres_of filter hit_res miss_res g_miss negb map emits].
  - cbn [l1l2_get_tail to_cprog_gen good_reader_prog rev app].
    rewrite snd_ref_sec. cbn [s_prog S]. rewrite cold_batch.
    apply cinv_rel in Hc. destruct Hc as [Hc _]. destruct (Hc e1 E1) as (e2 & E2 & Hd & Hf & _). cbn [snd] in E2.
    subst v. rewrite olive_idem, E2. cbn [gres_of].
    change (final_res false (hit_res (mkGI kk o q) e1 0) no ne =
            final_res false (hit_res (mkGI kk o q) e2 0) no ne).
    apply final_res_eq. intros p. apply render_pget_eq; cbn; auto.
  - cbn [items_of g_key g_opaque g_quiet gi_key gi_opaque gi_quiet].
    apply (grp2_get_L2 S v kk false). intros [c1' c2'] Hc' Hv'.
    cbn [map snd items_of miss_res g_key g_opaque g_quiet].
    rewrite std_get1_single by reflexivity. rewrite absv_olive in Hv'. cbn [snd] in Hv'. rewrite Hv'.
    cbn [map emits l1l2_get_tail to_cprog_gen good_reader_prog rev app].
    rewrite snd_ref_sec. cbn [s_prog S]. rewrite cold_batch. rewrite <- Hv', olive_idem, Hv'. reflexivity.
Qed.

(* ---------------- L1Only (one tier: the backend is the second component) ---------------- *)
Lemma cold_one gete kk o q no ne v :
  snd (crun (to_cprog_gen now true kk (l1only (mkget gete [mkGI kk o q] no ne)) []) (None, v)) =
  final_res gete (gres_of gete (olive now v) (mkGI kk o q)) no ne.
Proof.
  destruct gete; cbn [mkget l1only]; rewrite crun_call_one; cbn [fst snd std_exec map];
    rewrite std_get1_single by reflexivity;
    cbn [map emits to_cprog_gen crun snd rev app]; reflexivity.
Qed.

Lemma reader_one gete kk o q no ne :
  good_reader cell sres (option entry) cinv1 (absv now) rsp
    (mkSec kk false (to_cprog_gen now true kk (l1only (mkget gete [mkGI kk o q] no ne)) [])).
Proof.
  intros v. cbn [s_prog]. set (S := mkSec kk false _).
  pose proof (cold_one gete kk o q no ne) as C.
  destruct gete; cbn [mkget l1only] in *;
    [apply (grp1_get S v kk true)|apply (grp1_get S v kk false)]; intros [c1 c2] Hc Hv; cbn [map snd];
    rewrite std_get1_single by reflexivity; rewrite absv_olive in Hv; cbn [snd] in Hv; rewrite Hv;
    cbn [map emits to_cprog_gen good_reader_prog rev app];
    rewrite snd_ref_sec; cbn [s_prog S]; rewrite C, <- Hv, olive_idem; reflexivity.
Qed.

End Readers.
