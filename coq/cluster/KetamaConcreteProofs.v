(* KetamaConcreteProofs.v — the concrete ring (cluster/KetamaConcrete.v: MD5 points, float32 round
   count, (point,label) sort) is a ring of the abstract model (cluster/Ketama.v), so the abstract
   theorems apply to it; being a function of the labels alone, it satisfies them as plain equations.
   No axioms. *)
From Coq Require Import String Sorting.Permutation Sorting.Sorted Sorting.Mergesort Orders.
From Rend Require Import base.Bytes cluster.Ketama cluster.KetamaProofs cluster.MD5 cluster.MD5Proofs
  cluster.KetamaFloat cluster.KetamaFloatProofs cluster.KetamaConcrete.
Open Scope N_scope.

(* ---- Go's string order on labels is a total order ---- *)
Lemma bytes_le_refl (a : bytes) : bytes_le a a.
Proof.
  unfold bytes_le. induction a as [|x a IH]; cbn [bytes_leb]; auto.
  rewrite N.ltb_irrefl, N.eqb_refl. exact IH.
Qed.

Lemma bytes_le_trans (a b c : bytes) : bytes_le a b -> bytes_le b c -> bytes_le a c.
Proof.
  unfold bytes_le. revert b c. induction a as [|x a IH]; intros [|y b] [|z c]; cbn [bytes_leb]; auto;
    try discriminate.
  destruct (x <? y) eqn:E1.
  - intros _. destruct (y <? z) eqn:E2.
    + intros _. assert (x <? z = true) as -> by lia. reflexivity.
    + destruct (y =? z) eqn:E3; [|discriminate]. intros _.
      assert (x <? z = true) as -> by lia. reflexivity.
  - destruct (x =? y) eqn:E1'; [|discriminate]. apply N.eqb_eq in E1'. subst y.
    intros H1. destruct (x <? z) eqn:E2; auto.
    destruct (x =? z) eqn:E3; [|discriminate]. intros H2. eapply IH; eauto.
Qed.

Lemma bytes_le_antisym (a b : bytes) : bytes_le a b -> bytes_le b a -> a = b.
Proof.
  unfold bytes_le. revert b. induction a as [|x a IH]; intros [|y b]; cbn [bytes_leb]; auto;
    try discriminate.
  destruct (x <? y) eqn:E1.
  - intros _. assert (y <? x = false) as -> by lia. assert (y =? x = false) as -> by lia. discriminate.
  - destruct (x =? y) eqn:E2; [|discriminate]. apply N.eqb_eq in E2. subst y.
    rewrite N.ltb_irrefl, N.eqb_refl. intros H1 H2. f_equal. auto.
Qed.

Lemma bytes_le_total (a b : bytes) : bytes_le a b \/ bytes_le b a.
Proof. apply bytes_leb_total. Qed.

(* ---- the boolean order of the sort is le_entry of the model ---- *)
Lemma entry_leb_le (a b : N * bytes) : entry_leb a b = true <-> le_entry bytes_le a b.
Proof.
  unfold entry_leb, le_entry, bytes_le. destruct (fst a <? fst b) eqn:E1.
  - split; auto. intros _. left. lia.
  - destruct (fst a =? fst b) eqn:E2.
    + split; intros H.
      * right. split; [lia|exact H].
      * destruct H as [H|[_ H]]; [lia|exact H].
    + split; [discriminate|]. intros [H|[H _]]; lia.
Qed.

Lemma Sorted_weaken {A} (R R' : A -> A -> Prop) (l : list A) :
  (forall a b, R a b -> R' a b) -> Sorted R l -> Sorted R' l.
Proof.
  intros HR H. induction H as [|a l Hs IH Hh]; constructor; auto.
  destruct Hh; constructor; auto.
Qed.

Lemma sort_ring_sorted (r : list (N * bytes)) : Sorted (le_entry bytes_le) (sort_ring r).
Proof.
  unfold sort_ring. eapply Sorted_weaken; [|apply EntrySort.Sorted_sort].
  intros a b H. apply entry_leb_le. exact H.
Qed.

Lemma sort_ring_perm (r : list (N * bytes)) : Permutation r (sort_ring r).
Proof. apply EntrySort.Permuted_sort. Qed.

(* ---- a sorted permutation is unique (antisymmetric transitive order): the result of sort.Sort is
   determined by the multiset of entries, whatever the algorithm ---- *)
Lemma sorted_perm_unique {A} (R : A -> A -> Prop) :
  (forall a b c, R a b -> R b c -> R a c) -> (forall a b, R a b -> R b a -> a = b) ->
  forall l1 l2 : list A, StronglySorted R l1 -> StronglySorted R l2 -> Permutation l1 l2 -> l1 = l2.
Proof.
  intros Htr Has. induction l1 as [|a t1 IH]; intros l2 S1 S2 P.
  - apply Permutation_nil in P. subst. reflexivity.
  - destruct l2 as [|b t2]; [apply Permutation_sym, Permutation_nil in P; discriminate|].
    inversion S1 as [|? ? S1' F1]; subst. inversion S2 as [|? ? S2' F2]; subst.
    assert (a = b) as ->.
    { assert (In b (a :: t1)) as Hb by (eapply Permutation_in; [apply Permutation_sym; exact P|left; reflexivity]).
      assert (In a (b :: t2)) as Ha by (eapply Permutation_in; [exact P|left; reflexivity]).
      destruct Hb as [Hb|Hb]; [exact Hb|]. destruct Ha as [Ha|Ha]; [symmetry; exact Ha|].
      rewrite Forall_forall in F1, F2. apply Has; auto. }
    f_equal. apply IH; auto. eapply Permutation_cons_inv. exact P.
Qed.

Lemma le_entry_bytes_trans : Relations_1.Transitive (le_entry bytes_le).
Proof. apply le_entry_trans. exact bytes_le_trans. Qed.

Lemma sort_ring_unique (r r' : list (N * bytes)) : Permutation r r' -> sort_ring r = sort_ring r'.
Proof.
  intros P. apply (sorted_perm_unique (le_entry bytes_le)).
  - intros a b c. apply le_entry_bytes_trans.
  - apply le_entry_antisym. exact bytes_le_antisym.
  - apply Sorted_StronglySorted; [exact le_entry_bytes_trans|apply sort_ring_sorted].
  - apply Sorted_StronglySorted; [exact le_entry_bytes_trans|apply sort_ring_sorted].
  - eapply Permutation_trans; [apply Permutation_sym, sort_ring_perm|].
    eapply Permutation_trans; [exact P|apply sort_ring_perm].
Qed.

(* any ring the model accepts for the tie-broken sort IS the concrete one *)
Lemma ring_tb_is_sort_ring (pts : bytes -> list N) (ls : list bytes) (r : list (N * bytes)) :
  is_ring_tb pts bytes_le ls r -> r = sort_ring (entries pts ls).
Proof.
  intros [P S]. apply (sorted_perm_unique (le_entry bytes_le)).
  - intros a b c. apply le_entry_bytes_trans.
  - apply le_entry_antisym. exact bytes_le_antisym.
  - apply Sorted_StronglySorted; [exact le_entry_bytes_trans|exact S].
  - apply Sorted_StronglySorted; [exact le_entry_bytes_trans|apply sort_ring_sorted].
  - eapply Permutation_trans; [apply Permutation_sym; exact P|apply sort_ring_perm].
Qed.

(* ---- the concrete ring is a ring of the abstract model ---- *)
Lemma ring_of_is_ring_tb (ls : list bytes) :
  is_ring_tb (kpts (ketama_limit_eq (len ls))) bytes_le ls (ring_of ls).
Proof. split; [apply sort_ring_perm|apply sort_ring_sorted]. Qed.

Lemma ring_of_is_ring (ls : list bytes) : is_ring (kpts (ketama_limit_eq (len ls))) ls (ring_of ls).
Proof. apply (ring_tb_is_ring _ bytes_le). apply ring_of_is_ring_tb. Qed.

Lemma ring_of_sorted (ls : list bytes) : Sorted le_point (ring_of ls).
Proof. apply ring_of_is_ring. Qed.

Lemma entries_perm {label} (pts : label -> list N) (ls ls' : list label) :
  Permutation ls ls' -> Permutation (entries pts ls) (entries pts ls').
Proof.
  intros P. unfold entries. induction P; cbn [flat_map].
  - constructor.
  - apply Permutation_app_head. exact IHP.
  - rewrite !app_assoc. apply Permutation_app_tail. apply Permutation_app_comm.
  - eapply Permutation_trans; eauto.
Qed.

Lemma len_perm {A} (l l' : list A) : Permutation l l' -> len l = len l'.
Proof. intros P. unfold len. rewrite (Permutation_length P). reflexivity. Qed.

(* ---- order independence, concretely: the ring itself does not depend on the listing order ---- *)
Lemma ring_of_perm (ls ls' : list bytes) : Permutation ls ls' -> ring_of ls' = ring_of ls.
Proof.
  intros P. unfold ring_of. rewrite <- (len_perm _ _ P). apply sort_ring_unique.
  apply entries_perm. apply Permutation_sym. exact P.
Qed.

(* ... and, as a corollary of the abstract theorem (lookup_set_independent_tb = c19_order_independent_tiebreak),
   so does the node chosen for a key; here only the set and the NUMBER of listed nodes must agree *)
Lemma node_of_set_independent (ls ls' : list bytes) (key : bytes) :
  (forall l, In l ls <-> In l ls') -> ketama_limit_eq (len ls') = ketama_limit_eq (len ls) ->
  node_of ls' key = node_of ls key.
Proof.
  intros Hset Hlim. unfold node_of.
  apply (lookup_set_independent_tb (kpts (ketama_limit_eq (len ls))) bytes_le
           bytes_le_refl bytes_le_trans bytes_le_antisym ls' ls).
  - intros l. symmetry. apply Hset.
  - rewrite <- Hlim. apply ring_of_is_ring_tb.
  - apply ring_of_is_ring_tb.
Qed.

Lemma node_of_perm (ls ls' : list bytes) (key : bytes) :
  Permutation ls ls' -> node_of ls' key = node_of ls key.
Proof.
  intros P. apply node_of_set_independent.
  - intros l. split; apply Permutation_in; [exact P|apply Permutation_sym; exact P].
  - rewrite (len_perm _ _ P). reflexivity.
Qed.

(* ---- removal locality, concretely: holds when the round count is the same before and after ---- *)
Lemma node_of_removal (ls ls' : list bytes) (x key : bytes) :
  (forall l, In l ls' <-> In l ls /\ l <> x) ->
  ketama_limit_eq (len ls') = ketama_limit_eq (len ls) ->
  node_of ls key <> Some x -> node_of ls' key = node_of ls key.
Proof.
  intros Hset Hlim. unfold node_of.
  apply (lookup_removal_tb (kpts (ketama_limit_eq (len ls))) bytes_le
           bytes_le_refl bytes_le_trans bytes_le_antisym ls ls' x).
  - exact Hset.
  - apply ring_of_is_ring_tb.
  - rewrite <- Hlim. apply ring_of_is_ring_tb.
Qed.

(* up to 60 listed nodes the premise on the round count is a theorem (KetamaFloatProofs.limit_40_upto_60) *)
Lemma node_of_removal_upto_60 (ls ls' : list bytes) (x key : bytes) :
  (forall l, In l ls' <-> In l ls /\ l <> x) ->
  1 <= len ls' -> len ls' <= 60 -> len ls <= 60 ->
  node_of ls key <> Some x -> node_of ls' key = node_of ls key.
Proof.
  intros Hset H1 H2 H3. apply node_of_removal; auto.
  assert (1 <= len ls).
  { destruct ls' as [|l t]; [cbn in H1; lia|].
    assert (In l ls) by (apply (Hset l); left; reflexivity).
    destruct ls; [contradiction|]. rewrite len_cons. lia. }
  rewrite !limit_40_upto_60 by lia. reflexivity.
Qed.

(* ---- every node gets ring points: 4 * limit of them per listing ---- *)
Lemma flat_map_length_const {A B} (f : A -> list B) (k : nat) (l : list A) :
  (forall a, length (f a) = k) -> length (flat_map f l) = (k * length l)%nat.
Proof.
  intros H. induction l as [|a l IH]; cbn [flat_map length]; [lia|].
  rewrite app_length, H, IH. lia.
Qed.

Lemma upto_length (n : N) : length (upto n) = N.to_nat n.
Proof. unfold upto. rewrite map_length, seq_length. reflexivity. Qed.

Lemma kpts_length (lim : N) (l : bytes) : len (kpts lim l) = 4 * lim.
Proof.
  unfold kpts, len. rewrite (flat_map_length_const _ 4); [|intros; apply ketama_points_length].
  rewrite upto_length. lia.
Qed.

Lemma kpts_lt (lim : N) (l : bytes) (p : N) : In p (kpts lim l) -> p < 4294967296.
Proof.
  unfold kpts. rewrite in_flat_map. intros (k & _ & H). apply (ketama_points_lt l k p H).
Qed.

Lemma ring_of_length (ls : list bytes) : len (ring_of ls) = 4 * ketama_limit_eq (len ls) * len ls.
Proof.
  unfold len at 1. unfold ring_of. rewrite <- (Permutation_length (sort_ring_perm _)).
  unfold entries. rewrite (flat_map_length_const _ (N.to_nat (4 * ketama_limit_eq (len ls)))).
  - unfold len. rewrite Nat2N.inj_mul, N2Nat.id. reflexivity.
  - intros l. unfold entries_of. rewrite map_length.
    pose proof (kpts_length (ketama_limit_eq (len ls)) l) as H. unfold len in *. lia.
Qed.

Lemma ring_of_in (ls : list bytes) (p : N) (l : bytes) :
  In (p, l) (ring_of ls) <-> In l ls /\ In p (kpts (ketama_limit_eq (len ls)) l).
Proof. apply ring_in'. apply ring_of_is_ring. Qed.

(* a listed node owns 156 or 160 ring entries per listing, in particular at least one, and every
   one of them is a point at which the lookup can land *)
Lemma every_node_has_points (ls : list bytes) (l : bytes) :
  1 <= len ls <= 4096 -> In l ls ->
  (len (kpts (ketama_limit_eq (len ls)) l) = 156 \/ len (kpts (ketama_limit_eq (len ls)) l) = 160)
  /\ exists p, In (p, l) (ring_of ls).
Proof.
  intros Hn Hl. pose proof (limit_39_or_40 (len ls) Hn) as Hlim. rewrite kpts_length.
  split; [destruct Hlim as [[E _]|[E _]]; rewrite E; [left|right]; reflexivity|].
  destruct (kpts (ketama_limit_eq (len ls)) l) as [|p t] eqn:E.
  - exfalso. pose proof (kpts_length (ketama_limit_eq (len ls)) l) as H. rewrite E, len_nil in H.
    pose proof (limit_positive (len ls) Hn). lia.
  - exists p. apply ring_of_in. split; [exact Hl|]. rewrite E. left. reflexivity.
Qed.

(* ---- non-vacuity / regression values: a 3-node ring computed from the labels alone ---- *)
Definition demo_labels : list bytes := [asc "10.0.0.1:11211"; asc "10.0.0.2:11211"; asc "10.0.0.3:11211"].

Lemma demo_ring_facts :
  len (ring_of demo_labels) = 480
  /\ ketama_points (asc "10.0.0.1:11211") 0 = [1644766326; 266575842; 1549369152; 2004188753]
  /\ ring_of [asc "10.0.0.3:11211"; asc "10.0.0.1:11211"; asc "10.0.0.2:11211"] = ring_of demo_labels
  /\ node_of demo_labels (asc "hello") = node_of (rev demo_labels) (asc "hello")
  /\ node_of demo_labels (asc "hello") <> None.
Proof.
  split; [vm_cast_no_check (eq_refl (480 : N))|].
  split; [vm_compute; reflexivity|].
  split; [vm_compute; reflexivity|].
  split; [vm_compute; reflexivity|].
  vm_compute. discriminate.
Qed.

(* ---- the weighted ring with all weights 1 is [ring_of] (what the correspondence check evaluates is
   [ring_of_w]; rend's nodes all have weight 1) ---- *)
Lemma total_weight_ones_acc (ls : list bytes) (a : N) :
  fold_left (fun acc (b : bytes * N) => (acc + snd b) mod 4294967296) (map (fun l => (l, 1)) ls) a
  = if ls then a else (a + len ls) mod 4294967296.
Proof.
  revert a. induction ls as [|l t IH]; intros a; [reflexivity|].
  cbn [map fold_left snd]. rewrite IH. rewrite len_cons. destruct t as [|l' t'].
  - rewrite len_nil. f_equal; lia.
  - rewrite !len_cons. rewrite N.add_mod_idemp_l by lia. f_equal; lia.
Qed.

Lemma total_weight_ones (ls : list bytes) :
  len ls < 4294967296 -> total_weight (map (fun l => (l, 1)) ls) = len ls.
Proof.
  intros H. unfold total_weight. rewrite total_weight_ones_acc. destruct ls as [|l t]; [reflexivity|].
  rewrite N.add_0_l. apply N.mod_small. exact H.
Qed.

Lemma flat_map_map {A B C} (g : A -> B) (f : B -> list C) (l : list A) :
  flat_map f (map g l) = flat_map (fun a => f (g a)) l.
Proof. induction l as [|a l IH]; cbn [map flat_map]; [reflexivity|]. rewrite IH. reflexivity. Qed.

Lemma ring_of_w_ones (ls : list bytes) :
  len ls < 4294967296 -> ring_of_w (map (fun l => (l, 1)) ls) = ring_of ls.
Proof.
  intros H. unfold ring_of_w, ring_of. f_equal. unfold entries_w, entries, entries_of.
  rewrite flat_map_map. cbn [fst snd]. unfold limit_w. rewrite (total_weight_ones ls H).
  replace (len (map (fun l : bytes => (l, 1)) ls)) with (len ls) by (unfold len; rewrite map_length; reflexivity).
  reflexivity.
Qed.

(* ---- as stated in props/C19.v ---- *)
Lemma concrete_ring_facts (ls : list bytes) :
  is_ring_tb (kpts (ketama_limit_eq (len ls))) bytes_le ls (ring_of ls)
  /\ is_ring (kpts (ketama_limit_eq (len ls))) ls (ring_of ls)
  /\ (forall a, bytes_le a a) /\ (forall a b c, bytes_le a b -> bytes_le b c -> bytes_le a c)
  /\ (forall a b, bytes_le a b -> bytes_le b a -> a = b) /\ (forall a b, bytes_le a b \/ bytes_le b a).
Proof.
  split; [apply ring_of_is_ring_tb|]. split; [apply ring_of_is_ring|].
  split; [exact bytes_le_refl|]. split; [exact bytes_le_trans|]. split; [exact bytes_le_antisym|exact bytes_le_total].
Qed.

Lemma ring_of_unique (ls : list bytes) (r : list (N * bytes)) :
  is_ring_tb (kpts (ketama_limit_eq (len ls))) bytes_le ls r -> r = ring_of ls.
Proof. apply ring_tb_is_sort_ring. Qed.

Lemma concrete_order_independent (ls ls' : list bytes) :
  Permutation ls ls' -> ring_of ls' = ring_of ls /\ forall key, node_of ls' key = node_of ls key.
Proof. intros P. split; [apply ring_of_perm; exact P|]. intros key. apply node_of_perm. exact P. Qed.
