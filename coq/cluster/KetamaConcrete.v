(* KetamaConcrete.v — the ring of ketama.go as a function of the node labels alone: the abstract point
   function of cluster/Ketama.v instantiated with MD5 (cluster/MD5.v) and the float32 round count
   (cluster/KetamaFloat.v), the sort instantiated with the (point, label) order of points.Less after
   fix 3577b4d.  Definitions only (plus the totality of the order, which the standard library's
   Mergesort functor asks for); proofs are in KetamaConcreteProofs.v.

     for i, b := range buckets {
         limit := int(float32(float64(float32(w)/float32(total)) * 40.0 * float64(n)))
         for k := 0; k < limit; k++ {
             digest := md5.Sum([]byte(fmt.Sprintf("%s-%d", b.Label(), k)))
             for h := 0; h < 4; h++ { ring = append(ring, {LittleEndian.Uint32(digest[h*4:]), b}) } } }
     sort.Sort(ring)          // Less: point, then label (Go's string order = bytewise lexicographic)

   A label is a byte string.  rend's Node.Weight() is the constant 1, so [ring_of] takes labels only;
   [ring_of_w] is the same for explicit weights. *)
From Coq Require Import Sorting.Mergesort Orders.
From Rend Require Import base.Bytes cluster.Ketama cluster.MD5 cluster.KetamaFloat.
Open Scope N_scope.

Definition upto (n : N) : list N := map N.of_nat (seq 0 (N.to_nat n)).

(* the points of a label that gets [lim] rounds: rounds in order, 4 points per round *)
Definition kpts (lim : N) (l : bytes) : list N := flat_map (ketama_points l) (upto lim).

(* Go's string comparison a <= b *)
Fixpoint bytes_leb (a b : bytes) : bool :=
  match a, b with
  | [], _ => true
  | _ :: _, [] => false
  | x :: a', y :: b' => if x <? y then true else if x =? y then bytes_leb a' b' else false
  end.
Definition bytes_le (a b : bytes) : Prop := bytes_leb a b = true.

(* not Less(b, a):  a.point < b.point, or equal points and a.label <= b.label *)
Definition entry_leb (a b : N * bytes) : bool :=
  if fst a <? fst b then true else if fst a =? fst b then bytes_leb (snd a) (snd b) else false.

Lemma bytes_leb_total (a b : bytes) : bytes_leb a b = true \/ bytes_leb b a = true.
Proof.
  revert b. induction a as [|x a IH]; intros [|y b]; cbn [bytes_leb]; auto.
  destruct (x <? y) eqn:E1; auto. destruct (y <? x) eqn:E2; auto.
  assert (x = y) by lia. subst. rewrite N.eqb_refl. apply IH.
Qed.

Module EntryOrder <: TotalLeBool.
  Definition t : Type := (N * bytes)%type.
  Definition leb : t -> t -> bool := entry_leb.
  Lemma leb_total (a b : t) : leb a b = true \/ leb b a = true.
  Proof.
    unfold leb, entry_leb. destruct a as [p l], b as [q m]. cbn [fst snd].
    destruct (p <? q) eqn:E1; auto. destruct (q <? p) eqn:E2; auto.
    assert (p = q) by lia. subst. rewrite N.eqb_refl. apply bytes_leb_total.
  Qed.
End EntryOrder.
Module EntrySort := Sort EntryOrder.

(* sort.Sort(ring): merge sort on the total order (the result does not depend on the algorithm:
   KetamaConcreteProofs.sorted_perm_unique) *)
Definition sort_ring (r : list (N * bytes)) : list (N * bytes) := EntrySort.sort r.

(* Continuum.Reset on n = len ls buckets of weight 1 *)
Definition ring_of (ls : list bytes) : list (N * bytes) :=
  sort_ring (entries (kpts (ketama_limit_eq (len ls))) ls).

(* Continuum.Hash(key) *)
Definition node_of (ls : list bytes) (key : bytes) : option bytes := lookup (ring_of ls) (ketama_hash key).

(* ---- explicit weights: buckets are (label, weight); totalweight is a uint32 sum ---- *)
Definition total_weight (bs : list (bytes * N)) : N := fold_left (fun acc b => (acc + snd b) mod 4294967296) bs 0.
Definition limit_w (bs : list (bytes * N)) (w : N) : N :=
  Z.to_N (ketama_limit (Z.of_N w) (Z.of_N (total_weight bs)) (Z.of_N (len bs))).
Definition entries_w (bs : list (bytes * N)) : list (N * bytes) :=
  flat_map (fun b => map (fun p => (p, fst b)) (kpts (limit_w bs (snd b)) (fst b))) bs.
Definition ring_of_w (bs : list (bytes * N)) : list (N * bytes) := sort_ring (entries_w bs).
