(* KetamaProofs.v — lemmas about the ketama ring model (cluster/Ketama.v). *)
From Rend Require Import base.Bytes cluster.Ketama.
From Coq Require Import Sorting.Permutation Sorting.Sorted.
Open Scope N_scope.

Section Proofs.
Context {label : Type}.
Notation entry := (@entry label).
Implicit Types (r : list entry) (h p : N) (l : label).

(* ------------------------------------------------------------------ sortedness *)
Lemma le_point_trans : Relations_1.Transitive (@le_point label).
Proof. intros a b c; unfold le_point; lia. Qed.

Lemma sorted_strong r : Sorted le_point r -> StronglySorted le_point r.
Proof. apply Sorted_StronglySorted, le_point_trans. Qed.

Lemma strong_app_tail r1 e r2 :
  StronglySorted le_point (r1 ++ e :: r2) -> Forall (le_point e) r2.
Proof.
  induction r1 as [|a r1 IH]; cbn [app]; intros H; apply StronglySorted_inv in H; destruct H as [H1 H2].
  - exact H2.
  - auto.
Qed.

(* ------------------------------------------------------------------ linear search *)
Lemma find_ge_some r h e : find_ge r h = Some e ->
  exists r1 r2, r = r1 ++ e :: r2 /\ h <= fst e /\ Forall (fun e' => fst e' < h) r1.
Proof.
  induction r as [|a r IH]; cbn [find_ge]; [discriminate|].
  destruct (h <=? fst a) eqn:E.
  - intros [= <-]. exists [], r. repeat split; [lia | constructor].
  - intros H. destruct (IH H) as (r1 & r2 & -> & Hle & Hall).
    exists (a :: r1), r2. repeat split; auto. constructor; [lia | auto].
Qed.

Lemma find_ge_none r h : find_ge r h = None -> Forall (fun e' => fst e' < h) r.
Proof.
  induction r as [|a r IH]; cbn [find_ge]; [constructor|].
  destruct (h <=? fst a) eqn:E; [discriminate|].
  intros H. constructor; [lia | auto].
Qed.

Lemma lookup_total r h : r <> [] -> exists l, lookup r h = Some l.
Proof.
  unfold lookup, wrap0. intros Hne. destruct (find_ge r h); [eauto|].
  destruct r; [congruence | eauto].
Qed.

Lemma lookup_nil h : lookup (@nil entry) h = None.
Proof. reflexivity. Qed.

(* the executable lookup meets the specification of the search on every point-sorted ring *)
Lemma lookup_sound r h l : Sorted le_point r -> lookup r h = Some l -> owner_spec r h l.
Proof.
  intros Hs. apply sorted_strong in Hs. unfold lookup, wrap0.
  destruct (find_ge r h) as [e|] eqn:F.
  - intros [= <-]. left. destruct (find_ge_some _ _ _ F) as (r1 & r2 & -> & Hle & Hall).
    exists (fst e). split; [|split]; auto.
    + rewrite <- surjective_pairing. apply in_elt.
    + intros e' Hin Hge. apply in_app_or in Hin. destruct Hin as [Hin | [<- | Hin]].
      * rewrite Forall_forall in Hall. specialize (Hall _ Hin). lia.
      * lia.
      * apply strong_app_tail in Hs. rewrite Forall_forall in Hs. apply (Hs _ Hin).
  - destruct r as [|e0 r0]; [discriminate|]. intros [= <-]. right.
    apply find_ge_none in F. rewrite Forall_forall in F. split; [exact F|].
    exists (fst e0). split.
    + rewrite <- surjective_pairing. left; reflexivity.
    + apply StronglySorted_inv in Hs. destruct Hs as [_ Hall]. rewrite Forall_forall in Hall.
      intros e [<- | Hin]; [lia | apply (Hall _ Hin)].
Qed.

Lemma owner_spec_nonempty r h l : owner_spec r h l -> r <> [].
Proof. intros [(p & Hin & _) | (_ & p & Hin & _)]; intros ->; destruct Hin. Qed.

(* when a point has one owner the specification determines the label *)
Lemma owner_spec_unique r h l l' :
  owner_unique r -> owner_spec r h l -> owner_spec r h l' -> l = l'.
Proof.
  intros U [(p & Hin & Hge & Hmin) | (Hall & p & Hin & Hmin)]
           [(p' & Hin' & Hge' & Hmin') | (Hall' & p' & Hin' & Hmin')].
  - pose proof (Hmin _ Hin' Hge') as A. pose proof (Hmin' _ Hin Hge) as B. cbn [fst] in A, B.
    assert (p = p') by lia. subst p'. eapply U; eauto.
  - specialize (Hall' _ Hin). cbn [fst] in Hall'. lia.
  - specialize (Hall _ Hin'). cbn [fst] in Hall. lia.
  - pose proof (Hmin _ Hin') as A. pose proof (Hmin' _ Hin) as B. cbn [fst] in A, B.
    assert (p = p') by lia. subst p'. eapply U; eauto.
Qed.

Lemma lookup_complete r h l :
  Sorted le_point r -> owner_unique r -> owner_spec r h l -> lookup r h = Some l.
Proof.
  intros Hs U Hspec. destruct (lookup_total r h (owner_spec_nonempty _ _ _ Hspec)) as [l' Hl'].
  rewrite Hl'. f_equal. eapply owner_spec_unique; eauto using lookup_sound.
Qed.

(* the specification only looks at the SET of entries *)
Lemma owner_spec_ext r r' h l :
  (forall e, In e r <-> In e r') -> owner_spec r h l -> owner_spec r' h l.
Proof.
  intros E [(p & Hin & Hge & Hmin) | (Hall & p & Hin & Hmin)].
  - left. exists p. repeat split; [apply E; auto | auto |]. intros e He; apply Hmin, E, He.
  - right. split; [intros e He; apply Hall, E, He|]. exists p. split; [apply E; auto|].
    intros e He; apply Hmin, E, He.
Qed.

Lemma owner_unique_ext r r' : (forall e, In e r <-> In e r') -> owner_unique r -> owner_unique r'.
Proof. intros E U p l1 l2 H1 H2. apply E in H1, H2. eapply U; eauto. Qed.

(* two sorted rings with the same set of entries, each point owned by one label: same lookup *)
Lemma lookup_ext r r' h :
  Sorted le_point r -> Sorted le_point r' -> (forall e, In e r <-> In e r') -> owner_unique r ->
  lookup r h = lookup r' h.
Proof.
  intros Hs Hs' E U. destruct r as [|e0 r0].
  - destruct r' as [|e1 r1]; [reflexivity|]. exfalso. apply (E e1). left; reflexivity.
  - destruct (lookup_total (e0 :: r0) h) as [l Hl]; [discriminate|]. rewrite Hl. symmetry.
    apply lookup_complete; auto.
    + eapply owner_unique_ext; eauto.
    + eapply owner_spec_ext; eauto using lookup_sound.
Qed.

(* entries owned by a label other than x survive when only x's entries are removed *)
Lemma owner_spec_sub r r' h l x :
  (forall p l0, In (p, l0) r' <-> In (p, l0) r /\ l0 <> x) ->
  owner_spec r h l -> l <> x -> owner_spec r' h l.
Proof.
  intros E [(p & Hin & Hge & Hmin) | (Hall & p & Hin & Hmin)] Hne.
  - left. exists p. repeat split; [apply E; auto | auto |].
    intros [q l0] He. apply E in He. apply Hmin, He.
  - right. split.
    + intros [q l0] He. apply E in He. apply Hall, He.
    + exists p. split; [apply E; auto|]. intros [q l0] He. apply E in He. apply Hmin, He.
Qed.

(* ------------------------------------------------------------------ binary search = linear search *)
Lemma div2_between i j : (i < j)%nat -> (i <= Nat.div2 (i + j))%nat /\ (Nat.div2 (i + j) < j)%nat.
Proof. intros H. rewrite Nat.div2_div. split; lia. Qed.

Lemma search_loop_spec (f : nat -> bool) (n : nat) :
  (forall a b, (a <= b)%nat -> (b < n)%nat -> f a = true -> f b = true) ->
  forall fuel i j, (i <= j)%nat -> (j <= n)%nat -> (j - i <= fuel)%nat ->
    (forall a, (a < i)%nat -> f a = false) ->
    (forall a, (j <= a)%nat -> (a < n)%nat -> f a = true) ->
    let k := search_loop fuel f i j in
    (k <= n)%nat /\ (forall a, (a < k)%nat -> f a = false) /\ ((k < n)%nat -> f k = true).
Proof.
  intros Hmono. induction fuel as [|fuel IH]; intros i j Hij Hjn Hfuel Hlo Hhi; cbn [search_loop].
  - assert (i = j) by lia. subst j. repeat split; [lia | auto | intros; apply Hhi; lia].
  - destruct (Nat.ltb i j) eqn:Elt.
    + apply Nat.ltb_lt in Elt. destruct (div2_between i j Elt) as [H1 H2].
      set (m := Nat.div2 (i + j)) in *.
      destruct (f m) eqn:Efm.
      * apply IH; try lia; auto.
        intros a Ha Han. apply (Hmono m a); auto.
      * apply IH; try lia; auto.
        intros a Ha. destruct (f a) eqn:Efa; [|reflexivity].
        destruct (Nat.lt_ge_cases a i) as [Hai | Hai]; [rewrite (Hlo a Hai) in Efa; discriminate|].
        assert (f m = true) by (apply (Hmono a m); auto; lia). congruence.
    + apply Nat.ltb_ge in Elt. assert (i = j) by lia. subst j.
      repeat split; [lia | auto | intros; apply Hhi; lia].
Qed.

Lemma search_spec (f : nat -> bool) (n : nat) :
  (forall a b, (a <= b)%nat -> (b < n)%nat -> f a = true -> f b = true) ->
  let k := search n f in
  (k <= n)%nat /\ (forall a, (a < k)%nat -> f a = false) /\ ((k < n)%nat -> f k = true).
Proof.
  intros Hmono. unfold search. apply search_loop_spec; auto; intros; lia.
Qed.

Lemma least_true_unique (f : nat -> bool) (n k1 k2 : nat) :
  (k1 <= n)%nat -> (forall a, (a < k1)%nat -> f a = false) -> ((k1 < n)%nat -> f k1 = true) ->
  (k2 <= n)%nat -> (forall a, (a < k2)%nat -> f a = false) -> ((k2 < n)%nat -> f k2 = true) ->
  k1 = k2.
Proof.
  intros A1 B1 C1 A2 B2 C2.
  destruct (Nat.lt_trichotomy k1 k2) as [H | [H | H]]; auto.
  - rewrite (B2 k1 H) in C1. assert (k1 < n)%nat by lia. intuition discriminate.
  - rewrite (B1 k2 H) in C2. assert (k2 < n)%nat by lia. intuition discriminate.
Qed.

Lemma point_at_cons_S e r i : point_at (e :: r) (S i) = point_at r i.
Proof. reflexivity. Qed.

Lemma find_idx_spec r h :
  let k := find_idx r h in
  (k <= length r)%nat /\ (forall a, (a < k)%nat -> (h <=? point_at r a) = false)
  /\ ((k < length r)%nat -> (h <=? point_at r k) = true).
Proof.
  induction r as [|e r IH]; cbn [find_idx length].
  - repeat split; [lia | intros a Ha; lia | intros Ha; lia].
  - destruct (h <=? fst e) eqn:E.
    + repeat split; [lia | intros a Ha; lia | intros _; exact E].
    + destruct IH as (A & B & C). repeat split.
      * lia.
      * intros [|a] Ha; [exact E | rewrite point_at_cons_S; apply B; lia].
      * intros Hk. rewrite point_at_cons_S. apply C. lia.
Qed.

Lemma point_at_mono r : StronglySorted le_point r ->
  forall a b, (a <= b)%nat -> (b < length r)%nat -> point_at r a <= point_at r b.
Proof.
  induction 1 as [|e r Hs IH Hall]; intros a b Hab Hb; cbn [length] in Hb; [lia|].
  destruct a as [|a].
  - destruct b as [|b]; [lia|]. rewrite point_at_cons_S. unfold point_at at 1. cbn [nth_error].
    unfold point_at. destruct (nth_error r b) as [e'|] eqn:Hn.
    + apply nth_error_In in Hn. rewrite Forall_forall in Hall. apply (Hall _ Hn).
    + apply nth_error_None in Hn. lia.
  - destruct b as [|b]; [lia|]. rewrite !point_at_cons_S. apply IH; lia.
Qed.

Lemma search_is_find_idx r h : Sorted le_point r ->
  search (length r) (fun i => h <=? point_at r i) = find_idx r h.
Proof.
  intros Hs. apply sorted_strong in Hs.
  set (f := fun i : nat => h <=? point_at r i).
  destruct (search_spec f (length r)) as (A1 & B1 & C1).
  { intros a b Hab Hb Hfa. unfold f in *. pose proof (point_at_mono r Hs a b Hab Hb). lia. }
  destruct (find_idx_spec r h) as (A2 & B2 & C2).
  eapply (least_true_unique f (length r)); eauto.
Qed.

Lemma find_ge_nth r h : find_ge r h = nth_error r (find_idx r h).
Proof.
  induction r as [|e r IH]; cbn [find_ge find_idx]; [reflexivity|].
  destruct (h <=? fst e); [reflexivity | exact IH].
Qed.

(* the model of the code (sort.Search + wrap to index 0) computes the linear lookup *)
Lemma lookup_bs_eq r h : Sorted le_point r -> lookup_bs r h = lookup r h.
Proof.
  intros Hs. unfold lookup_bs. rewrite (search_is_find_idx r h Hs).
  unfold lookup. rewrite find_ge_nth.
  destruct (find_idx_spec r h) as (A & _ & _).
  destruct r as [|e0 r0]; [reflexivity|]. cbn [length] in *.
  set (n := S (length r0)) in *. set (k := find_idx (e0 :: r0) h) in *.
  destruct (Nat.leb n k) eqn:E.
  - apply Nat.leb_le in E. assert (Hk : k = n) by lia.
    assert (Hnone : nth_error (e0 :: r0) k = None) by (apply nth_error_None; cbn [length]; lia).
    rewrite Hnone. reflexivity.
  - apply Nat.leb_gt in E.
    destruct (nth_error (e0 :: r0) k) as [e|] eqn:Hn; [reflexivity|].
    apply nth_error_None in Hn. cbn [length] in Hn. lia.
Qed.

(* ------------------------------------------------------------------ batch lookup used by the check *)
Lemma ascending_strong hs : ascending hs = true -> StronglySorted N.le hs.
Proof.
  intros H. apply Sorted_StronglySorted; [intros a b c; lia|].
  induction hs as [|a t IH]; [constructor|].
  cbn [ascending] in H. destruct t as [|b t'].
  - repeat constructor.
  - apply andb_true_iff in H. destruct H as [Hab Ht]. constructor; [auto|]. constructor. lia.
Qed.

Lemma sweep_map r hs : StronglySorted N.le hs -> sweep r hs = map (find_ge r) hs.
Proof.
  revert hs. induction r as [|e r IH]; intros hs Hs.
  - cbn [sweep]. apply map_ext. reflexivity.
  - induction Hs as [|a hs Hs IHhs Hall].
    + reflexivity.
    + cbn [sweep map find_ge]. destruct (a <=? fst e) eqn:E.
      * f_equal. exact IHhs.
      * rewrite (IH (a :: hs)) by (constructor; auto). cbn [map]. f_equal.
        apply map_ext_in. intros b Hb. rewrite Forall_forall in Hall. specialize (Hall _ Hb).
        cbn [find_ge]. destruct (b <=? fst e) eqn:E'; [lia | reflexivity].
Qed.

Lemma lookup_all_eq r hs : lookup_all r hs = map (lookup r) hs.
Proof.
  unfold lookup_all. destruct (ascending hs) eqn:A; [|reflexivity].
  rewrite sweep_map by (apply ascending_strong; exact A). rewrite map_map. reflexivity.
Qed.

(* ------------------------------------------------------------------ rings of a label list *)
Section Ring.
Variable pts : label -> list N.

Lemma in_entries ls p l : In (p, l) (entries pts ls) <-> In l ls /\ In p (pts l).
Proof.
  unfold entries, entries_of. rewrite in_flat_map. split.
  - intros (x & Hx & Hin). apply in_map_iff in Hin. destruct Hin as (q & Heq & Hq).
    inversion Heq; subst. auto.
  - intros [Hl Hp]. exists l. split; auto. apply in_map_iff. exists p. auto.
Qed.

Lemma ring_in ls r e : is_ring pts ls r -> (In e r <-> In e (entries pts ls)).
Proof.
  intros [Hp _]. split; apply Permutation_in; [symmetry|]; exact Hp.
Qed.

Lemma ring_in' ls r p l : is_ring pts ls r -> (In (p, l) r <-> In l ls /\ In p (pts l)).
Proof. intros H. rewrite (ring_in ls r (p, l) H). apply in_entries. Qed.

Lemma ring_owner_unique ls r : distinct_owners pts ls -> is_ring pts ls r -> owner_unique r.
Proof.
  intros D R p l1 l2 H1 H2. apply (ring_in' _ _ _ _ R) in H1, H2.
  destruct H1, H2. eapply D; eauto.
Qed.

Lemma ring_nonempty ls r l p : is_ring pts ls r -> In l ls -> In p (pts l) -> r <> [].
Proof. intros R Hl Hp ->. apply (proj2 (ring_in' ls [] p l R)). auto. Qed.

Lemma nodup_app_disjoint {A} (a b : list A) x : NoDup (a ++ b) -> In x a -> In x b -> False.
Proof.
  induction a as [|y a IH]; cbn [app]; intros Hn Ha Hb; [destruct Ha|].
  inversion Hn as [|? ? Hnot Hn']; subst. destruct Ha as [-> | Ha].
  - apply Hnot. apply in_or_app. auto.
  - eauto.
Qed.

Lemma nodup_app_tail {A} (a b : list A) : NoDup (a ++ b) -> NoDup b.
Proof.
  induction a as [|y a IH]; cbn [app]; intros Hn; [exact Hn|].
  inversion Hn; subst. auto.
Qed.

Lemma in_all_points ls l p : In l ls -> In p (pts l) -> In p (all_points pts ls).
Proof. intros Hl Hp. unfold all_points. apply in_flat_map. eauto. Qed.

(* all ring points pairwise distinct  ==>  every point has one owner *)
Lemma nodup_distinct_owners ls : NoDup (all_points pts ls) -> distinct_owners pts ls.
Proof.
  induction ls as [|a ls IH]; intros Hn l1 l2 p H1 H2 P1 P2; [destruct H1|].
  change (all_points pts (a :: ls)) with (pts a ++ all_points pts ls) in Hn.
  destruct H1 as [<- | H1], H2 as [<- | H2].
  - reflexivity.
  - exfalso. eapply nodup_app_disjoint; eauto using in_all_points.
  - exfalso. eapply nodup_app_disjoint; eauto using in_all_points.
  - apply (IH (nodup_app_tail _ _ Hn) l1 l2 p); auto.
Qed.

Lemma distinct_owners_ext ls ls' :
  (forall l, In l ls <-> In l ls') -> distinct_owners pts ls -> distinct_owners pts ls'.
Proof. intros E D l1 l2 p H1 H2. apply E in H1, H2. eauto. Qed.

(* ---- order / multiplicity independence: the lookup depends on the SET of labels only ---- *)
Lemma lookup_set_independent ls ls' r r' :
  (forall l, In l ls <-> In l ls') -> distinct_owners pts ls ->
  is_ring pts ls r -> is_ring pts ls' r' -> forall h, lookup r h = lookup r' h.
Proof.
  intros E D R R' h. apply lookup_ext; try apply R; try apply R'.
  - intros [p l]. rewrite (ring_in' _ _ p l R), (ring_in' _ _ p l R'), E. reflexivity.
  - eapply ring_owner_unique; eauto.
Qed.

Lemma lookup_order_independent ls ls' r r' :
  NoDup (all_points pts ls) -> Permutation ls ls' ->
  is_ring pts ls r -> is_ring pts ls' r' -> forall h, lookup r h = lookup r' h.
Proof.
  intros Hn P. apply lookup_set_independent.
  - intros l. split; apply Permutation_in; [|symmetry]; exact P.
  - apply nodup_distinct_owners, Hn.
Qed.

(* the sort being unstable does not matter either: two rings of the SAME list agree *)
Lemma lookup_sort_independent ls r r' :
  distinct_owners pts ls -> is_ring pts ls r -> is_ring pts ls r' -> forall h, lookup r h = lookup r' h.
Proof. intros D. apply lookup_set_independent; [reflexivity | exact D]. Qed.

(* ---- removal ---- *)
Lemma lookup_removal_gen ls ls' x r r' :
  (forall l, In l ls' <-> In l ls /\ l <> x) -> distinct_owners pts ls ->
  is_ring pts ls r -> is_ring pts ls' r' ->
  forall h, lookup r h <> Some x -> lookup r' h = lookup r h.
Proof.
  intros E D R R' h Hne.
  assert (Esub : forall p l0, In (p, l0) r' <-> In (p, l0) r /\ l0 <> x).
  { intros p l0. rewrite (ring_in' _ _ p l0 R), (ring_in' _ _ p l0 R'), E. tauto. }
  assert (D' : distinct_owners pts ls').
  { intros l1 l2 p H1 H2. apply E in H1, H2. destruct H1, H2. eauto. }
  destruct r as [|e0 r0].
  - destruct r' as [|[q l1] r1]; [reflexivity|]. exfalso.
    destruct (proj1 (Esub q l1)) as [[] _]. left; reflexivity.
  - destruct (lookup_total (e0 :: r0) h) as [l Hl]; [discriminate|]. rewrite Hl in *.
    apply lookup_complete; [apply R' | eapply ring_owner_unique; eauto |].
    eapply owner_spec_sub; eauto.
    + apply lookup_sound; [apply R | exact Hl].
    + congruence.
Qed.

(* ---- arcs ---- *)
(* the arc (previous point, p] of a point p of label l is owned by l *)
Lemma lookup_arc ls r l p h :
  distinct_owners pts ls -> is_ring pts ls r -> In l ls -> In p (pts l) ->
  h <= p -> (forall q, In q (all_points pts ls) -> q < h \/ p <= q) ->
  lookup r h = Some l.
Proof.
  intros D R Hl Hp Hhp Hgap. apply lookup_complete; [apply R | eapply ring_owner_unique; eauto |].
  left. exists p. repeat split; auto.
  - apply (ring_in' _ _ _ _ R). auto.
  - intros [q l0] Hin Hge. cbn [fst] in *. apply (ring_in' _ _ _ _ R) in Hin. destruct Hin as [Hl0 Hq].
    destruct (Hgap q (in_all_points _ _ _ Hl0 Hq)); lia.
Qed.

Lemma lookup_own_point ls r l p :
  distinct_owners pts ls -> is_ring pts ls r -> In l ls -> In p (pts l) -> lookup r p = Some l.
Proof.
  intros D R Hl Hp. eapply lookup_arc; eauto; [lia|]. intros q _. lia.
Qed.

Lemma lookup_arc_nonempty ls r l :
  NoDup (all_points pts ls) -> is_ring pts ls r -> In l ls -> pts l <> [] ->
  exists h, In h (pts l) /\ lookup r h = Some l.
Proof.
  intros Hn R Hl Hne. destruct (pts l) as [|p t] eqn:E; [congruence|].
  exists p. split; [left; reflexivity|].
  eapply lookup_own_point; eauto using nodup_distinct_owners. rewrite E. left; reflexivity.
Qed.

(* the result of a lookup is always a listed label *)
Lemma lookup_in_labels ls r h l : is_ring pts ls r -> lookup r h = Some l -> In l ls.
Proof.
  intros R Hl. apply lookup_sound in Hl; [|apply R].
  destruct Hl as [(p & Hin & _) | (_ & p & Hin & _)]; apply (ring_in' _ _ _ _ R) in Hin; tauto.
Qed.

Variable label_eq_dec : forall a b : label, {a = b} + {a <> b}.

Lemma lookup_removal ls x r r' :
  NoDup (all_points pts ls) -> is_ring pts ls r -> is_ring pts (remove label_eq_dec x ls) r' ->
  forall h, lookup r h <> Some x -> lookup r' h = lookup r h.
Proof.
  intros Hn. apply lookup_removal_gen; [|apply nodup_distinct_owners, Hn].
  intros l. split.
  - intros H. apply in_remove in H. exact H.
  - intros [H1 H2]. apply in_in_remove; auto.
Qed.

End Ring.

(* ------------------------------------------------------------------ handler: set then get *)
Section HandlerProofs.
Context {key val : Type}.
Variable pts : label -> list N.
Variable label_eq_dec : forall a b : label, {a = b} + {a <> b}.
Variable key_eq_dec : forall a b : key, {a = b} + {a <> b}.
Variable hash : key -> N.
Notation state := (@cluster_state label key val).

Lemma node_store_same (st : state) n k v : node_store label_eq_dec key_eq_dec st n k v n k = Some v.
Proof.
  unfold node_store. destruct (label_eq_dec n n); [|congruence]. destruct (key_eq_dec k k); congruence.
Qed.

(* Set through a handler whose continuum is r, Get through a handler whose continuum is r'
   (another connection: it built its own continuum, possibly from a differently ordered list) *)
Lemma set_then_get ls ls' r r' (st : state) k v :
  (forall l, In l ls <-> In l ls') -> distinct_owners pts ls ->
  is_ring pts ls r -> is_ring pts ls' r' -> r <> [] ->
  route hash r' k = route hash r k /\
  h_get hash r' (h_set label_eq_dec key_eq_dec hash r st k v) k = Some v.
Proof.
  intros E D R R' Hne.
  assert (Hr : route hash r' k = route hash r k).
  { unfold route. symmetry. eapply lookup_set_independent; eauto. }
  split; [exact Hr|].
  unfold h_get, h_set. rewrite Hr. unfold route in *.
  destruct (lookup_total r (hash k) Hne) as [n Hn]. rewrite Hn. apply node_store_same.
Qed.

Lemma set_then_get_same_ring r (st : state) k v :
  r <> [] -> h_get hash r (h_set label_eq_dec key_eq_dec hash r st k v) k = Some v.
Proof.
  intros Hne. unfold h_get, h_set, route.
  destruct (lookup_total r (hash k) Hne) as [n Hn]. rewrite Hn. apply node_store_same.
Qed.

(* a set to key k does not disturb what a get of another key returns *)
Lemma set_other_key r (st : state) k v k' :
  k' <> k -> h_get hash r (h_set label_eq_dec key_eq_dec hash r st k v) k' = h_get hash r st k'.
Proof.
  intros Hk. unfold h_get, h_set. destruct (route hash r k) as [n|]; [|reflexivity].
  destruct (route hash r k') as [n'|]; [|reflexivity].
  unfold node_store. destruct (label_eq_dec n' n); [|reflexivity]. destruct (key_eq_dec k' k); congruence.
Qed.

End HandlerProofs.
End Proofs.

(* ------------------------------------------------------------------ tactics for concrete examples *)
(* Permutation of two closed lists: move the head of the left list to its place in the right one *)
Ltac perm_concrete :=
  repeat lazymatch goal with
  | |- Permutation [] [] => apply perm_nil
  | |- @Permutation ?A (?a :: ?l) ?r =>
      let rec go pre post :=
        lazymatch post with
        | a :: ?t => apply (@Permutation_cons_app A l (rev pre) t a); cbn [rev app]
        | ?b :: ?t => go (b :: pre) t
        end in
      go (@nil A) r
  end.

Ltac sorted_concrete :=
  repeat constructor; unfold le_point; cbn [fst snd]; lia.

Ltac ring_concrete :=
  unfold is_ring; split; [cbv [entries entries_of flat_map map app]; perm_concrete | sorted_concrete].

Ltac nodup_concrete :=
  vm_compute; repeat (constructor; [cbn [In]; intuition discriminate|]); constructor.

(* ------------------------------------------------------------------ the premise is necessary *)
Definition pts_collide_w (l : N) : list N := match l with 0 => [5; 9] | _ => [5; 7] end.
Lemma collide_witness :
  exists (ls ls' : list N) (r r' : list (N * N)) (h : N),
    Permutation ls ls' /\ is_ring pts_collide_w ls r /\ is_ring pts_collide_w ls' r' /\
    is_ring pts_collide_w ls r' /\ lookup r h <> lookup r' h.
Proof.
  exists [0; 1], [1; 0], [(5, 0); (5, 1); (7, 1); (9, 0)], [(5, 1); (5, 0); (7, 1); (9, 0)], 3.
  split; [perm_concrete|].
  split; [cbv [pts_collide_w]; ring_concrete|].
  split; [cbv [pts_collide_w]; ring_concrete|].
  split; [cbv [pts_collide_w]; ring_concrete|].
  vm_compute. discriminate.
Qed.

(* ------------------------------------------------------------------ rings sorted with the label tie-break *)
Section TieBreak.
Context {label : Type}.
Variable pts : label -> list N.
Variable lle : label -> label -> Prop.
Hypothesis lle_refl : forall a, lle a a.
Hypothesis lle_trans : forall a b c, lle a b -> lle b c -> lle a c.
Hypothesis lle_antisym : forall a b, lle a b -> lle b a -> a = b.
Notation entry := (@entry label).
Notation le_entry := (@le_entry label lle).

Lemma le_entry_refl (e : entry) : le_entry e e.
Proof. right. split; [reflexivity | apply lle_refl]. Qed.

Lemma le_entry_trans : Relations_1.Transitive le_entry.
Proof.
  intros a b c [H1 | [H1 L1]] [H2 | [H2 L2]]; unfold Ketama.le_entry.
  - left; lia.
  - left; lia.
  - left; lia.
  - right. split; [lia | eauto].
Qed.

Lemma le_entry_antisym (a b : entry) : le_entry a b -> le_entry b a -> a = b.
Proof.
  intros [H1 | [H1 L1]] [H2 | [H2 L2]]; try lia.
  destruct a, b; cbn [fst snd] in *. f_equal; auto.
Qed.

Lemma le_entry_point (a b : entry) : le_entry a b -> le_point a b.
Proof. intros [H | [H _]]; unfold le_point; lia. Qed.

Lemma strong_app_tail_tb (r1 : list entry) e r2 :
  StronglySorted le_entry (r1 ++ e :: r2) -> Forall (le_entry e) r2.
Proof.
  induction r1 as [|a r1 IH]; cbn [app]; intros H; apply StronglySorted_inv in H; destruct H as [H1 H2].
  - exact H2.
  - auto.
Qed.

Lemma sorted_tb_sorted (r : list entry) : Sorted le_entry r -> Sorted le_point r.
Proof.
  induction 1 as [|a r Hs IH Hhd]; constructor; [exact IH|].
  destruct Hhd; constructor. apply le_entry_point; assumption.
Qed.

Lemma ring_tb_is_ring ls r : is_ring_tb pts lle ls r -> is_ring pts ls r.
Proof. intros [Hp Hs]. split; [exact Hp | apply sorted_tb_sorted, Hs]. Qed.

(* the entry found: least (point, label) among the entries with point >= h, else least of all *)
Definition owner_spec_tb (r : list entry) (h : N) (l : label) : Prop :=
  (exists p, In (p, l) r /\ h <= p /\ forall e, In e r -> h <= fst e -> le_entry (p, l) e)
  \/ ((forall e, In e r -> fst e < h) /\ exists p, In (p, l) r /\ forall e, In e r -> le_entry (p, l) e).

Lemma lookup_sound_tb r h l : Sorted le_entry r -> lookup r h = Some l -> owner_spec_tb r h l.
Proof.
  intros Hs. apply (Sorted_StronglySorted le_entry_trans) in Hs. unfold lookup, wrap0.
  destruct (find_ge r h) as [e|] eqn:F.
  - intros [= <-]. left. destruct (find_ge_some _ _ _ F) as (r1 & r2 & -> & Hle & Hall).
    exists (fst e). rewrite <- surjective_pairing. split; [apply in_elt | split; [exact Hle|]].
    intros e' Hin Hge. apply in_app_or in Hin. destruct Hin as [Hin | [<- | Hin]].
    + rewrite Forall_forall in Hall. specialize (Hall _ Hin). lia.
    + apply le_entry_refl.
    + apply strong_app_tail_tb in Hs. rewrite Forall_forall in Hs. apply (Hs _ Hin).
  - destruct r as [|e0 r0]; [discriminate|]. intros [= <-]. right.
    apply find_ge_none in F. rewrite Forall_forall in F. split; [exact F|].
    exists (fst e0). rewrite <- surjective_pairing. split; [left; reflexivity|].
    apply StronglySorted_inv in Hs. destruct Hs as [_ Hall]. rewrite Forall_forall in Hall.
    intros e [<- | Hin]; [apply le_entry_refl | apply (Hall _ Hin)].
Qed.

Lemma owner_spec_tb_unique r h l l' : owner_spec_tb r h l -> owner_spec_tb r h l' -> l = l'.
Proof.
  intros [(p & Hin & Hge & Hmin) | (Hall & p & Hin & Hmin)]
         [(p' & Hin' & Hge' & Hmin') | (Hall' & p' & Hin' & Hmin')].
  - pose proof (le_entry_antisym _ _ (Hmin _ Hin' Hge') (Hmin' _ Hin Hge)) as E. congruence.
  - specialize (Hall' _ Hin). cbn [fst] in Hall'. lia.
  - specialize (Hall _ Hin'). cbn [fst] in Hall. lia.
  - pose proof (le_entry_antisym _ _ (Hmin _ Hin') (Hmin' _ Hin)) as E. congruence.
Qed.

Lemma owner_spec_tb_nonempty r h l : owner_spec_tb r h l -> r <> [].
Proof. intros [(p & Hin & _) | (_ & p & Hin & _)]; intros ->; destruct Hin. Qed.

Lemma lookup_complete_tb r h l : Sorted le_entry r -> owner_spec_tb r h l -> lookup r h = Some l.
Proof.
  intros Hs Hspec. destruct (lookup_total r h (owner_spec_tb_nonempty _ _ _ Hspec)) as [l' Hl'].
  rewrite Hl'. f_equal. eapply owner_spec_tb_unique; eauto using lookup_sound_tb.
Qed.

Lemma owner_spec_tb_sub r r' h l x :
  (forall p l0, In (p, l0) r' <-> In (p, l0) r /\ l0 <> x) ->
  owner_spec_tb r h l -> l <> x -> owner_spec_tb r' h l.
Proof.
  intros E [(p & Hin & Hge & Hmin) | (Hall & p & Hin & Hmin)] Hne.
  - left. exists p. repeat split; [apply E; auto | auto |].
    intros [q l0] He. apply E in He. apply Hmin, He.
  - right. split.
    + intros [q l0] He. apply E in He. apply Hall, He.
    + exists p. split; [apply E; auto|]. intros [q l0] He. apply E in He. apply Hmin, He.
Qed.

(* with the tie-break no premise about the points is needed *)
Lemma lookup_set_independent_tb ls ls' r r' :
  (forall l, In l ls <-> In l ls') ->
  is_ring_tb pts lle ls r -> is_ring_tb pts lle ls' r' -> forall h, lookup r h = lookup r' h.
Proof.
  intros E R R' h.
  pose proof (ring_tb_is_ring _ _ R) as Rr. pose proof (ring_tb_is_ring _ _ R') as Rr'.
  destruct r as [|e0 r0].
  - destruct r' as [|[q l1] r1]; [reflexivity|]. exfalso.
    assert (Hin : In (q, l1) ((q, l1) :: r1)) by (left; reflexivity).
    apply (ring_in' pts _ _ _ _ Rr') in Hin. destruct Hin as [Hl Hq].
    apply E in Hl. apply (proj2 (ring_in' pts ls [] q l1 Rr)). auto.
  - destruct (lookup_total (e0 :: r0) h) as [l Hl]; [discriminate|]. rewrite Hl. symmetry.
    apply lookup_complete_tb; [apply R'|].
    pose proof (lookup_sound_tb _ _ _ (proj2 R) Hl) as Hspec.
    assert (Ext : forall e, In e (e0 :: r0) <-> In e r').
    { intros [p l0]. rewrite (ring_in' pts _ _ p l0 Rr), (ring_in' pts _ _ p l0 Rr'), E. reflexivity. }
    destruct Hspec as [(p & Hin & Hge & Hmin) | (Hall & p & Hin & Hmin)].
    + left. exists p. repeat split; [apply Ext; auto | auto |]. intros e He; apply Hmin, Ext, He.
    + right. split; [intros e He; apply Hall, Ext, He|]. exists p. split; [apply Ext; auto|].
      intros e He; apply Hmin, Ext, He.
Qed.

Lemma lookup_removal_tb ls ls' x r r' :
  (forall l, In l ls' <-> In l ls /\ l <> x) ->
  is_ring_tb pts lle ls r -> is_ring_tb pts lle ls' r' ->
  forall h, lookup r h <> Some x -> lookup r' h = lookup r h.
Proof.
  intros E R R' h Hne.
  pose proof (ring_tb_is_ring _ _ R) as Rr. pose proof (ring_tb_is_ring _ _ R') as Rr'.
  assert (Esub : forall p l0, In (p, l0) r' <-> In (p, l0) r /\ l0 <> x).
  { intros p l0. rewrite (ring_in' pts _ _ p l0 Rr), (ring_in' pts _ _ p l0 Rr'), E. tauto. }
  destruct r as [|e0 r0].
  - destruct r' as [|[q l1] r1]; [reflexivity|]. exfalso.
    destruct (proj1 (Esub q l1)) as [[] _]. left; reflexivity.
  - destruct (lookup_total (e0 :: r0) h) as [l Hl]; [discriminate|]. rewrite Hl in *.
    apply lookup_complete_tb; [apply R'|].
    eapply owner_spec_tb_sub; eauto.
    + apply lookup_sound_tb; [apply R | exact Hl].
    + congruence.
Qed.

End TieBreak.
