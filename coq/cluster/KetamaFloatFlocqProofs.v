(* KetamaFloatFlocqProofs.v — SpecFloat (cluster/KetamaFloat.v) = Flocq BinarySingleNaN (cluster/KetamaFloatFlocq.v),
   operation by operation and for any precision/exponent range: B2SF of Flocq's result is the SpecFloat result.
   The first four lemmas are Flocq's own (IEEE754/PrimFloat.v, stated there for binary64 only) with the
   format generalised.  Depends on the standard library's real-number axioms through Flocq's definitions. *)
From Coq Require Import ZArith Lia Floats.SpecFloat.
From Flocq Require Import Core.Core IEEE754.BinarySingleNaN.
From Rend Require Import cluster.KetamaFloat cluster.KetamaFloatFlocq.
Open Scope Z_scope.

Section Equiv.
Variable prec emax : Z.
Context (Hprec : Prec_gt_0 prec) (Hmax : Prec_lt_emax prec emax).

Lemma round_nearest_even_equiv s m l : round_nearest_even m l = choice_mode mode_NE s m l.
Proof.
  case l; [reflexivity|intro c]. case c; [ | reflexivity..].
  now simpl; unfold Round.cond_incr; case Z.even.
Qed.

Lemma binary_round_aux_equiv sx mx ex lx :
  SpecFloat.binary_round_aux prec emax sx mx ex lx = binary_round_aux prec emax mode_NE sx mx ex lx.
Proof.
  unfold SpecFloat.binary_round_aux, binary_round_aux.
  set (mrse' := shr_fexp _ _ _). case mrse'; intros mrs' e'; simpl.
  now rewrite (round_nearest_even_equiv sx).
Qed.

Lemma binary_round_equiv s m e :
  SpecFloat.binary_round prec emax s m e = binary_round prec emax mode_NE s m e.
Proof.
  unfold SpecFloat.binary_round, binary_round, shl_align_fexp.
  set (mez := shl_align _ _ _); case mez as [mz ez]. apply binary_round_aux_equiv.
Qed.

Lemma binary_normalize_equiv m e szero :
  SpecFloat.binary_normalize prec emax m e szero
  = B2SF (binary_normalize prec emax Hprec Hmax mode_NE m e szero).
Proof.
  case m as [ | p | p].
  - now simpl.
  - simpl; rewrite B2SF_SF2B; apply binary_round_equiv.
  - simpl; rewrite B2SF_SF2B; apply binary_round_equiv.
Qed.

Lemma mul_equiv (x y : binary_float prec emax) :
  B2SF (Bmult mode_NE x y) = SFmul prec emax (B2SF x) (B2SF y).
Proof.
  destruct x as [sx|sx| |sx mx ex Bx]; destruct y as [sy|sy| |sy my ey By]; try reflexivity.
  simpl. rewrite B2SF_SF2B. symmetry. apply binary_round_aux_equiv.
Qed.

Lemma div_equiv (x y : binary_float prec emax) :
  B2SF (Bdiv mode_NE x y) = SFdiv prec emax (B2SF x) (B2SF y).
Proof.
  destruct x as [sx|sx| |sx mx ex Bx]; destruct y as [sy|sy| |sy my ey By]; try reflexivity.
  simpl. rewrite B2SF_SF2B.
  set (melz := SFdiv_core_binary _ _ _ _ _ _). case melz as [[mz ez] lz].
  symmetry. apply binary_round_aux_equiv.
Qed.

Lemma conv_equiv {p1 e1 : Z} (x : binary_float p1 e1) :
  B2SF (fl_conv prec emax Hprec Hmax x) = sf_convert prec emax (B2SF x).
Proof.
  destruct x as [sx|sx| |sx mx ex Bx]; try reflexivity.
  unfold fl_conv, sf_convert, B2SF at 2. rewrite <- binary_normalize_equiv.
  destruct sx; reflexivity.
Qed.

Lemma shr_1_m (mrs : shr_record) :
  0 <= shr_m mrs -> shr_m (shr_1 mrs) = shr_m mrs / 2 /\ 0 <= shr_m (shr_1 mrs).
Proof.
  destruct mrs as [m r s]. simpl. intros H. destruct m as [|p|p]; [split; reflexivity| |lia].
  destruct p as [p|p|]; simpl; (split; [|lia]).
  - change (Zpos p) with (Z.div2 (Zpos p~1)) at 1. apply Z.div2_div.
  - change (Zpos p) with (Z.div2 (Zpos p~0)) at 1. apply Z.div2_div.
  - reflexivity.
Qed.

Lemma shr_iter_m (n : nat) (mrs : shr_record) :
  0 <= shr_m mrs ->
  shr_m (iter_nat shr_1 n mrs) = shr_m mrs / 2 ^ Z.of_nat n /\ 0 <= shr_m (iter_nat shr_1 n mrs).
Proof.
  revert mrs. induction n as [|n IH]; intros mrs H.
  - simpl. rewrite Z.div_1_r. split; [reflexivity|exact H].
  - cbn [iter_nat]. destruct (shr_1_m mrs H) as [E1 P1]. destruct (IH (shr_1 mrs) P1) as [E2 P2].
    split; [|exact P2]. rewrite E2, E1. rewrite Nat2Z.inj_succ, Z.pow_succ_r by lia.
    rewrite Z.div_div by lia. reflexivity.
Qed.

Lemma bounded_mantissa_lt (mx : positive) (ex : Z) : bounded prec emax mx ex = true -> Zpos mx < 2 ^ prec.
Proof.
  intros Hmxex. unfold bounded, canonical_mantissa, fexp in Hmxex. apply andb_prop in Hmxex.
  destruct Hmxex as [Hmxex _]. apply Zeq_bool_eq in Hmxex.
  rewrite Zpos_digits2_pos in Hmxex. apply Z.eq_le_incl in Hmxex.
  apply Z.max_lub_l in Hmxex.
  assert (Hmx : (Zdigits radix2 (Z.pos mx) <= prec)%Z) by lia.
  replace (Z.pos mx) with (Z.abs (Z.pos mx)); [| now simpl].
  change 2 with (radix_val radix2). now apply Zpower_gt_Zdigits.
Qed.

Lemma trunc_equiv (x : binary_float prec emax) : Btrunc x = sf_trunc (B2SF x).
Proof.
  destruct x as [sx|sx| |sx mx ex Bx]; try reflexivity.
  unfold Btrunc, sf_trunc, B2SF.
  assert (E : SFnearbyint_binary_aux prec mode_ZR sx mx ex =
              match ex with Z0 => Zpos mx | Zpos p => Zpos mx * Z.pow_pos 2 p | Zneg p => Zpos mx / Z.pow_pos 2 p end).
  { unfold SFnearbyint_binary_aux. destruct ex as [|p|p].
    - simpl. lia.
    - reflexivity.
    - change (0 <=? Z.neg p) with false. cbv iota. unfold choice_mode.
      pose proof (bounded_mantissa_lt mx (Z.neg p) Bx) as Hlt.
      destruct (Z.ltb_spec (Z.neg p) (- prec)) as [Hp|Hp].
      + simpl. symmetry. apply Z.div_small. split; [lia|].
        eapply Z.lt_le_trans; [exact Hlt|]. rewrite Z.pow_pos_fold.
        apply Z.pow_le_mono_r; lia.
      + unfold shr. change (- Z.neg p) with (Z.pos p). cbn [fst].
        rewrite iter_pos_nat.
        destruct (shr_iter_m (Pos.to_nat p) {| shr_m := Z.pos mx; shr_r := false; shr_s := false |}) as [E _];
          [simpl; lia|].
        rewrite E. cbn [shr_m]. rewrite positive_nat_Z, Z.pow_pos_fold. reflexivity. }
  rewrite E. destruct sx; reflexivity.
Qed.
End Equiv.

Theorem ketama_limit_flocq_eq (w total n : Z) : ketama_limit_flocq w total n = ketama_limit w total n.
Proof.
  unfold ketama_limit_flocq, ketama_limit, fl_div32, fl_mul64.
  rewrite trunc_equiv, conv_equiv, !mul_equiv, conv_equiv, div_equiv.
  unfold f32_of_f64, f64_of_f32, f64_mul, f32_div, f32_of_int, f64_of_int, fl_f32_of_int, fl_f64_of_int.
  rewrite <- !binary_normalize_equiv. reflexivity.
Qed.
