(* KetamaFloatFlocq.v — the same round count written with Flocq 4.1's IEEE-754 operations
   (IEEE754.BinarySingleNaN: binary_float 24 128 = binary32, binary_float 53 1024 = binary64; Bdiv, Bmult,
   binary_normalize with mode_NE, Btrunc; the format conversion is CompCert's Bconv: binary_normalize of the
   signed mantissa).  Definitions only.  KetamaFloatFlocqProofs.ketama_limit_flocq_eq proves it equal to
   cluster/KetamaFloat.ketama_limit for ALL integers w, total, n, so Flocq's correctness theorems
   (Bdiv_correct, Bmult_correct, binary_normalize_correct, Btrunc_correct: each result is the correctly
   rounded real value) apply to what the sweeps of KetamaFloatProofs.v evaluate.  Flocq's operations carry
   proofs about real numbers, so that theorem (and only it: props/C19float.v) depends on the standard
   library's axioms for the reals. *)
From Coq Require Import ZArith Floats.SpecFloat.
From Flocq Require Import Core.Core IEEE754.BinarySingleNaN.
From Rend Require Import cluster.KetamaFloat.
Open Scope Z_scope.

Definition prec32_gt_0 : Prec_gt_0 24 := eq_refl.
Definition prec32_lt_emax : Prec_lt_emax 24 128 := eq_refl.
Definition prec64_gt_0' : Prec_gt_0 53 := eq_refl.
Definition prec64_lt_emax' : Prec_lt_emax 53 1024 := eq_refl.

Notation bin32 := (binary_float 24 128).
Notation bin64 := (binary_float 53 1024).

Definition fl_f32_of_int (z : Z) : bin32 := binary_normalize 24 128 prec32_gt_0 prec32_lt_emax mode_NE z 0 false.
Definition fl_f64_of_int (z : Z) : bin64 := binary_normalize 53 1024 prec64_gt_0' prec64_lt_emax' mode_NE z 0 false.

(* format conversion (CompCert's Bconv, single-NaN version) *)
Definition fl_conv {p1 e1 : Z} (p2 e2 : Z) (H1 : Prec_gt_0 p2) (H2 : Prec_lt_emax p2 e2)
    (x : binary_float p1 e1) : binary_float p2 e2 :=
  match x with
  | B754_finite s m e _ => binary_normalize p2 e2 H1 H2 mode_NE (cond_Zopp s (Zpos m)) e s
  | B754_zero s => B754_zero s
  | B754_infinity s => B754_infinity s
  | B754_nan => B754_nan
  end.

Definition fl_div32 : bin32 -> bin32 -> bin32 := @Bdiv 24 128 prec32_gt_0 prec32_lt_emax mode_NE.
Definition fl_mul64 : bin64 -> bin64 -> bin64 := @Bmult 53 1024 prec64_gt_0' prec64_lt_emax' mode_NE.

Definition ketama_limit_flocq (w total n : Z) : Z :=
  let pct : bin32 := fl_div32 (fl_f32_of_int w) (fl_f32_of_int total) in
  let x : bin64 :=
    fl_mul64 (fl_mul64 (fl_conv 53 1024 prec64_gt_0' prec64_lt_emax' pct) (fl_f64_of_int 40)) (fl_f64_of_int n) in
  Btrunc (fl_conv 24 128 prec32_gt_0 prec32_lt_emax x).
