(* MD5.v — RFC 1321 MD5 over byte strings ([list N], bytes < 256), and what ketama.go derives from it.
   Definitions only; the RFC test vectors and the structural lemmas are in MD5Proofs.v.

   32-bit words are [N] with the wrap written explicitly ([wrap32] = mod 2^32 after every addition
   and rotation).  The 64-entry sine table T[i] = floor(2^32 * |sin(i+1)|) and the per-round shift
   amounts are literals copied from RFC 1321 §3.4; nothing about them is assumed: the digests of the
   seven RFC test vectors are re-computed by the kernel (MD5Proofs.md5_rfc1321_vectors), and the
   correspondence check compares the model's digests with crypto/md5 through the ring points and
   key hashes of real continuums on every run.

   Go side (handlers/memcached/cluster/ketama.go):
     ss := fmt.Sprintf("%s-%d", b.Label(), k);  digest := md5.Sum([]byte(ss))
     for h := 0; h < 4; h++ { point := binary.LittleEndian.Uint32(digest[h*4:]) ... }
     Hash(thing): hash := md5.Sum(thing); h := binary.LittleEndian.Uint32(hash[0:4])          *)
From Rend Require Import base.Bytes.
Open Scope N_scope.

Definition w32 : N := 4294967296.                       (* 2^32 *)
Definition mask32 : N := 4294967295.                    (* 2^32 - 1 *)
(* [x mod 2^32], written as a mask because [N.modulo] is a bit-by-bit long division under vm_compute
   (15 ms per digest instead of 1); MD5Proofs.wrap32_mod: wrap32 x = x mod 2^32 *)
Definition wrap32 (x : N) : N := N.land x mask32.
Definition add32 (a b : N) : N := wrap32 (a + b).
Definition not32 (x : N) : N := N.lxor x mask32.        (* bitwise complement of a 32-bit word *)
(* rotate a 32-bit word left by s (0 < s < 32) *)
Definition rotl32 (x s : N) : N := N.lor (wrap32 (N.shiftl x s)) (N.shiftr x (32 - s)).

(* RFC 1321 §3.4: T[1..64] *)
Definition md5_T : list N :=
  [ 0xd76aa478; 0xe8c7b756; 0x242070db; 0xc1bdceee; 0xf57c0faf; 0x4787c62a; 0xa8304613; 0xfd469501;
    0x698098d8; 0x8b44f7af; 0xffff5bb1; 0x895cd7be; 0x6b901122; 0xfd987193; 0xa679438e; 0x49b40821;
    0xf61e2562; 0xc040b340; 0x265e5a51; 0xe9b6c7aa; 0xd62f105d; 0x02441453; 0xd8a1e681; 0xe7d3fbc8;
    0x21e1cde6; 0xc33707d6; 0xf4d50d87; 0x455a14ed; 0xa9e3e905; 0xfcefa3f8; 0x676f02d9; 0x8d2a4c8a;
    0xfffa3942; 0x8771f681; 0x6d9d6122; 0xfde5380c; 0xa4beea44; 0x4bdecfa9; 0xf6bb4b60; 0xbebfbc70;
    0x289b7ec6; 0xeaa127fa; 0xd4ef3085; 0x04881d05; 0xd9d4d039; 0xe6db99e5; 0x1fa27cf8; 0xc4ac5665;
    0xf4292244; 0x432aff97; 0xab9423a7; 0xfc93a039; 0x655b59c3; 0x8f0ccc92; 0xffeff47d; 0x85845dd1;
    0x6fa87e4f; 0xfe2ce6e0; 0xa3014314; 0x4e0811a1; 0xf7537e82; 0xbd3af235; 0x2ad7d2bb; 0xeb86d391 ].

(* shift amounts of the four rounds (each used four times over) *)
Definition md5_shifts (round : N) : list N :=
  match round with
  | 0 => [7; 12; 17; 22]
  | 1 => [5; 9; 14; 20]
  | 2 => [4; 11; 16; 23]
  | _ => [6; 10; 15; 21]
  end.

(* the auxiliary functions F, G, H, I *)
Definition md5_f (round b c d : N) : N :=
  match round with
  | 0 => N.lor (N.land b c) (N.land (not32 b) d)
  | 1 => N.lor (N.land b d) (N.land c (not32 d))
  | 2 => N.lxor (N.lxor b c) d
  | _ => N.lxor c (N.lor b (not32 d))
  end.

(* which message word step i (0..63) reads *)
Definition md5_g (round i : N) : N :=
  match round with
  | 0 => i
  | 1 => (5 * i + 1) mod 16
  | 2 => (3 * i + 5) mod 16
  | _ => (7 * i) mod 16
  end.

(* steps 0..63: (round, shift amount, index of the message word, table entry) *)
Definition md5_schedule_of (i : N) (t : N) : N * N * nat * N :=
  let round := i / 16 in
  (round, nth (N.to_nat (i mod 4)) (md5_shifts round) 0, N.to_nat (md5_g round i), t).
Definition md5_schedule : list (N * N * nat * N) :=
  map (fun it => md5_schedule_of (fst it) (snd it)) (combine (map N.of_nat (seq 0 64)) md5_T).

(* one step: [ABCD k s i]  a = b + ((a + f(b,c,d) + X[k] + T[i]) <<< s), then the registers rotate *)
Definition md5_step (x : list N) (st : N * N * N * N) (it : N * N * nat * N) : N * N * N * N :=
  let '(a, b, c, d) := st in
  let '(round, s, g, t) := it in
  let f := add32 (add32 (add32 (md5_f round b c d) a) t) (nth g x 0) in
  (d, add32 b (rotl32 f s), b, c).

(* the schedule evaluated once (convertible with [md5_schedule]) *)
Definition md5_schedule_v : list (N * N * nat * N) := Eval vm_compute in md5_schedule.

Definition md5_block (st : N * N * N * N) (x : list N) : N * N * N * N :=
  let '(a0, b0, c0, d0) := st in
  let '(a, b, c, d) := fold_left (md5_step x) md5_schedule_v st in
  (add32 a0 a, add32 b0 b, add32 c0 c, add32 d0 d).

(* ---- bytes <-> little-endian words ---- *)
Definition u32le (x : N) : bytes :=
  [x mod 256; (x / 256) mod 256; (x / 65536) mod 256; (x / 16777216) mod 256].
Definition u64le (x : N) : bytes := u32le (x mod w32) ++ u32le ((x / w32) mod w32).

(* consecutive little-endian 32-bit words of a byte string (a trailing group of < 4 bytes is dropped;
   the padded message and the digest have lengths divisible by 4) *)
Fixpoint words_le (l : bytes) : list N :=
  match l with
  | a :: b :: c :: d :: r => (a + 256 * b + 65536 * c + 16777216 * d) :: words_le r
  | _ => []
  end.

(* split into groups of n (the last one may be shorter); [fuel] >= number of groups *)
Fixpoint chunks {A} (fuel : nat) (n : nat) (l : list A) : list (list A) :=
  match fuel with
  | O => []
  | S f => match l with
           | [] => []
           | _ => firstn n l :: chunks f n (skipn n l)
           end
  end.

(* RFC 1321 §3.1/3.2: a 1 bit, zero bits up to 448 mod 512, the bit length as 64 bits little endian *)
Definition md5_pad (m : bytes) : bytes :=
  let n := len m in
  m ++ [128] ++ zeros ((55 + 64 - n mod 64) mod 64) ++ u64le ((8 * n) mod 18446744073709551616).

Definition md5_init : N * N * N * N := (0x67452301, 0xefcdab89, 0x98badcfe, 0x10325476).

Definition md5_state (m : bytes) : N * N * N * N :=
  let p := md5_pad m in
  fold_left md5_block (map words_le (chunks (S (length p / 64)) 64 p)) md5_init.

(* the 16-byte digest: md5.Sum *)
Definition md5 (m : bytes) : bytes :=
  let '(a, b, c, d) := md5_state m in u32le a ++ u32le b ++ u32le c ++ u32le d.

(* ---- ketama.go ---- *)
(* fmt.Sprintf("%s-%d", label, k) *)
Definition ketama_seed (label : bytes) (k : N) : bytes := label ++ [45] ++ dec k.
(* the four points of round k of a label: binary.LittleEndian.Uint32(digest[h*4:]) for h = 0..3 *)
Definition ketama_points (label : bytes) (k : N) : list N := words_le (md5 (ketama_seed label k)).
(* Continuum.Hash: binary.LittleEndian.Uint32(md5.Sum(key)[0:4]) *)
Definition ketama_hash (key : bytes) : N := u32le_rd (md5 key).
