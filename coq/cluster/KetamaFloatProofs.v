(* KetamaFloatProofs.v — finite sweeps over cluster/KetamaFloat.v, evaluated by the kernel
   (vm_compute) and lifted to the stated ranges with forallb_forall.  No axioms. *)
From Coq Require Import ZArith List Lia Bool Floats.SpecFloat.
From Rend Require Import cluster.KetamaFloat.
Import ListNotations.

(* ---- ranges ---- *)
Definition nrange (a b : N) : list N := map (fun i => (a + N.of_nat i)%N) (seq 0 (N.to_nat (b + 1 - a))).
Lemma in_nrange a b n : (a <= n <= b)%N -> In n (nrange a b).
Proof.
  intros H. unfold nrange. apply in_map_iff. exists (N.to_nat (n - a)). split; [lia|].
  apply in_seq. lia.
Qed.

Definition zrange (a b : Z) : list Z := map (fun i => (a + Z.of_nat i)%Z) (seq 0 (Z.to_nat (b + 1 - a))).
Lemma in_zrange a b z : (a <= z <= b)%Z -> In z (zrange a b).
Proof.
  intros H. unfold zrange. apply in_map_iff. exists (Z.to_nat (z - a)). split; [lia|].
  apply in_seq. lia.
Qed.

Lemma sweep_N (f : N -> bool) (a b : N) :
  forallb f (nrange a b) = true -> forall n, (a <= n <= b)%N -> f n = true.
Proof. intros S n H. rewrite forallb_forall in S. apply S. apply in_nrange. exact H. Qed.
Lemma sweep_Z (f : Z -> bool) (a b : Z) :
  forallb f (zrange a b) = true -> forall z, (a <= z <= b)%Z -> f z = true.
Proof. intros S n H. rewrite forallb_forall in S. apply S. apply in_zrange. exact H. Qed.

(* ---- equal weights, 1..4096 nodes ---- *)
(* (the sweeps are stated on the literal [forallb] term: a proof that unfolds a constant standing for it
   makes the kernel re-evaluate the sweep with its lazy machine at Qed, which does not terminate in practice) *)
Definition limit_eq_ok (n : N) : bool := N.eqb (ketama_limit_eq n) (limit_table n).
Lemma limit_eq_sweep_true : forallb limit_eq_ok (nrange 1 4096) = true.
Proof. vm_cast_no_check (eq_refl true). Qed.   (* evaluated once, by the kernel's VM, at Qed *)

Lemma limit_equal_weights (n : N) : (1 <= n <= 4096)%N -> ketama_limit_eq n = limit_table n.
Proof.
  intros H. apply N.eqb_eq. exact (sweep_N limit_eq_ok 1 4096 limit_eq_sweep_true n H).
Qed.

Lemma limit_table_cases n : (limit_table n = 39 /\ In n limit39_sizes \/ limit_table n = 40 /\ ~ In n limit39_sizes)%N.
Proof.
  unfold limit_table. destruct (existsb (N.eqb n) limit39_sizes) eqn:E.
  - left. split; [reflexivity|]. apply existsb_exists in E. destruct E as (x & Hx & Hn).
    apply N.eqb_eq in Hn. subst. exact Hx.
  - right. split; [reflexivity|]. intro Hin.
    assert (existsb (N.eqb n) limit39_sizes = true) as E'.
    { apply existsb_exists. exists n. split; [exact Hin|apply N.eqb_refl]. }
    congruence.
Qed.

Lemma limit_39_or_40 (n : N) : (1 <= n <= 4096)%N ->
  (ketama_limit_eq n = 39 /\ In n limit39_sizes \/ ketama_limit_eq n = 40 /\ ~ In n limit39_sizes)%N.
Proof. intros H. rewrite (limit_equal_weights n H). apply limit_table_cases. Qed.

Lemma limit_bounds (n : N) : (1 <= n <= 4096)%N -> (39 <= ketama_limit_eq n <= 40)%N.
Proof. intros H. destruct (limit_39_or_40 n H) as [[E _]|[E _]]; rewrite E; lia. Qed.

Lemma limit_positive (n : N) : (1 <= n <= 4096)%N -> (0 < ketama_limit_eq n)%N.
Proof. intros H. pose proof (limit_bounds n H). lia. Qed.

Lemma limit_39_iff (n : N) : (1 <= n <= 4096)%N -> (ketama_limit_eq n = 39%N <-> In n limit39_sizes).
Proof.
  intros H. destruct (limit_39_or_40 n H) as [[E I]|[E I]]; rewrite E; split; intro X; auto.
  - discriminate.
  - contradiction.
Qed.

(* the smallest exception is 61: up to 60 nodes every node gets 40 rounds (160 points) *)
Lemma limit_40_upto_60 (n : N) : (1 <= n <= 60)%N -> ketama_limit_eq n = 40%N.
Proof.
  intros H. destruct (limit_39_or_40 n) as [[_ I]|[E _]]; [lia| |exact E].
  exfalso. unfold limit39_sizes in I. cbn [In] in I.
  repeat (destruct I as [I|I]; [lia|]). exact I.
Qed.

Lemma limit_61 : ketama_limit_eq 61 = 39%N.
Proof. vm_compute. reflexivity. Qed.

(* ---- the variants differ: dropping the final float32 rounding (seeded change C19) gives 39 rounds at
   25, 29 and 31 nodes, inside the property's range 1..32; all-float64 already at 7 nodes ---- *)
Lemma limit_no_f32_round_differs :
  filter (fun n => negb (Z.eqb (ketama_limit_no_f32_round 1 n n) (ketama_limit 1 n n))) (zrange 1 32)
  = [25; 29; 31]%Z
  /\ map (fun n => ketama_limit_no_f32_round 1 n n) [25; 29; 31]%Z = [39; 39; 39]%Z.
Proof. vm_compute. split; reflexivity. Qed.

Lemma limit_all_f64_differs :
  filter (fun n => negb (Z.eqb (ketama_limit_all_f64 1 n n) (ketama_limit 1 n n))) (zrange 1 32)
  = [7; 14; 28]%Z.
Proof. vm_compute. reflexivity. Qed.

(* ---- unequal weights: n <= 16 buckets, every weight in 1..8 ----
   The bucket under consideration has weight w; the other n-1 weights are in 1..8, so the total is
   between w + (n-1) and w + 8(n-1).  limit is the exact floor(40*n*w/total), except at the 4 listed
   (n, w, total) where the exact quotient is an integer and the float32 division fell just below it.
   (The same sweep over n <= 32 finds 23 such triples, all with 40*n*w divisible by total and all one
   below; it is not part of the development because the independent checker coqchk, which does not use
   the VM, needs 6 minutes for it.) *)
Definition weighted_minus1 : list (Z * Z * Z) := [(11, 1, 55); (11, 2, 55); (11, 4, 55); (11, 8, 55)]%Z.
Definition triple_eqb (a b : Z * Z * Z) : bool :=
  let '(a1, a2, a3) := a in let '(b1, b2, b3) := b in (Z.eqb a1 b1 && Z.eqb a2 b2 && Z.eqb a3 b3)%bool.
Definition weighted_table (n w total : Z) : Z :=
  (ketama_limit_exact w total n - (if existsb (triple_eqb (n, w, total)) weighted_minus1 then 1 else 0))%Z.

Definition weighted_ok (n w total : Z) : bool :=
  (Z.eqb (ketama_limit w total n) (weighted_table n w total)
   && Z.leb 1 (ketama_limit w total n)
   && (Z.eqb (ketama_limit w total n) (ketama_limit_exact w total n) || Z.eqb ((40 * n * w) mod total) 0))%bool.

Definition weighted_ok_w (n w : Z) : bool :=
  forallb (fun total => weighted_ok n w total) (zrange (w + (n - 1)) (w + 8 * (n - 1))).
Definition weighted_ok_n (n : Z) : bool := forallb (weighted_ok_w n) (zrange 1 8).
Lemma weighted_sweep_true : forallb weighted_ok_n (zrange 1 16) = true.
Proof. vm_cast_no_check (eq_refl true). Qed.

Lemma limit_weighted (n w total : Z) :
  (1 <= n <= 16)%Z -> (1 <= w <= 8)%Z -> (w + (n - 1) <= total <= w + 8 * (n - 1))%Z ->
  ketama_limit w total n = weighted_table n w total
  /\ (1 <= ketama_limit w total n)%Z
  /\ (ketama_limit_exact w total n - 1 <= ketama_limit w total n <= ketama_limit_exact w total n)%Z
  /\ ((40 * n * w) mod total <> 0 -> ketama_limit w total n = ketama_limit_exact w total n)%Z.
Proof.
  intros Hn Hw Ht.
  pose proof (sweep_Z weighted_ok_n 1 16 weighted_sweep_true n Hn) as S.
  pose proof (sweep_Z (weighted_ok_w n) 1 8 S w Hw) as S'.
  pose proof (sweep_Z (fun total => weighted_ok n w total) _ _ S' total Ht) as S''.
  cbv beta in S''. clear S S'. rename S'' into S.
  unfold weighted_ok in S. apply andb_prop in S. destruct S as [S S3].
  apply andb_prop in S. destruct S as [S1 S2].
  apply Z.eqb_eq in S1. apply Z.leb_le in S2.
  split; [exact S1|]. split; [exact S2|]. split.
  - rewrite S1. unfold weighted_table. destruct (existsb _ _); lia.
  - intros Hm. apply orb_prop in S3. destruct S3 as [S3|S3]; apply Z.eqb_eq in S3; [exact S3|contradiction].
Qed.

(* ---- the intermediate values, for the record ----
   n = 61: float32(1)/float32(61) = 8801162 * 2^-29; the float64 product 39.99999619... is representable in
   float32 (10485759 * 2^-18) and truncates to 39.
   n = 25: the float64 product is 39.99999940...; the final conversion to float32 rounds it UP to exactly
   40 (10485760 * 2^-18), which is why dropping that conversion (seeded change C19) gives 39. *)
Definition limit_product (n : Z) : spec_float :=
  f64_mul (f64_mul (f64_of_f32 (f32_div (f32_of_int 1) (f32_of_int n))) (f64_of_int 40)) (f64_of_int n).
Lemma limit_intermediate :
  f32_div (f32_of_int 1) (f32_of_int 61) = S754_finite false 8801162 (-29)
  /\ limit_product 61 = S754_finite false 5629499219640320 (-47)
  /\ f32_of_f64 (limit_product 61) = S754_finite false 10485759 (-18)
  /\ limit_product 25 = S754_finite false 5629499408384000 (-47)
  /\ f32_of_f64 (limit_product 25) = S754_finite false 10485760 (-18)
  /\ sf_trunc (limit_product 25) = 39%Z /\ sf_trunc (f32_of_f64 (limit_product 25)) = 40%Z.
Proof. vm_compute. repeat split. Qed.

(* ---- as stated in props/C19.v ---- *)
Lemma limit_equal_weights_facts (n : N) : (1 <= n <= 4096)%N ->
  (ketama_limit_eq n = (if existsb (N.eqb n) limit39_sizes then 39 else 40)
   /\ 39 <= ketama_limit_eq n <= 40
   /\ (ketama_limit_eq n = 39 <-> In n limit39_sizes)
   /\ (n <= 60 -> ketama_limit_eq n = 40))%N.
Proof.
  intros H. split; [exact (limit_equal_weights n H)|]. split; [exact (limit_bounds n H)|].
  split; [exact (limit_39_iff n H)|]. intros H60. apply limit_40_upto_60. lia.
Qed.

Lemma limit_variants_differ :
  filter (fun n => negb (Z.eqb (ketama_limit_no_f32_round 1 n n) (ketama_limit 1 n n))) (zrange 1 32) = [25; 29; 31]%Z
  /\ filter (fun n => negb (Z.eqb (ketama_limit_all_f64 1 n n) (ketama_limit 1 n n))) (zrange 1 32) = [7; 14; 28]%Z.
Proof. exact (conj (proj1 limit_no_f32_round_differs) limit_all_f64_differs). Qed.
