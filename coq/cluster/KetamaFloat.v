(* KetamaFloat.v — the number of MD5 rounds per bucket, as ketama.go (Continuum.Reset) computes it:

     pct   := float32(b.Weight()) / float32(totalweight)
     limit := int(float32(float64(pct) * 40.0 * float64(numbuckets)))

   Definitions only; the sweeps are in KetamaFloatProofs.v.

   IEEE-754 arithmetic is taken from Coq's standard library, Floats.SpecFloat: the executable
   specification of binary floating point (parametrised by precision and exponent range, rounding to
   nearest with ties to even) on which Flocq 4's IEEE754.BinarySingleNaN/Binary build their operations
   ([Bdiv], [Bmult], [binary_normalize] are [SF2B] of exactly these functions, paired with a proof that
   the result is a valid float; those proofs use the real numbers and would bring the standard
   library's real-number axioms into [Print Assumptions] — see t1.v in the report).  The functions
   here carry no proofs, so everything evaluates in the kernel and stays axiom-free.

     binary32 = (prec 24, emax 128),  binary64 = (prec 53, emax 1024)
     float32(u) for an unsigned integer u     SpecFloat.binary_normalize 24 128 u 0 false   (round to nearest even)
     float64(i) for an int i                  SpecFloat.binary_normalize 53 1024 i 0 false
     x / y on float32                         SFdiv 24 128
     x * y on float64                         SFmul 53 1024
     float64(x) of a float32 x                the same number, mantissa re-aligned to 53 bits (exact)
     float32(x) of a float64 x                binary_round 24 128: round to nearest even
     int(x) of a float32 x                    truncation towards zero (for a finite x in range)
   Go evaluates [float64(pct) * 40.0 * float64(numbuckets)] left to right, each product rounded to
   float64; the untyped constant 40.0 becomes the float64 40. *)
From Coq Require Import ZArith List Floats.SpecFloat.
Import ListNotations.
Open Scope Z_scope.

Definition f32_of_int (z : Z) : spec_float := binary_normalize 24 128 z 0 false.
Definition f64_of_int (z : Z) : spec_float := binary_normalize 53 1024 z 0 false.
Definition f32_div : spec_float -> spec_float -> spec_float := SFdiv 24 128.
Definition f64_mul : spec_float -> spec_float -> spec_float := SFmul 53 1024.

(* conversion between formats: the value (-1)^s * m * 2^e rounded into the target format *)
Definition sf_convert (prec emax : Z) (x : spec_float) : spec_float :=
  match x with
  | S754_finite s m e => binary_round prec emax s m e
  | _ => x
  end.
Definition f64_of_f32 : spec_float -> spec_float := sf_convert 53 1024.
Definition f32_of_f64 : spec_float -> spec_float := sf_convert 24 128.

(* int(x): truncation towards zero; 0 for zeros (and, arbitrarily, for infinities and NaN, where Go's
   result is implementation-defined — they arise only when the total weight is 0) *)
Definition sf_trunc (x : spec_float) : Z :=
  match x with
  | S754_finite s m e =>
      let a := match e with
               | Z0 => Zpos m
               | Zpos p => Zpos m * Z.pow_pos 2 p
               | Zneg p => Zpos m / Z.pow_pos 2 p
               end in
      if s then - a else a
  | _ => 0
  end.

(* limit for a bucket of weight w in a continuum of n buckets whose weights sum to total *)
Definition ketama_limit (w total n : Z) : Z :=
  let pct := f32_div (f32_of_int w) (f32_of_int total) in
  sf_trunc (f32_of_f64 (f64_mul (f64_mul (f64_of_f32 pct) (f64_of_int 40)) (f64_of_int n))).

(* rend's Node.Weight() is the constant 1: n buckets of weight 1 *)
Definition ketama_limit_eq (n : N) : N := Z.to_N (ketama_limit 1 (Z.of_N n) (Z.of_N n)).

(* the cluster sizes up to 4096 at which equal weights give 39 rounds (156 points) instead of 40 (160) *)
Definition limit39_sizes : list N :=
  [61; 122; 237; 244; 474; 488; 933; 948; 951; 953; 976; 1699; 1813; 1829; 1831; 1837; 1866; 1896;
   1902; 1906; 1952; 1987; 2021; 2023; 3398; 3475; 3573; 3587; 3626; 3658; 3662; 3674; 3732; 3735;
   3775; 3792; 3804; 3812; 3843; 3903; 3904; 3907; 3923; 3925; 3971; 3974; 3995; 4007; 4039; 4042;
   4046; 4067; 4071]%N.
Definition limit_table (n : N) : N := if existsb (N.eqb n) limit39_sizes then 39%N else 40%N.

(* ---- variants the code does NOT compute (used to show that the model is sensitive to them) ---- *)
(* without the final rounding to float32 (seeded change C19): int(float64(pct) * 40.0 * float64(n)) *)
Definition ketama_limit_no_f32_round (w total n : Z) : Z :=
  let pct := f32_div (f32_of_int w) (f32_of_int total) in
  sf_trunc (f64_mul (f64_mul (f64_of_f32 pct) (f64_of_int 40)) (f64_of_int n)).
(* everything in float64 *)
Definition ketama_limit_all_f64 (w total n : Z) : Z :=
  let pct := SFdiv 53 1024 (f64_of_int w) (f64_of_int total) in
  sf_trunc (f64_mul (f64_mul pct (f64_of_int 40)) (f64_of_int n)).
(* the exact rational value floor(40 * n * w / total) *)
Definition ketama_limit_exact (w total n : Z) : Z := (40 * n * w) / total.
