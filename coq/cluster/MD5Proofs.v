(* MD5Proofs.v — validation of cluster/MD5.v: the seven test vectors of RFC 1321 §A.5 (one to three
   blocks), evaluated by the kernel; shape lemmas (digest = 16 bytes, 4 points per digest, the
   points are the four state words).  No axioms. *)
From Coq Require Import String.
From Rend Require Import base.Bytes cluster.MD5.
Open Scope N_scope.

(* RFC 1321 §A.5 test suite *)
Lemma md5_rfc1321_vectors :
  md5 (asc "") = hx "d41d8cd98f00b204e9800998ecf8427e" /\
  md5 (asc "a") = hx "0cc175b9c0f1b6a831c399e269772661" /\
  md5 (asc "abc") = hx "900150983cd24fb0d6963f7d28e17f72" /\
  md5 (asc "message digest") = hx "f96b697d7cb7938d525a2f31aaf161d0" /\
  md5 (asc "abcdefghijklmnopqrstuvwxyz") = hx "c3fcd3d76192e4007dfb496cca67e13b" /\
  md5 (asc "ABCDEFGHIJKLMNOPQRSTUVWXYZabcdefghijklmnopqrstuvwxyz0123456789")
    = hx "d174ab98d277d9f5a5611c2c9f419d9f" /\
  md5 (asc "12345678901234567890123456789012345678901234567890123456789012345678901234567890")
    = hx "57edf4a22be3c955ac49da2e2107b67a".
Proof. vm_compute. repeat split. Qed.

(* the padding boundaries: 55 bytes fit one block, 56 need two; 119 fit two, 120 need three *)
Lemma md5_pad_lengths :
  map (fun n => len (md5_pad (zeros n))) [0; 1; 55; 56; 63; 64; 119; 120]
  = [64; 64; 64; 128; 128; 128; 128; 192].
Proof. vm_compute. reflexivity. Qed.

Lemma md5_pad_multiple (m : bytes) : (len (md5_pad m)) mod 64 = 0.
Proof.
  unfold md5_pad, u64le, u32le, zeros, len.
  rewrite !app_length, repeat_length. cbn [length]. lia.
Qed.

Lemma u32le_length x : length (u32le x) = 4%nat.
Proof. reflexivity. Qed.

Lemma md5_length (m : bytes) : length (md5 m) = 16%nat.
Proof.
  unfold md5. destruct (md5_state m) as [[[a b] c] d].
  rewrite !app_length, !u32le_length. reflexivity.
Qed.

Lemma words_le_u32le (x : N) (r : bytes) : x < w32 -> words_le (u32le x ++ r) = x :: words_le r.
Proof.
  intro H. unfold u32le, w32 in *. cbn [app words_le]. f_equal. lia.
Qed.

(* the mask is the wrap: every addition and rotation of the model is taken mod 2^32 *)
Lemma wrap32_mod x : wrap32 x = x mod 2^32.
Proof. unfold wrap32, mask32. change 4294967295 with (N.ones 32). apply N.land_ones. Qed.

Lemma add32_mod a b : add32 a b = (a + b) mod 2^32.
Proof. apply wrap32_mod. Qed.

Lemma md5_schedule_v_eq : md5_schedule_v = md5_schedule.
Proof. vm_compute. reflexivity. Qed.

Lemma add32_lt a b : add32 a b < w32.
Proof. rewrite add32_mod. unfold w32. change (2^32) with 4294967296. lia. Qed.

Lemma md5_block_lt st x : let '(a, b, c, d) := md5_block st x in a < w32 /\ b < w32 /\ c < w32 /\ d < w32.
Proof.
  unfold md5_block. destruct st as [[[a0 b0] c0] d0].
  destruct (fold_left (md5_step x) md5_schedule_v (a0, b0, c0, d0)) as [[[a b] c] d].
  repeat split; apply add32_lt.
Qed.

Definition st_lt (st : N * N * N * N) : Prop :=
  let '(a, b, c, d) := st in a < w32 /\ b < w32 /\ c < w32 /\ d < w32.

Lemma md5_state_lt (m : bytes) : st_lt (md5_state m).
Proof.
  unfold md5_state.
  generalize (map words_le (chunks (S (length (md5_pad m) / 64)) 64 (md5_pad m))).
  assert (H0 : st_lt md5_init) by (vm_compute; repeat split).
  revert H0. generalize md5_init.
  intros st H l. revert st H. induction l as [|x l IH]; intros st H; cbn [fold_left]; auto.
  apply IH. pose proof (md5_block_lt st x) as Hb. unfold st_lt. exact Hb.
Qed.

(* a digest yields exactly four points, and they are the four words of the final state *)
Lemma words_le_md5 (m : bytes) :
  words_le (md5 m) = let '(a, b, c, d) := md5_state m in [a; b; c; d].
Proof.
  unfold md5. pose proof (md5_state_lt m) as H. destruct (md5_state m) as [[[a b] c] d].
  destruct H as (Ha & Hb & Hc & Hd).
  rewrite !words_le_u32le by assumption.
  replace (u32le d) with (u32le d ++ []) by apply app_nil_r.
  rewrite words_le_u32le by assumption. reflexivity.
Qed.

Lemma ketama_points_length (l : bytes) (k : N) : length (ketama_points l k) = 4%nat.
Proof.
  unfold ketama_points. rewrite words_le_md5. destruct (md5_state _) as [[[a b] c] d]. reflexivity.
Qed.

Lemma ketama_points_lt (l : bytes) (k p : N) : In p (ketama_points l k) -> p < w32.
Proof.
  unfold ketama_points. rewrite words_le_md5.
  pose proof (md5_state_lt (ketama_seed l k)) as H.
  destruct (md5_state _) as [[[a b] c] d]. destruct H as (Ha & Hb & Hc & Hd).
  cbn [In]. intuition subst; assumption.
Qed.

(* the key hash is the first point of the key's digest *)
Lemma ketama_hash_first_word (key : bytes) :
  ketama_hash key = let '(a, _, _, _) := md5_state key in a.
Proof.
  unfold ketama_hash, md5. pose proof (md5_state_lt key) as H.
  destruct (md5_state key) as [[[a b] c] d]. destruct H as (Ha & _).
  unfold u32le, u32le_rd, w32 in *. cbn [app]. lia.
Qed.

(* ---- ketama: a label's first digest, as the Go code computes it (values from crypto/md5) ---- *)
Lemma ketama_seed_example : ketama_seed (asc "10.0.0.1:11211") 39 = asc "10.0.0.1:11211-39".
Proof. vm_compute. reflexivity. Qed.

(* the facts about the model's shape, as stated in props/C19.v *)
Lemma md5_shape (m label : bytes) (k p : N) :
  (forall a b, add32 a b = (a + b) mod 2^32) /\ length (md5 m) = 16%nat /\
  length (ketama_points label k) = 4%nat /\ (In p (ketama_points label k) -> p < 2^32).
Proof.
  split; [exact add32_mod|]. split; [apply md5_length|]. split; [apply ketama_points_length|].
  apply ketama_points_lt.
Qed.
