(* Ketama.v — model of handlers/memcached/cluster/ketama.go (Continuum.Reset / Hash / Bucket) and of the
   routing done by cluster/handler.go (Set / Get).  Definitions only; proofs are in KetamaProofs.v.

   What is abstract:
   * the point function.  ketama.go derives, for every bucket, `limit` MD5 digests of "<label>-<k>" and
     cuts each digest into 4 little-endian uint32 points.  No property depends on the values, so the
     model takes `pts : label -> list N` as a Section variable (any function; MD5 is one instance);
   * the sort.  Go's sort.Sort is not stable, so the model does not fix the ring: a ring of a label
     list is ANY list that is a permutation of the (point,label) pairs and is sorted by point
     ([is_ring]).  Theorems are proved for every such ring.
   * the key hash (`md5(key)[0:4]` little endian) is the Section variable `hash` of the handler part. *)
From Rend Require Import base.Bytes.
From Coq Require Import Sorting.Permutation Sorting.Sorted.
Open Scope N_scope.

Section Ketama.
Context {label : Type}.
Variable pts : label -> list N.

(* one ring entry: continuumPoint{point, bucket} *)
Definition entry : Type := (N * label)%type.

(* Reset: for i, b := range buckets { for k < limit { for h < 4 { ring = append(ring, point) }}} *)
Definition entries_of (l : label) : list entry := map (fun p => (p, l)) (pts l).
Definition entries (ls : list label) : list entry := flat_map entries_of ls.
Definition all_points (ls : list label) : list N := flat_map pts ls.

(* points.Less: c[i].point < c[j].point — only the point is compared *)
Definition le_point (a b : entry) : Prop := fst a <= fst b.

(* sort.Sort(ring): some point-sorted permutation of what was appended *)
Definition is_ring (ls : list label) (r : list entry) : Prop :=
  Permutation (entries ls) r /\ Sorted le_point r.

(* the premise of C19: a point belongs to one label only.  [NoDup (all_points ls)] (all points
   pairwise distinct, no repeated label) implies it; it also holds for a list that names the same
   label twice (two connections to one address have the same RemoteAddr) *)
Definition distinct_owners (ls : list label) : Prop :=
  forall l1 l2 p, In l1 ls -> In l2 ls -> In p (pts l1) -> In p (pts l2) -> l1 = l2.

(* ---- the ring after fixes/C19-ketama-tiebreak.patch: Less compares (point, label) lexicographically,
   [lle] being the order on labels (Go's string order).  Such a ring is in particular an [is_ring]. ---- *)
Variable lle : label -> label -> Prop.
Definition le_entry (a b : entry) : Prop :=
  fst a < fst b \/ (fst a = fst b /\ lle (snd a) (snd b)).
Definition is_ring_tb (ls : list label) (r : list entry) : Prop :=
  Permutation (entries ls) r /\ Sorted le_entry r.

End Ketama.

Section Lookup.
Context {label : Type}.
Notation entry := (@entry label).

(* ---- Bucket(h), specification of the binary search: the label of an entry whose point is the
   least point >= h; if there is none, of an entry whose point is the least point of the ring ---- *)
Definition owner_spec (r : list entry) (h : N) (l : label) : Prop :=
  (exists p, In (p, l) r /\ h <= p /\ forall e, In e r -> h <= fst e -> p <= fst e)
  \/ ((forall e, In e r -> fst e < h) /\ exists p, In (p, l) r /\ forall e, In e r -> p <= fst e).

Definition owner_unique (r : list entry) : Prop :=
  forall p l1 l2, In (p, l1) r -> In (p, l2) r -> l1 = l2.

(* ---- Bucket(h), executable, linear: first entry with point >= h, else index 0; None = nil (empty ring) ---- *)
Fixpoint find_ge (r : list entry) (h : N) : option entry :=
  match r with
  | [] => None
  | e :: r' => if h <=? fst e then Some e else find_ge r' h
  end.

Definition wrap0 (r : list entry) (o : option entry) : option label :=
  match o with
  | Some e => Some (snd e)
  | None => match r with [] => None | e0 :: _ => Some (snd e0) end
  end.

Definition lookup (r : list entry) (h : N) : option label := wrap0 r (find_ge r h).

(* number of leading entries with point < h (= the index sort.Search returns on a sorted ring) *)
Fixpoint find_idx (r : list entry) (h : N) : nat :=
  match r with
  | [] => O
  | e :: r' => if h <=? fst e then O else S (find_idx r' h)
  end.

(* ---- Bucket(h), executable, mirroring the code: sort.Search + wrap ----
   func Search(n int, f func(int) bool) int {
       i, j := 0, n
       for i < j { h := int(uint(i+j) >> 1); if !f(h) { i = h + 1 } else { j = h } }
       return i }                                                                    *)
Fixpoint search_loop (fuel : nat) (f : nat -> bool) (i j : nat) : nat :=
  match fuel with
  | O => i
  | S fuel' =>
      if Nat.ltb i j then
        let h := Nat.div2 (i + j) in
        if f h then search_loop fuel' f i h else search_loop fuel' f (S h) j
      else i
  end.
(* j - i shrinks by at least one per iteration, so n iterations are enough *)
Definition search (n : nat) (f : nat -> bool) : nat := search_loop n f O n.

Definition point_at (r : list entry) (i : nat) : N :=
  match nth_error r i with Some e => fst e | None => 0 end.

(* i := uint(sort.Search(len(c.ring), func(i) { return c.ring[i].point >= ringLocation }))
   if i >= uint(len(c.ring)) { i = 0 };  return c.ring[i].bucket *)
Definition lookup_bs (r : list entry) (h : N) : option label :=
  let n := length r in
  match n with
  | O => None
  | _ => let i := search n (fun i => h <=? point_at r i) in
         let i := if Nat.leb n i then O else i in
         option_map snd (nth_error r i)
  end.

(* ---- many probes at once (used by the correspondence check): one pass over the ring when
   the probes are ascending; proved equal to [map (lookup r)] ---- *)
Fixpoint sweep (r : list entry) (hs : list N) {struct r} : list (option entry) :=
  match r with
  | [] => map (fun _ => None) hs
  | e :: r' =>
      (fix eat (hs : list N) : list (option entry) :=
         match hs with
         | [] => []
         | h :: hs' => if h <=? fst e then Some e :: eat hs' else sweep r' hs
         end) hs
  end.

Fixpoint ascending (hs : list N) : bool :=
  match hs with
  | [] => true
  | a :: t => match t with [] => true | b :: _ => (a <=? b) && ascending t end
  end.

Definition lookup_all (r : list entry) (hs : list N) : list (option label) :=
  if ascending hs then map (wrap0 r) (sweep r hs) else map (lookup r) hs.

End Lookup.

(* ---- cluster/handler.go: Set routes by Continuum.Hash(cmd.Key); Get routes every key of the
   request by Continuum.Hash(key).  A node is identified by its label (RemoteAddr). ---- *)
Section Handler.
Context {label key val : Type}.
Variable label_eq_dec : forall a b : label, {a = b} + {a <> b}.
Variable key_eq_dec : forall a b : key, {a = b} + {a <> b}.
Variable hash : key -> N.           (* binary.LittleEndian.Uint32(md5.Sum(key)[0:4]) *)

Definition route (r : list (@entry label)) (k : key) : option label := lookup r (hash k).

(* contents of every backend node *)
Definition cluster_state : Type := label -> key -> option val.

Definition node_store (st : cluster_state) (n : label) (k : key) (v : val) : cluster_state :=
  fun n' k' => if label_eq_dec n' n then (if key_eq_dec k' k then Some v else st n' k') else st n' k'.

(* Handler.Set on a handler whose continuum is r.  (On an empty ring the Go code panics on the
   nil type assertion; the model leaves the state alone.) *)
Definition h_set (r : list (@entry label)) (st : cluster_state) (k : key) (v : val) : cluster_state :=
  match route r k with Some n => node_store st n k v | None => st end.

(* Handler.Get of one key on a handler whose continuum is r: what the chosen node holds *)
Definition h_get (r : list (@entry label)) (st : cluster_state) (k : key) : option val :=
  match route r k with Some n => st n k | None => None end.

(* the node each key of a (multi-)get is sent to *)
Definition h_get_nodes (r : list (@entry label)) (ks : list key) : list (option label) := map (route r) ks.

End Handler.
