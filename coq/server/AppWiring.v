(* AppWiring.v — the deployment as app/memproxy.go's main builds it, as data: which orchestrator
   constructor serves which listener, under which flag condition, wrapped by the locking wrapper
   how, and with which lock set. The values are extracted from the source by `apptrans`
   (gen/App_gen.v); this file holds their types and their evaluation under a flag valuation.
   Definitions only. *)
From Coq Require Import String List Bool.
Import ListNotations.

Inductive bexp :=
| BTrue | BFalse
| BVar (flag : string)
| BNot (b : bexp) | BOr (a b : bexp) | BAnd (a b : bexp)
| BOther (src : string).

(* a lock-set id: the zero value, the set created by the n-th orcas.Locked call of main, ... *)
Inductive lset :=
| LZero
| LFrom (site : nat)
| LIf (c : bexp) (a b : lset)
| LOther (src : string).

Inductive owrap :=
| OUnset
| OBase (ctor : string)                                   (* orcas.L1L2, orcas.L1Only, orcas.L1L2Batch *)
| OLocked (site : nat) (inner : owrap) (multi : bexp) (conc : string)   (* orcas.Locked(inner, multi, conc) *)
| OExisting (inner : owrap) (ls : lset)                   (* orcas.LockedWithExisting(inner, ls) *)
| OIf (c : bexp) (a b : owrap)
| OOther (src : string).

Inductive lstn :=
| LsUnset
| LTcp (port : string) | LUnix (path : string)
| LsIf (c : bexp) (a b : lstn)
| LsOther (src : string).

(* a handler constructor: inmem.New, handlers.NilHandler, memcached.Chunked(l1sock), ... *)
Inductive hnd :=
| HUnset
| HCall (ctor : string) (args : list string)
| HIf (c : bexp) (a b : hnd)
| HOther (src : string).

(* the protocol list handed to ListenAndServe, in order (package names) *)
Inductive protos :=
| PsList (l : list string)
| PsIf (c : bexp) (a b : protos)
| PsOther (src : string).

Record serve := mkServe { sv_cond : bexp; sv_listener : lstn; sv_protos : protos; sv_server : string;
                          sv_orca : owrap; sv_h1 : hnd; sv_h2 : hnd }.

(* ---- evaluation under a valuation of the command-line flags ---- *)
Definition flags := string -> bool.

Fixpoint beval (f : flags) (b : bexp) : option bool :=
  match b with
  | BTrue => Some true | BFalse => Some false
  | BVar x => Some (f x)
  | BNot a => option_map negb (beval f a)
  | BOr a c => match beval f a, beval f c with Some x, Some y => Some (x || y) | _, _ => None end
  | BAnd a c => match beval f a, beval f c with Some x, Some y => Some (x && y) | _, _ => None end
  | BOther _ => None
  end.

(* resolved lock set: none (zero value: no wrapper created one) or the set of a creation site *)
Inductive rlset := RZero | RSite (n : nat) | RLUnknown.
Fixpoint leval (f : flags) (l : lset) : rlset :=
  match l with
  | LZero => RZero
  | LFrom n => RSite n
  | LIf c a b => match beval f c with Some true => leval f a | Some false => leval f b | None => RLUnknown end
  | LOther _ => RLUnknown
  end.

(* resolved orchestrator: constructor, and how it is locked *)
Inductive rlock := NoLock | OwnSet (site : nat) (multi : bool) | SharedSet (ls : rlset) | RUnknownLock.
Record rorca := mkR { r_ctor : string; r_lock : rlock }.

Fixpoint oeval (f : flags) (o : owrap) : option rorca :=
  match o with
  | OBase c => Some (mkR c NoLock)
  | OLocked n inner m _ =>
      match oeval f inner, beval f m with
      | Some (mkR c NoLock), Some mb => Some (mkR c (OwnSet n mb))
      | _, _ => None                                     (* wrapping a wrapped orchestrator: not expected *)
      end
  | OExisting inner ls =>
      match oeval f inner with
      | Some (mkR c NoLock) => Some (mkR c (SharedSet (leval f ls)))
      | _ => None
      end
  | OIf c a b => match beval f c with Some true => oeval f a | Some false => oeval f b | None => None end
  | OUnset | OOther _ => None
  end.

Fixpoint lseval (f : flags) (l : lstn) : option lstn :=
  match l with
  | LTcp _ | LUnix _ => Some l
  | LsIf c a b => match beval f c with Some true => lseval f a | Some false => lseval f b | None => None end
  | LsUnset | LsOther _ => None
  end.

Fixpoint heval (f : flags) (h : hnd) : option (string * list string) :=
  match h with
  | HCall c a => Some (c, a)
  | HIf c a b => match beval f c with Some true => heval f a | Some false => heval f b | None => None end
  | HUnset | HOther _ => None
  end.

Fixpoint pseval (f : flags) (p : protos) : option (list string) :=
  match p with
  | PsList l => Some l
  | PsIf c a b => match beval f c with Some true => pseval f a | Some false => pseval f b | None => None end
  | PsOther _ => None
  end.

(* protocols, server constructor and the two handler constructors of every started server *)
Definition started_with (f : flags) (svs : list serve)
  : list (option (list string) * string * option (string * list string) * option (string * list string)) :=
  flat_map (fun s => match beval f (sv_cond s) with
                     | Some true => [(pseval f (sv_protos s), sv_server s, heval f (sv_h1 s), heval f (sv_h2 s))]
                     | Some false => []
                     | None => [(None, sv_server s, None, None)]
                     end) svs.

(* the servers started under a valuation: listener and resolved orchestrator *)
Definition started (f : flags) (svs : list serve) : list (option lstn * option rorca) :=
  flat_map (fun s => match beval f (sv_cond s) with
                     | Some true => [(lseval f (sv_listener s), oeval f (sv_orca s))]
                     | Some false => []
                     | None => [(None, None)]
                     end) svs.
