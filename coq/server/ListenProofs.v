(* ListenProofs.v — the accept loop keeps connections apart (C14) and releases exactly a
   connection's own handlers on its close (C15): invariant by induction over the fold of [step];
   refutations for the loop with hoisted variables ([step_shared]). *)
From Rend Require Import base.Bytes server.Listen.
Open Scope N_scope.

(* ---------- folds ---------- *)
Section Folds.
  Variable stp : lstate -> event -> lstate * obs.

  Definition st_from (s : lstate) (evs : list event) : lstate := fold_left (fun s e => fst (stp s e)) evs s.
  Fixpoint trace_from (s : lstate) (evs : list event) : list (event * obs) :=
    match evs with
    | [] => []
    | e :: r => (e, snd (stp s e)) :: trace_from (fst (stp s e)) r
    end.

  Lemma run_from_eq : forall evs s acc,
    fold_left (fun a e => let so := stp (fst a) e in (fst so, snd a ++ [(e, snd so)])) evs (s, acc)
    = (st_from s evs, acc ++ trace_from s evs).
  Proof.
    induction evs as [|e r IH]; intros s acc; cbn [fold_left st_from trace_from].
    - now rewrite app_nil_r.
    - cbn [fst snd]. rewrite IH. unfold st_from. cbn [fold_left]. now rewrite <- app_assoc.
  Qed.

  Lemma trace_gen_eq : forall evs, trace_gen stp evs = trace_from init evs.
  Proof. intros. unfold trace_gen, run_gen. now rewrite run_from_eq. Qed.
  Lemma st_gen_eq : forall evs, st_gen stp evs = st_from init evs.
  Proof. reflexivity. Qed.

  Lemma st_from_app : forall a b s, st_from s (a ++ b) = st_from (st_from s a) b.
  Proof. intros. unfold st_from. now rewrite fold_left_app. Qed.
  Lemma trace_from_app : forall a b s, trace_from s (a ++ b) = trace_from s a ++ trace_from (st_from s a) b.
  Proof.
    induction a as [|e r IH]; intros b s; cbn [app trace_from]; [reflexivity|].
    rewrite IH. reflexivity.
  Qed.

  Lemma st_gen_snoc : forall pre e, st_gen stp (pre ++ [e]) = fst (stp (st_gen stp pre) e).
  Proof. intros. rewrite !st_gen_eq, st_from_app. reflexivity. Qed.
  Lemma trace_gen_app : forall a b, trace_gen stp (a ++ b) = trace_gen stp a ++ trace_from (st_gen stp a) b.
  Proof. intros. rewrite !trace_gen_eq, trace_from_app. reflexivity. Qed.
  Lemma trace_gen_snoc : forall pre e, trace_gen stp (pre ++ [e]) = trace_gen stp pre ++ [(e, snd (stp (st_gen stp pre) e))].
  Proof. intros. rewrite trace_gen_app. reflexivity. Qed.
  Lemma trace_gen_mono : forall a b x, In x (trace_gen stp a) -> In x (trace_gen stp (a ++ b)).
  Proof. intros. rewrite trace_gen_app. apply in_or_app. now left. Qed.
  Lemma trace_from_fst : forall evs s, map fst (trace_from s evs) = evs.
  Proof. induction evs as [|e r IH]; intros; cbn; [reflexivity|now rewrite IH]. Qed.
  Lemma trace_gen_event : forall evs e o, In (e, o) (trace_gen stp evs) -> In e evs.
  Proof.
    intros evs e o H. rewrite trace_gen_eq in H.
    rewrite <- (trace_from_fst evs init). change e with (fst (e, o)). now apply in_map.
  Qed.
End Folds.

(* ---------- well-formedness ---------- *)
Definition wf_fold (om : option (list (cid * cstatus))) (evs : list event) :=
  fold_left (fun om e => match om with Some m => wf_step m e | None => None end) evs om.

Lemma wf_fold_none : forall evs, wf_fold None evs = None.
Proof. induction evs; cbn; auto. Qed.

Lemma wf_run_app : forall a b, wf_run (a ++ b) = wf_fold (wf_run a) b.
Proof. intros. unfold wf_run, wf_fold. now rewrite fold_left_app. Qed.

Lemma wf_prefix : forall a b, wf (a ++ b) = true -> wf a = true.
Proof.
  intros a b H. unfold wf in *. rewrite wf_run_app in H.
  destruct (wf_run a); [reflexivity|]. now rewrite wf_fold_none in H.
Qed.

Lemma wf_some : forall evs, wf evs = true -> exists m, wf_run evs = Some m.
Proof. intros evs H. unfold wf in H. destruct (wf_run evs) as [m|]; [now exists m|discriminate]. Qed.

Lemma wf_split : forall pre e post, wf (pre ++ e :: post) = true ->
  exists m m', wf_run pre = Some m /\ wf_step m e = Some m' /\ wf_run (pre ++ [e]) = Some m'.
Proof.
  intros pre e post H.
  replace (pre ++ e :: post) with ((pre ++ [e]) ++ post) in H by now rewrite <- app_assoc.
  apply wf_prefix in H. destruct (wf_some _ H) as [m' Hm'].
  rewrite wf_run_app in Hm'. cbn in Hm'.
  destruct (wf_run pre) as [m|] eqn:E; [|discriminate].
  exists m, m'. repeat split; auto. rewrite wf_run_app, E. exact Hm'.
Qed.

Lemma lookup_cons : forall A c c' (a : A) l,
  lookup c ((c', a) :: l) = if c =? c' then Some a else lookup c l.
Proof. reflexivity. Qed.

(* Closed is final *)
Lemma wf_step_closed : forall m e m' c, wf_step m e = Some m' -> lookup c m = Some Closed -> lookup c m' = Some Closed.
Proof.
  intros m e m' c H Hc.
  destruct e as [c0|c0|c0|c0|c0]; cbn [wf_step] in H;
    destruct (lookup c0 m) as [[]|] eqn:E; inversion H; subst; clear H; auto;
    rewrite lookup_cons; destruct (N.eqb_spec c c0); subst; auto; congruence.
Qed.

Lemma wf_fold_closed : forall evs m m' c, wf_fold (Some m) evs = Some m' -> lookup c m = Some Closed -> lookup c m' = Some Closed.
Proof.
  induction evs as [|e r IH]; intros m m' c H Hc; cbn in H.
  - now inversion H; subst.
  - destruct (wf_step m e) as [m1|] eqn:E.
    + eapply IH; eauto. eapply wf_step_closed; eauto.
    + change (wf_fold None r = Some m') in H. now rewrite wf_fold_none in H.
Qed.

Lemma wf_step_close_sets : forall m e m' c, is_close_of c e -> wf_step m e = Some m' -> lookup c m' = Some Closed.
Proof.
  intros m e m' c [->| ->] H; cbn [wf_step] in H; destruct (lookup c m) as [[]|]; inversion H; subst;
    rewrite lookup_cons, N.eqb_refl; reflexivity.
Qed.

(* ---------- list helpers ---------- *)
Lemma memb_In : forall h l, memb h l = true <-> In h l.
Proof.
  intros. unfold memb. rewrite existsb_exists. split.
  - intros (x & Hx & E). apply N.eqb_eq in E. now subst.
  - intros H. exists h. split; auto. apply N.eqb_refl.
Qed.

Lemma close_hs_In : forall h h1 h2 op, In h (close_hs [h1; h2] op) <-> In h op /\ h <> h1 /\ h <> h2.
Proof.
  intros. unfold close_hs. rewrite filter_In. split.
  - intros [Hi Hm]. split; auto. apply negb_true_iff in Hm.
    split; intros ->; [assert (memb h1 [h1; h2] = true) by (apply memb_In; cbn; auto)
                      |assert (memb h2 [h1; h2] = true) by (apply memb_In; cbn; auto)]; congruence.
  - intros (Hi & N1 & N2). split; auto. apply negb_true_iff.
    destruct (memb h [h1; h2]) eqn:E; auto. apply memb_In in E. cbn in E. intuition congruence.
Qed.

Lemma newly_closed_both : forall h1 h2 op, In h1 op -> In h2 op -> newly_closed [h1; h2] op = [h1; h2].
Proof.
  intros h1 h2 op H1 H2. unfold newly_closed. cbn [filter].
  apply memb_In in H1. apply memb_In in H2. now rewrite H1, H2.
Qed.

(* ---------- the invariant ---------- *)
Definition pair_in (p : hid * hid) (l : list hid) : Prop := In (fst p) l /\ In (snd p) l.
Definition pair_out (p : hid * hid) (l : list hid) : Prop := ~ In (fst p) l /\ ~ In (snd p) l.

Record Inv (m : list (cid * cstatus)) (s : lstate) (t : list (event * obs)) : Prop := {
  i_st : forall c, lookup c m = option_map c_st (lookup c (conns s));
  i_tr : forall c r, lookup c (conns s) = Some r -> In (EAccept c, OMade (fst (c_made r)) (snd (c_made r))) t;
  i_id : forall c r, lookup c (conns s) = Some r -> snd (c_made r) = fst (c_made r) + 1 /\ snd (c_made r) < next s;
  i_srv : forall c r, lookup c (conns s) = Some r -> c_st r = Serving -> c_srv r = Some (c_made r);
  i_open : forall c r, lookup c (conns s) = Some r -> c_st r <> Closed -> pair_in (c_made r) (open s);
  i_closed : forall c r, lookup c (conns s) = Some r -> c_st r = Closed -> pair_out (c_made r) (open s);
  i_rt : forall c h1 h2, In (EAccept c, OMade h1 h2) t -> exists r, lookup c (conns s) = Some r /\ c_made r = (h1, h2);
  i_own : forall h, In h (open s) ->
          exists c r, lookup c (conns s) = Some r /\ c_st r <> Closed /\ (h = fst (c_made r) \/ h = snd (c_made r));
  i_disj : forall c c' r r', c <> c' -> lookup c (conns s) = Some r -> lookup c' (conns s) = Some r' ->
           fst (c_made r) <> fst (c_made r') /\ fst (c_made r) <> snd (c_made r') /\
           snd (c_made r) <> fst (c_made r') /\ snd (c_made r) <> snd (c_made r')
}.

Lemma inv_init : Inv [] init [].
Proof. split; cbn; intros; try discriminate; try contradiction; auto. Qed.

(* an event that is not an accept only extends the trace *)
Lemma inv_trace_ext : forall m s t e o, Inv m s t -> (forall c, e <> EAccept c) -> Inv m s (t ++ [(e, o)]).
Proof.
  intros m s t e o I He. destruct I. split; auto.
  - intros. apply in_or_app. left. eauto.
  - intros c h1 h2 H. apply in_app_or in H. destruct H as [H|[H|[]]]; eauto.
    inversion H; subst. exfalso. eapply He; eauto.
Qed.

Ltac eqc c c0 := destruct (N.eqb_spec c c0); [subst c|].

(* protocol detection finished *)
Lemma inv_firstbyte : forall m s t c r, Inv m s t -> lookup c (conns s) = Some r -> c_st r = Detecting ->
  Inv ((c, Serving) :: m) (set_conn s c (mkConn Serving (c_made r) (Some (c_made r))) (open s)) t.
Proof.
  intros m s t c r I Hr Hd. destruct I.
  assert (Hop : pair_in (c_made r) (open s)) by (eapply i_open0; eauto; congruence).
  split; cbn [conns open next set_conn].
  - intros c0. rewrite !lookup_cons. eqc c0 c; auto.
  - intros c0 r0. rewrite lookup_cons. eqc c0 c; eauto. intros H; inversion H; subst; cbn; eauto.
  - intros c0 r0. rewrite lookup_cons. eqc c0 c; eauto. intros H; inversion H; subst; cbn; eauto.
  - intros c0 r0. rewrite lookup_cons. eqc c0 c; eauto. intros H; inversion H; subst; cbn; eauto.
  - intros c0 r0. rewrite lookup_cons. eqc c0 c; eauto. intros H; inversion H; subst; cbn; eauto.
  - intros c0 r0. rewrite lookup_cons. eqc c0 c; eauto. intros H; inversion H; subst; cbn; discriminate.
  - intros c0 h1 h2 H. destruct (i_rt0 _ _ _ H) as (r0 & L0 & M0).
    rewrite lookup_cons. eqc c0 c; eauto.
    rewrite Hr in L0. inversion L0; subst. eexists; split; eauto.
  - intros h H. destruct (i_own0 _ H) as (c0 & r0 & L0 & N0 & M0).
    eqc c0 c.
    + rewrite Hr in L0. inversion L0; subst.
      exists c, (mkConn Serving (c_made r0) (Some (c_made r0))). rewrite lookup_cons, N.eqb_refl. cbn [c_st c_made]. split; [reflexivity|]. split; [discriminate|exact M0].
    + exists c0, r0. rewrite lookup_cons. apply N.eqb_neq in n. rewrite n. auto.
  - intros c0 c1 r0 r1 Hne. rewrite !lookup_cons. eqc c0 c; eqc c1 c; try congruence; intros H0 H1.
    + inversion H0; subst; cbn. exact (i_disj0 _ _ _ _ Hne Hr H1).
    + inversion H1; subst; cbn. exact (i_disj0 _ _ _ _ Hne H0 Hr).
    + exact (i_disj0 _ _ _ _ Hne H0 H1).
Qed.

(* abort of a connection that is not closed yet, with its own handlers *)
Lemma inv_abort : forall m s t c r, Inv m s t -> lookup c (conns s) = Some r -> c_st r <> Closed ->
  Inv ((c, Closed) :: m)
      (set_conn s c (mkConn Closed (c_made r) (c_srv r)) (close_hs [fst (c_made r); snd (c_made r)] (open s))) t.
Proof.
  intros m s t c r I Hr Hd. destruct I.
  split; cbn [conns open next set_conn].
  - intros c0. rewrite !lookup_cons. eqc c0 c; auto.
  - intros c0 r0. rewrite lookup_cons. eqc c0 c; eauto. intros H; inversion H; subst; cbn; eauto.
  - intros c0 r0. rewrite lookup_cons. eqc c0 c; eauto. intros H; inversion H; subst; cbn; eauto.
  - intros c0 r0. rewrite lookup_cons. eqc c0 c; eauto. intros H; inversion H; subst; cbn; discriminate.
  - intros c0 r0. rewrite lookup_cons. eqc c0 c.
    + intros H; inversion H; subst; cbn. congruence.
    + intros L0 N0. destruct (i_open0 _ _ L0 N0) as [A B].
      destruct (i_disj0 _ _ _ _ n L0 Hr) as (D1 & D2 & D3 & D4).
      split; apply close_hs_In; auto.
  - intros c0 r0. rewrite lookup_cons. eqc c0 c.
    + intros H _; inversion H; subst; cbn [c_made].
      split; rewrite close_hs_In; intros (_ & A & B); congruence.
    + intros L0 N0. destruct (i_closed0 _ _ L0 N0) as [A B].
      split; rewrite close_hs_In; tauto.
  - intros c0 h1 h2 H. destruct (i_rt0 _ _ _ H) as (r0 & L0 & M0).
    rewrite lookup_cons. eqc c0 c; eauto.
    rewrite Hr in L0. inversion L0; subst. eexists; split; eauto.
  - intros h H. apply close_hs_In in H. destruct H as (H & N1 & N2).
    destruct (i_own0 _ H) as (c0 & r0 & L0 & N0 & M0).
    eqc c0 c.
    + rewrite Hr in L0. inversion L0; subst. destruct M0; congruence.
    + exists c0, r0. rewrite lookup_cons. apply N.eqb_neq in n. rewrite n. auto.
  - intros c0 c1 r0 r1 Hne. rewrite !lookup_cons. eqc c0 c; eqc c1 c; try congruence; intros H0 H1.
    + inversion H0; subst; cbn. exact (i_disj0 _ _ _ _ Hne Hr H1).
    + inversion H1; subst; cbn. exact (i_disj0 _ _ _ _ Hne H0 Hr).
    + exact (i_disj0 _ _ _ _ Hne H0 H1).
Qed.

(* accept: two fresh handlers *)
Lemma inv_accept : forall m s t c, Inv m s t -> lookup c (conns s) = None ->
  Inv ((c, Detecting) :: m)
      (mkL ((c, mkConn Detecting (next s, next s + 1) None) :: conns s) (open s ++ [next s; next s + 1]) (next s + 2) (next s, next s + 1))
      (t ++ [(EAccept c, OMade (next s) (next s + 1))]).
Proof.
  intros m s t c I Hn. destruct I.
  split; cbn [conns open next].
  - intros c0. rewrite !lookup_cons. eqc c0 c; auto.
  - intros c0 r0. rewrite lookup_cons. eqc c0 c.
    + intros H; inversion H; subst; cbn. apply in_or_app. right. now left.
    + intros. apply in_or_app. left. eauto.
  - intros c0 r0. rewrite lookup_cons. eqc c0 c.
    + intros H; inversion H; subst; cbn. lia.
    + intros L0. destruct (i_id0 _ _ L0). lia.
  - intros c0 r0. rewrite lookup_cons. eqc c0 c; eauto. intros H; inversion H; subst; cbn; discriminate.
  - intros c0 r0. rewrite lookup_cons. eqc c0 c.
    + intros H _; inversion H; subst; cbn. split; apply in_or_app; right; cbn; auto.
    + intros L0 N0. destruct (i_open0 _ _ L0 N0). split; apply in_or_app; auto.
  - intros c0 r0. rewrite lookup_cons. eqc c0 c.
    + intros H; inversion H; subst; cbn; discriminate.
    + intros L0 N0. destruct (i_closed0 _ _ L0 N0) as [A B]. destruct (i_id0 _ _ L0).
      split; intros X; apply in_app_or in X; destruct X as [X|X]; auto; cbn in X; lia.
  - intros c0 h1 h2 H. apply in_app_or in H. destruct H as [H|[H|[]]].
    + destruct (i_rt0 _ _ _ H) as (r0 & L0 & M0). rewrite lookup_cons. eqc c0 c; [congruence|eauto].
    + inversion H; subst. rewrite lookup_cons, N.eqb_refl. eexists; split; eauto.
  - intros h H. apply in_app_or in H. destruct H as [H|H].
    + destruct (i_own0 _ H) as (c0 & r0 & L0 & N0 & M0).
      exists c0, r0. rewrite lookup_cons. eqc c0 c; [congruence|auto].
    + exists c, (mkConn Detecting (next s, next s + 1) None). rewrite lookup_cons, N.eqb_refl. cbn.
      split; auto. split; [discriminate|]. cbn in H. intuition.
  - intros c0 c1 r0 r1 Hne. rewrite !lookup_cons. eqc c0 c; eqc c1 c; try congruence; intros H0 H1.
    + inversion H0; subst; cbn. destruct (i_id0 _ _ H1). lia.
    + inversion H1; subst; cbn. destruct (i_id0 _ _ H0). lia.
    + exact (i_disj0 _ _ _ _ Hne H0 H1).
Qed.

(* what [step] does on an event the code allows *)
Lemma inv_lookup : forall m s t c x, Inv m s t -> lookup c m = Some x -> exists r, lookup c (conns s) = Some r /\ c_st r = x.
Proof.
  intros m s t c x I H. rewrite (i_st _ _ _ I) in H. destruct (lookup c (conns s)) as [r|]; [|discriminate].
  inversion H. eauto.
Qed.

Lemma step_abort_eq : forall s c r, abort s c r (c_made r) =
  (set_conn s c (mkConn Closed (c_made r) (c_srv r)) (close_hs [fst (c_made r); snd (c_made r)] (open s)),
   OClosed (newly_closed [fst (c_made r); snd (c_made r)] (open s))).
Proof. reflexivity. Qed.

Lemma inv_step : forall m s t e m', Inv m s t -> wf_step m e = Some m' ->
  Inv m' (fst (step s e)) (t ++ [(e, snd (step s e))]).
Proof.
  intros m s t e m' I H.
  destruct e as [c|c|c|c|c]; cbn [wf_step] in H.
  - destruct (lookup c m) eqn:E; [discriminate|]. inversion H; subst; clear H.
    rewrite (i_st _ _ _ I) in E. unfold step, step_gen.
    destruct (lookup c (conns s)) eqn:L; [discriminate|]. cbn [fst snd].
    now apply inv_accept.
  - destruct (lookup c m) as [[]|] eqn:E; try discriminate. inversion H; subst; clear H.
    destruct (inv_lookup _ _ _ _ _ I E) as (r & L & S).
    unfold step, step_gen. rewrite L, S. cbn [fst snd].
    apply inv_trace_ext; [|discriminate]. now apply inv_firstbyte.
  - destruct (lookup c m) as [[]|] eqn:E; try discriminate. inversion H; subst; clear H.
    destruct (inv_lookup _ _ _ _ _ I E) as (r & L & S).
    unfold step, step_gen. rewrite L, S, step_abort_eq. cbn [fst snd].
    apply inv_trace_ext; [|discriminate]. apply inv_abort; auto. congruence.
  - destruct (lookup c m) as [[]|] eqn:E; try discriminate. inversion H; subst; clear H.
    destruct (inv_lookup _ _ _ _ _ I E) as (r & L & S).
    assert (fst (step s (ERequest c)) = s) as ->.
    { unfold step, step_gen. rewrite L. destruct (c_st r), (c_srv r) as [[]|]; reflexivity. }
    apply inv_trace_ext; [auto|discriminate].
  - destruct (lookup c m) as [[]|] eqn:E; try discriminate. inversion H; subst; clear H.
    destruct (inv_lookup _ _ _ _ _ I E) as (r & L & S).
    unfold step, step_gen. rewrite L, S, (i_srv _ _ _ I _ _ L S), step_abort_eq. cbn [fst snd].
    apply inv_trace_ext; [|discriminate]. apply inv_abort; auto. congruence.
Qed.

Theorem inv_run : forall evs m, wf_run evs = Some m -> Inv m (st evs) (trace evs).
Proof.
  induction evs as [|e evs IH] using rev_ind; intros m H.
  - inversion H; subst. apply inv_init.
  - rewrite wf_run_app in H. cbn in H. destruct (wf_run evs) as [m0|] eqn:E; [|discriminate].
    unfold st, trace. rewrite st_gen_snoc, trace_gen_snoc. apply inv_step with m0; auto.
Qed.

(* ---------- C14 ---------- *)
Lemma own_handlers_step : own_handlers step.
Proof.
  intros evs W pre c post ->.
  destruct (wf_split _ _ _ W) as (m & m' & Hm & Hs & _).
  pose proof (inv_run _ _ Hm) as I.
  cbn [wf_step] in Hs. destruct (lookup c m) as [[]|] eqn:E; try discriminate.
  destruct (inv_lookup _ _ _ _ _ I E) as (r & L & S).
  exists (fst (c_made r)), (snd (c_made r)). split.
  - eapply i_tr; eauto.
  - change (st_gen step pre) with (st pre). unfold step, step_gen. rewrite L, S, (i_srv _ _ _ I _ _ L S).
    destruct (c_made r); reflexivity.
Qed.

Lemma pairs_disjoint_step : pairs_disjoint step.
Proof.
  intros evs W c c' h1 h2 h1' h2' A B.
  destruct (wf_some _ W) as [m Hm]. pose proof (inv_run _ _ Hm) as I.
  destruct (i_rt _ _ _ I _ _ _ A) as (r & L & M).
  destruct (i_rt _ _ _ I _ _ _ B) as (r' & L' & M').
  pose proof (i_id _ _ _ I _ _ L) as [Hid _]. rewrite M in Hid. cbn in Hid.
  split; [lia|]. split.
  - intros <-. rewrite L in L'. inversion L'; subst. rewrite M in M'. now inversion M'.
  - intros Hne. pose proof (i_disj _ _ _ I _ _ _ _ Hne L L') as D. now rewrite M, M' in D.
Qed.

Lemma c14_own_handlers_lemma : own_handlers step /\ pairs_disjoint step.
Proof. split; [apply own_handlers_step|apply pairs_disjoint_step]. Qed.

(* ---------- C15 ---------- *)
Lemma close_releases_own_step : close_releases_own step.
Proof.
  intros evs W pre e post c -> Hc.
  destruct (wf_split _ _ _ W) as (m & m' & Hm & Hs & _).
  pose proof (inv_run _ _ Hm) as I.
  (* c's record before the close: not closed, and the handlers abort gets are its own *)
  assert (exists r, lookup c (conns (st pre)) = Some r /\ c_st r <> Closed /\
                    step (st pre) e = abort (st pre) c r (c_made r)) as (r & L & NC & Est).
  { destruct Hc as [-> | ->]; cbn [wf_step] in Hs; destruct (lookup c m) as [[]|] eqn:E; try discriminate;
      destruct (inv_lookup _ _ _ _ _ I E) as (r & L & S); exists r; (split; [auto|split; [congruence|]]);
      unfold step, step_gen; rewrite L, S; [|reflexivity]. now rewrite (i_srv _ _ _ I _ _ L S). }
  assert (lookup c m <> Some Closed) as NCm.
  { rewrite (i_st _ _ _ I), L. cbn. congruence. }
  destruct (i_open _ _ _ I _ _ L NC) as [O1 O2].
  exists (fst (c_made r)), (snd (c_made r)).
  assert (Hafter : forall h, In h (open (st_gen step (pre ++ [e]))) <->
                             In h (open (st_gen step pre)) /\ h <> fst (c_made r) /\ h <> snd (c_made r)).
  { intros h. rewrite st_gen_snoc. fold (st pre). rewrite Est, step_abort_eq. cbn [fst open set_conn].
    apply close_hs_In. }
  split; [eapply i_tr; eauto|]. split; [|split; [|split]].
  - intros p1 p2 -> Hin.
    assert (W1 : wf p1 = true) by (rewrite <- app_assoc in W; eapply wf_prefix; eauto).
    destruct (wf_some _ W1) as [m1 Hm1]. pose proof (inv_run _ _ Hm1) as I1.
    destruct (i_rt _ _ _ I1 _ _ _ Hin) as (r1 & L1 & M1).
    assert (c_st r1 <> Closed) as NC1.
    { intros X. apply NCm. rewrite wf_run_app, Hm1 in Hm.
      eapply wf_fold_closed; eauto. rewrite (i_st _ _ _ I1), L1. cbn. now rewrite X. }
    pose proof (i_open _ _ _ I1 _ _ L1 NC1) as P. rewrite M1 in P. exact P.
  - fold (st pre). rewrite Est, step_abort_eq. cbn [snd]. now rewrite newly_closed_both.
  - exact Hafter.
  - intros c' h1' h2' Hne Hin.
    destruct (i_rt _ _ _ I _ _ _ Hin) as (r' & L' & M').
    pose proof (i_disj _ _ _ I _ _ _ _ Hne L' L) as D. rewrite M' in D. cbn [fst snd] in D.
    rewrite !Hafter. tauto.
Qed.

Lemma in_split_event : forall (e : event) evs, In e evs -> exists a b, evs = a ++ e :: b.
Proof. intros. now apply in_split. Qed.

Lemma all_closed_none_open_step : all_closed_none_open step.
Proof.
  intros evs W Hall.
  destruct (wf_some _ W) as [m Hm]. pose proof (inv_run _ _ Hm) as I.
  fold (st evs). destruct (open (st evs)) as [|h l] eqn:E; [reflexivity|exfalso].
  destruct (i_own _ _ _ I h) as (c & r & L & NC & _); [rewrite E; now left|].
  pose proof (i_tr _ _ _ I _ _ L) as T. apply trace_gen_event in T.
  assert (exists e, is_close_of c e /\ In e evs) as (e & Hc & Hin).
  { destruct (Hall _ T); [exists (EClose c)|exists (EEOF0 c)]; split; auto; [now left|now right]. }
  destruct (in_split_event _ _ Hin) as (a & b & ->).
  destruct (wf_split _ _ _ W) as (m0 & m1 & _ & Hs & Hm1).
  pose proof (wf_step_close_sets _ _ _ _ Hc Hs) as C1.
  replace (a ++ e :: b) with ((a ++ [e]) ++ b) in Hm by now rewrite <- app_assoc.
  rewrite wf_run_app, Hm1 in Hm.
  pose proof (wf_fold_closed _ _ _ _ Hm C1) as C.
  rewrite (i_st _ _ _ I), L in C. cbn in C. congruence.
Qed.

(* ---------- the loop with hoisted variables ---------- *)
(* B is accepted while A has not sent its first byte: A's requests go to B's handlers *)
Definition shared_bad14 : list event := [EAccept 1; EAccept 2; EFirstByte 1; ERequest 1].
(* ... and A's disconnect before its first byte closes B's handlers *)
Definition shared_bad15 : list event := [EAccept 1; EAccept 2; EEOF0 1].

Lemma own_handlers_shared_false : ~ own_handlers step_shared.
Proof.
  intros H.
  destruct (H shared_bad14 eq_refl [EAccept 1; EAccept 2; EFirstByte 1] 1 [] eq_refl) as (h1 & h2 & Hin & Ho).
  vm_compute in Ho. inversion Ho; subst. vm_compute in Hin.
  destruct Hin as [X|[X|[X|[]]]]; inversion X.
Qed.

Lemma close_releases_own_shared_false : ~ close_releases_own step_shared.
Proof.
  intros H.
  destruct (H shared_bad15 eq_refl [EAccept 1; EAccept 2] (EEOF0 1) [] 1 eq_refl (or_intror eq_refl))
    as (h1 & h2 & Hin & _ & Ho & _).
  vm_compute in Ho. inversion Ho; subst. vm_compute in Hin.
  destruct Hin as [X|[X|[]]]; inversion X.
Qed.
