(* Listen.v — the accept loop of /repo/server/listen.go (ListenAndServe) as a transition system.
   Definitions only; the lemmas are in ListenProofs.v, the statements in props/C14b.v and props/C15b.v.

     for {
       remote := listener.Accept()                      EAccept c
       l1 := h1(); l2 := h2()                             two fresh handlers, constructed L1 then L2
       go func(remoteConn) {                              closure: captures THIS iteration's l1, l2
         CanParse()  -> err (EOF before a byte)         EEOF0 c: abort([remoteConn, l1, l2])
                     -> first byte seen                 EFirstByte c:
         server := s([remoteConn, l1, l2], parser, o(l1, l2, responder))
         go server.Loop()                               ERequest c: the orchestrator built above works
       }(remote)                                                    on the handlers it was built with
     }                                                  EClose c: Loop ends, abort(server.conns)

   Handlers are abstract ids, numbered in the order of construction (0, 1, 2, ...). For an L1-only
   deployment h2 is handlers.NilHandler: it is constructed (and "closed") all the same and has an id
   too; it just has no backend connection (Check15l.v projects it away).

   What the closure of a connection sees when it finally reads l1/l2 is a parameter of the step
   function: the correct loop declares l1/l2 per iteration (`:=`), so every closure has its own
   copy ([c_made]); with the variables hoisted out of the loop all closures share the one pair of
   variables, which holds whatever the most recent iteration constructed ([latest]). *)
From Rend Require Import base.Bytes.
Open Scope N_scope.

Definition cid := N.   (* client connection *)
Definition hid := N.   (* handler instance, numbered by construction order *)

Inductive cstatus := Detecting | Serving | Closed.

Inductive event :=
| EAccept (c : cid)      (* Accept returned c; h1() and h2() were called *)
| EFirstByte (c : cid)   (* the detection goroutine of c saw the first byte: server of c is built *)
| EEOF0 (c : cid)        (* the detection goroutine of c saw EOF/an error before any byte *)
| ERequest (c : cid)     (* one request on c, executed by c's server *)
| EClose (c : cid).      (* c's server loop ends (client gone / IO error): abort *)

Inductive obs :=
| ONone
| OMade (h1 h2 : hid)        (* the handlers constructed by this accept (L1, L2) *)
| OReq (h1 h2 : hid)         (* the handlers that carry this request (L1, L2) *)
| OClosed (hs : list hid).   (* the handlers that this event took from open to closed *)

Record conn := mkConn {
  c_st   : cstatus;
  c_made : hid * hid;            (* l1, l2 of the iteration that accepted the connection *)
  c_srv  : option (hid * hid)    (* the handlers the server/orchestrator of the connection was built with *)
}.

Record lstate := mkL {
  conns  : list (cid * conn);    (* most recently accepted first; the first binding of an id counts *)
  open   : list hid;             (* handlers constructed and not yet closed *)
  next   : hid;                  (* number of handlers constructed so far *)
  latest : hid * hid             (* the pair constructed by the most recent iteration *)
}.

Definition init : lstate := mkL [] [] 0 (0, 0).

Fixpoint lookup {A} (c : cid) (l : list (cid * A)) : option A :=
  match l with
  | [] => None
  | (c', a) :: r => if c =? c' then Some a else lookup c r
  end.

Definition memb (h : hid) (l : list hid) : bool := existsb (N.eqb h) l.

(* Close on every handler of hs *)
Definition close_hs (hs op : list hid) : list hid := filter (fun h => negb (memb h hs)) op.
Definition newly_closed (hs op : list hid) : list hid := filter (fun h => memb h op) hs.

Definition set_conn (s : lstate) (c : cid) (r : conn) (op : list hid) : lstate :=
  mkL ((c, r) :: conns s) op (next s) (latest s).

(* abort([]io.Closer{remote, l1, l2}) *)
Definition abort (s : lstate) (c : cid) (r : conn) (hs : hid * hid) : lstate * obs :=
  let l := [fst hs; snd hs] in
  (set_conn s c (mkConn Closed (c_made r) (c_srv r)) (close_hs l (open s)), OClosed (newly_closed l (open s))).

Section Step.
  (* what the detection goroutine of a connection reads as l1, l2 *)
  Variable captured : lstate -> conn -> hid * hid.

  Definition step_gen (s : lstate) (e : event) : lstate * obs :=
    match e with
    | EAccept c =>
        match lookup c (conns s) with
        | Some _ => (s, ONone)
        | None =>
            let h1 := next s in
            let h2 := next s + 1 in
            (mkL ((c, mkConn Detecting (h1, h2) None) :: conns s) (open s ++ [h1; h2]) (next s + 2) (h1, h2),
             OMade h1 h2)
        end
    | EFirstByte c =>
        match lookup c (conns s) with
        | Some r =>
            match c_st r with
            | Detecting => (set_conn s c (mkConn Serving (c_made r) (Some (captured s r))) (open s), ONone)
            | _ => (s, ONone)
            end
        | None => (s, ONone)
        end
    | EEOF0 c =>
        match lookup c (conns s) with
        | Some r =>
            match c_st r with
            | Detecting => abort s c r (captured s r)
            | _ => (s, ONone)
            end
        | None => (s, ONone)
        end
    | ERequest c =>
        match lookup c (conns s) with
        | Some r =>
            match c_st r, c_srv r with
            | Serving, Some (h1, h2) => (s, OReq h1 h2)
            | _, _ => (s, ONone)
            end
        | None => (s, ONone)
        end
    | EClose c =>
        match lookup c (conns s) with
        | Some r =>
            match c_st r, c_srv r with
            | Serving, Some hs => abort s c r hs
            | _, _ => (s, ONone)
            end
        | None => (s, ONone)
        end
    end.
End Step.

(* the loop as written: l1, l2 are per-iteration variables *)
Definition step : lstate -> event -> lstate * obs := step_gen (fun _ r => c_made r).
(* l1, l2 hoisted out of the loop: every closure reads the most recent pair *)
Definition step_shared : lstate -> event -> lstate * obs := step_gen (fun s _ => latest s).

Section Run.
  Variable stp : lstate -> event -> lstate * obs.
  Definition st_gen (evs : list event) : lstate := fold_left (fun s e => fst (stp s e)) evs init.
  Definition run_gen (evs : list event) : lstate * list (event * obs) :=
    fold_left (fun a e => let so := stp (fst a) e in (fst so, snd a ++ [(e, snd so)])) evs (init, []).
  Definition trace_gen (evs : list event) : list (event * obs) := snd (run_gen evs).
End Run.

(* state after a sequence of events, and the sequence paired with its observations *)
Definition st (evs : list event) : lstate := st_gen step evs.
Definition trace (evs : list event) : list (event * obs) := trace_gen step evs.
Definition st_shared (evs : list event) : lstate := st_gen step_shared evs.
Definition trace_shared (evs : list event) : list (event * obs) := trace_gen step_shared evs.

(* ---- well-formed event sequences: what the code allows, independent of the model's state ---- *)
Definition wf_step (m : list (cid * cstatus)) (e : event) : option (list (cid * cstatus)) :=
  match e with
  | EAccept c => match lookup c m with None => Some ((c, Detecting) :: m) | Some _ => None end
  | EFirstByte c => match lookup c m with Some Detecting => Some ((c, Serving) :: m) | _ => None end
  | EEOF0 c => match lookup c m with Some Detecting => Some ((c, Closed) :: m) | _ => None end
  | ERequest c => match lookup c m with Some Serving => Some m | _ => None end
  | EClose c => match lookup c m with Some Serving => Some ((c, Closed) :: m) | _ => None end
  end.

Definition wf_run (evs : list event) : option (list (cid * cstatus)) :=
  fold_left (fun om e => match om with Some m => wf_step m e | None => None end) evs (Some []).

Definition wf (evs : list event) : bool := match wf_run evs with Some _ => true | None => false end.

Definition is_close_of (c : cid) (e : event) : Prop := e = EClose c \/ e = EEOF0 c.

(* ---- the properties, for an arbitrary step function (instantiated with [step] in props/C14b.v and
   props/C15b.v, refuted for [step_shared]) ---- *)
Section Props.
  Variable stp : lstate -> event -> lstate * obs.
  Let tr := trace_gen stp.
  Let sta := st_gen stp.

  (* every request of c is carried by the pair constructed at c's accept *)
  Definition own_handlers : Prop :=
    forall evs, wf evs = true ->
    forall pre c post, evs = pre ++ ERequest c :: post ->
    exists h1 h2, In (EAccept c, OMade h1 h2) (tr pre) /\ snd (stp (sta pre) (ERequest c)) = OReq h1 h2.

  (* one pair per connection, two different handlers, pairs of different connections disjoint *)
  Definition pairs_disjoint : Prop :=
    forall evs, wf evs = true ->
    forall c c' h1 h2 h1' h2',
      In (EAccept c, OMade h1 h2) (tr evs) -> In (EAccept c', OMade h1' h2') (tr evs) ->
      h1 <> h2 /\ (c = c' -> h1 = h1' /\ h2 = h2') /\
      (c <> c' -> h1 <> h1' /\ h1 <> h2' /\ h2 <> h1' /\ h2 <> h2').

  (* closing c closes exactly c's pair, which was open from its construction until then *)
  Definition close_releases_own : Prop :=
    forall evs, wf evs = true ->
    forall pre e post c, evs = pre ++ e :: post -> is_close_of c e ->
    exists h1 h2,
      In (EAccept c, OMade h1 h2) (tr pre) /\
      (forall p1 p2, pre = p1 ++ p2 -> In (EAccept c, OMade h1 h2) (tr p1) ->
                     In h1 (open (sta p1)) /\ In h2 (open (sta p1))) /\
      snd (stp (sta pre) e) = OClosed [h1; h2] /\
      (forall h, In h (open (sta (pre ++ [e]))) <-> In h (open (sta pre)) /\ h <> h1 /\ h <> h2) /\
      (forall c' h1' h2', c' <> c -> In (EAccept c', OMade h1' h2') (tr pre) ->
         (In h1' (open (sta (pre ++ [e]))) <-> In h1' (open (sta pre))) /\
         (In h2' (open (sta (pre ++ [e]))) <-> In h2' (open (sta pre)))).

  (* once every accepted connection has been closed, no handler is open *)
  Definition all_closed_none_open : Prop :=
    forall evs, wf evs = true ->
    (forall c, In (EAccept c) evs -> In (EClose c) evs \/ In (EEOF0 c) evs) ->
    open (sta evs) = [].
End Props.
