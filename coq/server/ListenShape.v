(* ListenShape.v — the SHAPE of the accept loop, /repo/server/listen.go ListenAndServe, as a value:
   what `rendharness listentrans` extracts from the source on every run (gen/Listen_gen.v,
   [listen_src]) and what the hand-written transition system server/Listen.v assumes
   ([listen_model] below). gen/ListenLink.v proves listen_src = listen_model.

   This file gives the shape a MEANING: [sh_step], the transition function of Listen.v's events
   driven by a shape value (defined only on shapes whose frame is recognised), [sh_error_paths],
   what every error branch before the goroutine closes compared with what the iteration has opened
   at that point, and [sh_detect_err], what the protocol-detection goroutine does when CanParse
   fails. server/ListenShapeProofs.v proves that [sh_step listen_model] IS Listen.step, and that
   the same shape with l1/l2 assigned to variables declared before the loop IS Listen.step_shared.
   Definitions only.

   What the extraction keeps and drops (harness/cmd/rendharness/listentrans.go): variables are
   identified by their ROLE, not their name (the result of listener.Accept() is [RRemote], of the
   fifth/sixth parameter's call [RL1]/[RL2], the goroutine parameter bound to the accepted
   connection [RConn]); expression statements calling log.* / metrics.* / fmt.*, `var x T`
   declarations without a value, and if statements in which nothing else remains (and whose
   condition contains no call) are dropped; the single-assignment definitions
   `x := bufio.NewReader(c)`, `x := bufio.NewWriter(c)`, `x := protocol.Peeker(reader)`,
   `p := ps[len(ps)-1]` are inlined at their uses. Everything else that is not one of the forms
   below becomes [SOther] / [ScopeOther] / [RResOther] / [PSrcOther] with a description, on which
   no [sh_*] function is defined and which [listen_model] does not contain. *)
From Coq Require Import String.
From Rend Require Import base.Bytes server.Listen.
Open Scope N_scope.

(* ---------------- syntax ---------------- *)
(* the things an iteration opens, by role *)
Inductive res :=
| RRemote                    (* the variable assigned from listener.Accept() *)
| RConn                      (* the goroutine's parameter that is bound to RRemote at the go statement *)
| RL1                        (* the variable assigned from h1() (fifth parameter of ListenAndServe) *)
| RL2                        (* the variable assigned from h2() (sixth parameter) *)
| RResOther (name : string).

(* where the variable a call's result is assigned to was declared *)
Inductive scope :=
| InLoop                     (* `:=` at the top level of the for body (or `=` to such a variable): one variable per iteration *)
| Hoisted                    (* `=` to a variable declared before the for statement: one variable for all iterations *)
| ScopeOther (what : string).

(* which protocol.Components value a parser / responder is taken from *)
Inductive psrc :=
| PRange                     (* the loop variable of `for _, p := range ps` *)
| PLast                      (* ps[len(ps)-1] *)
| PSrcOther (what : string).

Inductive lstmt :=
(* before the loop *)
| SListen                                   (* listener, err := l() *)
(* the accept loop *)
| SAccept (d : scope)                       (* remote, err :=/= listener.Accept() *)
| SConfigure                                (* remote, err = listener.Configure(remote) *)
| SMake (r : res) (d : scope)               (* l1, err :=/= h1()   (r = RL1)  /  l2, err :=/= h2()   (r = RL2) *)
| SIfErr (body : list lstmt)                (* if err != nil { body } *)
| SIfNonNil (r : res) (body : list lstmt)   (* if r != nil { body } *)
| SClose (r : res)                          (* r.Close() *)
| SContinue | SReturn | SBreak | SPanic
| SGo (args : list res) (captures : list res) (body : list lstmt)
      (* go func(params) { body }(args): the roles passed by parameter (a parameter bound to RRemote is
         RConn inside, a parameter bound to RL1/RL2 keeps that role), the roles among RRemote, RL1, RL2
         the function literal refers to as free variables (closure capture), and its body *)
(* the detection goroutine *)
| SDetect (body : list lstmt)               (* for _, p := range ps { body } *)
| SCanParse                                 (* match, err := p.NewDisambiguator(protocol.Peeker(bufio.NewReader(RConn))).CanParse() *)
| SIfEOF (t e : list lstmt)                 (* if err == io.EOF { t } else { e } *)
| SIfMatch (body : list lstmt)              (* if match { body } *)
| SIfUnmatched (body : list lstmt)          (* if !matched { body } *)
| SAbort (closers : list res)               (* abort([]io.Closer{closers}, err) *)
| SSetParser (p : psrc) (r : res)           (* reqParser = p.NewRequestParser(bufio.NewReader(r)) *)
| SSetResponder (p : psrc) (r : res)        (* responder = p.NewResponder(bufio.NewWriter(r)) *)
| SSetMatched                               (* matched = true *)
| SServer (closers : list res) (orca : list res)
      (* server := s([]io.Closer{closers}, reqParser, o(orca..., responder)) *)
| SGoLoop                                   (* go server.Loop() *)
| SOther (what : string).

Record listen_shape := mkListen {
  lsh_setup     : list lstmt;             (* the statements before the for loop *)
  lsh_loop      : list lstmt;             (* the body of the bare `for { }` *)
  lsh_after     : list lstmt;             (* the statements after it; also: a loop that is not a bare `for { }` *)
  lsh_configure : list (string * bool)    (* every Configure method of listen.go: does each of its return
                                             statements return its parameter as the connection? (so that
                                             remote.Close() after a failed Configure has a receiver) *)
}.

(* ---------------- the model value ---------------- *)
Open Scope string_scope.
(* the loop with the variables of l1 / l2 declared as [d1] / [d2] *)
Definition listen_with (d1 d2 : scope) : listen_shape := {|
  lsh_setup := [SListen; SIfErr [SPanic]];
  lsh_loop := [
    SAccept InLoop;
    SIfErr [SIfNonNil RRemote [SClose RRemote]; SContinue];
    SConfigure;
    SIfErr [SClose RRemote; SContinue];
    SMake RL1 d1;
    SIfErr [SClose RRemote; SContinue];
    SMake RL2 d2;
    SIfErr [SClose RL1; SClose RRemote; SContinue];
    SGo [RRemote] [RL1; RL2] [
      SDetect [
        SCanParse;
        SIfErr [SAbort [RConn; RL1; RL2]; SReturn];
        SIfMatch [SSetParser PRange RConn; SSetResponder PRange RConn; SSetMatched]];
      SIfUnmatched [SSetParser PLast RConn; SSetResponder PLast RConn];
      SServer [RConn; RL1; RL2] [RL1; RL2];
      SGoLoop]];
  lsh_after := [];
  lsh_configure := [("*tcpListener", true); ("*unixListener", true)]
|}.
Close Scope string_scope.

(* what Listen.v assumes about the source *)
Definition listen_model : listen_shape := listen_with InLoop InLoop.
(* l1, l2 hoisted out of the loop (Listen.step_shared; seeds C14-2 / C15-2) *)
Definition listen_hoisted : listen_shape := listen_with Hoisted Hoisted.

(* ---------------- small decidable tests ---------------- *)
Definition res_eqb (a b : res) : bool :=
  match a, b with
  | RRemote, RRemote | RConn, RConn | RL1, RL1 | RL2, RL2 => true
  | _, _ => false          (* RResOther equals nothing *)
  end.
Definition res_in (r : res) (l : list res) : bool := existsb (res_eqb r) l.
Definition psrc_is (a b : psrc) : bool :=
  match a, b with PRange, PRange | PLast, PLast => true | _, _ => false end.

(* ---------------- meaning of an error branch of the accept loop ---------------- *)
Inductive bexit := BFall | BContinue | BReturn | BPanic.

(* the closes of a branch in order — (what, is it guarded by `!= nil`) — and how the branch is left.
   None: a statement that is none of Close / guarded Close / continue / return / panic *)
Fixpoint run_branch (l : list lstmt) (acc : list (res * bool)) : option (list (res * bool) * bexit) :=
  match l with
  | [] => Some (acc, BFall)
  | SClose r :: k => run_branch k (acc ++ [(r, false)])
  | SIfNonNil r [SClose r'] :: k => if res_eqb r r' then run_branch k (acc ++ [(r, true)]) else None
  | [SContinue] => Some (acc, BContinue)
  | [SReturn] => Some (acc, BReturn)
  | [SPanic] => Some (acc, BPanic)
  | _ => None
  end.

(* a branch releases what the iteration holds: [sure] are open for certain, [maybe] may be nil (the
   connection returned together with an error by Accept). Every one of them is closed exactly once,
   nothing else is, and what may be nil is closed under a nil test only *)
Definition count (r : res) (l : list res) : nat := List.length (filter (res_eqb r) l).
Definition releases (sure maybe : list res) (closes : list (res * bool)) : bool :=
  forallb (fun r => Nat.eqb (count r (map fst closes)) 1) (sure ++ maybe)
  && forallb (fun c => res_in (fst c) (sure ++ maybe)) closes
  && forallb (fun c => if res_in (fst c) maybe then snd c else true) closes.

(* the straight-line part of the loop body: the calls that open something, each followed by its
   error branch. For every error branch: what is held when it runs (sure, maybe), what it closes,
   how it exits. The rest (the go statement and anything after it) is returned *)
Record epath := mkEPath { ep_after : lstmt; ep_sure : list res; ep_maybe : list res;
                          ep_closes : list (res * bool); ep_exit : bexit }.

Fixpoint walk (l : list lstmt) (held : list res) (acc : list epath) : option (list epath * list res * list lstmt) :=
  match l with
  | SAccept d :: SIfErr b :: k =>
      match run_branch b [] with
      | Some (cl, x) => walk k (held ++ [RRemote]) (acc ++ [mkEPath (SAccept d) held [RRemote] cl x])
      | None => None
      end
  | SConfigure :: SIfErr b :: k =>
      match run_branch b [] with
      | Some (cl, x) => walk k held (acc ++ [mkEPath SConfigure held [] cl x])
      | None => None
      end
  | SMake r d :: SIfErr b :: k =>
      match run_branch b [] with
      | Some (cl, x) => walk k (held ++ [r]) (acc ++ [mkEPath (SMake r d) held [] cl x])
      | None => None
      end
  | _ => Some (acc, held, l)
  end.

Definition sh_error_paths (sh : listen_shape) : option (list epath) :=
  match walk (lsh_loop sh) [] [] with
  | Some (ps, _, _) => Some ps
  | None => None
  end.

Definition epath_ok (p : epath) : bool :=
  releases (ep_sure p) (ep_maybe p) (ep_closes p) && match ep_exit p with BContinue => true | _ => false end.

(* every error branch before the goroutine closes exactly what the iteration has opened so far and
   goes on to the next Accept; after the last of them the iteration holds [held] *)
Definition sh_error_paths_close (sh : listen_shape) (held : list res) : Prop :=
  exists ps rest, walk (lsh_loop sh) [] [] = Some (ps, held, rest) /\ forallb epath_ok ps = true /\
    match rest with [SGo _ _ _] => True | _ => False end.

(* ---------------- meaning of the detection-error branch ---------------- *)
(* CanParse returned an error ([eof]: it is io.EOF): the closer lists abort was called with, in
   order, and how the branch is left *)
Fixpoint run_det (eof : bool) (s : lstmt) (st : option (list (list res) * bexit)) {struct s}
  : option (list (list res) * bexit) :=
  let run_list := fix go (l : list lstmt) (st : option (list (list res) * bexit)) :=
                    match l with [] => st | x :: r => go r (run_det eof x st) end in
  match st with
  | Some (ab, BFall) =>
      match s with
      | SAbort cl => Some (ab ++ [cl], BFall)
      | SReturn => Some (ab, BReturn)
      | SIfEOF t e => run_list (if eof then t else e) st
      | _ => None
      end
  | _ => st
  end.
Fixpoint run_dets (eof : bool) (l : list lstmt) (st : option (list (list res) * bexit)) :=
  match l with [] => st | x :: r => run_dets eof r (run_det eof x st) end.

(* ---------------- the frame of the loop ---------------- *)
Inductive rd := RdOwn | RdLatest.   (* what a goroutine reads: its iteration's value / the variable's current value *)

Record analysis := mkAn {
  an_l1_first    : bool;          (* h1() is called before h2() *)
  an_rd1         : rd;
  an_rd2         : rd;
  an_det_closers : list res;      (* abort's closers when CanParse fails, io.EOF or not *)
  an_srv_closers : list res;      (* the closers the server is constructed with *)
  an_orca        : res * res      (* the handlers the orchestrator is constructed with *)
}.

(* how the goroutine gets at the variable of role r: through the closure (then the declaration
   decides), or by parameter (a copy made when the go statement runs) *)
Definition read_mode (r : res) (d : scope) (args caps : list res) : option rd :=
  if res_in r caps then match d with InLoop => Some RdOwn | Hoisted => Some RdLatest | ScopeOther _ => None end
  else if res_in r args then Some RdOwn
  else None.

Definition exits_continue (b : list lstmt) : bool :=
  match run_branch b [] with Some (_, BContinue) => true | _ => false end.

(* the two calls that construct the handlers, with their error branches *)
Definition makes (l : list lstmt) : option (bool * scope * scope * list lstmt) :=
  match l with
  | SMake ra da :: SIfErr ea :: SMake rb db :: SIfErr eb :: k =>
      if exits_continue ea && exits_continue eb then
        match ra, rb with
        | RL1, RL2 => Some (true, da, db, k)
        | RL2, RL1 => Some (false, db, da, k)
        | _, _ => None
        end
      else None
  | _ => None
  end.

Definition accept_part (l : list lstmt) : option (list lstmt) :=
  match l with
  | SAccept _ :: SIfErr ea :: k =>
      if exits_continue ea then
        match k with
        | SConfigure :: SIfErr ec :: k' => if exits_continue ec then Some k' else None
        | _ => Some k
        end
      else None
  | _ => None
  end.

Definition uses_proto (p : psrc) (l : list lstmt) : bool :=
  match l with
  | [SSetParser p1 RConn; SSetResponder p2 RConn] => psrc_is p p1 && psrc_is p p2
  | _ => false
  end.
Definition uses_proto_matched (l : list lstmt) : bool :=
  match l with
  | [SSetParser PRange RConn; SSetResponder PRange RConn; SSetMatched] => true
  | _ => false
  end.

(* the goroutine: detection loop, fallback, server construction, go server.Loop() *)
Definition goroutine (body : list lstmt) : option (list res * list res * (res * res)) :=
  match body with
  | [SDetect [SCanParse; SIfErr eb; SIfMatch mb]; SIfUnmatched fb; SServer cl [a1; a2]; SGoLoop] =>
      if uses_proto_matched mb && uses_proto PLast fb then
        match run_dets true eb (Some ([], BFall)), run_dets false eb (Some ([], BFall)) with
        | Some ([c1], BReturn), Some ([c2], BReturn) =>
            if forallb (fun r => res_in r c2) c1 && forallb (fun r => res_in r c1) c2
            then Some (c1, cl, (a1, a2)) else None
        | _, _ => None
        end
      else None
  | _ => None
  end.

Definition sh_analyse (sh : listen_shape) : option analysis :=
  match lsh_setup sh, lsh_after sh with
  | [SListen; SIfErr [SPanic]], [] =>
      match accept_part (lsh_loop sh) with
      | Some k =>
          match makes k with
          | Some (first, d1, d2, [SGo args caps body]) =>
              match read_mode RL1 d1 args caps, read_mode RL2 d2 args caps, goroutine body with
              | Some m1, Some m2, Some (dc, sc, oa) =>
                  if res_in RRemote args then Some (mkAn first m1 m2 dc sc oa) else None
              | _, _, _ => None
              end
          | _ => None
          end
      | None => None
      end
  | _, _ => None
  end.

(* ---------------- the transition function driven by an analysis ---------------- *)
Definition rd_pair (a : analysis) (s : lstate) (r : conn) : hid * hid :=
  (match an_rd1 a with RdOwn => fst (c_made r) | RdLatest => fst (latest s) end,
   match an_rd2 a with RdOwn => snd (c_made r) | RdLatest => snd (latest s) end).

(* the handlers among a list of closers, given the values of l1 and l2 *)
Definition hs_of (cl : list res) (p : hid * hid) : list hid :=
  flat_map (fun x => match x with RL1 => [fst p] | RL2 => [snd p] | _ => [] end) cl.
Definition pick (x : res) (p : hid * hid) : option hid :=
  match x with RL1 => Some (fst p) | RL2 => Some (snd p) | _ => None end.

(* abort(closers): the client connection has to be among them for the connection to count as closed *)
Definition abort_l (s : lstate) (c : cid) (r : conn) (cl : list res) (p : hid * hid) : option (lstate * obs) :=
  if res_in RConn cl then
    Some (set_conn s c (mkConn Closed (c_made r) (c_srv r)) (close_hs (hs_of cl p) (open s)),
          OClosed (newly_closed (hs_of cl p) (open s)))
  else None.

Definition step_an (a : analysis) (s : lstate) (e : event) : option (lstate * obs) :=
  match e with
  | EAccept c =>
      match lookup c (conns s) with
      | Some _ => Some (s, ONone)
      | None =>
          let h1 := if an_l1_first a then next s else next s + 1 in
          let h2 := if an_l1_first a then next s + 1 else next s in
          Some (mkL ((c, mkConn Detecting (h1, h2) None) :: conns s) (open s ++ [next s; next s + 1]) (next s + 2) (h1, h2),
                OMade h1 h2)
      end
  | EFirstByte c =>
      match lookup c (conns s) with
      | Some r =>
          match c_st r with
          | Detecting => Some (set_conn s c (mkConn Serving (c_made r) (Some (rd_pair a s r))) (open s), ONone)
          | _ => Some (s, ONone)
          end
      | None => Some (s, ONone)
      end
  | EEOF0 c =>
      match lookup c (conns s) with
      | Some r =>
          match c_st r with
          | Detecting => abort_l s c r (an_det_closers a) (rd_pair a s r)
          | _ => Some (s, ONone)
          end
      | None => Some (s, ONone)
      end
  | ERequest c =>
      match lookup c (conns s) with
      | Some r =>
          match c_st r, c_srv r with
          | Serving, Some p =>
              match pick (fst (an_orca a)) p, pick (snd (an_orca a)) p with
              | Some h1, Some h2 => Some (s, OReq h1 h2)
              | _, _ => None
              end
          | _, _ => Some (s, ONone)
          end
      | None => Some (s, ONone)
      end
  | EClose c =>
      match lookup c (conns s) with
      | Some r =>
          match c_st r, c_srv r with
          | Serving, Some p => abort_l s c r (an_srv_closers a) p
          | _, _ => Some (s, ONone)
          end
      | None => Some (s, ONone)
      end
  end.

(* the accept loop's transition function as the shape prescribes it *)
Definition sh_step (sh : listen_shape) (s : lstate) (e : event) : option (lstate * obs) :=
  match sh_analyse sh with
  | Some a => step_an a s e
  | None => None
  end.

(* what the detection goroutine does when CanParse fails: the closers of the one abort, and it returns *)
Definition sh_detect_err (sh : listen_shape) (eof : bool) : option (list res) :=
  match accept_part (lsh_loop sh) with
  | Some k =>
      match makes k with
      | Some (_, _, _, [SGo _ _ (SDetect [SCanParse; SIfErr eb; _] :: _)]) =>
          match run_dets eof eb (Some ([], BFall)) with
          | Some ([c], BReturn) => Some c
          | _ => None
          end
      | _ => None
      end
  | None => None
  end.
