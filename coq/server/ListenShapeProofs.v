(* ListenShapeProofs.v — server/Listen.v's transition system IS the accept loop that
   [listen_model] (server/ListenShape.v) prescribes: every lemma below is proved from the
   definitions of Listen.step / step_shared / step_gen / abort, none restates them. Together with
   gen/ListenLink.v (listen_src = listen_model) this ties Listen.v to the source of
   /repo/server/listen.go.

   - model_step / hoisted_step / scope_selects: the shape-driven transition function over the model
     shape is Listen.step; with l1, l2 assigned to variables declared before the loop it is
     Listen.step_shared; in general a per-iteration declaration selects [c_made] and a hoisted one
     [latest], variable by variable;
   - model_error_paths: every error branch before the go statement closes exactly what the
     iteration holds at that point and continues;
   - model_detect_err / model_eof_aborts: a CanParse error, io.EOF or not, aborts with the client
     connection and both handlers, which is Listen.v's EEOF0 transition.

   What is NOT connected here, because Listen.v does not represent it: the failed iterations
   themselves (Accept / Configure / h1 / h2 returning an error are not events of Listen.v: its
   EAccept stands for an iteration in which all four succeeded; the error branches are covered by
   [sh_error_paths] only); which protocol is chosen; the client connection as a resource (Listen.v
   keeps a status per connection, not a handle: the shape-driven function requires the connection
   to be among the closers for the status to become Closed). *)
From Coq Require Import String.
From Rend Require Import base.Bytes server.Listen server.ListenProofs server.ListenShape.
Open Scope N_scope.

Definition all_closers : list res := [RConn; RL1; RL2].

Definition scope_rd (d : scope) : option rd :=
  match d with InLoop => Some RdOwn | Hoisted => Some RdLatest | ScopeOther _ => None end.

Definition an_with (m1 m2 : rd) : analysis := mkAn true m1 m2 all_closers all_closers (RL1, RL2).

(* ---------------- the frame ---------------- *)
Lemma with_analyse : forall d1 d2,
  sh_analyse (listen_with d1 d2) =
  match scope_rd d1, scope_rd d2 with
  | Some m1, Some m2 => Some (an_with m1 m2)
  | _, _ => None
  end.
Proof. intros [| |w1] [| |w2]; reflexivity. Qed.

Lemma model_analyse : sh_analyse listen_model = Some (an_with RdOwn RdOwn).
Proof. reflexivity. Qed.

Lemma hoisted_analyse : sh_analyse listen_hoisted = Some (an_with RdLatest RdLatest).
Proof. reflexivity. Qed.

(* ---------------- the transition function ---------------- *)
Lemma step_gen_ext : forall f g, (forall s r, f s r = g s r) -> forall s e, step_gen f s e = step_gen g s e.
Proof.
  intros f g H s e. destruct e as [c|c|c|c|c]; cbn [step_gen]; try reflexivity;
    destruct (lookup c (conns s)) as [r|]; try reflexivity; rewrite H; reflexivity.
Qed.

(* the shape-driven step with the expected closers and orchestrator arguments is step_gen over
   what the analysis says a goroutine reads *)
Lemma step_an_gen : forall m1 m2 s e,
  step_an (an_with m1 m2) s e = Some (step_gen (rd_pair (an_with m1 m2)) s e).
Proof.
  intros m1 m2 s e. destruct e as [c|c|c|c|c]; cbn [step_an step_gen an_with an_l1_first].
  - destruct (lookup c (conns s)); reflexivity.
  - destruct (lookup c (conns s)) as [r|]; [|reflexivity]. destruct (c_st r); reflexivity.
  - destruct (lookup c (conns s)) as [r|]; [|reflexivity]. destruct (c_st r); reflexivity.
  - destruct (lookup c (conns s)) as [r|]; [|reflexivity].
    destruct (c_st r); try reflexivity. destruct (c_srv r) as [[h1 h2]|]; reflexivity.
  - destruct (lookup c (conns s)) as [r|]; [|reflexivity].
    destruct (c_st r); try reflexivity. destruct (c_srv r) as [p|]; reflexivity.
Qed.

Definition sel (m : rd) (own cur : hid) : hid := match m with RdOwn => own | RdLatest => cur end.

(* per-iteration declaration -> the iteration's own value (c_made); hoisted -> the variable's
   current value (latest); one variable at a time *)
Theorem scope_selects : forall d1 d2 m1 m2, scope_rd d1 = Some m1 -> scope_rd d2 = Some m2 ->
  forall s e,
  sh_step (listen_with d1 d2) s e =
  Some (step_gen (fun s r => (sel m1 (fst (c_made r)) (fst (latest s)), sel m2 (snd (c_made r)) (snd (latest s)))) s e).
Proof.
  intros d1 d2 m1 m2 H1 H2 s e. unfold sh_step. rewrite with_analyse, H1, H2, step_an_gen.
  reflexivity.
Qed.

Theorem model_step : forall s e, sh_step listen_model s e = Some (step s e).
Proof.
  intros s e. unfold listen_model. rewrite (scope_selects InLoop InLoop RdOwn RdOwn eq_refl eq_refl).
  f_equal. unfold step. apply step_gen_ext. intros s0 r. cbn [sel]. symmetry. apply surjective_pairing.
Qed.

Theorem hoisted_step : forall s e, sh_step listen_hoisted s e = Some (step_shared s e).
Proof.
  intros s e. unfold listen_hoisted. rewrite (scope_selects Hoisted Hoisted RdLatest RdLatest eq_refl eq_refl).
  f_equal. unfold step_shared. apply step_gen_ext. intros s0 r. cbn [sel]. symmetry. apply surjective_pairing.
Qed.

(* a variable whose declaration is not recognised gives the loop no meaning *)
Lemma scope_other_undefined : forall w d s e,
  sh_step (listen_with (ScopeOther w) d) s e = None /\ sh_step (listen_with d (ScopeOther w)) s e = None.
Proof. intros w d s e. unfold sh_step. rewrite !with_analyse. destruct d; split; reflexivity. Qed.

(* the properties of ListenProofs.v for any shape whose step is Listen.step *)
Lemma shape_step_props : forall sh, (forall s e, sh_step sh s e = Some (step s e)) ->
  exists stp, (forall s e, sh_step sh s e = Some (stp s e)) /\
    own_handlers stp /\ pairs_disjoint stp /\ close_releases_own stp /\ all_closed_none_open stp.
Proof.
  intros sh H. exists step. split; [exact H|].
  split; [apply own_handlers_step|]. split; [apply pairs_disjoint_step|].
  split; [apply close_releases_own_step|apply all_closed_none_open_step].
Qed.

(* ... and the refutations for any shape whose step is Listen.step_shared *)
Lemma shape_shared_props : forall sh, (forall s e, sh_step sh s e = Some (step_shared s e)) ->
  forall stp, (forall s e, sh_step sh s e = Some (stp s e)) -> ~ own_handlers stp /\ ~ close_releases_own stp.
Proof.
  intros sh H stp Hs.
  assert (E : forall s e, stp s e = step_shared s e).
  { intros s e. specialize (H s e). rewrite Hs in H. now inversion H. }
  assert (Et : forall evs, trace_gen stp evs = trace_gen step_shared evs /\ st_gen stp evs = st_gen step_shared evs).
  { induction evs as [|e evs IH] using rev_ind; [split; reflexivity|]. destruct IH as [IH1 IH2].
    rewrite !trace_gen_snoc, !st_gen_snoc, IH1, IH2, E. split; reflexivity. }
  split.
  - intros O. apply own_handlers_shared_false. intros evs W pre c post Hev.
    destruct (O evs W pre c post Hev) as (h1 & h2 & A & B). exists h1, h2.
    destruct (Et pre) as [T S]. rewrite <- T, <- S, <- E. split; assumption.
  - intros O. apply close_releases_own_shared_false. intros evs W pre e post c Hev Hc.
    destruct (O evs W pre e post c Hev Hc) as (h1 & h2 & A & B & C & D & F). exists h1, h2.
    destruct (Et pre) as [T S]. destruct (Et (pre ++ [e])) as [_ S'].
    rewrite <- T, <- S, <- S', <- E.
    split; [exact A|]. split; [|split; [exact C|split; [exact D|exact F]]].
    intros p1 p2 Hp Hin. destruct (Et p1) as [T1 S1]. rewrite <- S1. apply (B p1 p2 Hp). now rewrite T1.
Qed.

(* ---------------- the error branches before the goroutine ---------------- *)
(* what [releases] says *)
Lemma count_one_in : forall r l, count r l = 1%nat -> exists x, In x l /\ res_eqb r x = true.
Proof.
  intros r l H. unfold count in H. destruct (filter (res_eqb r) l) as [|x k] eqn:E; [discriminate|].
  exists x. apply filter_In. rewrite E. now left.
Qed.

Lemma releases_spec : forall sure maybe closes, releases sure maybe closes = true ->
  (forall r, In r (sure ++ maybe) -> count r (map fst closes) = 1%nat) /\
  (forall c, In c closes -> res_in (fst c) (sure ++ maybe) = true) /\
  (forall c, In c closes -> res_in (fst c) maybe = true -> snd c = true).
Proof.
  intros sure maybe closes H. unfold releases in H.
  apply andb_true_iff in H. destruct H as [H H3]. apply andb_true_iff in H. destruct H as [H1 H2].
  rewrite forallb_forall in H1, H2, H3. repeat split.
  - intros r Hr. apply Nat.eqb_eq. now apply H1.
  - exact H2.
  - intros c Hc Hm. specialize (H3 c Hc). now rewrite Hm in H3.
Qed.

Definition model_epaths (d1 d2 : scope) : list epath := [
  mkEPath (SAccept InLoop) [] [RRemote] [(RRemote, true)] BContinue;
  mkEPath SConfigure [RRemote] [] [(RRemote, false)] BContinue;
  mkEPath (SMake RL1 d1) [RRemote] [] [(RRemote, false)] BContinue;
  mkEPath (SMake RL2 d2) [RRemote; RL1] [] [(RL1, false); (RRemote, false)] BContinue].

Lemma with_error_paths_eq : forall d1 d2, sh_error_paths (listen_with d1 d2) = Some (model_epaths d1 d2).
Proof. reflexivity. Qed.

Lemma with_error_paths : forall d1 d2, sh_error_paths_close (listen_with d1 d2) [RRemote; RL1; RL2].
Proof. intros d1 d2. eexists. eexists. split; [reflexivity|]. split; [reflexivity|exact I]. Qed.

Lemma model_error_paths : sh_error_paths_close listen_model [RRemote; RL1; RL2].
Proof. apply with_error_paths. Qed.

(* ---------------- the detection goroutine on a CanParse error ---------------- *)
Lemma with_detect_err : forall d1 d2 eof, sh_detect_err (listen_with d1 d2) eof = Some all_closers.
Proof. intros d1 d2 [|]; reflexivity. Qed.

Lemma model_detect_err : forall eof, sh_detect_err listen_model eof = Some all_closers.
Proof. apply with_detect_err. Qed.

(* ... which is Listen.v's EEOF0 transition: abort with the handlers of the connection's own iteration *)
Lemma model_eof_aborts : forall s c r, lookup c (conns s) = Some r -> c_st r = Detecting ->
  sh_step listen_model s (EEOF0 c) = Some (abort s c r (c_made r)).
Proof.
  intros s c r L D. rewrite model_step. unfold step, step_gen. now rewrite L, D.
Qed.

(* for all well-formed event sequences: EOF before the first byte closes the connection's own pair *)
Lemma model_eof_closes_own : forall evs, wf evs = true ->
  forall pre post c, evs = pre ++ EEOF0 c :: post ->
  exists h1 h2, In (EAccept c, OMade h1 h2) (trace pre) /\
    sh_step listen_model (st pre) (EEOF0 c) = Some (st (pre ++ [EEOF0 c]), OClosed [h1; h2]) /\
    In h1 (open (st pre)) /\ In h2 (open (st pre)) /\
    ~ In h1 (open (st (pre ++ [EEOF0 c]))) /\ ~ In h2 (open (st (pre ++ [EEOF0 c]))).
Proof.
  intros evs W pre post c Hev.
  destruct (close_releases_own_step evs W pre (EEOF0 c) post c Hev (or_intror eq_refl))
    as (h1 & h2 & A & B & C & D & _).
  exists h1, h2. split; [exact A|]. split.
  - rewrite model_step. f_equal. unfold st. rewrite st_gen_snoc. rewrite <- C. apply surjective_pairing.
  - destruct (B pre [] (eq_sym (app_nil_r pre)) A) as [O1 O2].
    split; [exact O1|]. split; [exact O2|].
    split; intros X; apply D in X; destruct X as (_ & N1 & N2); congruence.
Qed.

(* ---------------- capture by parameter ---------------- *)
(* the same loop with l1, l2 handed to the goroutine as arguments of the go statement instead of
   through the closure: the goroutine works on copies made in its own iteration, so the loop is
   Listen.step wherever the variables are declared *)
Definition listen_by_param (d1 d2 : scope) : listen_shape :=
  mkListen (lsh_setup listen_model)
    (match lsh_loop (listen_with d1 d2) with
     | [a; b; c; d; e; f; g; h; SGo _ _ body] => [a; b; c; d; e; f; g; h; SGo [RRemote; RL1; RL2] [] body]
     | l => l
     end) [] (lsh_configure listen_model).

Lemma by_param_step : forall d1 d2 s e, sh_step (listen_by_param d1 d2) s e = Some (step s e).
Proof.
  intros d1 d2 s e. unfold sh_step.
  assert (A : sh_analyse (listen_by_param d1 d2) = Some (an_with RdOwn RdOwn)) by reflexivity.
  rewrite A, step_an_gen. f_equal. unfold step. apply step_gen_ext. intros s0 r. symmetry. apply surjective_pairing.
Qed.
