(* WriterSem.v — HAND-WRITTEN, TRUSTED: the meaning of the operators that harness `resptrans` emits
   (gen/Resp_gen.v) when it translates protocol/binprot/respond.go, protocol/textprot/respond.go and
   writeResponseHeader of protocol/binprot/headers.go statement by statement. Definitions only.

   A responder method is a program in the writer monad [W]: the state holds every byte handed to the
   connection's bufio.Writer so far (in order), whether bytes are waiting for a Flush, and whether the
   program is still inside the modelled fragment.

   Reading of Go fixed here (the trusted part):
   * there is ONE writer (the connection); Write/WriteString/Flush/Fprintf on it never fail (error nil);
     Write(b) returns len b;
   * `error` values are [option N]: nil = None, common.ErrX = Some EX (numbering of gen/Consts_gen.v);
     comparing errors compares the numbers; err.Error() is the generated errText_tab (proto/Resp.v err_text);
     errorToCode / reqTypeToOpcode are the compiled tables (proto/Resp.v error_to_code, req_type_to_opcode);
   * integers are naturals; conversions and int arithmetic wrap as in gen/GoSem.v;
   * sync.Pool.Get returns an object with ARBITRARY contents (oracles [w_oh], [w_ob], a fresh one for
     every Get); a []byte pool whose New makes n bytes returns exactly n bytes; Put is dropped;
   * buf[i] = v, binary.BigEndian.PutUintNN(buf[lo:hi], v) panic out of range, otherwise update in place;
   * fmt.Fprintf knows %s (byte string), %d (natural number), %% and literal bytes; anything else
     (other verbs, missing or extra operands) leaves the modelled fragment ([WUnmodelled]);
   * panic(...) stops the method: the status becomes [WPanicked] and every later operation is a no-op. *)
From Coq Require Import String.
From Rend Require Import base.Bytes gen.Consts_gen gen.GoSem spec.MapSpec orca.Types proto.Resp.
Open Scope N_scope.

Inductive wstatus := WRunning | WPanicked | WUnmodelled (what : string).

(* a Go struct with integer fields, by field name *)
Definition gstruct := string -> N.
Definition fget (s : gstruct) (f : string) : N := s f.
Definition fset (s : gstruct) (f : string) (v : N) : gstruct :=
  fun g => if String.eqb g f then v else s g.

Record wst := mkW {
  w_out : bytes;                 (* bytes handed to the writer, oldest first *)
  w_pend : bool;                 (* bytes written since the last Flush *)
  w_status : wstatus;
  w_oh : N -> gstruct;           (* what the n-th pool Get returns (struct pools) *)
  w_ob : N -> nat -> N;          (* what the n-th pool Get returns (byte i of a []byte pool) *)
  w_tick : N                     (* number of pool Gets so far *)
}.

Definition W (A : Type) : Type := wst -> A * wst.
Definition ret {A} (a : A) : W A := fun s => (a, s).
Definition bind {A B} (m : W A) (k : A -> W B) : W B := fun s => let (a, s') := m s in k a s'.

Definition gerr := option N.
Definition err_nonnil (e : gerr) : bool := match e with Some _ => true | None => false end.
Definition err_is (e : gerr) (c : N) : bool := match e with Some x => x =? c | None => false end.
(* binprot.errorToCode(err): nil takes the default of the switch *)
Definition err_code (e : gerr) : N := match e with Some x => error_to_code x | None => statusInvalid end.

Definition live (s : wst) : bool := match w_status s with WRunning => true | _ => false end.
Definition set_status (s : wst) (st : wstatus) : wst :=
  mkW (w_out s) (w_pend s) st (w_oh s) (w_ob s) (w_tick s).
Definition guarded {A} (d : A) (f : wst -> A * wst) : W A := fun s => if live s then f s else (d, s).

Definition is_nil {A} (l : list A) : bool := match l with [] => true | _ => false end.

(* w.Write(b) / w.WriteString(s) *)
Definition w_write (b : bytes) : W (N * gerr) :=
  guarded (0, None) (fun s =>
    ((len b, None), mkW (w_out s ++ b) (negb (is_nil b) || w_pend s) (w_status s) (w_oh s) (w_ob s) (w_tick s))).
Definition w_write_string := w_write.
(* w.Flush() *)
Definition w_flush : W gerr :=
  guarded None (fun s => (None, mkW (w_out s) false (w_status s) (w_oh s) (w_ob s) (w_tick s))).
(* panic(...) *)
Definition w_panic {A} (d : A) : W A := guarded d (fun s => (d, set_status s WPanicked)).
(* a statement outside the translated fragment *)
Definition w_untrans {A} (what : string) (d : A) : W A := guarded d (fun s => (d, set_status s (WUnmodelled what))).

(* big-endian bytes of a w-byte unsigned value *)
Definition be_bytes (w : N) (v : N) : bytes :=
  if w =? 1 then [v mod 256] else if w =? 2 then u16be v else if w =? 4 then u32be v else u64be v.
(* binary.Write(w, binary.BigEndian, v) for v of a fixed-size unsigned integer type of [width] bytes *)
Definition w_binary_write (width v : N) : W gerr :=
  bind (w_write (be_bytes width v)) (fun r => ret (snd r)).

(* ---- fmt.Fprintf ---- *)
Inductive farg := FBytes (b : bytes) | FNum (n : N).
Fixpoint go_fmt (f : bytes) (args : list farg) : option bytes :=
  match f with
  | [] => match args with [] => Some [] | _ => None end
  | c :: r =>
    if c =? 37 then
      match r with
      | [] => None
      | v :: r' =>
        if v =? 37 then option_map (cons 37) (go_fmt r' args)
        else if v =? 115 then
          match args with FBytes b :: a' => option_map (app b) (go_fmt r' a') | _ => None end
        else if v =? 100 then
          match args with FNum n :: a' => option_map (app (dec n)) (go_fmt r' a') | _ => None end
        else None
      end
    else option_map (cons c) (go_fmt r args)
  end.
Definition w_fprintf (f : bytes) (args : list farg) : W (N * gerr) :=
  match go_fmt f args with
  | Some b => w_write b
  | None => w_untrans "fmt.Fprintf: verb or operands outside %s %d %%" (0, None)
  end.

(* ---- byte buffers ---- *)
Fixpoint upd (l : bytes) (i : nat) (v : N) : bytes :=
  match l with
  | [] => []
  | x :: r => match i with O => v :: r | S j => x :: upd r j v end
  end.
Fixpoint upds (l : bytes) (i : nat) (vs : bytes) : bytes :=
  match vs with [] => l | v :: r => upds (upd l i v) (S i) r end.
(* buf[i] = v *)
Definition buf_set (buf : bytes) (i v : N) : W bytes :=
  guarded buf (fun s => if i <? len buf then (upd buf (N.to_nat i) v, s) else (buf, set_status s WPanicked)).
(* binary.BigEndian.PutUint<8w>(buf[lo:hi], v); a bare `buf` is buf[0:len buf] *)
Definition buf_put (w : N) (buf : bytes) (lo hi v : N) : W bytes :=
  guarded buf (fun s =>
    if (lo <=? hi) && (hi <=? len buf) && (w <=? hi - lo)
    then (upds buf (N.to_nat lo) (be_bytes w v), s) else (buf, set_status s WPanicked)).
(* for i := lo; i < hi; i++ { buf[i] = v } *)
Definition buf_fill (buf : bytes) (lo hi v : N) : W bytes :=
  guarded buf (fun s =>
    if hi <=? lo then (buf, s)
    else if hi <=? len buf then (upds buf (N.to_nat lo) (repeat v (N.to_nat (hi - lo))), s)
    else (buf, set_status s WPanicked)).

(* ---- sync.Pool ---- *)
Definition tick (s : wst) : wst := mkW (w_out s) (w_pend s) (w_status s) (w_oh s) (w_ob s) (w_tick s + 1).
(* p.Get().([]byte) for a pool whose New is make([]byte, n, n) *)
Definition pool_get_buf (n : N) : W bytes :=
  guarded [] (fun s => (map (w_ob s (w_tick s)) (seq 0 (N.to_nat n)), tick s)).
(* p.Get().( *T ) for a pool of structs *)
Definition pool_get_struct : W gstruct :=
  guarded (fun _ => 0) (fun s => (w_oh s (w_tick s), tick s)).

(* err.Error() *)
Definition w_err_Error (e : gerr) : W bytes :=
  match e with Some x => ret (err_text x) | None => w_panic [] end.

(* ---- running a method ---- *)
Inductive wres := WBytes (b : bytes) | WPanic | WOutside (what : string).
Definition w_init (oh : N -> gstruct) (ob : N -> nat -> N) : wst := mkW [] false WRunning oh ob 0.
Definition w_result (s : wst) : wres :=
  match w_status s with
  | WRunning => WBytes (w_out s)
  | WPanicked => WPanic
  | WUnmodelled what => WOutside what
  end.
Definition w_run {A} (m : W A) (oh : N -> gstruct) (ob : N -> nat -> N) : wres :=
  w_result (snd (m (w_init oh ob))).
(* nothing is left in the buffer after the method *)
Definition w_run_flushed {A} (m : W A) (oh : N -> gstruct) (ob : N -> nat -> N) : bool :=
  negb (w_pend (snd (m (w_init oh ob)))).
