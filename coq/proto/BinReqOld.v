(* BinReqOld.v — the binary parser with the length arithmetic as it stood BEFORE
   fixes/C11-binprot-length-underflow.patch: `TotalBodyLength - ExtraLength - KeyLength`
   computed in uint32 with no prior comparison. The C11 statement about inconsistent frames is
   false for it; the witness below is replayed against the implementation by `./check C11`. *)
From Coq Require Import String.
From Rend Require Import base.Bytes gen.Consts_gen spec.MapSpec orca.Types proto.Resp
  proto.ReqCommon proto.BinReq.
Open Scope N_scope.

Definition parse_bin_old : bytes -> pout := parse_bin_gen false.

(* set, key length 1, extras 8, total body 0, then 8 bytes of extras and the key *)
Definition underflow_witness : bytes :=
  enc_hdr opSet 1 8 0 0 ++ hx "0000000000000000" ++ asc "k".
(* append, key length 2, total body 1 *)
Definition underflow_witness_cat : bytes := enc_hdr opAppend 2 0 1 0 ++ asc "kk".

(* the frame declares total < extras + key, yet the parser allocates (and then waits for)
   2^32 - 9 bytes *)
Theorem bin_inconsistent_refuted_old :
  exists s h s1,
    read_hdr s = Some (h, s1) /\ h_op h = opSet /\ h_total h < h_elen h + h_klen h /\
    In (AData 0 8 1 4294967287) (snd (parse_bin_old s)).
Proof.
  exists underflow_witness. eexists. eexists.
  split; [vm_compute; reflexivity|]. split; [reflexivity|]. split; [vm_compute; reflexivity|].
  vm_compute. tauto.
Qed.

Theorem bin_inconsistent_refuted_old_cat :
  exists s h s1,
    read_hdr s = Some (h, s1) /\ h_op h = opAppend /\ h_total h < h_klen h /\
    In (AData 1 0 2 4294967295) (snd (parse_bin_old s)).
Proof.
  exists underflow_witness_cat. eexists. eexists.
  split; [vm_compute; reflexivity|]. split; [reflexivity|]. split; [vm_compute; reflexivity|].
  vm_compute. tauto.
Qed.

(* the fixed parser refuses the same inputs right after the header *)
Example witness_fixed : parse_bin underflow_witness = (PClose, [AHdr]) /\
                        parse_bin underflow_witness_cat = (PClose, [AHdr]).
Proof. split; vm_compute; reflexivity. Qed.

(* where the guard does not fire the two parsers are the same function *)
Lemma bin_set_old_new m q h s :
  h_elen h + h_klen h <= h_total h -> bin_set false m q h s = bin_set true m q h s.
Proof.
  intros H. unfold bin_set. cbn [andb].
  destruct (h_total h <? h_elen h + h_klen h) eqn:G; [lia | reflexivity].
Qed.
Lemma bin_cat_old_new fr q h s :
  h_klen h <= h_total h -> bin_cat false fr q h s = bin_cat true fr q h s.
Proof.
  intros H. unfold bin_cat. cbn [andb].
  destruct (h_total h <? h_klen h) eqn:G; [lia | reflexivity].
Qed.
