(* BinPrefix.v — the binary parser decides from the bytes it consumes and from nothing else:
   a request decoded from a stream is decoded, identically, from every extension of that
   stream, the extension left unread behind it ([bin_extension]); hence no proper prefix of a
   well-formed request decodes to any request at all ([bin_prefix_not_decoded]): a request
   whose bytes have not all arrived is not a request, whichever field the stream ends in.
   Proofs about proto/BinReq.v. *)
From Rend Require Import base.Bytes gen.Consts_gen spec.MapSpec orca.Types proto.Resp proto.ReqCommon
  proto.ReqCommonProofs proto.BinReq proto.BinReqProofs.
Open Scope N_scope.

Lemma read_n_ext s : forall n a r b, read_n s n = Some (a, r) -> read_n (s ++ b) n = Some (a, r ++ b).
Proof.
  induction s as [|x s IH]; intros n a r b H; cbn [read_n app] in *.
  - destruct (n =? 0) eqn:E; [|discriminate]. inversion H; subst. cbn [app].
    destruct b; cbn [read_n]; rewrite ?E; reflexivity.
  - destruct (n =? 0) eqn:E.
    + inversion H; subst. reflexivity.
    + destruct (read_n s (N.pred n)) as [[a' r']|] eqn:R; [|discriminate].
      inversion H; subst. rewrite (IH _ _ _ b R). reflexivity.
Qed.

Lemma read_hdr_ext s h s1 b : read_hdr s = Some (h, s1) -> read_hdr (s ++ b) = Some (h, s1 ++ b).
Proof.
  unfold read_hdr. intros H.
  destruct (read_n s reqHeaderLen) as [[x y]|] eqn:R; [|discriminate].
  rewrite (read_n_ext _ _ _ _ b R).
  destruct (nth 0 x 0 =? magicRequest); [|discriminate]. inversion H; subst. reflexivity.
Qed.

(* [o'] (the parse of the extended stream) repeats every successful decode of [o] *)
Definition ext_of (o o' : pout) (b : bytes) : Prop :=
  forall r rest, fst o = PDone r rest -> fst o' = PDone r (rest ++ b).

Ltac rn_ext b :=
  repeat match goal with
         | |- context [match read_n ?s ?n with _ => _ end] =>
             match s with
             | context [b] => fail 1
             | _ => let R := fresh "R" in
                    destruct (read_n s n) as [[? ?]|] eqn:R;
                    [rewrite (read_n_ext _ _ _ _ b R) | cbn [fst]; intros; discriminate]
             end
         end.

Lemma bin_set_ext c m q h s b : ext_of (bin_set c m q h s) (bin_set c m q h (s ++ b)) b.
Proof.
  unfold bin_set, ext_of. destruct (c && (h_total h <? h_elen h + h_klen h)); [cbn [fst]; intros; discriminate|].
  rn_ext b. cbn [fst]. intros r rest H. inversion H; subst. reflexivity.
Qed.

Lemma bin_cat_ext c fr q h s b : ext_of (bin_cat c fr q h s) (bin_cat c fr q h (s ++ b)) b.
Proof.
  unfold bin_cat, ext_of. destruct (c && (h_total h <? h_klen h)); [cbn [fst]; intros; discriminate|].
  rn_ext b. cbn [fst]. intros r rest H. inversion H; subst. reflexivity.
Qed.

Lemma bin_key_ext mk h s b : ext_of (bin_key mk h s) (bin_key mk h (s ++ b)) b.
Proof.
  unfold bin_key, ext_of. rn_ext b. cbn [fst]. intros r rest H. inversion H; subst. reflexivity.
Qed.

Lemma bin_exp_key_ext mk h s b : ext_of (bin_exp_key mk h s) (bin_exp_key mk h (s ++ b)) b.
Proof.
  unfold bin_exp_key, ext_of. rn_ext b. cbn [fst]. intros r rest H. inversion H; subst. reflexivity.
Qed.

(* the batch reader: more fuel and a longer stream change nothing about a completed batch *)
Lemma bin_batch_ext mk qop fop b : forall f f' h s acc, (f <= f')%nat ->
  ext_of (bin_batch mk qop fop f h s acc) (bin_batch mk qop fop f' h (s ++ b) acc) b.
Proof.
  induction f as [|f IH]; intros f' h s acc Hf; [unfold ext_of; cbn [bin_batch fst]; intros; discriminate|].
  destruct f' as [|f']; [lia|]. cbn [bin_batch]. destruct (h_op h =? qop).
  - destruct (read_n s (h_klen h)) as [[k s1]|] eqn:R; [|unfold ext_of; cbn [fst]; intros; discriminate].
    rewrite (read_n_ext _ _ _ _ b R).
    destruct (read_hdr s1) as [[h' s2]|] eqn:H; [|unfold ext_of; cbn [fst]; intros; discriminate].
    rewrite (read_hdr_ext _ _ _ b H).
    specialize (IH f' h' s2 (mkGI k (h_opaque h) true :: acc) ltac:(lia)).
    unfold ext_of, pre in *. cbn [fst] in *. exact IH.
  - destruct (h_op h =? fop).
    + unfold ext_of. rn_ext b. cbn [fst]. intros r rest H. inversion H; subst. reflexivity.
    + destruct (h_op h =? opNoop); unfold ext_of; cbn [fst]; intros r rest H; inversion H; subst; reflexivity.
Qed.

Lemma bin_dispatch_ext c h s b : ext_of (bin_dispatch c h s) (bin_dispatch c h (s ++ b)) b.
Proof.
  unfold bin_dispatch.
  repeat match goal with
         | |- ext_of (if ?x then _ else _) _ _ => destruct x
         end;
    first [ apply bin_set_ext | apply bin_cat_ext | apply bin_key_ext | apply bin_exp_key_ext
          | (apply bin_batch_ext; rewrite app_length; lia)
          | (unfold ext_of; cbn [fst]; intros r rest H; first [discriminate | inversion H; subst; reflexivity]) ].
Qed.

Theorem bin_extension s b r rest :
  fst (parse_bin s) = PDone r rest -> fst (parse_bin (s ++ b)) = PDone r (rest ++ b).
Proof.
  unfold parse_bin, parse_bin_gen.
  destruct (read_hdr s) as [[h s1]|] eqn:H; [|cbn [fst]; intros; discriminate].
  rewrite (read_hdr_ext _ _ _ b H). unfold pre. cbn [fst]. apply bin_dispatch_ext.
Qed.

Theorem bin_prefix_not_decoded r a b :
  wf_bin r = true -> enc_bin r = a ++ b -> b <> [] ->
  forall r' rest, fst (parse_bin a) <> PDone r' rest.
Proof.
  intros Hwf He Hb r' rest H.
  apply bin_extension with (b := b) in H. rewrite <- He in H.
  pose proof (bin_roundtrip r [] Hwf) as RT. rewrite app_nil_r in RT. rewrite RT in H.
  inversion H as [[Hr Hrest]]. destruct rest; destruct b; cbn in Hrest; try discriminate. apply Hb; reflexivity.
Qed.

(* the binary parser has no "client error, carry on" outcome: it decodes or it closes *)
Definition no_cerr (o : pout) : Prop := forall e rest, fst o <> PClientErr e rest.

Ltac rn_any :=
  repeat match goal with
         | |- context [match read_n ?s ?n with _ => _ end] => destruct (read_n s n) as [[? ?]|]
         end.

Lemma bin_batch_no_cerr mk qop fop : forall f h s acc, no_cerr (bin_batch mk qop fop f h s acc).
Proof.
  induction f as [|f IH]; intros h s acc; [unfold no_cerr; cbn [bin_batch fst]; intros; discriminate|].
  cbn [bin_batch]. destruct (h_op h =? qop).
  - destruct (read_n s (h_klen h)) as [[k s1]|]; [|unfold no_cerr; cbn [fst]; intros; discriminate].
    destruct (read_hdr s1) as [[h' s2]|]; [|unfold no_cerr; cbn [fst]; intros; discriminate].
    unfold no_cerr, pre in *. cbn [fst]. apply IH.
  - destruct (h_op h =? fop); [|destruct (h_op h =? opNoop)]; unfold no_cerr; rn_any; cbn [fst]; intros; discriminate.
Qed.

Lemma bin_dispatch_no_cerr c h s : no_cerr (bin_dispatch c h s).
Proof.
  unfold bin_dispatch.
  repeat match goal with
         | |- no_cerr (if ?x then _ else _) => destruct x
         end;
    first [ apply bin_batch_no_cerr
          | (unfold no_cerr, bin_set, bin_cat, bin_key, bin_exp_key;
             repeat match goal with |- context [if ?x then _ else _] => destruct x end;
             rn_any; cbn [fst]; intros; discriminate) ].
Qed.

Theorem bin_no_client_error s : no_cerr (parse_bin s).
Proof.
  unfold parse_bin, parse_bin_gen. destruct (read_hdr s) as [[h s1]|]; [|unfold no_cerr; cbn [fst]; intros; discriminate].
  unfold no_cerr, pre. cbn [fst]. apply bin_dispatch_no_cerr.
Qed.

(* what a truncated request does decode to: nothing - the connection is closed (io error) *)
Corollary bin_prefix_closes r a b :
  wf_bin r = true -> enc_bin r = a ++ b -> b <> [] -> fst (parse_bin a) = PClose.
Proof.
  intros Hwf He Hb. pose proof (bin_prefix_not_decoded r a b Hwf He Hb) as Hd.
  pose proof (bin_no_client_error a) as Hne.
  unfold no_cerr in Hne.
  destruct (fst (parse_bin a)) as [r' rest|e rest|]; [exfalso; eapply Hd; reflexivity | exfalso; eapply Hne; reflexivity | reflexivity].
Qed.
