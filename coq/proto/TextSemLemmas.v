(* TextSemLemmas.v — the library semantics of proto/TextSem.v against the primitives of the
   hand-written model (proto/TextReq.v, proto/ReqCommon.v, base/Bytes.v), and the small facts
   about slices the link of the translated text parser (gen/TextParserLink.v) needs. *)
From Coq Require Import String.
From Rend Require Import base.Bytes base.BytesProofs gen.Consts_gen gen.GoSem gen.GoSemLemmas metrics.LzcntProofs
  spec.MapSpec orca.Types orca.OrcaSem proto.Resp proto.ReqCommon proto.TextReq proto.TextReqProofs proto.TextSem.
Open Scope N_scope.

(* r.ReadString('\n') is the model's read_line *)
Lemma read_until_line s : read_until 10 s = read_line s.
Proof.
  induction s as [|b r IH]; [reflexivity|].
  cbn [read_until read_line]. rewrite IH. reflexivity.
Qed.

(* strings.Split(x, " ") is the model's split_sp *)
Lemma str_Split1_sp x : str_Split1 x 32 = split_sp x.
Proof.
  induction x as [|b r IH]; [reflexivity|].
  cbn [str_Split1 split_sp]. rewrite IH. reflexivity.
Qed.

Lemma split_sp_cons x : exists c args, split_sp x = c :: args.
Proof.
  induction x as [|b r [c [args IH]]]; [exists [], []; reflexivity|].
  cbn [split_sp]. destruct (b =? 32); [eexists; eexists; reflexivity|].
  rewrite IH. eexists; eexists; reflexivity.
Qed.

(* the key loop of the get arm *)
Lemma range_fold_snoc {A} (l : list A) : forall a, range_fold (fun ks k => ks ++ [k]) l a = a ++ l.
Proof.
  unfold range_fold. induction l as [|x l IH]; intros a; cbn [fold_left].
  - rewrite app_nil_r. reflexivity.
  - rewrite IH. rewrite <- app_assoc. reflexivity.
Qed.

Lemma gitems_fresh (l : list bytes) :
  gitems l (mk_u32s (len l)) (mk_bools (len l)) = map (fun k => mkGI k 0 false) l.
Proof.
  unfold mk_u32s, mk_bools, len. rewrite Nat2N.id.
  induction l as [|k l IH]; [reflexivity|].
  cbn [length repeat gitems map]. rewrite IH. reflexivity.
Qed.

Lemma len_zeros n : len (zeros n) = n.
Proof. unfold len, zeros. rewrite repeat_length. apply N2Nat.id. Qed.

Lemma conv64_u32 n : n < 4294967296 -> conv64 n = n.
Proof. intros H. unfold conv64. apply wrap64_small. unfold two64. lia. Qed.

Lemma conv32_u32 n : n < 4294967296 -> conv32 n = n.
Proof. intros H. apply conv32_small. unfold two32. exact H. Qed.

(* len of a list with a known spine *)
Lemma len_succ {A} (x : A) l : len (x :: l) = N.succ (len l).
Proof. unfold len. cbn [length]. lia. Qed.
