(* Frames.v — a strict decoder of what the server writes to a client, independent of the
   renderer in Resp.v: every length field is checked, nothing is skipped. It is the oracle of
   C08 (run on the bytes the real server sent) and the subject of the framing theorems. *)
From Coq Require Import String.
From Rend Require Import base.Bytes gen.Consts_gen spec.MapSpec orca.Types proto.Resp.
Open Scope N_scope.

(* ---------------- binary ---------------- *)
Record bframe := mkBF {
  bf_opcode : N; bf_keylen : N; bf_extlen : N; bf_status : N; bf_opaque : N;
  bf_extras : bytes; bf_key : bytes; bf_value : bytes }.

Definition dec_bin (b : bytes) : option (bframe * bytes) :=
  if len b <? 24 then None
  else if negb (nth 0 b 0 =? magicResponse) then None
  else if negb (nth 5 b 0 =? 0) then None                       (* data type is always 0 *)
  else
    let keylen := rd16 (drop 2 b) in
    let extlen := nth 4 b 0 in
    let total := rd32 (drop 8 b) in
    if total <? keylen + extlen then None                        (* contradictory lengths *)
    else if len b - 24 <? total then None                        (* truncated body *)
    else
      let body := take total (drop 24 b) in
      Some (mkBF (nth 1 b 0) keylen extlen (rd16 (drop 6 b)) (rd32 (drop 12 b))
                 (take extlen body) (take keylen (drop extlen body)) (drop (extlen + keylen) body),
            drop (24 + total) b).

(* ---------------- text ---------------- *)
Inductive tframe :=
| TLine (l : bytes)                              (* one CRLF-terminated line, without the CRLF *)
| TValue (key : bytes) (flags : N) (data : bytes).

(* split at the first CR LF; the line itself must not contain CR or LF *)
Fixpoint split_crlf (b : bytes) (acc : bytes) : option (bytes * bytes) :=
  match b with
  | [] => None
  | 13 :: 10 :: r => Some (rev acc, r)
  | x :: r => if (x =? 13) || (x =? 10) then None else split_crlf r (x :: acc)
  end.

Fixpoint split_sp (b : bytes) (acc : bytes) : list bytes :=
  match b with
  | [] => [rev acc]
  | x :: r => if x =? 32 then rev acc :: split_sp r [] else split_sp r (x :: acc)
  end.

(* decimal without the 32-bit limit of parse_u32: data lengths and flags are printed with %d *)
Fixpoint parse_dec_any (l : bytes) (acc : N) : option N :=
  match l with
  | [] => Some acc
  | b :: r => if is_digit b then parse_dec_any r (acc * 10 + (b - 48)) else None
  end.
Definition parse_dec (l : bytes) : option N := match l with [] => None | _ => parse_dec_any l 0 end.

Definition dec_text (b : bytes) : option (tframe * bytes) :=
  match split_crlf b [] with
  | None => None
  | Some (line, rest) =>
      match split_sp line [] with
      | [v; key; fl; n] =>
          if bytes_eqb v (asc "VALUE") then
            match parse_dec fl, parse_dec n with
            | Some flags, Some dl =>
                if len rest <? dl + 2 then None
                else if bytes_eqb (take 2 (drop dl rest)) crlf
                     then Some (TValue key flags (take dl rest), drop (dl + 2) rest)
                     else None
            | _, _ => None
            end
          else Some (TLine line, rest)
      | _ => Some (TLine line, rest)
      end
  end.

Inductive frame := FB (f : bframe) | FT (f : tframe).

Definition dec1 (p : proto) (b : bytes) : option (frame * bytes) :=
  match p with
  | Bin => match dec_bin b with Some (f, r) => Some (FB f, r) | None => None end
  | Text => match dec_text b with Some (f, r) => Some (FT f, r) | None => None end
  end.

(* decode a whole reply stream; None = not a sequence of complete well-formed frames *)
Fixpoint dec_all (fuel : nat) (p : proto) (b : bytes) : option (list frame) :=
  match b with
  | [] => Some []
  | _ => match fuel with
         | O => None
         | S f => match dec1 p b with
                  | Some (fr, rest) => match dec_all f p rest with Some l => Some (fr :: l) | None => None end
                  | None => None
                  end
         end
  end.
Definition decode (p : proto) (b : bytes) : option (list frame) := dec_all (S (length b)) p b.

(* ---------------- what a frame means ---------------- *)
Definition is_value (f : frame) : bool :=
  match f with
  | FB b => (bf_status b =? statusSuccess) &&
            ((bf_opcode b =? opGet) || (bf_opcode b =? opGat) || (bf_opcode b =? opGetE)) && (0 <? bf_extlen b)
  | FT (TValue _ _ _) => true
  | FT (TLine _) => false
  end.
Definition is_error (f : frame) : bool :=
  match f with
  | FB b => negb (bf_status b =? statusSuccess)
  | FT (TLine l) => bytes_eqb l (asc "NOT_FOUND") || bytes_eqb l (asc "NOT_STORED") ||
                    bytes_eqb (take 5 l) (asc "ERROR") || bytes_eqb (take 12 l) (asc "CLIENT_ERROR")
  | FT _ => false
  end.
Definition is_terminator (f : frame) : bool :=
  match f with
  | FB b => (bf_opcode b =? opNoop) && (bf_status b =? statusSuccess)
  | FT (TLine l) => bytes_eqb l (asc "END")
  | FT _ => false
  end.
Definition frame_opaque (f : frame) : option N := match f with FB b => Some (bf_opaque b) | FT _ => None end.

(* the reply discipline of one request, as a predicate on the decoded frames:
   [hits] / [loud_misses] = number of requested keys that are live / not live and non-quiet *)
Definition count {A} (f : A -> bool) (l : list A) : nat := length (filter f l).

Definition discipline (p : proto) (r : req) (hits loud_misses : nat) (fs : list frame) : bool :=
  match r with
  | RGet items no ne | RGetE items no ne =>
      let nterm := match p with Text => 1%nat | Bin => if ne then 1%nat else 0%nat end in
      let nerr := match p with Text => 0%nat | Bin => loud_misses end in
      (count is_value fs =? hits)%nat && (count is_error fs =? nerr)%nat &&
      (length fs =? hits + nerr + nterm)%nat &&
      (match nterm with
       | O => true
       | _ => match rev fs with t :: _ => is_terminator t | [] => false end   (* exactly one, and it is last *)
       end) &&
      (match p with
       | Bin => forallb (fun f => match frame_opaque f with
                                  | Some o => existsb (fun it => gi_opaque it =? o) items || (ne && (o =? no))
                                  | None => false end) fs
       | Text => true end)
  | RStat o =>
      (* binary stat legitimately answers with two frames, the second empty: counted as one reply *)
      match p with Bin => (length fs =? 2)%nat | Text => (1 <=? length fs)%nat end
  | RGat _ _ o =>
      (length fs =? 1)%nat && forallb (fun f => match frame_opaque f with Some x => x =? o | None => true end) fs
  | _ =>
      if req_quiet r then (length fs <=? 1)%nat && forallb is_error fs    (* quiet: silence on success, an error otherwise *)
      else (length fs =? 1)%nat &&
           forallb (fun f => match frame_opaque f with Some x => x =? req_opaque r | None => true end) fs
  end.
