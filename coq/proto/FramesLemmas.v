(* FramesLemmas.v — the framing lemmas of C08: what Resp.v renders, the strict decoder of
   Frames.v reads back field by field (binary: header fields and body lengths; text: a
   CRLF-terminated line or a VALUE block whose byte count equals the block length). *)
From Coq Require Import String.
From Rend Require Import base.Bytes base.BytesProofs gen.Consts_gen spec.MapSpec orca.Types
  proto.Resp proto.Frames proto.FramesSpec.
Open Scope N_scope.

(* ---------------- lists ---------------- *)
Lemma skipn_len_app {A} (a b : list A) : skipn (length a) (a ++ b) = b.
Proof. induction a as [|x a IH]; [reflexivity | exact IH]. Qed.
Lemma firstn_len_app {A} (a b : list A) : firstn (length a) (a ++ b) = a.
Proof. induction a as [|x a IH]; [reflexivity | cbn [length app firstn]; rewrite IH; reflexivity]. Qed.
Lemma skipn_len_add_app {A} (a b : list A) n : skipn (length a + n) (a ++ b) = skipn n b.
Proof. induction a as [|x a IH]; [reflexivity | exact IH]. Qed.

Lemma to_nat_len {A} (l : list A) : N.to_nat (len l) = length l.
Proof. unfold len. apply Nat2N.id. Qed.

Lemma take_len_app {A} (a b : list A) : take (len a) (a ++ b) = a.
Proof. unfold take. rewrite to_nat_len. apply firstn_len_app. Qed.
Lemma drop_len_app {A} (a b : list A) : drop (len a) (a ++ b) = b.
Proof. unfold drop. rewrite to_nat_len. apply skipn_len_app. Qed.
Lemma drop_len_add_app {A} (a b : list A) n : drop (len a + n) (a ++ b) = drop n b.
Proof. unfold drop. rewrite N2Nat.inj_add, to_nat_len. apply skipn_len_add_app. Qed.
Lemma take_len {A} (a : list A) : take (len a) a = a.
Proof. rewrite <- (app_nil_r a) at 2. rewrite take_len_app. reflexivity. Qed.
Lemma take_all {A} n (a : list A) : len a = n -> take n a = a.
Proof. intros <-. apply take_len. Qed.

(* ---------------- generated tables: every entry fits its wire field ---------------- *)
Lemma assocN_in {B} (l : list (N * B)) x b : assocN l x = Some b -> In b (map snd l).
Proof.
  induction l as [|[a c] l IH]; cbn [assocN map snd]; [discriminate|].
  destruct (a =? x); [intros H; inversion H; left; reflexivity | intros H; right; exact (IH H)].
Qed.

Lemma error_to_code_lt e : error_to_code e < 65536.
Proof.
  assert (F : forallb (fun x => x <? 65536) (statusInvalid :: map snd errorToCode_tab) = true)
    by (vm_compute; reflexivity).
  rewrite forallb_forall in F.
  assert (I : In (error_to_code e) (statusInvalid :: map snd errorToCode_tab)).
  { unfold error_to_code. destruct (assocN errorToCode_tab e) eqn:E; [right; eapply assocN_in; eauto | left; reflexivity]. }
  specialize (F _ I). lia.
Qed.

Lemma assoc_rt_in l rt q : In (assoc_rt l rt q) (opInvalid :: map snd l).
Proof.
  induction l as [|[[a b] c] l IH]; cbn [assoc_rt map snd]; [left; reflexivity|].
  destruct ((a =? rt) && Bool.eqb b q); [right; left; reflexivity|].
  destruct IH as [IH|IH]; [left; exact IH | right; right; exact IH].
Qed.
Lemma req_type_to_opcode_lt rt q : req_type_to_opcode rt q < 256.
Proof.
  assert (F : forallb (fun x => x <? 256) (opInvalid :: map snd reqTypeToOpcode_tab) = true)
    by (vm_compute; reflexivity).
  rewrite forallb_forall in F. specialize (F _ (assoc_rt_in reqTypeToOpcode_tab rt q)).
  unfold req_type_to_opcode. lia.
Qed.
Lemma stored_opcode_lt rt : stored_opcode rt < 256.
Proof. unfold stored_opcode. repeat match goal with |- context [if ?c then _ else _] => destruct c end; vm_compute; reflexivity. Qed.

(* ---------------- binary ---------------- *)
Lemma dec_bin_cons b0 b1 k0 k1 e d s0 s1 t0 t1 t2 t3 o0 o1 o2 o3 c0 c1 c2 c3 c4 c5 c6 c7 tail :
  dec_bin (b0 :: b1 :: k0 :: k1 :: e :: d :: s0 :: s1 :: t0 :: t1 :: t2 :: t3 :: o0 :: o1 :: o2 :: o3 ::
           c0 :: c1 :: c2 :: c3 :: c4 :: c5 :: c6 :: c7 :: tail) =
  if negb (b0 =? magicResponse) then None
  else if negb (d =? 0) then None
  else
    let keylen := rd16 [k0; k1] in
    let total := rd32 [t0; t1; t2; t3] in
    if total <? keylen + e then None
    else if len tail <? total then None
    else
      let body := take total tail in
      Some (mkBF b1 keylen e (rd16 [s0; s1]) (rd32 [o0; o1; o2; o3])
                 (take e body) (take keylen (drop e body)) (drop (e + keylen) body),
            drop total tail).
Proof.
  unfold dec_bin.
  set (b := b0 :: b1 :: k0 :: k1 :: e :: d :: s0 :: s1 :: t0 :: t1 :: t2 :: t3 :: o0 :: o1 :: o2 :: o3 ::
           c0 :: c1 :: c2 :: c3 :: c4 :: c5 :: c6 :: c7 :: tail).
  assert (L : len b = 24 + len tail) by (unfold b; rewrite !len_cons; lia).
  rewrite L.
  replace (24 + len tail <? 24) with false by lia.
  replace (24 + len tail - 24) with (len tail) by lia.
  change (nth 0 b 0) with b0. change (nth 5 b 0) with d. change (nth 1 b 0) with b1. change (nth 4 b 0) with e.
  change (rd16 (drop 2 b)) with (rd16 [k0; k1]).
  change (rd32 (drop 8 b)) with (rd32 [t0; t1; t2; t3]).
  change (rd16 (drop 6 b)) with (rd16 [s0; s1]).
  change (rd32 (drop 12 b)) with (rd32 [o0; o1; o2; o3]).
  change (drop 24 b) with tail.
  replace (drop (24 + rd32 [t0; t1; t2; t3]) b) with (drop (rd32 [t0; t1; t2; t3]) tail); [reflexivity|].
  unfold drop. rewrite N2Nat.inj_add. reflexivity.
Qed.

Lemma rd16_u16be' x : x < 65536 -> rd16 (u16be x) = x.
Proof. intros H. rewrite <- (app_nil_r (u16be x)). apply rd16_u16be, H. Qed.
Lemma rd32_u32be' x : x < 4294967296 -> rd32 (u32be x) = x.
Proof. intros H. rewrite <- (app_nil_r (u32be x)). apply rd32_u32be, H. Qed.

(* a rendered header followed by a body of the announced length decodes to its fields *)
Lemma dec_bin_hdr opc kl el st total opq body rest :
  kl < 65536 -> el < 256 -> st < 65536 -> total < 4294967296 -> opq < 4294967296 ->
  len body = total -> kl + el <= total ->
  dec_bin (bin_hdr opc kl el st total opq ++ body ++ rest) =
  Some (mkBF opc kl el st opq (take el body) (take kl (drop el body)) (drop (el + kl) body), rest).
Proof.
  intros Hk He Hs Ht Ho Hb Hle.
  unfold bin_hdr. change (zeros 8) with [0; 0; 0; 0; 0; 0; 0; 0].
  unfold u16be at 1 2. unfold u32be at 1 2. cbn [app].
  rewrite dec_bin_cons.
  change [(kl / 256) mod 256; kl mod 256] with (u16be kl).
  change [(st / 256) mod 256; st mod 256] with (u16be st).
  match goal with |- context [rd32 [?a; ?b; ?c; ?d]] =>
    change [a; b; c; d] with (u32be (total mod 4294967296)) end.
  match goal with |- context [rd32 [(opq / ?a) mod 256; ?b; ?c; ?d]] =>
    change [(opq / a) mod 256; b; c; d] with (u32be opq) end.
  cbv zeta.
  rewrite (rd16_u16be' kl Hk), (rd16_u16be' st Hs), (rd32_u32be' opq Ho).
  rewrite (N.mod_small total) by lia. rewrite (rd32_u32be' total Ht). rewrite (N.mod_small el) by lia.
  replace (magicResponse =? magicResponse) with true by (symmetry; apply N.eqb_refl).
  change (0 =? 0) with true. cbn [negb].
  replace (total <? kl + el) with false by lia.
  rewrite len_app. replace (len body + len rest <? total) with false by lia.
  subst total. rewrite take_len_app, drop_len_app. reflexivity.
Qed.

Lemma dec_bin_plain opc st opq rest : st < 65536 -> opq < 4294967296 ->
  dec_bin (bin_hdr opc 0 0 st 0 opq ++ rest) = Some (mkBF opc 0 0 st opq [] [] [], rest).
Proof.
  intros Hs Ho. apply (dec_bin_hdr opc 0 0 st 0 opq [] rest); try lia. reflexivity.
Qed.

Lemma u32be_len' x : len (u32be x) = 4. Proof. reflexivity. Qed.

Lemma dec_bin_get opc g rest : gres_ok Bin g ->
  dec_bin (bin_get_common g opc ++ rest) =
  Some (mkBF opc 0 4 statusSuccess (g_opaque g) (u32be (g_flags g)) [] (g_data g), rest).
Proof.
  intros (Ho & Hf & He & Hd & _). unfold bin_get_common. rewrite <- !app_assoc.
  rewrite (app_assoc (u32be _) (g_data g) rest).
  rewrite dec_bin_hdr; try (unfold statusSuccess; lia).
  - reflexivity.
  - rewrite len_app, u32be_len'. lia.
Qed.

Lemma dec_bin_gete g rest : gres_ok Bin g ->
  dec_bin ((bin_hdr opGetE 0 8 statusSuccess (len (g_data g) + 8) (g_opaque g) ++
            u32be (g_flags g) ++ u32be (g_exp g) ++ g_data g) ++ rest) =
  Some (mkBF opGetE 0 8 statusSuccess (g_opaque g) (u32be (g_flags g) ++ u32be (g_exp g)) [] (g_data g), rest).
Proof.
  intros (Ho & Hf & He & Hd & _). rewrite <- !app_assoc.
  replace (u32be (g_flags g) ++ u32be (g_exp g) ++ g_data g ++ rest)
    with ((u32be (g_flags g) ++ u32be (g_exp g) ++ g_data g) ++ rest) by (rewrite <- !app_assoc; reflexivity).
  rewrite dec_bin_hdr; try (unfold statusSuccess; lia).
  - reflexivity.
  - rewrite !len_app, !u32be_len'. lia.
Qed.

Lemma dec_bin_error o rt e q rest : o < 4294967296 ->
  dec_bin (bin_error o rt e q ++ rest) =
  Some (mkBF (req_type_to_opcode rt q) 0 0 (error_to_code e) o [] [] [], rest).
Proof. intros H. unfold bin_error. apply dec_bin_plain; [apply error_to_code_lt | exact H]. Qed.

Lemma bin_frame : forall c rest,
  rcall_ok Bin c -> render_bin c <> [] -> (forall o, c <> PStat o) ->
  dec_bin (render_bin c ++ rest) = Some (bin_frame_of c, rest).
Proof.
  intros c rest Hok Hne Hst.
  destruct c as [rt o q|g|g|g|o ne|o|o|o|o q|o|o|o rt e q]; cbn [render_bin bin_frame_of rcall_ok] in *.
  - destruct q; [congruence|]. apply dec_bin_plain; [vm_compute; reflexivity | exact Hok].
  - destruct (g_miss g).
    + destruct (g_quiet g); [congruence|]. apply dec_bin_error, Hok.
    + apply dec_bin_get, Hok.
  - destruct (g_miss g).
    + destruct (g_quiet g); [congruence|]. apply dec_bin_error, Hok.
    + apply dec_bin_gete, Hok.
  - destruct (g_miss g).
    + destruct (g_quiet g); [congruence|]. apply dec_bin_error, Hok.
    + apply dec_bin_get, Hok.
  - destruct ne; [|congruence]. apply dec_bin_plain; [vm_compute; reflexivity | exact Hok].
  - apply dec_bin_plain; [vm_compute; reflexivity | exact Hok].
  - apply dec_bin_plain; [vm_compute; reflexivity | exact Hok].
  - apply dec_bin_plain; [vm_compute; reflexivity | exact Hok].
  - destruct q; [congruence|]. apply dec_bin_plain; [vm_compute; reflexivity | exact Hok].
  - rewrite <- app_assoc. rewrite dec_bin_hdr; try (unfold statusSuccess; lia); [reflexivity | vm_compute; reflexivity].
  - exfalso. exact (Hst o eq_refl).
  - apply dec_bin_error, Hok.
Qed.

Lemma bin_stat : forall o rest, o < 4294967296 ->
  exists f2 mid, dec_bin (render_bin (PStat o) ++ rest) = Some (bin_frame_of (PStat o), mid) /\
                 dec_bin mid = Some (f2, rest) /\
                 bf_value f2 = [] /\ bf_key f2 = [] /\ bf_status f2 = statusSuccess.
Proof.
  intros o rest Ho.
  exists (mkBF opStat 0 0 statusSuccess 0 [] [] []), (bin_hdr opStat 0 0 statusSuccess 0 0 ++ rest).
  split; [|split; [apply dec_bin_plain; [vm_compute; reflexivity | lia] | repeat split]].
  cbn [render_bin bin_frame_of]. rewrite <- !app_assoc.
  replace (asc "version" ++ versionNum ++ bin_hdr opStat 0 0 statusSuccess 0 0 ++ rest)
    with ((asc "version" ++ versionNum) ++ bin_hdr opStat 0 0 statusSuccess 0 0 ++ rest)
    by (rewrite <- !app_assoc; reflexivity).
  rewrite dec_bin_hdr; try (unfold statusSuccess; lia); try reflexivity; vm_compute; try reflexivity; try discriminate.
Qed.

(* ---------------- text ---------------- *)
Definition nocrlfb (l : bytes) : bool := forallb (fun b => negb (b =? 13) && negb (b =? 10)) l.
Definition nospb (l : bytes) : bool := forallb (fun b => negb (b =? 32)) l.

Lemma split_crlf_cons x r acc : x <> 13 ->
  split_crlf (x :: r) acc = if (x =? 13) || (x =? 10) then None else split_crlf r (x :: acc).
Proof.
  intros H. destruct x as [|p]; [reflexivity|].
  destruct p as [p|p|]; try reflexivity.
  destruct p as [p|p|]; try reflexivity.
  destruct p as [p|p|]; try reflexivity.
  destruct p as [p|p|]; try reflexivity.
  congruence.
Qed.

Lemma split_crlf_line l : forall rest acc, nocrlfb l = true ->
  split_crlf (l ++ crlf ++ rest) acc = Some (rev acc ++ l, rest).
Proof.
  induction l as [|x l IH]; intros rest acc H.
  - cbn [app crlf split_crlf]. rewrite app_nil_r. reflexivity.
  - unfold nocrlfb in H. cbn [forallb] in H. apply andb_true_iff in H. destruct H as [Hx Hl].
    cbn [app]. rewrite split_crlf_cons by lia.
    replace ((x =? 13) || (x =? 10)) with false by lia.
    rewrite (IH rest (x :: acc) Hl). cbn [rev]. rewrite <- app_assoc. reflexivity.
Qed.

Lemma split_sp_word w : forall r acc, nospb w = true ->
  split_sp (w ++ 32 :: r) acc = (rev acc ++ w) :: split_sp r [].
Proof.
  induction w as [|x w IH]; intros r acc H.
  - cbn [app split_sp]. change (32 =? 32) with true. cbv iota. rewrite app_nil_r. reflexivity.
  - unfold nospb in H. cbn [forallb] in H. apply andb_true_iff in H. destruct H as [Hx Hw].
    cbn [app split_sp]. replace (x =? 32) with false by lia.
    rewrite (IH r (x :: acc) Hw). cbn [rev]. rewrite <- app_assoc. reflexivity.
Qed.
Lemma split_sp_last w : forall acc, nospb w = true -> split_sp w acc = [rev acc ++ w].
Proof.
  induction w as [|x w IH]; intros acc H.
  - cbn [split_sp]. rewrite app_nil_r. reflexivity.
  - unfold nospb in H. cbn [forallb] in H. apply andb_true_iff in H. destruct H as [Hx Hw].
    cbn [split_sp]. replace (x =? 32) with false by lia.
    rewrite (IH (x :: acc) Hw). cbn [rev]. rewrite <- app_assoc. reflexivity.
Qed.

(* a line that is not a VALUE header *)
Definition plain_lineb (l : bytes) : bool :=
  nocrlfb l && match split_sp l [] with
               | [v; _; _; _] => negb (bytes_eqb v (asc "VALUE"))
               | _ => true
               end.

Lemma dec_text_plain l rest : plain_lineb l = true ->
  dec_text (l ++ crlf ++ rest) = Some (TLine l, rest).
Proof.
  unfold plain_lineb. intros H. apply andb_true_iff in H. destruct H as [H1 H2].
  unfold dec_text. rewrite (split_crlf_line l rest [] H1). cbn [rev app].
  destruct (split_sp l []) as [|v [|k [|f [|n [|x y]]]]]; try reflexivity.
  destruct (bytes_eqb v (asc "VALUE")); [discriminate H2 | reflexivity].
Qed.

Lemma firstn_line (l : bytes) : firstn (length (l ++ crlf) - 2) (l ++ crlf) = l.
Proof.
  rewrite app_length. cbn [crlf length]. replace (length l + 2 - 2)%nat with (length l) by lia.
  apply firstn_len_app.
Qed.

(* digits *)
Lemma parse_dec_any_val l : forall a, digitsb l = true -> parse_dec_any l a = Some (dval l a).
Proof.
  induction l as [|b l IH]; intros a D; cbn [parse_dec_any dval]; [reflexivity|].
  unfold digitsb in D. cbn [forallb] in D. apply andb_true_iff in D. destruct D as [Db Dl].
  rewrite Db. apply IH, Dl.
Qed.
Lemma parse_dec_dec n : n < 4294967296 -> parse_dec (dec n) = Some n.
Proof.
  intros H. unfold parse_dec. destruct (dec n) eqn:E; [exfalso; exact (dec_nonempty n E)|].
  rewrite <- E. rewrite parse_dec_any_val by apply dec_digits. rewrite dec_val by exact H. reflexivity.
Qed.
Lemma digits_nocrlf l : digitsb l = true -> nocrlfb l = true.
Proof.
  unfold digitsb, nocrlfb. rewrite !forallb_forall. intros H x Hx. specialize (H x Hx).
  unfold is_digit in H. lia.
Qed.
Lemma digits_nosp l : digitsb l = true -> nospb l = true.
Proof.
  unfold digitsb, nospb. rewrite !forallb_forall. intros H x Hx. specialize (H x Hx).
  unfold is_digit in H. lia.
Qed.
Lemma nocrlfb_app a b : nocrlfb (a ++ b) = nocrlfb a && nocrlfb b.
Proof. apply forallb_app. Qed.

Lemma text_key_nocrlf k : text_key_ok k -> nocrlfb k = true /\ nospb k = true.
Proof.
  intros [_ H]. unfold nocrlfb, nospb. rewrite !forallb_forall. rewrite Forall_forall in H.
  split; intros x Hx; specialize (H x Hx); lia.
Qed.

Lemma dec_text_value key flags data rest :
  text_key_ok key -> flags < 4294967296 -> len data < 4294967296 ->
  dec_text (asc "VALUE " ++ key ++ [32] ++ dec flags ++ [32] ++ dec (len data) ++ crlf ++ data ++ crlf ++ rest) =
  Some (TValue key flags data, rest).
Proof.
  intros Hk Hf Hd. destruct (text_key_nocrlf key Hk) as [K1 K2].
  pose proof (dec_digits flags) as Df. pose proof (dec_digits (len data)) as Dn.
  set (line := asc "VALUE" ++ 32 :: key ++ 32 :: dec flags ++ 32 :: dec (len data)).
  replace (asc "VALUE " ++ key ++ [32] ++ dec flags ++ [32] ++ dec (len data) ++ crlf ++ data ++ crlf ++ rest)
    with (line ++ crlf ++ data ++ crlf ++ rest).
  2:{ unfold line. change (asc "VALUE ") with (asc "VALUE" ++ [32]).
      repeat (rewrite <- ?app_assoc; cbn [app]). reflexivity. }
  assert (Hl : nocrlfb line = true).
  { unfold line. rewrite nocrlfb_app. change (32 :: key ++ ?x) with ([32] ++ key ++ x).
    change (32 :: dec flags ++ ?x) with ([32] ++ dec flags ++ x).
    change (32 :: dec (len data)) with ([32] ++ dec (len data)).
    rewrite !nocrlfb_app, K1, (digits_nocrlf _ Df), (digits_nocrlf _ Dn). reflexivity. }
  unfold dec_text. rewrite (split_crlf_line line _ [] Hl). cbn [rev app].
  unfold line. rewrite (split_sp_word (asc "VALUE")) by reflexivity.
  rewrite (split_sp_word key) by exact K2.
  rewrite (split_sp_word (dec flags)) by (apply digits_nosp, Df).
  rewrite (split_sp_last (dec (len data))) by (apply digits_nosp, Dn).
  cbn [rev app]. change (bytes_eqb (asc "VALUE") (asc "VALUE")) with true. cbv iota.
  rewrite (parse_dec_dec flags Hf), (parse_dec_dec (len data) Hd).
  rewrite !len_app. change (len crlf) with 2.
  replace (len data + (2 + len rest) <? len data + 2) with false by lia.
  rewrite drop_len_app. change (take 2 (crlf ++ rest)) with crlf. change (bytes_eqb crlf crlf) with true. cbv iota.
  rewrite take_len_app, drop_len_add_app. reflexivity.
Qed.

Lemma err_text_plain e : plain_lineb (err_text e) = true.
Proof.
  assert (F : forallb plain_lineb ([] :: map snd errText_tab) = true) by (vm_compute; reflexivity).
  rewrite forallb_forall in F. apply F. unfold err_text.
  destruct (assocN errText_tab e) eqn:E; [right; eapply assocN_in; eauto | left; reflexivity].
Qed.

Lemma text_error_line e : exists l, text_error e = l ++ crlf /\ plain_lineb l = true.
Proof.
  unfold text_error.
  repeat match goal with |- context [if ?c then _ else _] => destruct c end;
    eexists; (split; [reflexivity|]); try (vm_compute; reflexivity). apply err_text_plain.
Qed.

Lemma text_frame : forall c rest,
  rcall_ok Text c -> render_text c <> [] -> (forall o, c <> PStat o) ->
  (forall g, c = PGet g -> g_miss g = false) ->
  dec_text (render_text c ++ rest) = Some (text_frame_of c, rest).
Proof.
  intros c rest Hok Hne Hst Hg.
  assert (P : forall l, render_text c = l ++ crlf -> (forall g, c <> PGet g) -> plain_lineb l = true ->
              dec_text (render_text c ++ rest) = Some (text_frame_of c, rest)).
  { intros l E Hn Hp. assert (T : text_frame_of c = TLine l).
    { destruct c; try (exfalso; eapply Hn; reflexivity); unfold text_frame_of; rewrite E, firstn_line; reflexivity. }
    rewrite T, E, <- app_assoc. apply dec_text_plain, Hp. }
  destruct c as [rt o q|g|g|g|o ne|o|o|o|o q|o|o|o rt e q]; cbn [render_text] in Hne;
    try congruence;
    try (eapply P; [reflexivity | intros; discriminate | vm_compute; reflexivity]).
  - specialize (Hg g eq_refl). cbn [render_text text_frame_of]. rewrite Hg.
    destruct Hok as (Ho & Hf & He & Hd & Hk). cbn [render_text] in Hne.
    repeat rewrite <- app_assoc. apply dec_text_value; [exact Hk | exact Hf | lia].
  - destruct q; [congruence|]. eapply P; [reflexivity | intros; discriminate | vm_compute; reflexivity].
  - apply (P (asc "VERSION " ++ versionString)); [cbn [render_text]; rewrite <- app_assoc; reflexivity
                                                 | intros; discriminate | vm_compute; reflexivity].
  - destruct (text_error_line e) as (l & E & Hp). eapply P; [exact E | intros; discriminate | exact Hp].
Qed.

Lemma text_stat : forall o rest,
  exists l1, dec_text (render_text (PStat o) ++ rest) = Some (TLine l1, asc "END" ++ crlf ++ rest) /\
             dec_text (asc "END" ++ crlf ++ rest) = Some (TLine (asc "END"), rest).
Proof.
  intros o rest. exists (asc "STAT version " ++ versionNum). split.
  - cbn [render_text]. unfold stat_sep. change [13; 10] with crlf. rewrite <- !app_assoc.
    rewrite (app_assoc (asc "STAT version ")). apply dec_text_plain. vm_compute. reflexivity.
  - apply dec_text_plain. vm_compute. reflexivity.
Qed.
