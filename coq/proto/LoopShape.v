(* LoopShape.v — the DECISIONS of the per-connection server loop, /repo/server/default.go
   DefaultServer.Loop with abort of /repo/server/utils.go, as a value: what `rendharness
   looptrans` extracts from the source on every run (gen/Loop_gen.v, [loop_src]) and what the
   hand-written models assume ([loop_model] below). gen/LoopLink.v proves loop_src = loop_model.

   The models that embody these decisions are
     proto/ReqCommon.v  serve_loop     (C11: continue after a client error, close otherwise / on quit)
     proto/Stream.v     serve_stream   (C15: the same over bytes, with the orchestrator)
     orca/Orcas.v       serve1         (C01/C02/C10: app error -> Error reply, other error -> close)
     orca/Faults.v      serve1_f       (C10/C12: a panic underneath closes)
     server/Listen.v    abort          (C15b: abort closes every closer it was given)
   This file gives the shape a MEANING (the [sh_*] functions: the loop driven by a shape, defined
   only on shapes whose every branch is recognised); proto/LoopShapeProofs.v proves that the
   shape-driven loop over [loop_model] IS each of the model definitions above. Definitions only.

   What the extraction keeps and drops (harness/cmd/rendharness/looptrans.go):
   calls on metrics.*, timer.*, log.*, fmt.* as statements, assignments from such calls, and
   if/switch statements that contain nothing else are dropped; a call to anything else inside the
   arguments of a dropped call is kept as [KHelper]. Everything that is not one of the expected
   forms becomes an "...Other" constructor carrying a description, on which no [sh_*] function is
   defined and which [loop_model] does not contain. *)
From Coq Require Import String.
From Rend Require Import base.Bytes gen.Consts_gen spec.MapSpec orca.Types handlers.Std orca.Orcas
  orca.Faults proto.Resp proto.ReqCommon.
Open Scope N_scope.

(* ---------------- syntax ---------------- *)
(* the methods of orcas.Orca the loop calls on s.orca *)
Inductive ometh :=
| OSet | OAdd | OReplace | OAppend | OPrepend | ODelete | OTouch | OGet | OGetE | OGat
| ONoop | OQuit | OVersion | OStat | OUnknown
| OMethOther (name : string).

(* the argument of a dispatched call *)
Inductive oarg :=
| AReq                       (* request *)
| AReqAs (ty : string)       (* request.(common.<ty>) *)
| AArgOther (what : string).

(* the arguments of s.orca.Error *)
Inductive earg :=
| ErrNilUnknown              (* (nil, common.RequestUnknown, err) *)
| ErrReqType                 (* (request, reqType, err) *)
| ErrArgOther (what : string).

(* a statement of a branch, after dropping metrics, timers and logging *)
Inductive lstep :=
| KAbort                                          (* abort(s.conns, _): the error only feeds the log line *)
| KError (a : earg)                               (* s.orca.Error(...) *)
| KCall (m : ometh) (a : oarg) (assigned : bool)  (* [err =] s.orca.M(arg) *)
| KContinue
| KReturn
| KPanic                                          (* panic(_) *)
| KHelper (name : string)                         (* another function is called here (inside a dropped log line) *)
| KIf (cond : string) (t e : list lstep)          (* a conditional other than the expected tests *)
| KOther (what : string).

(* defer func() { if r := recover(); r != nil { body } }() as the first statement of Loop *)
Inductive recover_shape :=
| RHandler (body : list lstep)
| RMissing
| ROther (what : string).

(* request, reqType, _, err := s.rp.Parse() as the first statement of the for body *)
Inductive parse_call := PParse | PParseOther (what : string).

(* if err != nil { if err == common.E1 || ... || err == common.En { cont } else { els } } *)
Inductive perr_rule :=
| PRule (errs : list N) (cont els : list lstep)
| PRuleMissing
| PRuleOther (what : string).

(* case common.RequestX: body   of   switch reqType *)
Inductive dcase := DCase (rt : N) (body : list lstep) | DCaseOther (what : string).

Inductive etest := TIsAppError (* common.IsAppError(err) *) | TTestOther (what : string).

(* if err != nil { if <test> { app } else { els } }   after the switch *)
Inductive post_rule :=
| QRule (t : etest) (app els : list lstep)
| QRuleMissing
| QRuleOther (what : string).

(* utils.go abort: the statements before the loop, the loop, the statements after it *)
Inductive close_loop :=
| CloseAllNonNil             (* for _, c := range toClose { if c != nil { c.Close() } } *)
| CloseMissing
| CloseOther (what : string).
Record abort_shape := mkAbort { ab_pre : list lstep; ab_loop : close_loop; ab_post : list lstep }.

(* a function of package server reached through KHelper: the operations in its body that can
   panic (index, slice, type assertion, division, dereference, panic, calls within the package) *)
Record helper := mkHelper { hp_name : string; hp_panic_ops : list string }.

Record loop_shape := mkLoop {
  ls_recover    : recover_shape;
  ls_parse      : parse_call;
  ls_parse_rule : perr_rule;
  ls_dispatch   : list dcase;
  ls_default    : option (list lstep);  (* a default: clause of the switch *)
  ls_unhandled  : list string;          (* request types of common/datatypes.go without a case *)
  ls_post_rule  : post_rule;
  ls_extra      : list lstep;           (* any other statement of Loop or of the for body that was not dropped;
                                           also: a `for` that is not the bare `for { }` *)
  ls_abort      : abort_shape;
  ls_helpers    : list helper
}.

(* ---------------- the model value ---------------- *)
(* What the hand-written models assume about the source. The two helper entries record what was
   judged harmless by reading: identifyPanic slices a [16]uintptr with pc[:] and pc[:n], n being
   the count runtime.Callers returned for that very slice; err.Error() in abort is only reached
   under err != nil. Neither is reasoned about in Coq: a helper is ASSUMED to return normally, and
   this list pins down what that assumption was made about. *)
Open Scope string_scope.
Definition loop_model : loop_shape := {|
  ls_recover := RHandler [KIf "r != io.EOF" [KHelper "identifyPanic"] []; KAbort];
  ls_parse := PParse;
  ls_parse_rule := PRule [EBadRequest; EBadLength; EBadFlags; EBadExptime]
                         [KError ErrNilUnknown; KContinue] [KAbort; KReturn];
  ls_dispatch := [
    DCase RtSet [KCall OSet (AReqAs "SetRequest") true];
    DCase RtAdd [KCall OAdd (AReqAs "SetRequest") true];
    DCase RtReplace [KCall OReplace (AReqAs "SetRequest") true];
    DCase RtAppend [KCall OAppend (AReqAs "SetRequest") true];
    DCase RtPrepend [KCall OPrepend (AReqAs "SetRequest") true];
    DCase RtDelete [KCall ODelete (AReqAs "DeleteRequest") true];
    DCase RtTouch [KCall OTouch (AReqAs "TouchRequest") true];
    DCase RtGet [KCall OGet (AReqAs "GetRequest") true];
    DCase RtGetE [KCall OGetE (AReqAs "GetRequest") true];
    DCase RtGat [KCall OGat (AReqAs "GATRequest") true];
    DCase RtNoop [KCall ONoop (AReqAs "NoopRequest") true];
    DCase RtQuit [KCall OQuit (AReqAs "QuitRequest") false; KAbort; KReturn];
    DCase RtVersion [KCall OVersion (AReqAs "VersionRequest") true];
    DCase RtStat [KCall OStat (AReqAs "StatRequest") true];
    DCase RtUnknown [KCall OUnknown AReq true]];
  ls_default := None;
  ls_unhandled := [];
  ls_post_rule := QRule TIsAppError [KError ErrReqType] [KAbort; KReturn];
  ls_extra := [];
  ls_abort := mkAbort [KIf "err != nil && err != io.EOF" [KHelper "err.Error"] []] CloseAllNonNil [];
  ls_helpers := [mkHelper "identifyPanic" ["slice pc[:]"; "slice pc[:n]"]]
|}.
Close Scope string_scope.

(* ---------------- meaning of a branch ---------------- *)
Inductive exit := XFall | XContinue | XReturn.
Inductive ev := EvError (a : earg) | EvCall (m : ometh) (a : oarg) (assigned : bool).

(* what a branch does on EVERY way through it: did abort run, the calls on s.orca in order, how it
   is left. None: an unrecognised statement, a panic, or two ways through that differ. Conditions
   are not evaluated: both sides of a KIf count as possible, they may differ in helpers only. *)
Record flow := mkFlow { f_ab : bool; f_ev : list ev; f_exit : exit }.

Definition exit_eqb (a b : exit) : bool :=
  match a, b with XFall, XFall | XContinue, XContinue | XReturn, XReturn => true | _, _ => false end.

Fixpoint run_step (s : lstep) (st : option flow) : option flow :=
  let run_list := fix go (l : list lstep) (st : option flow) : option flow :=
                    match l with [] => st | x :: r => go r (run_step x st) end in
  match st with
  | Some (mkFlow ab evs XFall) =>
      match s with
      | KAbort => Some (mkFlow true evs XFall)
      | KError a => Some (mkFlow ab (evs ++ [EvError a]) XFall)
      | KCall m a asg => Some (mkFlow ab (evs ++ [EvCall m a asg]) XFall)
      | KContinue => Some (mkFlow ab evs XContinue)
      | KReturn => Some (mkFlow ab evs XReturn)
      | KHelper _ => st
      | KIf _ t e =>
          match run_list t (Some (mkFlow ab [] XFall)), run_list e (Some (mkFlow ab [] XFall)) with
          | Some (mkFlow ab1 [] x1), Some (mkFlow ab2 [] x2) =>
              if Bool.eqb ab1 ab2 && exit_eqb x1 x2 then Some (mkFlow ab1 evs x1) else None
          | _, _ => None
          end
      | KPanic | KOther _ => None
      end
  | _ => st      (* already left (statements after continue/return are dead), or unrecognised *)
  end.
Fixpoint run_steps (l : list lstep) (st : option flow) : option flow :=
  match l with [] => st | x :: r => run_steps r (run_step x st) end.
Definition summ (b : list lstep) : option flow := run_steps b (Some (mkFlow false [] XFall)).

(* ---------------- the loop driven by a shape ---------------- *)
(* the frame around the decisions is the expected one: Parse first, nothing unaccounted for, every
   request type has its case and there is no default clause *)
Definition sh_frame_ok (sh : loop_shape) : bool :=
  match ls_parse sh, ls_default sh, ls_unhandled sh, ls_extra sh with
  | PParse, None, [], [] => true
  | _, _, _, _ => false
  end.

(* (4) a panic underneath Loop: the deferred handler runs; the connection ends Closed when every
   way through the handler runs abort and none re-panics. (Without a handler the process dies.) *)
Definition sh_on_panic (sh : loop_shape) : option conn_state :=
  match ls_recover sh with
  | RHandler b => match summ b with
                  | Some (mkFlow true [] _) => Some Closed
                  | _ => None
                  end
  | _ => None
  end.

(* (1) Parse returned the numbered error e *)
Definition sh_on_parse_error (sh : loop_shape) (e : N) : option (list rcall * conn_state) :=
  if negb (sh_frame_ok sh) then None else
  match ls_parse_rule sh with
  | PRule errs cont els =>
      if existsb (N.eqb e) errs then
        match summ cont with
        | Some (mkFlow false [EvError ErrNilUnknown] XContinue) => Some ([PError 0 RtUnknown e false], Open)
        | _ => None
        end
      else
        match summ els with
        | Some (mkFlow true [] XReturn) => Some ([], Closed)
        | _ => None
        end
  | _ => None
  end.
(* Parse returned an error that is none of the listed ones (io.EOF, a short read, bad magic, ...) *)
Definition sh_on_parse_other (sh : loop_shape) : option conn_state :=
  if negb (sh_frame_ok sh) then None else
  match ls_parse_rule sh with
  | PRule _ _ els => match summ els with
                     | Some (mkFlow true [] XReturn) => Some Closed
                     | _ => None
                     end
  | _ => None
  end.

(* (2) which method the model's single function [orca : req -> prog] stands for at each request *)
Definition req_meth (r : req) : ometh :=
  match r with
  | RSet MSet _ _ _ _ _ _ => OSet | RSet MAdd _ _ _ _ _ _ => OAdd | RSet MReplace _ _ _ _ _ _ => OReplace
  | RCat false _ _ _ _ => OAppend | RCat true _ _ _ _ => OPrepend
  | RDelete _ _ => ODelete | RTouch _ _ _ => OTouch | RGat _ _ _ => OGat
  | RGet _ _ _ => OGet | RGetE _ _ _ => OGetE | RNoop _ => ONoop | RQuit _ _ => OQuit
  | RVersion _ => OVersion | RStat _ => OStat | RUnknown => OUnknown
  end.
Definition ometh_eqb (a b : ometh) : bool :=
  match a, b with
  | OSet, OSet | OAdd, OAdd | OReplace, OReplace | OAppend, OAppend | OPrepend, OPrepend
  | ODelete, ODelete | OTouch, OTouch | OGet, OGet | OGetE, OGetE | OGat, OGat | ONoop, ONoop
  | OQuit, OQuit | OVersion, OVersion | OStat, OStat | OUnknown, OUnknown => true
  | _, _ => false
  end.
(* the argument is the parsed request itself (the asserted type is fixed by the method's signature) *)
Definition arg_ok (a : oarg) : bool := match a with AReq | AReqAs _ => true | AArgOther _ => false end.

Fixpoint find_case (cs : list dcase) (rt : N) : option (list lstep) :=
  match cs with
  | [] => None
  | DCase rt' b :: r => if rt' =? rt then Some b else find_case r rt
  | DCaseOther _ :: _ => None
  end.

(* (2)+(3) the request r was parsed and the method the switch selects returned e: the extra
   responder calls of the loop and the state of the connection *)
Definition sh_after (sh : loop_shape) (r : req) (e : option N) : option (list rcall * conn_state) :=
  if negb (sh_frame_ok sh) then None else
  match find_case (ls_dispatch sh) (rtype r) with
  | None => None
  | Some body =>
      match summ body with
      | Some (mkFlow false [EvCall m a true] XFall) =>        (* err = s.orca.M(request) *)
          if ometh_eqb m (req_meth r) && arg_ok a then
            match ls_post_rule sh with
            | QRule TIsAppError app els =>
                match e with
                | None => Some ([], Open)
                | Some err =>
                    if is_app_error err then
                      match summ app with
                      | Some (mkFlow false [EvError ErrReqType] XFall) =>
                          Some ([PError (req_opaque r) (rtype r) err (req_quiet r)], Open)
                      | _ => None
                      end
                    else
                      match summ els with
                      | Some (mkFlow true [] XReturn) => Some ([], Closed)
                      | _ => None
                      end
                end
            | _ => None
            end
          else None
      | Some (mkFlow true [EvCall m a false] XReturn) =>       (* s.orca.M(request); abort; return *)
          if ometh_eqb m (req_meth r) && arg_ok a then Some ([], Closed) else None
      | _ => None
      end
  end.

(* one parsed request over sequential handlers (orca/Orcas.v serve1) *)
Definition sh_serve1 (sh : loop_shape) (h1 h2 : hexec) (orca : req -> prog) (r : req) (l1 l2 : store) (now : N)
  : option (store * store * list rcall * conn_state) :=
  let '(l1', l2', cs, e) := run h1 h2 (orca r) l1 l2 now in
  match sh_after sh r e with
  | Some (extra, c) => Some (l1', l2', cs ++ extra, c)
  | None => None
  end.

(* one parsed request under backend faults, where a handler may panic (orca/Faults.v serve1_f) *)
Definition sh_serve1_f (sh : loop_shape) (pl : plan) (orca : req -> prog) (r : req) (st : fstate) (now : N)
  : option (fstate * list rcall * conn_state) :=
  let '(st', cs, e) := run_f pl (orca r) st now in
  match e with
  | FPanicked => match sh_on_panic sh with Some c => Some (st', cs, c) | None => None end
  | FRet e' => match sh_after sh r e' with
               | Some (extra, c) => Some (st', cs ++ extra, c)
               | None => None
               end
  end.

(* the whole connection over bytes (proto/Stream.v serve_stream). [parse] classifies the way
   ReqCommon.pres does: PClientErr e = Parse returned the numbered error e, PClose = it returned
   an error that has no number in the model *)
Fixpoint sh_serve_stream (sh : loop_shape) (p : proto) (parse : bytes -> pout) (orca : req -> prog) (fuel : nat)
                         (s : bytes) (l1 l2 : store) (now : N) : option (bytes * store * store * conn_state) :=
  match fuel with
  | O => Some ([], l1, l2, Open)
  | S f =>
      match fst (parse s) with
      | PClose => match sh_on_parse_other sh with
                  | Some c => Some ([], l1, l2, c)
                  | None => None
                  end
      | PClientErr e rest =>
          match sh_on_parse_error sh e with
          | Some (cs, Closed) => Some (render_all p cs, l1, l2, Closed)
          | Some (cs, Open) =>
              match sh_serve_stream sh p parse orca f rest l1 l2 now with
              | Some (out, a, b, c) => Some (render_all p cs ++ out, a, b, c)
              | None => None
              end
          | None => None
          end
      | PDone r rest =>
          match sh_serve1 sh std_exec std_exec orca r l1 l2 now with
          | Some (l1', l2', cs, Closed) => Some (render_all p cs, l1', l2', Closed)
          | Some (l1', l2', cs, Open) =>
              match sh_serve_stream sh p parse orca f rest l1' l2' now with
              | Some (out, a, b, c') => Some (render_all p cs ++ out, a, b, c')
              | None => None
              end
          | None => None
          end
      end
  end.

(* the loop of C11 (proto/ReqCommon.v serve_loop), which leaves the orchestrator out: every
   dispatched request is taken to return no error. Outer None: shape not recognised *)
Fixpoint sh_serve_loop (sh : loop_shape) (p : bytes -> pout) (fuel : nat) (s : bytes)
  : option (option (list (sstep * N * list aev))) :=
  match fuel with
  | O => Some None
  | S f =>
      let '(r, tr) := p s in
      match r with
      | PClose => match sh_on_parse_other sh with
                  | Some Closed => Some (Some [(SClose, 0, tr)])
                  | _ => None
                  end
      | PClientErr e rest =>
          match sh_on_parse_error sh e with
          | Some (_, Open) =>
              match sh_serve_loop sh p f rest with
              | Some (Some l) => Some (Some ((SErr e, len rest, tr) :: l))
              | Some None => Some None
              | None => None
              end
          | _ => None
          end
      | PDone q rest =>
          match sh_after sh q None with
          | Some (_, Closed) => Some (Some [(SReq q, len rest, tr)])
          | Some (_, Open) =>
              match sh_serve_loop sh p f rest with
              | Some (Some l) => Some (Some ((SReq q, len rest, tr) :: l))
              | Some None => Some None
              | None => None
              end
          | None => None
          end
      end
  end.

(* (5) abort(toClose, err): which of the open handles stay open. [closers] are the non-nil
   elements of toClose. Defined when nothing before the loop can leave the function and the loop
   is the close-all loop. *)
Definition sh_abort_open (sh : loop_shape) (closers opened : list N) : option (list N) :=
  match summ (ab_pre (ls_abort sh)), ab_loop (ls_abort sh), summ (ab_post (ls_abort sh)) with
  | Some (mkFlow false [] XFall), CloseAllNonNil, Some (mkFlow false [] _) =>
      Some (filter (fun h => negb (existsb (N.eqb h) closers)) opened)
  | _, _, _ => None
  end.

(* the server's dispatch over a set of method bodies: the eight methods `orctrans` translates
   take the fields of their request, the others stay one function of the request. A method
   applied to a request of another struct type (the type assertion would panic) has no meaning. *)
Record methods := mkMethods {
  m_set : bytes -> bytes -> N -> N -> N -> bool -> prog;
  m_add : bytes -> bytes -> N -> N -> N -> bool -> prog;
  m_replace : bytes -> bytes -> N -> N -> N -> bool -> prog;
  m_append : bytes -> bytes -> N -> bool -> prog;
  m_prepend : bytes -> bytes -> N -> bool -> prog;
  m_delete : bytes -> N -> prog;
  m_touch : bytes -> N -> N -> prog;
  m_gat : bytes -> N -> N -> prog;
  m_rest : req -> prog
}.
Definition call_meth (ms : methods) (m : ometh) (r : req) : option prog :=
  match m, r with
  | OSet, RSet _ k d f t o q => Some (m_set ms k d f t o q)
  | OAdd, RSet _ k d f t o q => Some (m_add ms k d f t o q)
  | OReplace, RSet _ k d f t o q => Some (m_replace ms k d f t o q)
  | OAppend, RCat _ k d o q => Some (m_append ms k d o q)
  | OPrepend, RCat _ k d o q => Some (m_prepend ms k d o q)
  | ODelete, RDelete k o => Some (m_delete ms k o)
  | OTouch, RTouch k t o => Some (m_touch ms k t o)
  | OGat, RGat k t o => Some (m_gat ms k t o)
  | OGet, RGet _ _ _ | OGetE, RGetE _ _ _ | ONoop, RNoop _ | OQuit, RQuit _ _
  | OVersion, RVersion _ | OStat, RStat _ | OUnknown, RUnknown => Some (m_rest ms r)
  | _, _ => None
  end.
Definition sh_dispatch (sh : loop_shape) (ms : methods) (r : req) : option prog :=
  match find_case (ls_dispatch sh) (rtype r) with
  | Some body =>
      match summ body with
      | Some (mkFlow _ [EvCall m a _] _) => if arg_ok a then call_meth ms m r else None
      | _ => None
      end
  | None => None
  end.

(* a parser that reports as client errors only errors the loop continues after *)
Definition client_errs_only (sh : loop_shape) (parse : bytes -> pout) : Prop :=
  forall s e rest, fst (parse s) = PClientErr e rest ->
    match ls_parse_rule sh with PRule errs _ _ => In e errs | _ => False end.
