(* BinReqProofs.v — proofs about proto/BinReq.v: round trip of the supported subset (C07),
   progress, allocation discipline and rejection of inconsistent frames (C11). *)
From Rend Require Import base.Bytes gen.Consts_gen spec.MapSpec orca.Types proto.Resp
  proto.ReqCommon proto.ReqCommonProofs proto.BinReq.
Open Scope N_scope.

(* ---------------- header ---------------- *)
Lemma read_hdr_explicit m op k1 k2 e x5 x6 x7 t1 t2 t3 t4 o1 o2 o3 o4 c1 c2 c3 c4 c5 c6 c7 c8 rest :
  read_hdr ([m; op; k1; k2; e; x5; x6; x7; t1; t2; t3; t4; o1; o2; o3; o4; c1; c2; c3; c4; c5; c6; c7; c8] ++ rest)
  = if m =? magicRequest
    then Some (mkHdr op (k1 * 256 + k2) e (t1 * 16777216 + t2 * 65536 + t3 * 256 + t4)
                     (o1 * 16777216 + o2 * 65536 + o3 * 256 + o4), rest)
    else None.
Proof.
  unfold read_hdr.
  change reqHeaderLen with (len [m; op; k1; k2; e; x5; x6; x7; t1; t2; t3; t4; o1; o2; o3; o4; c1; c2; c3; c4; c5; c6; c7; c8]).
  rewrite read_n_app. reflexivity.
Qed.

Lemma read_hdr_enc op k e t o rest :
  k < 65536 -> t < 4294967296 -> o < 4294967296 ->
  read_hdr (enc_hdr op k e t o ++ rest) = Some (mkHdr op k e t o, rest).
Proof.
  intros Hk Ht Ho.
  etransitivity; [exact (read_hdr_explicit magicRequest op ((k / 256) mod 256) (k mod 256) e 0 0 0
                          ((t / 16777216) mod 256) ((t / 65536) mod 256) ((t / 256) mod 256) (t mod 256)
                          ((o / 16777216) mod 256) ((o / 65536) mod 256) ((o / 256) mod 256) (o mod 256)
                          0 0 0 0 0 0 0 0 rest)|].
  f_equal. f_equal. f_equal; lia.
Qed.

Lemma enc_hdr_length op k e t o : length (enc_hdr op k e t o) = 24%nat.
Proof. reflexivity. Qed.

Lemma rd32_u32be' x : x < 4294967296 -> rd32 (u32be x) = x.
Proof. intros H. unfold rd32, u32be. lia. Qed.

Lemma read_u32 x rest : read_n (u32be x ++ rest) 4 = Some (u32be x, rest).
Proof. exact (read_n_app (u32be x) rest). Qed.

Lemma read_hdr_length s h s1 : read_hdr s = Some (h, s1) -> (length s = 24 + length s1)%nat.
Proof.
  unfold read_hdr. destruct (read_n s reqHeaderLen) as [[b s']|] eqn:R; [|discriminate].
  destruct (nth 0 b 0 =? magicRequest); [|discriminate]. intros H. inversion H; subst.
  apply read_n_length in R. exact R.
Qed.

(* ---------------- dispatch ---------------- *)
Lemma dispatch_set c m q h s : h_op h = set_opcode m q -> bin_dispatch c h s = bin_set c m q h s.
Proof. intros E. unfold bin_dispatch. rewrite E. destruct m, q; reflexivity. Qed.
Lemma dispatch_cat c fr q h s : h_op h = cat_opcode fr q -> bin_dispatch c h s = bin_cat c fr q h s.
Proof. intros E. unfold bin_dispatch. rewrite E. destruct fr, q; reflexivity. Qed.
Lemma dispatch_getq c h s : h_op h = opGetQ ->
  bin_dispatch c h s = bin_batch RGet opGetQ opGet (S (length s)) h s [].
Proof. intros E. unfold bin_dispatch. rewrite E. reflexivity. Qed.
Lemma dispatch_geteq c h s : h_op h = opGetEQ ->
  bin_dispatch c h s = bin_batch RGetE opGetEQ opGetE (S (length s)) h s [].
Proof. intros E. unfold bin_dispatch. rewrite E. reflexivity. Qed.

Lemma dispatch_delete c h s : h_op h = opDelete ->
  bin_dispatch c h s = bin_key (fun k => RDelete k (h_opaque h)) h s.
Proof. intros E. unfold bin_dispatch. rewrite E. reflexivity. Qed.
Lemma dispatch_touch c h s : h_op h = opTouch ->
  bin_dispatch c h s = bin_exp_key (fun k t => RTouch k t (h_opaque h)) h s.
Proof. intros E. unfold bin_dispatch. rewrite E. reflexivity. Qed.
Lemma dispatch_gat c h s : h_op h = opGat ->
  bin_dispatch c h s = bin_exp_key (fun k t => RGat k t (h_opaque h)) h s.
Proof. intros E. unfold bin_dispatch. rewrite E. reflexivity. Qed.

(* ---------------- well-formedness, unpacked ---------------- *)
Lemma key_okb_spec k : key_okb k = true -> 1 <= len k /\ len k < 65536.
Proof. unfold key_okb. intros H. lia. Qed.
Lemma u32b_spec x : u32b x = true -> x < 4294967296.
Proof. unfold u32b. lia. Qed.

(* ---------------- quiet-get batches ---------------- *)
Lemma enc_get_item_length qop fop g : (24 <= length (enc_get_item qop fop g))%nat.
Proof. unfold enc_get_item. rewrite app_length, enc_hdr_length. lia. Qed.

Section Batch.
Variables (mk : list gitem -> N -> bool -> req) (qop fop : N).
Hypothesis Hqf : (fop =? qop) = false.
Hypothesis Hnq : (opNoop =? qop) = false.
Hypothesis Hnf : (opNoop =? fop) = false.

Lemma batch_roundtrip : forall r g acc fuel ne no rest,
  batch_okb (g :: r) ne = true -> no < 4294967296 -> (ne = false -> no = 0) ->
  (length r + 2 <= fuel)%nat ->
  fst (bin_batch mk qop fop fuel
         (mkHdr (if gi_quiet g then qop else fop) (len (gi_key g)) 0 (len (gi_key g)) (gi_opaque g))
         (gi_key g ++ concat (map (enc_get_item qop fop) r) ++ (if ne then enc_hdr opNoop 0 0 0 no else []) ++ rest)
         acc)
  = PDone (mk (rev acc ++ g :: r) no ne) rest.
Proof.
  induction r as [|g2 r IH]; intros g acc fuel ne no rest W Hno Hne F.
  - cbn [batch_okb] in W. destruct g as [k o q]. cbn [gi_key gi_opaque gi_quiet] in *.
    apply andb_true_iff in W. destruct W as [W Q]. apply andb_true_iff in W. destruct W as [K O].
    apply eqb_prop in Q. subst q.
    destruct fuel as [|f]; [cbn in F; lia|]. cbn [map concat app bin_batch h_op h_klen h_opaque].
    destruct ne.
    + rewrite N.eqb_refl, read_n_app.
      apply key_okb_spec in K. apply u32b_spec in O.
      rewrite read_hdr_enc by lia. unfold pre. cbn [fst].
      destruct f as [|f]; [cbn in F; lia|]. cbn [bin_batch h_op h_opaque].
      rewrite Hnq, Hnf, N.eqb_refl. cbn [fst rev]. reflexivity.
    + rewrite Hqf, N.eqb_refl, read_n_app. cbn [fst rev]. rewrite (Hne eq_refl). reflexivity.
  - assert (W' := W). cbn [batch_okb] in W.
    apply andb_true_iff in W. destruct W as [W W2].
    apply andb_true_iff in W. destruct W as [W Q].
    apply andb_true_iff in W. destruct W as [K O].
    rewrite Q. destruct fuel as [|f]; [cbn in F; lia|].
    cbn [bin_batch h_op h_klen h_opaque]. rewrite N.eqb_refl.
    cbn [map concat]. rewrite read_n_app.
    unfold enc_get_item at 1. rewrite <- !app_assoc.
    assert (K2 : key_okb (gi_key g2) = true /\ u32b (gi_opaque g2) = true).
    { destruct r; cbn [batch_okb] in W2.
      - apply andb_true_iff in W2. destruct W2 as [W3 _]. apply andb_true_iff in W3. exact W3.
      - apply andb_true_iff in W2. destruct W2 as [W3 _]. apply andb_true_iff in W3. destruct W3 as [W3 _].
        apply andb_true_iff in W3. exact W3. }
    destruct K2 as [K2 O2]. apply key_okb_spec in K2. apply u32b_spec in O2.
    rewrite read_hdr_enc by lia. unfold pre. cbn [fst].
    rewrite (IH g2 (mkGI (gi_key g) (gi_opaque g) true :: acc) f ne no rest W2 Hno Hne) by (cbn [length] in F; lia).
    cbn [rev]. rewrite <- app_assoc. cbn [app].
    destruct g as [k o q]. cbn [gi_quiet gi_key gi_opaque] in *. subst q. reflexivity.
Qed.
End Batch.

(* ---------------- round trip ---------------- *)
Ltac split_andb H :=
  repeat match type of H with
         | (_ && _) = true => let H2 := fresh "W" in apply andb_true_iff in H; destruct H as [H H2]
         end.
Lemma get_roundtrip (mk : list gitem -> N -> bool -> req) (qop fop : N) items no ne rest :
  (fop =? qop) = false -> (opNoop =? qop) = false -> (opNoop =? fop) = false ->
  (forall c h s, h_op h = qop -> bin_dispatch c h s = bin_batch mk qop fop (S (length s)) h s []) ->
  (forall c h s, h_op h = fop ->
     bin_dispatch c h s = bin_key (fun k => mk [mkGI k (h_opaque h) false] 0 false) h s) ->
  get_okb items no ne = true ->
  fst (parse_bin (enc_get qop fop items no ne ++ rest)) = PDone (mk items no ne) rest.
Proof.
  intros Hqf Hnq Hnf Dq Df W. unfold get_okb in W.
  apply andb_true_iff in W. destruct W as [W Z]. apply andb_true_iff in W. destruct W as [B O].
  apply u32b_spec in O.
  destruct items as [|g r]; [discriminate|].
  assert (K : key_okb (gi_key g) = true /\ u32b (gi_opaque g) = true).
  { destruct r; cbn [batch_okb] in B.
    - apply andb_true_iff in B. destruct B as [B _]. apply andb_true_iff in B. exact B.
    - apply andb_true_iff in B. destruct B as [B _]. apply andb_true_iff in B. destruct B as [B _].
      apply andb_true_iff in B. exact B. }
  destruct K as [K Og]. pose proof (key_okb_spec _ K) as Kl. apply u32b_spec in Og.
  unfold parse_bin, parse_bin_gen, enc_get. cbn [map concat]. unfold enc_get_item at 1.
  rewrite <- !app_assoc. rewrite read_hdr_enc by lia. unfold pre. cbn [fst].
  destruct (gi_quiet g) eqn:Q.
  - rewrite Dq by reflexivity.
    pose proof (batch_roundtrip mk qop fop Hqf Hnq Hnf r g [] (S (length
       (gi_key g ++ concat (map (enc_get_item qop fop) r) ++ (if ne then enc_hdr opNoop 0 0 0 no else []) ++ rest)))
       ne no rest B O) as BR.
    rewrite Q in BR. rewrite BR; [reflexivity | |].
    + intros ->. cbn [orb] in Z. lia.
    + rewrite !app_length.
      assert (length r <= length (concat (map (enc_get_item qop fop) r)))%nat.
      { apply length_concat_ge. intros x _ E. pose proof (enc_get_item_length qop fop x) as L. rewrite E in L. cbn in L. lia. }
      destruct (gi_key g); [cbn in Kl; lia|]. cbn [length]. lia.
  - (* a single plain get *)
    destruct r as [|g2 r].
    + cbn [batch_okb] in B. rewrite Q in B.
      apply andb_true_iff in B. destruct B as [_ B]. destruct ne; [discriminate|].
      cbn [orb] in Z. apply N.eqb_eq in Z. subst no.
      rewrite Df by reflexivity. unfold bin_key. cbn [h_klen h_opaque map concat app].
      rewrite read_n_app. cbn [fst]. destruct g as [k o q]. cbn in Q. subst q. reflexivity.
    + cbn [batch_okb] in B. rewrite Q in B. rewrite andb_false_r in B. discriminate.
Qed.

Theorem bin_roundtrip : forall r rest,
  wf_bin r = true -> fst (parse_bin (enc_bin r ++ rest)) = PDone r rest.
Proof.
  intros r rest W. destruct r; cbn [wf_bin] in W; try discriminate; cbn [enc_bin].
  - (* set/add/replace *)
    split_andb W.
    apply key_okb_spec in W.
    repeat match goal with H : u32b _ = true |- _ => apply u32b_spec in H end.
    assert (8 + len k + len d < 4294967296) as T by lia.
    unfold parse_bin, parse_bin_gen. rewrite <- !app_assoc. rewrite read_hdr_enc by lia.
    unfold pre. cbn [fst]. rewrite dispatch_set with (m := m) (q := quiet) by reflexivity.
    unfold bin_set. cbn [h_total h_elen h_klen h_opaque andb].
    destruct (8 + len k + len d <? 8 + len k) eqn:G; [lia|].
    rewrite read_u32, read_u32, read_n_app.
    replace ((8 + len k + len d + two32 - 8 - len k) mod two32) with (len d) by (unfold two32; lia).
    rewrite read_n_app. cbn [fst]. rewrite !rd32_u32be' by assumption. reflexivity.
  - (* append/prepend *)
    split_andb W.
    apply key_okb_spec in W.
    repeat match goal with H : u32b _ = true |- _ => apply u32b_spec in H end.
    assert (len k + len d < 4294967296) as T by lia.
    unfold parse_bin, parse_bin_gen. rewrite <- !app_assoc. rewrite read_hdr_enc by lia.
    unfold pre. cbn [fst]. rewrite dispatch_cat with (fr := front) (q := quiet) by reflexivity.
    unfold bin_cat. cbn [h_total h_elen h_klen h_opaque andb].
    destruct (len k + len d <? len k) eqn:G; [lia|].
    rewrite read_n_app.
    replace ((len k + len d + two32 - len k) mod two32) with (len d) by (unfold two32; lia).
    rewrite read_n_app. reflexivity.
  - (* delete *)
    apply andb_true_iff in W. destruct W as [K O]. apply key_okb_spec in K. apply u32b_spec in O.
    unfold parse_bin, parse_bin_gen. rewrite <- !app_assoc. rewrite read_hdr_enc by lia.
    unfold pre. cbn [fst]. rewrite dispatch_delete by reflexivity.
    unfold bin_key. cbn [h_klen h_opaque]. rewrite read_n_app. reflexivity.
  - (* touch *)
    split_andb W.
    apply key_okb_spec in W.
    repeat match goal with H : u32b _ = true |- _ => apply u32b_spec in H end.
    unfold parse_bin, parse_bin_gen. rewrite <- !app_assoc. rewrite read_hdr_enc by lia.
    unfold pre. cbn [fst]. rewrite dispatch_touch by reflexivity.
    unfold bin_exp_key. cbn [h_klen h_opaque].
    rewrite read_u32, read_n_app. cbn [fst]. rewrite rd32_u32be' by assumption. reflexivity.
  - (* gat *)
    split_andb W.
    apply key_okb_spec in W.
    repeat match goal with H : u32b _ = true |- _ => apply u32b_spec in H end.
    unfold parse_bin, parse_bin_gen. rewrite <- !app_assoc. rewrite read_hdr_enc by lia.
    unfold pre. cbn [fst]. rewrite dispatch_gat by reflexivity.
    unfold bin_exp_key. cbn [h_klen h_opaque].
    rewrite read_u32, read_n_app. cbn [fst]. rewrite rd32_u32be' by assumption. reflexivity.
  - (* get batch *)
    apply get_roundtrip; try reflexivity; try exact W.
    + intros c h s E. apply dispatch_getq, E.
    + intros c h s E. unfold bin_dispatch. rewrite E. reflexivity.
  - (* gete batch *)
    apply get_roundtrip; try reflexivity; try exact W.
    + intros c h s E. apply dispatch_geteq, E.
    + intros c h s E. unfold bin_dispatch. rewrite E. reflexivity.
  - apply u32b_spec in W. unfold parse_bin, parse_bin_gen. rewrite read_hdr_enc by lia. reflexivity.
  - apply u32b_spec in W. unfold parse_bin, parse_bin_gen. rewrite read_hdr_enc by lia. destruct quiet; reflexivity.
  - apply u32b_spec in W. unfold parse_bin, parse_bin_gen. rewrite read_hdr_enc by lia. reflexivity.
  - apply u32b_spec in W. unfold parse_bin, parse_bin_gen. rewrite read_hdr_enc by lia. reflexivity.
Qed.

Lemma enc_bin_nonempty r : wf_bin r = true -> enc_bin r <> [].
Proof.
  intros W E. pose proof (bin_roundtrip r [] W) as RT. rewrite E in RT. cbn in RT. discriminate.
Qed.

Theorem bin_pipeline rs :
  forallb wf_bin rs = true -> parse_all parse_bin (concat (map enc_bin rs)) = Some rs.
Proof. apply parse_all_roundtrip; [exact bin_roundtrip | exact enc_bin_nonempty]. Qed.

(* ================= C11: progress, allocation, inconsistent frames ================= *)
Definition rest_le (o : pout) (s : bytes) : Prop :=
  match fst o with
  | PDone _ rest | PClientErr _ rest => (length rest <= length s)%nat
  | PClose => True
  end.

Ltac rn :=
  repeat match goal with
         | |- context [match read_n ?s ?n with _ => _ end] =>
             let R := fresh "R" in
             destruct (read_n s n) as [[? ?]|] eqn:R; [apply read_n_length in R|]
         end.

Lemma bin_set_rest c m q h s : rest_le (bin_set c m q h s) s.
Proof.
  unfold bin_set, rest_le. destruct (c && (h_total h <? h_elen h + h_klen h)); [exact I|].
  rn; cbn [fst]; try exact I. lia.
Qed.
Lemma bin_cat_rest c fr q h s : rest_le (bin_cat c fr q h s) s.
Proof.
  unfold bin_cat, rest_le. destruct (c && (h_total h <? h_klen h)); [exact I|].
  rn; cbn [fst]; try exact I. lia.
Qed.
Lemma bin_key_rest mk h s : rest_le (bin_key mk h s) s.
Proof. unfold bin_key, rest_le. rn; cbn [fst]; try exact I. lia. Qed.
Lemma bin_exp_key_rest mk h s : rest_le (bin_exp_key mk h s) s.
Proof. unfold bin_exp_key, rest_le. rn; cbn [fst]; try exact I. lia. Qed.

Lemma bin_batch_rest mk qop fop : forall fuel h s acc, rest_le (bin_batch mk qop fop fuel h s acc) s.
Proof.
  induction fuel as [|f IH]; intros h s acc; [exact I|].
  cbn [bin_batch]. destruct (h_op h =? qop).
  - destruct (read_n s (h_klen h)) as [[k s1]|] eqn:R; [|exact I].
    apply read_n_length in R.
    destruct (read_hdr s1) as [[h' s2]|] eqn:H; [|exact I].
    apply read_hdr_length in H. specialize (IH h' s2 (mkGI k (h_opaque h) true :: acc)).
    unfold rest_le, pre in *. cbn [fst] in *.
    destruct (fst (bin_batch mk qop fop f h' s2 (mkGI k (h_opaque h) true :: acc))); try exact I; lia.
  - destruct (h_op h =? fop).
    + unfold rest_le. rn; cbn [fst]; try exact I. lia.
    + destruct (h_op h =? opNoop); unfold rest_le; cbn [fst]; lia.
Qed.

Lemma bin_dispatch_rest c h s : rest_le (bin_dispatch c h s) s.
Proof.
  unfold bin_dispatch.
  repeat match goal with
         | |- rest_le (if ?b then _ else _) _ => destruct b
         end;
    first [ apply bin_set_rest | apply bin_cat_rest | apply bin_key_rest | apply bin_exp_key_rest
          | apply bin_batch_rest | (unfold rest_le; cbn [fst]; first [exact I | lia]) ].
Qed.

Theorem bin_progress c : progresses (parse_bin_gen c).
Proof.
  intros s. unfold parse_bin_gen.
  destruct (read_hdr s) as [[h s1]|] eqn:H; [|exact I].
  apply read_hdr_length in H. pose proof (bin_dispatch_rest c h s1) as D.
  unfold rest_le, pre in *. cbn [fst].
  destruct (fst (bin_dispatch c h s1)); try exact I; lia.
Qed.

(* ---- allocation ---- *)
Ltac fa := repeat (apply Forall_cons; [assumption|]); try apply Forall_nil.
Definition hdr_ok (h : hdr) : Prop := h_klen h < 65536 /\ h_elen h < 256 /\ h_total h < 4294967296.

Lemma bytes_ok_app a b : bytes_ok (a ++ b) <-> bytes_ok a /\ bytes_ok b.
Proof. unfold bytes_ok. apply Forall_app. Qed.

Lemma read_n_ok s n a r : bytes_ok s -> read_n s n = Some (a, r) -> bytes_ok a /\ bytes_ok r.
Proof. intros B R. apply read_n_some in R. destruct R as [-> _]. apply bytes_ok_app, B. Qed.

Lemma read_hdr_ok s h s1 : bytes_ok s -> read_hdr s = Some (h, s1) -> hdr_ok h /\ bytes_ok s1.
Proof.
  intros B. unfold read_hdr.
  destruct (read_n s reqHeaderLen) as [[b s']|] eqn:R; [|discriminate].
  destruct (read_n_ok _ _ _ _ B R) as [Bb Bs].
  apply read_n_some in R. destruct R as [_ L].
  destruct (nth 0 b 0 =? magicRequest); [|discriminate]. intros H. inversion H; subst. clear H.
  split; [|exact Bs].
  do 24 (destruct b as [|? b]; [cbn in L; discriminate|]).
  unfold bytes_ok in Bb.
  repeat match goal with H : Forall _ (_ :: _) |- _ => inversion H; clear H; subst end.
  cbv [hdr_ok h_klen h_elen h_total rd16 rd32 drop skipn N.to_nat Pos.to_nat Pos.iter_op Nat.add nth]. lia.
Qed.

Lemma aev_good_trivial a : match a with AKey _ | AData _ _ _ _ => False | _ => True end -> aev_good a.
Proof. destruct a; intros H; try contradiction; split; exact I. Qed.

Lemma bin_set_alloc m q h s : hdr_ok h -> Forall aev_good (snd (bin_set true m q h s)).
Proof.
  intros (Hk & He & Ht). unfold bin_set. cbn [andb].
  destruct (h_total h <? h_elen h + h_klen h) eqn:G; [constructor|].
  apply N.ltb_ge in G.
  assert (aev_good AWord) as GW by (split; exact I).
  assert (aev_good (AKey (h_klen h))) as GK by (split; [exact I | exact Hk]).
  assert (aev_good (AData (h_total h) (h_elen h) (h_klen h) ((h_total h + two32 - h_elen h - h_klen h) mod two32))) as GD.
  { split; cbn; unfold two32; lia. }
  rn; cbn [snd]; fa.
Qed.

Lemma bin_cat_alloc fr q h s : hdr_ok h -> Forall aev_good (snd (bin_cat true fr q h s)).
Proof.
  intros (Hk & He & Ht). unfold bin_cat. cbn [andb].
  destruct (h_total h <? h_klen h) eqn:G; [constructor|].
  apply N.ltb_ge in G.
  assert (aev_good (AKey (h_klen h))) as GK by (split; [exact I | exact Hk]).
  assert (aev_good (AData (h_total h) 0 (h_klen h) ((h_total h + two32 - h_klen h) mod two32))) as GD.
  { split; cbn; unfold two32; lia. }
  rn; cbn [snd]; fa.
Qed.

Lemma bin_key_alloc mk h s : hdr_ok h -> Forall aev_good (snd (bin_key mk h s)).
Proof.
  intros (Hk & _). unfold bin_key.
  assert (aev_good (AKey (h_klen h))) as GK by (split; [exact I | exact Hk]).
  rn; cbn [snd]; fa.
Qed.
Lemma bin_exp_key_alloc mk h s : hdr_ok h -> Forall aev_good (snd (bin_exp_key mk h s)).
Proof.
  intros (Hk & _). unfold bin_exp_key.
  assert (aev_good AWord) as GW by (split; exact I).
  assert (aev_good (AKey (h_klen h))) as GK by (split; [exact I | exact Hk]).
  rn; cbn [snd]; fa.
Qed.

Lemma bin_batch_alloc mk qop fop : forall fuel h s acc,
  hdr_ok h -> bytes_ok s -> Forall aev_good (snd (bin_batch mk qop fop fuel h s acc)).
Proof.
  induction fuel as [|f IH]; intros h s acc Hh Bs; [constructor|].
  cbn [bin_batch].
  assert (aev_good (AKey (h_klen h))) as GK by (split; [exact I | apply Hh]).
  assert (aev_good AHdr) as GH by (split; exact I).
  destruct (h_op h =? qop).
  - destruct (read_n s (h_klen h)) as [[k s1]|] eqn:R; [|cbn [snd]; fa].
    destruct (read_n_ok _ _ _ _ Bs R) as [_ B1].
    destruct (read_hdr s1) as [[h' s2]|] eqn:H; [|cbn [snd]; fa].
    destruct (read_hdr_ok _ _ _ B1 H) as [Hh' B2].
    unfold pre. cbn [snd app]. fa. apply IH; assumption.
  - destruct (h_op h =? fop).
    + destruct (read_n s (h_klen h)) as [[k s1]|]; cbn [snd]; fa.
    + destruct (h_op h =? opNoop); constructor.
Qed.

Lemma bin_dispatch_alloc h s : hdr_ok h -> bytes_ok s -> Forall aev_good (snd (bin_dispatch true h s)).
Proof.
  intros Hh Bs. unfold bin_dispatch.
  repeat match goal with
         | |- Forall _ (snd (if ?b then _ else _)) => destruct b
         end;
    first [ apply bin_set_alloc, Hh | apply bin_cat_alloc, Hh | apply bin_key_alloc, Hh
          | apply bin_exp_key_alloc, Hh | (apply bin_batch_alloc; assumption) | constructor ].
Qed.

Theorem bin_alloc s : bytes_ok s -> Forall aev_good (snd (parse_bin s)).
Proof.
  intros B. unfold parse_bin, parse_bin_gen.
  assert (aev_good AHdr) as GH by (split; exact I).
  destruct (read_hdr s) as [[h s1]|] eqn:H; [|cbn [snd]; fa].
  destruct (read_hdr_ok _ _ _ B H) as [Hh B1].
  unfold pre. cbn [snd app]. constructor; [exact GH|]. apply bin_dispatch_alloc; assumption.
Qed.

Lemma aev_consistent_size a : aev_consistent a -> asize a <= adeclared a.
Proof.
  destruct a; cbn; intros H; try lia.
  destruct H as [H ->]. destruct (extras + key <=? total) eqn:E; lia.
Qed.

(* ---- inconsistent frames ---- *)
Lemma is_set_op_spec op : is_set_op op = true -> exists m q, op = set_opcode m q.
Proof.
  unfold is_set_op. cbn [existsb]. intros H.
  repeat (apply orb_true_iff in H; destruct H as [H|H]); try discriminate; apply N.eqb_eq in H; subst.
  - exists MSet, false; reflexivity.
  - exists MSet, true; reflexivity.
  - exists MAdd, false; reflexivity.
  - exists MAdd, true; reflexivity.
  - exists MReplace, false; reflexivity.
  - exists MReplace, true; reflexivity.
Qed.
Lemma is_cat_op_spec op : is_cat_op op = true -> exists fr q, op = cat_opcode fr q.
Proof.
  unfold is_cat_op. cbn [existsb]. intros H.
  repeat (apply orb_true_iff in H; destruct H as [H|H]); try discriminate; apply N.eqb_eq in H; subst.
  - exists false, false; reflexivity.
  - exists false, true; reflexivity.
  - exists true, false; reflexivity.
  - exists true, true; reflexivity.
Qed.

(* a store frame whose total body is shorter than extras + key (append/prepend: shorter
   than the key) is refused right after its header: nothing is allocated, nothing more is
   read, the connection is closed *)
Theorem bin_inconsistent s h s1 :
  read_hdr s = Some (h, s1) ->
  (is_set_op (h_op h) = true /\ h_total h < h_elen h + h_klen h) \/
  (is_cat_op (h_op h) = true /\ h_total h < h_klen h) ->
  parse_bin s = (PClose, [AHdr]).
Proof.
  intros H [[S L]|[S L]]; unfold parse_bin, parse_bin_gen; rewrite H.
  - apply is_set_op_spec in S. destruct S as (m & q & E).
    rewrite (dispatch_set true m q h s1 E). unfold bin_set. cbn [andb].
    destruct (h_total h <? h_elen h + h_klen h) eqn:G; [reflexivity | lia].
  - apply is_cat_op_spec in S. destruct S as (fr & q & E).
    rewrite (dispatch_cat true fr q h s1 E). unfold bin_cat. cbn [andb].
    destruct (h_total h <? h_klen h) eqn:G; [reflexivity | lia].
Qed.

Theorem bin_resegmented rs (segs : list bytes) :
  forallb wf_bin rs = true -> concat segs = concat (map enc_bin rs) ->
  parse_all parse_bin (concat segs) = Some rs.
Proof. apply parse_all_resegmented; [exact bin_roundtrip | exact enc_bin_nonempty]. Qed.

Theorem bin_never_spins s : exists l, serve parse_bin s = Some l.
Proof. apply serve_total, bin_progress. Qed.

Theorem bin_alloc_sizes s : bytes_ok s -> Forall (fun a => asize a <= adeclared a) (snd (parse_bin s)).
Proof.
  intros B. eapply Forall_impl; [|apply bin_alloc, B]. intros a [C _]. apply aev_consistent_size, C.
Qed.
