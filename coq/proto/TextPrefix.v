(* TextPrefix.v — the text parser and streams that end early. A request decoded from a stream
   is decoded, field for field, from every extension of that stream ([text_extension]); so a
   proper prefix of a well-formed text request decodes to nothing or - when only the "\r\n"
   after a complete data block is missing, which setRequest discards without looking at it -
   to that very request, never to a different one ([text_prefix_same_or_nothing]).
   Proofs about proto/TextReq.v. *)
From Rend Require Import base.Bytes gen.Consts_gen spec.MapSpec orca.Types proto.Resp proto.ReqCommon
  proto.ReqCommonProofs proto.BinPrefix proto.TextReq proto.TextReqProofs.
Open Scope N_scope.

Lemma read_line_ext s : forall l r b, read_line s = Some (l, r) -> read_line (s ++ b) = Some (l, r ++ b).
Proof.
  induction s as [|x s IH]; intros l r b H; cbn [read_line app] in *; [discriminate|].
  destruct (x =? 10); [inversion H; subst; reflexivity|].
  destruct (read_line s) as [[l' r']|] eqn:R; [|discriminate].
  inversion H; subst. rewrite (IH _ _ b eq_refl). reflexivity.
Qed.

(* same request, possibly another remainder *)
Definition same_req (o o' : pout) : Prop :=
  forall r rest, fst o = PDone r rest -> exists rest', fst o' = PDone r rest'.

Lemma text_store_ext mk parts s b : same_req (text_store mk parts s) (text_store mk parts (s ++ b)).
Proof.
  unfold text_store, same_req.
  repeat match goal with
         | |- context [match ?p with [] => _ | _ :: _ => _ end] => destruct p; try (cbn [fst]; intros; discriminate)
         end.
  repeat match goal with
         | |- context [match field_u32 ?f with _ => _ end] => destruct (field_u32 f); try (cbn [fst]; intros; discriminate)
         end.
  match goal with
  | |- context [match read_n s ?n with _ => _ end] =>
      destruct (read_n s n) as [[d s1]|] eqn:R; [rewrite (read_n_ext _ _ _ _ b R)|cbn [fst]; intros; discriminate]
  end.
  intros r rest H.
  destruct (read_line s1) as [[tl s2]|]; cbn [fst] in H; inversion H; subst;
    destruct (read_line (s1 ++ b)) as [[tl' s2']|]; cbn [fst]; eexists; reflexivity.
Qed.

Lemma text_dispatch_ext parts s b : same_req (text_dispatch parts s) (text_dispatch parts (s ++ b)).
Proof.
  unfold text_dispatch. destruct parts as [|c args]; [unfold same_req; cbn [fst]; intros r rest H; inversion H; subst; eexists; reflexivity|].
  repeat match goal with
         | |- same_req (if ?x then _ else _) _ => destruct x
         end;
    try apply text_store_ext;
    unfold same_req;
    repeat match goal with
           | |- context [match ?p with [] => _ | _ :: _ => _ end] => destruct p
           | |- context [match field_u32 ?f with _ => _ end] => destruct (field_u32 f)
           end;
    cbn [fst]; intros r rest H; first [discriminate | inversion H; subst; eexists; reflexivity].
Qed.

Theorem text_extension s b r rest :
  fst (parse_text s) = PDone r rest -> exists rest', fst (parse_text (s ++ b)) = PDone r rest'.
Proof.
  unfold parse_text.
  destruct (read_line s) as [[l s1]|] eqn:R; [|cbn [fst]; intros; discriminate].
  rewrite (read_line_ext _ _ _ b R). unfold pre. cbn [fst]. apply text_dispatch_ext.
Qed.

Theorem text_prefix_same_or_nothing r a b :
  wf_text r = true -> enc_text r = a ++ b ->
  forall r' rest, fst (parse_text a) = PDone r' rest -> r' = r.
Proof.
  intros Hwf He r' rest H.
  destruct (text_extension a b r' rest H) as [rest' H']. rewrite <- He in H'.
  pose proof (text_roundtrip r [] Hwf) as RT. rewrite app_nil_r in RT. rewrite RT in H'.
  inversion H'; reflexivity.
Qed.
