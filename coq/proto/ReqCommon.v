(* ReqCommon.v — what the two request parsers share: the result of one Parse call as
   DefaultServer.Loop sees it, the allocation/demand trace (C11), io.ReadAtLeast on the
   concatenated stream, request equality, the protocol selection loop of server/listen.go and
   the parse-until-closed loop of server/default.go. Definitions only. *)
From Rend Require Import base.Bytes gen.Consts_gen spec.MapSpec orca.Types proto.Resp.
Open Scope N_scope.

(* One call of RequestParser.Parse, classified the way DefaultServer.Loop treats it:
   PDone      — err == nil: the request is dispatched, the loop goes on with the next byte;
   PClientErr — err is one of ErrBadRequest/ErrBadLength/ErrBadFlags/ErrBadExptime:
                orca.Error(nil, RequestUnknown, err) is sent and the loop continues;
   PClose     — any other error (EOF, short read, bad magic, unknown binary opcode,
                ErrInternal): abort, the connection is closed. *)
Inductive pres :=
| PDone (r : req) (rest : bytes)
| PClientErr (e : N) (rest : bytes)
| PClose.

(* What the parser allocates / asks the reader for, in program order. *)
Inductive aev :=
| AHdr                              (* readRequestHeader: ReadAtLeast 24 into a pooled buffer *)
| AWord                             (* readUInt32: make([]byte,4), ReadAtLeast 4 *)
| AKey (k : N)                      (* readString: make([]byte,KeyLength), ReadAtLeast KeyLength *)
| AData (total extras key n : N)    (* make([]byte,n) + ReadAtLeast n under a header declaring
                                       TotalBodyLength/ExtraLength/KeyLength (extras given as 0
                                       where the code does not subtract them) *)
| ALine (n : N)                     (* bufio ReadString('\n'): n bytes received and kept *)
| ATextData (n : N).                (* text data block: make([]byte,length), ReadAtLeast length *)

Definition asize (a : aev) : N :=
  match a with
  | AHdr => 24 | AWord => 4 | AKey k => k | AData _ _ _ n => n | ALine n => n | ATextData n => n
  end.
(* what the frame declares, consistently, for that buffer *)
Definition adeclared (a : aev) : N :=
  match a with
  | AHdr => 24 | AWord => 4 | AKey k => k
  | AData t e k _ => if e + k <=? t then t - e - k else 0
  | ALine n => n | ATextData n => n
  end.
(* the arithmetic content of "consistent" *)
Definition aev_consistent (a : aev) : Prop :=
  match a with AData t e k n => e + k <= t /\ n = t - e - k | _ => True end.

Definition pout := (pres * list aev)%type.
Definition pre (evs : list aev) (o : pout) : pout := (fst o, evs ++ snd o).

(* io.ReadAtLeast(r, make([]byte,n), n) on the rest of the stream [s] followed by EOF:
   the n bytes and what follows them, or failure when fewer than n remain. n = 0 succeeds
   without touching the reader. Recursion on the stream, so a bogus 4 GiB n costs nothing. *)
Fixpoint read_n (s : bytes) (n : N) : option (bytes * bytes) :=
  if n =? 0 then Some ([], s)
  else match s with
       | [] => None
       | b :: r => match read_n r (N.pred n) with
                   | Some (a, rest) => Some (b :: a, rest)
                   | None => None
                   end
       end.

(* ---- request equality (for the checks) ---- *)
Definition smode_eqb (a b : smode) : bool :=
  match a, b with MSet, MSet | MAdd, MAdd | MReplace, MReplace => true | _, _ => false end.
Definition gitem_eqb (a b : gitem) : bool :=
  bytes_eqb (gi_key a) (gi_key b) && (gi_opaque a =? gi_opaque b) && Bool.eqb (gi_quiet a) (gi_quiet b).
Fixpoint gitems_eqb (a b : list gitem) : bool :=
  match a, b with
  | [], [] => true
  | x :: a', y :: b' => gitem_eqb x y && gitems_eqb a' b'
  | _, _ => false
  end.
Definition req_eqb (a b : req) : bool :=
  match a, b with
  | RSet m k d f t o q, RSet m' k' d' f' t' o' q' =>
      smode_eqb m m' && bytes_eqb k k' && bytes_eqb d d' && (f =? f') && (t =? t') && (o =? o') && Bool.eqb q q'
  | RCat fr k d o q, RCat fr' k' d' o' q' =>
      Bool.eqb fr fr' && bytes_eqb k k' && bytes_eqb d d' && (o =? o') && Bool.eqb q q'
  | RDelete k o, RDelete k' o' => bytes_eqb k k' && (o =? o')
  | RTouch k t o, RTouch k' t' o' => bytes_eqb k k' && (t =? t') && (o =? o')
  | RGat k t o, RGat k' t' o' => bytes_eqb k k' && (t =? t') && (o =? o')
  | RGet i n e, RGet i' n' e' => gitems_eqb i i' && (n =? n') && Bool.eqb e e'
  | RGetE i n e, RGetE i' n' e' => gitems_eqb i i' && (n =? n') && Bool.eqb e e'
  | RNoop o, RNoop o' => o =? o'
  | RQuit o q, RQuit o' q' => (o =? o') && Bool.eqb q q'
  | RVersion o, RVersion o' => o =? o'
  | RStat o, RStat o' => o =? o'
  | RUnknown, RUnknown => true
  | _, _ => false
  end.
Fixpoint reqs_eqb (a b : list req) : bool :=
  match a, b with
  | [], [] => true
  | x :: a', y :: b' => req_eqb x y && reqs_eqb a' b'
  | _, _ => false
  end.

(* ---- server/listen.go: which protocol serves the connection ----
   for _, p := range ps { match := p.CanParse(); if match { parser = p; matched = true } }
   if !matched { p = ps[len(ps)-1] }          — the LAST match wins, fallback = last protocol *)
Definition can_parse (p : proto) (b : N) : bool :=
  match p with
  | Bin => b =? magicRequest                      (* binprot disam: headerByte[0] == MagicRequest *)
  | Text => (97 <=? b) && (b <=? 122)             (* textprot disam: 'a' <= b <= 'z' *)
  end.
Fixpoint select_loop (ps : list proto) (b : N) (cur : option proto) : option proto :=
  match ps with
  | [] => cur
  | p :: r => select_loop r b (if can_parse p b then Some p else cur)
  end.
Definition select_proto (ps : list proto) (b : N) : option proto :=
  match select_loop ps b None with
  | Some p => Some p
  | None => last (map Some ps) None
  end.
(* app/memproxy.go, app/memandra.go *)
Definition default_protocols : list proto := [Bin; Text].

(* ---- decoding a pipeline: Parse until the stream is used up ---- *)
Fixpoint parse_all_fuel (p : bytes -> pout) (fuel : nat) (s : bytes) : option (list req) :=
  match s with
  | [] => Some []
  | _ => match fuel with
         | O => None
         | S f => match fst (p s) with
                  | PDone r rest => match parse_all_fuel p f rest with
                                    | Some rs => Some (r :: rs)
                                    | None => None
                                    end
                  | _ => None
                  end
         end
  end.
Definition parse_all (p : bytes -> pout) (s : bytes) : option (list req) :=
  parse_all_fuel p (S (length s)) s.

(* ---- DefaultServer.Loop over a finite stream followed by EOF (C11) ---- *)
Inductive sstep :=
| SReq (r : req)          (* dispatched to the orchestrator *)
| SErr (e : N)            (* client-error reply, loop continues *)
| SClose.                 (* abort: this connection is closed *)
(* None = the fuel ran out (the loop would be spinning); Some = the steps taken, the last of
   which closes the connection (SClose, or the quit request), with the trace of each step and
   the number of bytes still unread after it. *)
Fixpoint serve_loop (p : bytes -> pout) (fuel : nat) (s : bytes) : option (list (sstep * N * list aev)) :=
  match fuel with
  | O => None
  | S f =>
      let '(r, tr) := p s in
      match r with
      | PClose => Some [(SClose, 0, tr)]
      | PClientErr e rest =>
          match serve_loop p f rest with
          | Some l => Some ((SErr e, len rest, tr) :: l)
          | None => None
          end
      | PDone q rest =>
          match q with
          | RQuit _ _ => Some [(SReq q, len rest, tr)]
          | _ => match serve_loop p f rest with
                 | Some l => Some ((SReq q, len rest, tr) :: l)
                 | None => None
                 end
          end
      end
  end.
Definition serve (p : bytes -> pout) (s : bytes) := serve_loop p (S (length s)) s.

(* ---- vocabulary of the C11 statements ---- *)
(* a parser makes progress when every result other than PClose leaves strictly fewer bytes *)
Definition progresses (p : bytes -> pout) : Prop :=
  forall s, match fst (p s) with
            | PDone _ rest | PClientErr _ rest => (length rest < length s)%nat
            | PClose => True
            end.


(* the last step of every run closes the connection *)
Definition closes (st : sstep) : bool :=
  match st with SClose => true | SReq (RQuit _ _) => true | _ => false end.

(* sizes are within what the header's fields can express *)
Definition aev_bounded (a : aev) : Prop :=
  match a with
  | AKey k => k < 65536
  | AData t e k n => t < 4294967296 /\ e < 256 /\ k < 65536
  | _ => True
  end.
Definition aev_good (a : aev) : Prop := aev_consistent a /\ aev_bounded a.

