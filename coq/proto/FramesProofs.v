(* FramesProofs.v — the lemmas behind props/C08.v. The framing lemmas proper (bin_frame,
   bin_stat, text_frame, text_stat) are in FramesLemmas.v; here: decoding a whole reply stream
   frame by frame, the reply discipline of the one-tier reference run, and its transfer to
   every orchestrator configuration through OrcaProofs.request_refines. *)
From Coq Require Import String.
From Rend Require Import base.Bytes base.BytesProofs gen.Consts_gen spec.MapSpec orca.Types handlers.Std
  orca.Orcas proto.Resp proto.Frames proto.FramesSpec orca.OrcaSpec orca.OrcaProofs.
From Rend Require Export proto.FramesLemmas.
From Coq Require Import Permutation.
Open Scope N_scope.

(* ---------------- decoding a stream piece by piece ---------------- *)
Definition decs (p : proto) (b : bytes) (frs : list frame) : Prop :=
  (length frs <= length b)%nat /\
  forall rest frs' fuel, dec_all fuel p rest = Some frs' ->
    dec_all (length frs + fuel) p (b ++ rest) = Some (frs ++ frs').

Lemma decs_nil p : decs p [] [].
Proof. split; [apply Nat.le_refl | intros rest frs' fuel H; exact H]. Qed.

Lemma decs_one p x fr : x <> [] -> (forall rest, dec1 p (x ++ rest) = Some (fr, rest)) -> decs p x [fr].
Proof.
  intros Hx H. split.
  - destruct x; [congruence | cbn [length]; lia].
  - intros rest frs' fuel E. specialize (H rest).
    destruct x as [|a x]; [congruence|]. cbn [length Nat.add app] in *. cbn [dec_all].
    rewrite H, E. reflexivity.
Qed.

Lemma decs_app p a fa b fb : decs p a fa -> decs p b fb -> decs p (a ++ b) (fa ++ fb).
Proof.
  intros [La Ha] [Lb Hb]. split; [rewrite !app_length; lia|].
  intros rest frs' fuel E. rewrite <- !app_assoc, app_length, <- Nat.add_assoc.
  apply Ha. apply Hb. exact E.
Qed.

Lemma dec_all_mono p : forall f b l f', dec_all f p b = Some l -> (f <= f')%nat -> dec_all f' p b = Some l.
Proof.
  induction f as [|f IH]; intros b l f' H Hle.
  - destruct b; [destruct f'; exact H | discriminate H].
  - destruct b as [|a b]; [destruct f'; exact H|].
    destruct f' as [|f']; [lia|]. cbn [dec_all] in *.
    destruct (dec1 p (a :: b)) as [[fr rest]|]; [|discriminate H].
    destruct (dec_all f p rest) as [l0|] eqn:E; [|discriminate H].
    rewrite (IH rest l0 f' E) by lia. exact H.
Qed.

Lemma decs_decode p b frs : decs p b frs -> decode p b = Some frs.
Proof.
  intros [L H]. unfold decode.
  assert (E : dec_all 0 p [] = Some []) by reflexivity.
  specialize (H [] [] 0%nat E). rewrite !app_nil_r in H.
  eapply dec_all_mono; [exact H | lia].
Qed.

(* the frames a piece of the stream decodes to, and pieces that decode in any context *)
Definition F (p : proto) (x : bytes) : list frame := match decode p x with Some l => l | None => [] end.
Definition good (p : proto) (x : bytes) : Prop := decs p x (F p x).

Lemma decs_F p x l : decs p x l -> F p x = l.
Proof. intros H. unfold F. rewrite (decs_decode p x l H). reflexivity. Qed.
Lemma decs_good p x l : decs p x l -> good p x.
Proof. intros H. unfold good. rewrite (decs_F p x l H). exact H. Qed.

Lemma decs_concat p xs : Forall (good p) xs -> decs p (concat xs) (flat_map (F p) xs).
Proof.
  induction 1 as [|x xs Hx _ IH]; [apply decs_nil|]. cbn [concat flat_map]. apply decs_app; assumption.
Qed.

Lemma render_all_frames p cs : render_all p cs = concat (frames p cs).
Proof.
  unfold render_all, frames. induction cs as [|c cs IH]; [reflexivity|].
  cbn [map concat filter]. rewrite IH. destruct (render p c); reflexivity.
Qed.

Lemma decode_frames p cs : Forall (good p) (frames p cs) ->
  decode p (render_all p cs) = Some (flat_map (F p) (frames p cs)).
Proof. intros H. rewrite render_all_frames. apply decs_decode, decs_concat, H. Qed.

(* ---------------- the frames of one responder call ---------------- *)
(* calls that write nothing *)
Definition silent (p : proto) (c : rcall) : bool :=
  match p, c with
  | Bin, PStored _ _ q => q
  | Bin, PGet g | Bin, PGetE g | Bin, PGat g => g_miss g && g_quiet g
  | Bin, PGetEnd _ ne => negb ne
  | _, PQuit _ q => q
  | Text, PGet g => g_miss g
  | Text, PGetE _ | Text, PGat _ => true
  | _, _ => false
  end.

Definition stat_end : bframe := mkBF opStat 0 0 statusSuccess 0 [] [] [].

Definition fr_of (p : proto) (c : rcall) : list frame :=
  if silent p c then []
  else match p, c with
       | Bin, PStat o => [FB (bin_frame_of c); FB stat_end]
       | Bin, _ => [FB (bin_frame_of c)]
       | Text, PStat o => [FT (TLine (asc "STAT version " ++ versionNum)); FT (TLine (asc "END"))]
       | Text, _ => [FT (text_frame_of c)]
       end.

Lemma bin_hdr_cons a b c d e f : exists x l, bin_hdr a b c d e f = x :: l.
Proof. unfold bin_hdr. cbn [app]. eauto. Qed.

Lemma silent_render p c : if silent p c then render p c = [] else render p c <> [].
Proof.
  assert (H : forall a b c d e f l, bin_hdr a b c d e f ++ l <> []).
  { intros a b c0 d e f l. destruct (bin_hdr_cons a b c0 d e f) as (x & t & ->). discriminate. }
  assert (H0 : forall a b c d e f, bin_hdr a b c d e f <> []).
  { intros a b c0 d e f. destruct (bin_hdr_cons a b c0 d e f) as (x & t & ->). discriminate. }
  destruct p, c as [rt o q|g|g|g|o ne|o|o|o|o q|o|o|o rt e q]; cbn [silent render render_bin render_text];
    try (destruct (g_miss g), (g_quiet g); cbn [andb]); try destruct q; try destruct ne; cbn [negb];
    unfold bin_error, bin_get_common, text_error; try reflexivity; try apply H; try apply H0; try discriminate.
  all: try (intros E; apply app_eq_nil in E; destruct E as [_ E]; discriminate E).
Qed.

Lemma call_decs p c : rcall_ok p c -> decs p (render p c) (fr_of p c).
Proof.
  intros Hok. unfold fr_of. pose proof (silent_render p c) as S.
  destruct (silent p c); [rewrite S; apply decs_nil|].
  destruct p.
  - assert (G : (forall o, c <> PStat o) -> decs Bin (render Bin c) [FB (bin_frame_of c)]).
    { intros Hst. apply decs_one; [exact S|]. intros rest. cbn [dec1 render].
      rewrite (bin_frame c rest Hok S Hst). reflexivity. }
    destruct c; try (apply G; intros; discriminate).
    destruct (bin_stat opaque [] Hok) as (f2 & mid & _).
    cbn [render render_bin rcall_ok] in *.
    set (h1 := bin_hdr opStat 7 0 statusSuccess (7 + len versionNum) opaque ++ asc "version" ++ versionNum).
    replace (bin_hdr opStat 7 0 statusSuccess (7 + len versionNum) opaque ++ asc "version" ++ versionNum ++
             bin_hdr opStat 0 0 statusSuccess 0 0) with (h1 ++ bin_hdr opStat 0 0 statusSuccess 0 0)
      by (unfold h1; rewrite <- !app_assoc; reflexivity).
    apply (decs_app Bin h1 [_] _ [_]).
    + apply decs_one.
      * unfold h1. destruct (bin_hdr_cons opStat 7 0 statusSuccess (7 + len versionNum) opaque) as (x & t & ->). discriminate.
      * intros rest. cbn [dec1]. unfold h1. rewrite <- !app_assoc.
        replace (asc "version" ++ versionNum ++ rest) with ((asc "version" ++ versionNum) ++ rest)
          by (rewrite <- !app_assoc; reflexivity).
        rewrite dec_bin_hdr; try (unfold statusSuccess; lia); reflexivity.
    + apply decs_one.
      * destruct (bin_hdr_cons opStat 0 0 statusSuccess 0 0) as (x & t & ->). discriminate.
      * intros rest. cbn [dec1]. rewrite dec_bin_plain; [reflexivity | vm_compute; reflexivity | lia].
  - assert (G : (forall o, c <> PStat o) -> decs Text (render Text c) [FT (text_frame_of c)]).
    { intros Hst. apply decs_one; [exact S|]. intros rest. cbn [dec1 render].
      rewrite (text_frame c rest Hok S Hst); [reflexivity|].
      intros g ->. cbn [render render_text] in S. destruct (g_miss g); [congruence|reflexivity]. }
    destruct c; try (apply G; intros; discriminate).
    cbn [render render_text]. unfold stat_sep. change [13; 10] with crlf.
    replace (asc "STAT version " ++ versionNum ++ crlf ++ asc "END" ++ crlf)
      with (((asc "STAT version " ++ versionNum) ++ crlf) ++ (asc "END" ++ crlf))
      by (rewrite <- !app_assoc; reflexivity).
    apply (decs_app Text _ [_] _ [_]); apply decs_one; try (vm_compute; discriminate);
      intros rest; cbn [dec1]; rewrite <- app_assoc, dec_text_plain; try reflexivity; vm_compute; reflexivity.
Qed.

Lemma frames_cons_fr p c cs :
  flat_map (F p) (frames p (c :: cs)) = (if silent p c then [] else F p (render p c)) ++ flat_map (F p) (frames p cs).
Proof.
  rewrite frames_cons, flat_map_app. f_equal. unfold frames. cbn [map filter].
  pose proof (silent_render p c) as S. destruct (silent p c).
  - rewrite S. reflexivity.
  - destruct (render p c); [congruence|]. cbn [flat_map]. apply app_nil_r.
Qed.

Lemma calls_ok p cs : Forall (rcall_ok p) cs ->
  Forall (good p) (frames p cs) /\ flat_map (F p) (frames p cs) = flat_map (fr_of p) cs.
Proof.
  induction 1 as [|c cs Hc _ [IH1 IH2]]; [split; [constructor|reflexivity]|].
  pose proof (call_decs p c Hc) as D. pose proof (silent_render p c) as S.
  split.
  - rewrite frames_cons. apply Forall_app. split; [|exact IH1].
    unfold frames. cbn [map filter]. destruct (render p c) eqn:E; [constructor|].
    constructor; [|constructor]. eapply decs_good, D.
  - rewrite frames_cons_fr, IH2. cbn [flat_map]. f_equal.
    unfold fr_of in *. destruct (silent p c); [reflexivity|]. apply decs_F, D.
Qed.

(* ---------------- the discipline does not depend on the order of the value/miss frames ---------------- *)
Lemma count_perm {A} (f : A -> bool) l l' : Permutation l l' -> count f l = count f l'.
Proof.
  unfold count. induction 1 as [|x l l' _ IH|x y l|l l' l'' _ IH1 _ IH2]; cbn [filter].
  - reflexivity.
  - destruct (f x); cbn [length]; rewrite IH; reflexivity.
  - destruct (f x), (f y); reflexivity.
  - rewrite IH1. exact IH2.
Qed.
Lemma forallb_perm {A} (f : A -> bool) l l' : Permutation l l' -> forallb f l = forallb f l'.
Proof.
  induction 1 as [|x l l' _ IH|x y l|l l' l'' _ IH1 _ IH2]; cbn [forallb].
  - reflexivity.
  - rewrite IH. reflexivity.
  - destruct (f x), (f y); reflexivity.
  - rewrite IH1. exact IH2.
Qed.
Lemma count_app {A} (f : A -> bool) a b : count f (a ++ b) = (count f a + count f b)%nat.
Proof. unfold count. rewrite filter_app, app_length. reflexivity. Qed.

Lemma rev_app_head {A} (fs fs' t : list A) (g : A -> bool) : t <> [] ->
  match rev (fs ++ t) with x :: _ => g x | [] => false end =
  match rev (fs' ++ t) with x :: _ => g x | [] => false end.
Proof.
  intros Ht. rewrite !rev_app_distr. destruct (rev t) as [|x r] eqn:E.
  - exfalso. apply Ht. rewrite <- (rev_involutive t), E. reflexivity.
  - reflexivity.
Qed.

Lemma disc_perm p gete items no ne h m fs fs' t :
  Permutation fs fs' -> (t = [] -> p = Bin /\ ne = false) ->
  discipline p (mkget gete items no ne) h m (fs ++ t) = discipline p (mkget gete items no ne) h m (fs' ++ t).
Proof.
  intros P Ht.
  assert (Pa : Permutation (fs ++ t) (fs' ++ t)) by (apply Permutation_app_tail, P).
  assert (E : discipline p (RGet items no ne) h m (fs ++ t) = discipline p (RGet items no ne) h m (fs' ++ t)).
  { cbn [discipline].
    rewrite (count_perm is_value _ _ Pa), (count_perm is_error _ _ Pa), (Permutation_length Pa).
    f_equal; [f_equal|].
    - destruct t as [|x t].
      + destruct (Ht eq_refl) as [-> ->]. reflexivity.
      + rewrite (rev_app_head fs fs' (x :: t) is_terminator) by discriminate. reflexivity.
    - destruct p; [|reflexivity]. apply forallb_perm, Pa. }
  destruct gete; exact E.
Qed.

(* ---------------- the one-tier reference run ---------------- *)
Definition lives (s : store) (now : N) (it : gitem) : bool :=
  match live now s (gi_key it) with Some _ => true | None => false end.
Definition loud (s : store) (now : N) (it : gitem) : bool :=
  match live now s (gi_key it) with Some _ => false | None => negb (gi_quiet it) end.

Definition itf (p : proto) (gete : bool) (s : store) (now : N) (it : gitem) : list frame :=
  fr_of p (pg gete (std_get1 s now gete it)).

Lemma get_frames p gete s now items no ne :
  flat_map (fr_of p) (map (pg gete) (map (std_get1 s now gete) items) ++ [PGetEnd no ne]) =
  flat_map (itf p gete s now) items ++ fr_of p (PGetEnd no ne).
Proof.
  rewrite flat_map_app. cbn [flat_map]. rewrite app_nil_r. f_equal.
  induction items as [|it items IH]; [reflexivity|]. cbn [map flat_map]. rewrite IH. reflexivity.
Qed.

Definition opq_in (items : list gitem) (f : frame) : Prop :=
  exists it, In it items /\ frame_opaque f = Some (gi_opaque it).

(* the frames of one requested key *)
Lemma itf_cases p gete s now it : (p = Text -> gete = false) ->
  (lives s now it = true /\ exists v, itf p gete s now it = [v] /\ is_value v = true /\ is_error v = false /\
     (p = Bin -> frame_opaque v = Some (gi_opaque it))) \/
  (lives s now it = false /\ loud s now it = true /\ p = Bin /\
     exists v, itf p gete s now it = [v] /\ is_value v = false /\ is_error v = true /\
               frame_opaque v = Some (gi_opaque it)) \/
  (lives s now it = false /\ (loud s now it = false \/ p = Text) /\ itf p gete s now it = []).
Proof.
  intros Hp. unfold itf, lives, loud.
  destruct (get1_cases s now gete it) as [(e & E & ->)|(E & ->)]; rewrite E.
  - left. split; [reflexivity|]. unfold fr_of, pg, hit_res.
    destruct p, gete; try (specialize (Hp eq_refl); discriminate); cbn [silent g_miss andb];
      eexists; (split; [reflexivity|]); cbn [bin_frame_of text_frame_of g_miss is_value is_error bf_status bf_opcode bf_extlen g_opaque frame_opaque bf_opaque];
      repeat split; try reflexivity; try discriminate.
  - destruct p.
    + destruct (gi_quiet it) eqn:Q.
      * right. right. split; [reflexivity|]. split; [left; reflexivity|].
        unfold fr_of, pg, miss_res. destruct gete; cbn [silent g_miss g_quiet andb]; rewrite Q; reflexivity.
      * right. left. split; [reflexivity|]. split; [reflexivity|]. split; [reflexivity|].
        unfold fr_of, pg, miss_res. destruct gete; cbn [silent g_miss g_quiet andb]; rewrite Q; cbn [andb];
          eexists; (split; [reflexivity|]); cbn [bin_frame_of g_miss g_opaque]; repeat split; reflexivity.
    + right. right. split; [reflexivity|]. split; [right; reflexivity|].
      rewrite (Hp eq_refl). reflexivity.
Qed.

Lemma body_counts p gete s now : (p = Text -> gete = false) -> forall items,
  let body := flat_map (itf p gete s now) items in
  count is_value body = length (filter (lives s now) items) /\
  count is_error body = (match p with Text => 0 | Bin => length (filter (loud s now) items) end)%nat /\
  length body = (length (filter (lives s now) items) +
                 match p with Text => 0 | Bin => length (filter (loud s now) items) end)%nat /\
  (p = Bin -> Forall (opq_in items) body).
Proof.
  intros Hp. induction items as [|it items (I1 & I2 & I3 & I4)]; [cbn; destruct p; repeat split; auto|].
  cbn [flat_map filter]. cbv zeta. rewrite !count_app, app_length, I1, I2, I3.
  assert (W : p = Bin -> Forall (opq_in (it :: items)) (flat_map (itf p gete s now) items)).
  { intros B. eapply Forall_impl; [|exact (I4 B)]. intros f (i & Hi & Ho). exists i. split; [right; exact Hi|exact Ho]. }
  destruct (itf_cases p gete s now it Hp) as [(L & v & -> & V & Er & O)|[(L & Ld & -> & v & -> & V & Er & O)|(L & Ld & ->)]].
  - assert (Ld : loud s now it = false) by (unfold loud, lives in *; destruct (live now s (gi_key it)); [reflexivity|discriminate]).
    rewrite L, Ld. unfold count. cbn [filter length]. rewrite V, Er. cbn [length].
    split; [|split; [|split]]; try lia; try (destruct p; lia).
    intros B. constructor; [|apply W, B]. exists it. split; [left; reflexivity | apply O, B].
  - rewrite L, Ld. unfold count. cbn [filter length]. rewrite V, Er. cbn [length].
    split; [|split; [|split]]; try lia; try (destruct p; lia).
    intros B. constructor; [|apply W, B]. exists it. split; [left; reflexivity | exact O].
  - rewrite L. unfold count. cbn [filter length app]. destruct Ld as [Ld| ->].
    + rewrite Ld. split; [|split; [|split]]; try lia; try (destruct p; lia). exact W.
    + split; [|split; [|split]]; try lia. intros B; discriminate B.
Qed.

Lemma opq_in_forallb items no ne body :
  Forall (opq_in items) body ->
  forallb (fun f => match frame_opaque f with
                    | Some o => existsb (fun it => gi_opaque it =? o) items || (ne && (o =? no))
                    | None => false end) body = true.
Proof.
  intros H. apply forallb_forall. rewrite Forall_forall in H. intros f Hf.
  destruct (H f Hf) as (it & Hi & ->). apply orb_true_iff. left. apply existsb_exists.
  exists it. split; [exact Hi | apply N.eqb_refl].
Qed.

Lemma hits_of_get gete s now items no ne :
  hits_of s now (mkget gete items no ne) = length (filter (lives s now) items) /\
  loud_misses_of s now (mkget gete items no ne) = length (filter (loud s now) items).
Proof. destruct gete; split; reflexivity. Qed.

Lemma ref_get_discipline p gete s now items no ne : (p = Text -> gete = false) ->
  discipline p (mkget gete items no ne) (hits_of s now (mkget gete items no ne))
    (loud_misses_of s now (mkget gete items no ne))
    (flat_map (itf p gete s now) items ++ fr_of p (PGetEnd no ne)) = true.
Proof.
  intros Hp. destruct (hits_of_get gete s now items no ne) as [-> ->].
  destruct (body_counts p gete s now Hp items) as (C1 & C2 & C3 & C4). cbv zeta in *.
  set (body := flat_map (itf p gete s now) items) in *.
  set (h := length (filter (lives s now) items)) in *. set (m := length (filter (loud s now) items)) in *.
  assert (E : discipline p (RGet items no ne) h m (body ++ fr_of p (PGetEnd no ne)) = true).
  { cbn [discipline]. rewrite !count_app, app_length, C1, C2, C3.
    destruct p.
    - specialize (C4 eq_refl). destruct ne.
      + change (fr_of Bin (PGetEnd no true)) with [FB (mkBF opNoop 0 0 statusSuccess no [] [] [])].
        rewrite rev_app_distr. cbn [rev app]. rewrite forallb_app, (opq_in_forallb items no true body C4).
        unfold count. cbn [filter length forallb frame_opaque bf_opaque andb].
        replace (is_value (FB (mkBF opNoop 0 0 statusSuccess no [] [] []))) with false by reflexivity.
        replace (is_error (FB (mkBF opNoop 0 0 statusSuccess no [] [] []))) with false by reflexivity.
        replace (is_terminator (FB (mkBF opNoop 0 0 statusSuccess no [] [] []))) with true by reflexivity.
        rewrite N.eqb_refl, Bool.orb_true_r. cbn [length].
        repeat (apply andb_true_iff; split); try reflexivity; apply Nat.eqb_eq; lia.
      + change (fr_of Bin (PGetEnd no false)) with (@nil frame). rewrite app_nil_r.
        rewrite (opq_in_forallb items no false body C4). unfold count. cbn [filter length].
        repeat (apply andb_true_iff; split); try reflexivity; apply Nat.eqb_eq; lia.
    - change (fr_of Text (PGetEnd no ne)) with [FT (TLine (asc "END"))].
      rewrite rev_app_distr. unfold count. cbn [rev app filter length is_value is_error].
      replace (is_terminator (FT (TLine (asc "END")))) with true by reflexivity.
      repeat (apply andb_true_iff; split); try reflexivity; apply Nat.eqb_eq; lia. }
  destruct gete; exact E.
Qed.

Lemma get_calls_ok p gete s now items no ne :
  store_wire_ok now s -> Forall (item_ok p) items -> no < 4294967296 -> (p = Text -> gete = false) ->
  Forall (rcall_ok p) (map (pg gete) (map (std_get1 s now gete) items) ++ [PGetEnd no ne]).
Proof.
  intros Hs Hi Hno Hp. apply Forall_app. split; [|constructor; [exact Hno|constructor]].
  rewrite map_map. apply Forall_forall. intros c Hc. apply in_map_iff in Hc. destruct Hc as (it & <- & Hit).
  rewrite Forall_forall in Hi. destruct (Hi it Hit) as [Ho Hk].
  assert (G : gres_ok p (std_get1 s now gete it)).
  { destruct (get1_cases s now gete it) as [(e & E & ->)|(E & ->)]; unfold gres_ok, hit_res, miss_res;
      cbn [g_opaque g_flags g_exp g_data g_key].
    - destruct (Hs _ _ E) as (Hf & Hd & Hr). repeat split; try assumption. destruct gete; [exact Hr|lia].
    - repeat split; try assumption; try lia. }
  destruct gete; exact G.
Qed.

Lemma ref_finish p r h m cs0 :
  Forall (rcall_ok p) cs0 -> discipline p r h m (flat_map (fr_of p) cs0) = true ->
  Forall (good p) (frames p cs0) /\ discipline p r h m (flat_map (F p) (frames p cs0)) = true.
Proof. intros H D. destruct (calls_ok p cs0 H) as [G E]. split; [exact G | rewrite E; exact D]. Qed.

Lemma is_get_mkget r : is_get r = true -> exists gete items no ne, r = mkget gete items no ne.
Proof. destruct r; try discriminate; intros _; [exists false|exists true]; eauto. Qed.

Lemma app_exists : is_app_error EKeyExists = true. Proof. reflexivity. Qed.
Lemma app_notfound : is_app_error EKeyNotFound = true. Proof. reflexivity. Qed.
Lemma app_notstored : is_app_error EItemNotStored = true. Proof. reflexivity. Qed.
Lemma app_unknown : is_app_error EUnknownCmd = true. Proof. reflexivity. Qed.

Lemma ref_finish3 p r h m cs0 c0 :
  Forall (rcall_ok p) cs0 -> discipline p r h m (flat_map (fr_of p) cs0) = true ->
  (c0 = Closed -> exists o q, r = RQuit o q) ->
  Forall (good p) (frames p cs0) /\ discipline p r h m (flat_map (F p) (frames p cs0)) = true /\
  (c0 = Closed -> exists o q, r = RQuit o q).
Proof. intros H D C. destruct (ref_finish p r h m cs0 H D). auto. Qed.

Ltac disc :=
  cbn [discipline req_quiet req_opaque flat_map fr_of silent app length forallb frame_opaque bf_opaque
       bin_frame_of is_error bf_status Nat.eqb Nat.leb andb negb g_miss g_quiet g_opaque];
  rewrite ?N.eqb_refl; try reflexivity.

Lemma ref_nonget_ok p lck s now r : is_get r = false ->
  store_wire_ok now s -> req_wire_ok p r -> combo_ok p lck r = true ->
  let '(_, _, cs0, c0) := serve1 std_exec std_exec l1only r s empty_store now in
  Forall (good p) (frames p cs0) /\
  discipline p r (hits_of s now r) (loud_misses_of s now r) (flat_map (F p) (frames p cs0)) = true /\
  (c0 = Closed -> exists o q, r = RQuit o q).
Proof.
  intros Hg Hs (Ho & Hr & Hq) Hc.
  destruct r as [m k d f ttl o q|fr k d o q|k o|k ttl o|k ttl o|items no ne|items no ne|o|o q|o|o|];
    try discriminate Hg; cbn [req_opaque req_quiet] in *.
  - destruct m; destruct (live now s k) as [e|] eqn:E; unfold serve1; cbn [l1only rtype]; stdrw;
      rewrite ?app_exists, ?app_notfound, ?app_notstored; cbn [app req_opaque rtype req_quiet].
    all: apply ref_finish3; [repeat constructor; exact Ho| |discriminate].
    all: destruct p; [destruct q | rewrite Hq]; disc.
  - destruct (live now s k) as [e|] eqn:E; unfold serve1; cbn [l1only rtype]; stdrw;
      rewrite ?app_exists, ?app_notfound, ?app_notstored; cbn [app req_opaque rtype req_quiet].
    all: apply ref_finish3; [repeat constructor; exact Ho| |discriminate].
    all: destruct p; [destruct q | rewrite Hq]; destruct fr; disc.
  - destruct (live now s k) as [e|] eqn:E; unfold serve1; cbn [l1only rtype]; stdrw;
      rewrite ?app_exists, ?app_notfound, ?app_notstored; cbn [app req_opaque rtype req_quiet].
    all: apply ref_finish3; [repeat constructor; exact Ho| |discriminate].
    all: destruct p; disc.
  - destruct (live now s k) as [e|] eqn:E; unfold serve1; cbn [l1only rtype]; stdrw;
      rewrite ?app_exists, ?app_notfound, ?app_notstored; cbn [app req_opaque rtype req_quiet].
    all: apply ref_finish3; [repeat constructor; exact Ho| |discriminate].
    all: destruct p; disc.
  - destruct p; [|contradiction].
    destruct (live now s k) as [e|] eqn:E; unfold serve1; cbn [l1only rtype]; stdrw.
    + destruct (Hs _ _ E) as (Hf & Hd & _).
      apply ref_finish3; [repeat constructor; cbn [g_opaque g_flags g_exp g_data]; try assumption; lia| |discriminate].
      disc.
    + apply ref_finish3; [repeat constructor; cbn [g_opaque g_flags g_exp g_data]; try assumption; lia| |discriminate].
      disc.
  - unfold serve1. cbn [l1only orca_misc run].
    apply ref_finish3; [repeat constructor; exact Ho| |discriminate]. destruct p; disc.
  - unfold serve1. cbn [l1only orca_misc run].
    apply ref_finish3; [repeat constructor; exact Ho| |eauto]. destruct p; [destruct q | rewrite Hq]; disc.
  - unfold serve1. cbn [l1only orca_misc run].
    apply ref_finish3; [repeat constructor; exact Ho| |discriminate]. destruct p; disc.
  - unfold serve1. cbn [l1only orca_misc run].
    apply ref_finish3; [repeat constructor; exact Ho| |discriminate]. destruct p; disc.
  - unfold serve1. cbn [l1only orca_misc run]. rewrite app_unknown. cbn [app req_opaque rtype req_quiet].
    apply ref_finish3; [repeat constructor; exact Ho| |discriminate]. destruct p; disc.
Qed.

Lemma ref_ok p lck s now r :
  store_wire_ok now s -> req_wire_ok p r -> combo_ok p lck r = true ->
  let '(_, _, cs0, c0) := serve1 std_exec std_exec l1only r s empty_store now in
  Forall (good p) (frames p cs0) /\
  discipline p r (hits_of s now r) (loud_misses_of s now r) (flat_map (F p) (frames p cs0)) = true /\
  (c0 = Closed -> exists o q, r = RQuit o q).
Proof.
  intros Hs Hw Hc. destruct (is_get r) eqn:Hg; [|apply (ref_nonget_ok p lck); assumption].
  destruct (is_get_mkget r Hg) as (gete & items & no & ne & ->).
  assert (Hp : p = Text -> gete = false).
  { intros ->. destruct gete; [|reflexivity]. destruct lck, items; discriminate Hc. }
  assert (Hi : no < 4294967296 /\ Forall (item_ok p) items).
  { destruct Hw as (_ & Hr & _). destruct gete; exact Hr. }
  destruct Hi as [Hno Hi].
  unfold serve1. rewrite l1only_get_run.
  assert (G : Forall (good p) (frames p (map (pg gete) (map (std_get1 s now gete) items) ++ [PGetEnd no ne])) /\
              discipline p (mkget gete items no ne) (hits_of s now (mkget gete items no ne))
                (loud_misses_of s now (mkget gete items no ne))
                (flat_map (F p) (frames p (map (pg gete) (map (std_get1 s now gete) items) ++ [PGetEnd no ne]))) = true).
  { apply ref_finish; [apply get_calls_ok; assumption|]. rewrite get_frames. apply ref_get_discipline, Hp. }
  destruct G as [G1 G2]. destruct gete; cbn [mkget] in *; (split; [exact G1|]); (split; [exact G2|discriminate]).
Qed.

Lemma get_term_frames p gete items no ne : no < 4294967296 ->
  Forall (good p) (get_term p (mkget gete items no ne)) /\
  flat_map (F p) (get_term p (mkget gete items no ne)) = fr_of p (PGetEnd no ne).
Proof.
  intros Hno. assert (E : get_term p (mkget gete items no ne) = frames p [PGetEnd no ne]) by (destruct gete; reflexivity).
  rewrite E. destruct (calls_ok p [PGetEnd no ne]) as [G1 G2]; [repeat constructor; exact Hno|].
  split; [exact G1|]. rewrite G2. cbn [flat_map]. apply app_nil_r.
Qed.

Lemma reply_discipline : forall p k lck now l1 l2 r,
  inv k now l1 l2 -> in_scope k r = true -> combo_ok p lck r = true -> req_wire_ok p r ->
  store_wire_ok now (auth k l1 l2) ->
  let '(_, _, cs, c) := serve1 std_exec std_exec (orca_cfg k lck) r l1 l2 now in
  (exists fs, decode p (render_all p cs) = Some fs /\
              discipline p r (hits_of (auth k l1 l2) now r) (loud_misses_of (auth k l1 l2) now r) fs = true) /\
  (c = Closed -> exists o q, r = RQuit o q).
Proof.
  intros p k lck now l1 l2 r Hinv Hsc Hc Hw Hs.
  pose proof (request_refines p k lck now l1 l2 r Hinv Hsc Hc) as R.
  pose proof (ref_ok p lck (auth k l1 l2) now r Hs Hw Hc) as Q.
  destruct (serve1 std_exec std_exec (orca_cfg k lck) r l1 l2 now) as [[[l1' l2'] cs] c].
  destruct (serve1 std_exec std_exec l1only r (auth k l1 l2) empty_store now) as [[[s' x] cs0] c0].
  destruct R as (Req & -> & _ & _). destruct Q as (G & D & C). split; [|exact C].
  unfold reply_equiv in Req. destruct (is_get r) eqn:Hg.
  - destruct (is_get_mkget r Hg) as (gete & items & no & ne & ->).
    destruct Req as (body & body0 & E & E0 & P).
    assert (Hno : no < 4294967296) by (destruct Hw as (_ & Hr & _); destruct gete; apply Hr).
    destruct (get_term_frames p gete items no ne Hno) as [T1 T2].
    rewrite E0 in G, D. apply Forall_app in G. destruct G as [G0 _].
    assert (Gb : Forall (good p) body).
    { eapply Permutation_Forall; [apply Permutation_sym; exact P | exact G0]. }
    exists (flat_map (F p) (frames p cs)). split.
    + apply decode_frames. rewrite E. apply Forall_app. split; assumption.
    + rewrite E, flat_map_app. rewrite flat_map_app in D. rewrite <- D.
      apply disc_perm; [apply Permutation_flat_map, P|].
      rewrite T2. intros Z. unfold fr_of in Z. destruct p, ne; cbn [silent negb] in Z; try discriminate Z. auto.
  - exists (flat_map (F p) (frames p cs)). split; [apply decode_frames; rewrite Req; exact G | rewrite Req; exact D].
Qed.

Lemma locked_text_multiget_discipline_refuted : exists r l1 l2,
  combo_ok Text true r = false /\
  let '(_, _, cs, _) := serve1 std_exec std_exec (orca_cfg KL1L2 true) r l1 l2 0 in
  exists fs, decode Text (render_all Text cs) = Some fs /\
             discipline Text r (hits_of l2 0 r) (loud_misses_of l2 0 r) fs = false.
Proof.
  exists (RGet [mkGI [107] 0 false; mkGI [108] 0 false] 0 false), empty_store, empty_store.
  split; [reflexivity|]. vm_compute. eexists. split; reflexivity.
Qed.

Lemma c08_example :
  let r := RGet [mkGI [107] 1 true; mkGI [108] 2 false] 0 false in
  let l2 := upd empty_store [107] (Some (mkE [1; 2; 3] 5 Never)) in
  inv KL1L2 10 empty_store l2 /\ in_scope KL1L2 r = true /\ combo_ok Bin true r = true /\ req_wire_ok Bin r /\
  store_wire_ok 10 (auth KL1L2 empty_store l2) /\
  hits_of l2 10 r = 1%nat /\ loud_misses_of l2 10 r = 1%nat.
Proof.
  cbv zeta. split; [|split; [reflexivity|split; [reflexivity|split; [|split; [|split; reflexivity]]]]].
  - intros k e H. discriminate H.
  - repeat split; try lia. repeat constructor; lia.
  - intros k e H. cbn [auth] in H. unfold live, upd, empty_store in H.
    destruct (bytes_eqb k [107]); [|discriminate H]. cbn in H. inversion H; subst. cbn. lia.
Qed.
