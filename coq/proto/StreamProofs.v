(* StreamProofs.v — the connection at the byte level: serving the encoding of a pipeline of
   well-formed requests is serving the requests one after the other (C07 composed with the
   server loop), hence — with C01 — the bytes a client receives are those of one reference map. *)
From Rend Require Import base.Bytes gen.Consts_gen spec.MapSpec orca.Types handlers.Std orca.Orcas
  proto.Resp proto.ReqCommon proto.BinReq proto.TextReq proto.BinReqProofs proto.TextReqProofs proto.Stream.
Open Scope N_scope.

(* serving a list of already-decoded requests; stops when a request closes the connection;
   at the end of the list the client's EOF closes it *)
Fixpoint serve_reqs (p : proto) (orca : req -> prog) (rs : list req) (l1 l2 : store) (now : N)
  : bytes * store * store * conn_state :=
  match rs with
  | [] => ([], l1, l2, Closed)
  | r :: rest =>
      let '(l1', l2', cs, c) := serve1 std_exec std_exec orca r l1 l2 now in
      match c with
      | Closed => (render_all p cs, l1', l2', Closed)
      | Open => let '(out, a, b, c') := serve_reqs p orca rest l1' l2' now in
                (render_all p cs ++ out, a, b, c')
      end
  end.

Section Generic.
Variables (p : proto) (parse : bytes -> pout) (enc : req -> bytes) (wf : req -> bool).
Hypothesis roundtrip : forall r rest, wf r = true -> fst (parse (enc r ++ rest)) = PDone r rest.
Hypothesis at_eof : fst (parse []) = PClose.

Lemma serve_stream_pipeline (orca : req -> prog) : forall rs fuel l1 l2 now,
  forallb wf rs = true -> (length rs < fuel)%nat ->
  serve_stream p parse orca fuel (concat (map enc rs)) l1 l2 now = serve_reqs p orca rs l1 l2 now.
Proof.
  induction rs as [|r rs IH]; intros fuel l1 l2 now Hwf Hf.
  - destruct fuel as [|f]; [cbn in Hf; lia|]. cbn [map concat serve_stream serve_reqs].
    rewrite at_eof. reflexivity.
  - destruct fuel as [|f]; [cbn in Hf; lia|].
    cbn [forallb] in Hwf. apply andb_true_iff in Hwf. destruct Hwf as [Hr Hrs].
    cbn [map concat serve_stream serve_reqs]. rewrite (roundtrip r _ Hr).
    destruct (serve1 std_exec std_exec orca r l1 l2 now) as [[[l1' l2'] cs] c].
    destruct c; [|reflexivity].
    rewrite (IH f l1' l2' now Hrs ltac:(cbn [length] in Hf; lia)). reflexivity.
Qed.
End Generic.

Lemma parse_bin_eof : fst (parse_bin []) = PClose.
Proof. vm_compute. reflexivity. Qed.
Lemma parse_text_eof : fst (parse_text []) = PClose.
Proof. vm_compute. reflexivity. Qed.

Theorem stream_bin_pipeline : forall orca rs l1 l2 now,
  forallb wf_bin rs = true ->
  let s := concat (map enc_bin rs) in
  serve_stream Bin parse_bin orca (S (length s)) s l1 l2 now = serve_reqs Bin orca rs l1 l2 now.
Proof.
  intros orca rs l1 l2 now Hwf s.
  apply (serve_stream_pipeline Bin parse_bin enc_bin wf_bin bin_roundtrip parse_bin_eof); [exact Hwf|].
  (* every encoded request has at least one byte (in fact >= 24), so |rs| <= |s| *)
  assert (H : forall l, forallb wf_bin l = true -> (length l <= length (concat (map enc_bin l)))%nat).
  { induction l as [|r l IH]; intros Hl; [cbn; lia|].
    cbn [forallb] in Hl. apply andb_true_iff in Hl. destruct Hl as [Hr Hl].
    cbn [map concat length]. rewrite app_length. specialize (IH Hl).
    assert (1 <= length (enc_bin r))%nat.
    { pose proof (bin_roundtrip r [] Hr) as Hp. rewrite app_nil_r in Hp.
      destruct (enc_bin r) eqn:E; [|cbn; lia]. rewrite parse_bin_eof in Hp. discriminate. }
    lia. }
  specialize (H rs Hwf). unfold s. lia.
Qed.

Theorem stream_text_pipeline : forall orca rs l1 l2 now,
  forallb wf_text rs = true ->
  let s := concat (map enc_text rs) in
  serve_stream Text parse_text orca (S (length s)) s l1 l2 now = serve_reqs Text orca rs l1 l2 now.
Proof.
  intros orca rs l1 l2 now Hwf s.
  apply (serve_stream_pipeline Text parse_text enc_text wf_text text_roundtrip parse_text_eof); [exact Hwf|].
  assert (H : forall l, forallb wf_text l = true -> (length l <= length (concat (map enc_text l)))%nat).
  { induction l as [|r l IH]; intros Hl; [cbn; lia|].
    cbn [forallb] in Hl. apply andb_true_iff in Hl. destruct Hl as [Hr Hl].
    cbn [map concat length]. rewrite app_length. specialize (IH Hl).
    assert (1 <= length (enc_text r))%nat.
    { pose proof (text_roundtrip r [] Hr) as Hp. rewrite app_nil_r in Hp.
      destruct (enc_text r) eqn:E; [|cbn; lia]. rewrite parse_text_eof in Hp. discriminate. }
    lia. }
  specialize (H rs Hwf). unfold s. lia.
Qed.
