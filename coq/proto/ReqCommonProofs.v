(* ReqCommonProofs.v — facts about proto/ReqCommon.v: io.ReadAtLeast's model, the pipeline
   decoder, the never-spinning loop, protocol selection. *)
From Rend Require Import base.Bytes gen.Consts_gen spec.MapSpec orca.Types proto.Resp proto.ReqCommon.
Open Scope N_scope.

Lemma len_S {A} (x : A) l : len (x :: l) = N.succ (len l).
Proof. unfold len. cbn [length]. lia. Qed.

Lemma read_n_0 s : read_n s 0 = Some ([], s).
Proof. destruct s; reflexivity. Qed.

Lemma read_n_app a : forall r, read_n (a ++ r) (len a) = Some (a, r).
Proof.
  induction a as [|b a IH]; intros r.
  - apply read_n_0.
  - rewrite len_S. cbn [app read_n].
    destruct (N.succ (len a) =? 0) eqn:E; [lia|].
    rewrite N.pred_succ, IH. reflexivity.
Qed.

Lemma read_n_some s : forall n a r, read_n s n = Some (a, r) -> s = a ++ r /\ len a = n.
Proof.
  induction s as [|b s IH]; intros n a r H; cbn [read_n] in H.
  - destruct (n =? 0) eqn:E; [|discriminate]. inversion H; subst. split; [reflexivity | cbn; lia].
  - destruct (n =? 0) eqn:E.
    + inversion H; subst. split; [reflexivity | cbn; lia].
    + destruct (read_n s (N.pred n)) as [[a' r']|] eqn:R; [|discriminate].
      inversion H; subst. apply IH in R. destruct R as [-> L]. split; [reflexivity|].
      rewrite len_S. lia.
Qed.

Lemma read_n_none s : forall n, read_n s n = None -> len s < n.
Proof.
  induction s as [|b s IH]; intros n H; cbn [read_n] in H.
  - destruct (n =? 0) eqn:E; [discriminate|]. cbn. lia.
  - destruct (n =? 0) eqn:E; [discriminate|].
    destruct (read_n s (N.pred n)) as [[a' r']|] eqn:R; [discriminate|].
    apply IH in R. rewrite len_S. lia.
Qed.

Lemma read_n_length s n a r : read_n s n = Some (a, r) -> (length s = N.to_nat n + length r)%nat.
Proof.
  intros H. apply read_n_some in H. destruct H as [-> L]. rewrite app_length. unfold len in L. lia.
Qed.

(* ---- pipelines ---- *)
Lemma length_concat_ge {A} (f : A -> bytes) (l : list A) :
  (forall x, In x l -> f x <> []) -> (length l <= length (concat (map f l)))%nat.
Proof.
  induction l as [|x l IH]; intros H; cbn [map concat length]; [lia|].
  rewrite app_length.
  assert (f x <> []) as Hx by (apply H; left; reflexivity).
  assert (length l <= length (concat (map f l)))%nat by (apply IH; intros y Hy; apply H; right; exact Hy).
  destruct (f x); [contradiction | cbn [length]; lia].
Qed.

Lemma parse_all_fuel_roundtrip (p : bytes -> pout) (enc : req -> bytes) (wf : req -> bool) :
  (forall r rest, wf r = true -> fst (p (enc r ++ rest)) = PDone r rest) ->
  (forall r, wf r = true -> enc r <> []) ->
  forall rs fuel, forallb wf rs = true -> (length rs <= fuel)%nat ->
  parse_all_fuel p fuel (concat (map enc rs)) = Some rs.
Proof.
  intros RT NE. induction rs as [|r rs IH]; intros fuel W F.
  - destruct fuel; reflexivity.
  - cbn [forallb] in W. apply andb_true_iff in W. destruct W as [Wr Wrs].
    cbn [map concat]. cbn [length] in F. destruct fuel as [|f]; [lia|].
    destruct (enc r ++ concat (map enc rs)) as [|b t] eqn:E.
    + apply app_eq_nil in E. destruct E as [E _]. exfalso. exact (NE r Wr E).
    + rewrite <- E.
      assert (parse_all_fuel p (S f) (enc r ++ concat (map enc rs)) =
              match fst (p (enc r ++ concat (map enc rs))) with
              | PDone q rest => match parse_all_fuel p f rest with Some l => Some (q :: l) | None => None end
              | _ => None end) as U.
      { rewrite E. reflexivity. }
      rewrite U, RT by exact Wr. rewrite IH; [reflexivity | exact Wrs | lia].
Qed.

Lemma parse_all_roundtrip (p : bytes -> pout) (enc : req -> bytes) (wf : req -> bool) :
  (forall r rest, wf r = true -> fst (p (enc r ++ rest)) = PDone r rest) ->
  (forall r, wf r = true -> enc r <> []) ->
  forall rs, forallb wf rs = true -> parse_all p (concat (map enc rs)) = Some rs.
Proof.
  intros RT NE rs W. unfold parse_all. apply parse_all_fuel_roundtrip with (wf := wf); try assumption.
  assert (length rs <= length (concat (map enc rs)))%nat; [|lia].
  apply length_concat_ge. intros x Hx. apply NE.
  rewrite forallb_forall in W. apply W, Hx.
Qed.

(* ---- the loop never spins ---- *)
Lemma serve_loop_total p : progresses p ->
  forall fuel s, (length s < fuel)%nat -> exists l, serve_loop p fuel s = Some l.
Proof.
  intros P. induction fuel as [|f IH]; intros s F; [lia|].
  cbn [serve_loop]. specialize (P s). destruct (p s) as [r tr]. cbn [fst] in P.
  destruct r as [q rest|e rest|].
  - destruct (IH rest) as [l Hl]; [lia|]. rewrite Hl.
    destruct q; eexists; reflexivity.
  - destruct (IH rest) as [l Hl]; [lia|]. rewrite Hl. eexists; reflexivity.
  - eexists; reflexivity.
Qed.

Lemma serve_total p : progresses p -> forall s, exists l, serve p s = Some l.
Proof. intros P s. apply serve_loop_total; [exact P | lia]. Qed.

Lemma serve_loop_ends p : forall fuel s l, serve_loop p fuel s = Some l ->
  exists l' x n tr, l = l' ++ [(x, n, tr)] /\ closes x = true.
Proof.
  induction fuel as [|f IH]; intros s l H; [discriminate|].
  cbn [serve_loop] in H. destruct (p s) as [r tr]. destruct r as [q rest|e rest|].
  - destruct (serve_loop p f rest) as [l0|] eqn:R.
    + apply IH in R. destruct R as (l' & x & n & tr' & -> & C).
      destruct q; inversion H; subst;
        try (eexists (_ :: l'), x, n, tr'; split; [reflexivity | exact C]).
      eexists [], _, _, _; split; [reflexivity | reflexivity].
    + destruct q; try discriminate. inversion H; subst.
      eexists [], _, _, _; split; [reflexivity | reflexivity].
  - destruct (serve_loop p f rest) as [l0|] eqn:R; [|discriminate].
    apply IH in R. destruct R as (l' & x & n & tr' & -> & C). inversion H; subst.
    eexists (_ :: l'), x, n, tr'; split; [reflexivity | exact C].
  - inversion H; subst. eexists [], _, _, _; split; reflexivity.
Qed.

(* ---- protocol selection ---- *)
Lemma select_default b :
  select_proto default_protocols b = Some (if b =? magicRequest then Bin else Text).
Proof.
  unfold select_proto, default_protocols. cbn [select_loop can_parse map last].
  destruct (b =? magicRequest) eqn:E.
  - apply N.eqb_eq in E. subst b. reflexivity.
  - destruct ((97 <=? b) && (b <=? 122)); reflexivity.
Qed.

Lemma select_first_byte :
  select_proto default_protocols magicRequest = Some Bin /\
  (forall b, 97 <= b <= 122 -> select_proto default_protocols b = Some Text) /\
  (forall b, b <> magicRequest -> select_proto default_protocols b = Some Text).
Proof.
  split; [reflexivity|]. split; intros b H; rewrite select_default.
  - destruct (b =? magicRequest) eqn:E; [|reflexivity].
    apply N.eqb_eq in E. rewrite E in H. vm_compute in H. destruct H as [_ H]. exfalso. apply H. reflexivity.
  - destruct (b =? magicRequest) eqn:E; [|reflexivity]. apply N.eqb_eq in E. contradiction.
Qed.

(* decoding depends on the concatenation of the segments only *)
Lemma parse_all_resegmented (p : bytes -> pout) (enc : req -> bytes) (wf : req -> bool) :
  (forall r rest, wf r = true -> fst (p (enc r ++ rest)) = PDone r rest) ->
  (forall r, wf r = true -> enc r <> []) ->
  forall rs (segs : list bytes), forallb wf rs = true -> concat segs = concat (map enc rs) ->
  parse_all p (concat segs) = Some rs.
Proof. intros RT NE rs segs W E. rewrite E. apply (parse_all_roundtrip p enc wf RT NE rs W). Qed.
