(* LoopShapeProofs.v — the hand-written models of the server loop ARE the loop driven by
   [loop_model] (proto/LoopShape.v): every lemma below is proved from the definition of the model
   function it names (serve1, serve1_f, serve_stream, serve_loop, parse_text, parse_bin,
   Listen.abort), none restates it. Together with gen/LoopLink.v (loop_src = loop_model) this
   ties the decisions of those models to the source of /repo/server/default.go and utils.go.

   What is NOT connected here, because no model definition represents it:
   - which numbered error a PClose of the parser models stands for (ReqCommon.pres carries no
     error number on PClose): that ErrInternal / ErrUnknownCmd / io.EOF / bad magic are NOT among
     the four is visible in the comments of proto/TextReq.v, proto/BinReq.v only, and is what the
     differential checks C07/C11 observe. Proved instead: the parser models report as PClientErr
     nothing but the four errors the source continues after (text: all four occur, binary: none);
   - the closers of abort as a list: the models have one flag per connection (conn_state) and, in
     server/Listen.v, the pair of backend handlers; s.conns = [remote; l1; l2] is fixed in
     listen.go, not in the files read here;
   - a panic inside the recover handler itself or inside abort (helpers are assumed to return);
   - a panic raised by Parse (only handler panics are in the fault model, orca/Faults.v HPanic). *)
From Coq Require Import String.
From Rend Require Import base.Bytes gen.Consts_gen spec.MapSpec orca.Types handlers.Std orca.Orcas
  orca.Faults proto.Resp proto.ReqCommon proto.Stream proto.BinReq proto.TextReq proto.LoopShape.
From Rend Require server.Listen.
Open Scope N_scope.

Definition four : list N := [EBadRequest; EBadLength; EBadFlags; EBadExptime].

(* ---------------- the decisions of loop_model, spelled out ---------------- *)
(* (4) every way through the recover handler runs abort *)
Lemma model_on_panic : sh_on_panic loop_model = Some Closed.
Proof. reflexivity. Qed.

(* (1) *)
Lemma model_parse_error : forall e,
  sh_on_parse_error loop_model e =
  if existsb (N.eqb e) four then Some ([PError 0 RtUnknown e false], Open) else Some ([], Closed).
Proof. intros e. unfold sh_on_parse_error. cbn. unfold four. cbn. destruct (_ || _); reflexivity. Qed.

Lemma model_parse_error_in : forall e, In e four ->
  sh_on_parse_error loop_model e = Some ([PError 0 RtUnknown e false], Open).
Proof.
  intros e H. rewrite model_parse_error.
  replace (existsb (N.eqb e) four) with true; [reflexivity|].
  symmetry. apply existsb_exists. exists e. split; [exact H | apply N.eqb_refl].
Qed.

Lemma model_continues_iff : forall e,
  (exists cs, sh_on_parse_error loop_model e = Some (cs, Open)) <-> In e four.
Proof.
  intros e. rewrite model_parse_error. split.
  - intros [cs H]. destruct (existsb (N.eqb e) four) eqn:X; [|discriminate].
    apply existsb_exists in X. destruct X as [x [Hx E]]. apply N.eqb_eq in E. subst x. exact Hx.
  - intros H. exists [PError 0 RtUnknown e false].
    replace (existsb (N.eqb e) four) with true; [reflexivity|].
    symmetry. apply existsb_exists. exists e. split; [exact H | apply N.eqb_refl].
Qed.

Lemma model_closes_iff : forall e,
  sh_on_parse_error loop_model e = Some ([], Closed) <-> ~ In e four.
Proof.
  intros e. rewrite model_parse_error. split.
  - intros H Hin. replace (existsb (N.eqb e) four) with true in H; [discriminate|].
    symmetry. apply existsb_exists. exists e. split; [exact Hin | apply N.eqb_refl].
  - intros H. destruct (existsb (N.eqb e) four) eqn:X; [|reflexivity].
    apply existsb_exists in X. destruct X as [x [Hx E]]. apply N.eqb_eq in E. subst x. contradiction.
Qed.

Lemma model_parse_other : sh_on_parse_other loop_model = Some Closed.
Proof. reflexivity. Qed.

(* (2)+(3) *)
Definition after_model (r : req) (e : option N) : list rcall * conn_state :=
  match r with
  | RQuit _ _ => ([], Closed)
  | _ => match e with
         | None => ([], Open)
         | Some err => if is_app_error err
                       then ([PError (req_opaque r) (rtype r) err (req_quiet r)], Open)
                       else ([], Closed)
         end
  end.

Lemma model_after : forall r e, sh_after loop_model r e = Some (after_model r e).
Proof.
  intros r e.
  destruct r as [[| |] k d f t o q | [|] k d o q | k o | k t o | k t o | i n x | i n x | o | o q | o | o |];
    destruct e as [err|]; unfold sh_after, after_model; cbn; try reflexivity;
    destruct (is_app_error err); reflexivity.
Qed.

(* the dispatch sends every request to the method named after it *)
Lemma model_dispatch_method : forall r,
  exists a asg rest, find_case (ls_dispatch loop_model) (rtype r) = Some (KCall (req_meth r) a asg :: rest)
                     /\ arg_ok a = true.
Proof.
  intros r.
  destruct r as [[| |] k d f t o q | [|] k d o q | k o | k t o | k t o | i n x | i n x | o | o q | o | o |];
    cbn; do 3 eexists; split; reflexivity.
Qed.

(* orca/Orcas.v serve1 *)
Lemma model_serve1 : forall h1 h2 orca r l1 l2 now,
  sh_serve1 loop_model h1 h2 orca r l1 l2 now = Some (serve1 h1 h2 orca r l1 l2 now).
Proof.
  intros. unfold sh_serve1, serve1.
  destruct (run h1 h2 (orca r) l1 l2 now) as [[[a b] cs] e].
  rewrite model_after. unfold after_model.
  destruct r; try (destruct e as [err|]; [destruct (is_app_error err)|]); rewrite ?app_nil_r; reflexivity.
Qed.

(* orca/Faults.v serve1_f: errors as above, and a panic closes *)
Lemma model_serve1_f : forall pl orca r st now,
  sh_serve1_f loop_model pl orca r st now = Some (serve1_f pl orca r st now).
Proof.
  intros. unfold sh_serve1_f, serve1_f.
  destruct (run_f pl (orca r) st now) as [[st' cs] e].
  destruct e as [e'|]; [|rewrite model_on_panic; reflexivity].
  rewrite model_after. unfold after_model.
  destruct r; try (destruct e' as [err|]; [destruct (is_app_error err)|]); rewrite ?app_nil_r; reflexivity.
Qed.

(* the decisions read off the model functions themselves *)
Lemma serve1_f_panic_closes : forall pl orca r st now,
  snd (run_f pl (orca r) st now) = FPanicked -> snd (serve1_f pl orca r st now) = Closed.
Proof.
  intros pl orca r st now H. unfold serve1_f.
  destruct (run_f pl (orca r) st now) as [[st' cs] e]. cbn [snd] in H. subst e. reflexivity.
Qed.

Lemma serve1_error_rule : forall h1 h2 orca r l1 l2 now err,
  rtype r <> RtQuit ->
  snd (run h1 h2 (orca r) l1 l2 now) = Some err ->
  (snd (serve1 h1 h2 orca r l1 l2 now) = Open <-> is_app_error err = true).
Proof.
  intros h1 h2 orca r l1 l2 now err Hq H. unfold serve1.
  destruct (run h1 h2 (orca r) l1 l2 now) as [[[a b] cs] e]. cbn [snd] in H. subst e.
  destruct r; try (exfalso; apply Hq; reflexivity);
    destruct (is_app_error err); cbn [snd]; split; intro X; try reflexivity; discriminate.
Qed.

Lemma serve1_quit_closes : forall h1 h2 orca o q l1 l2 now,
  snd (serve1 h1 h2 orca (RQuit o q) l1 l2 now) = Closed.
Proof.
  intros. unfold serve1. destruct (run h1 h2 (orca (RQuit o q)) l1 l2 now) as [[[a b] cs] e]. reflexivity.
Qed.

(* ---------------- the parser models report only the four as client errors ---------------- *)
Definition cerr4 (o : pout) : Prop :=
  match fst o with PClientErr e _ => In e four | _ => True end.

Lemma cerr4_pre evs o : cerr4 o -> cerr4 (pre evs o).
Proof. exact (fun H => H). Qed.

Ltac in4 := unfold cerr4, four; cbn [fst In]; auto 6.

Lemma text_store_cerr4 mk parts s : cerr4 (text_store mk parts s).
Proof.
  unfold text_store.
  destruct parts as [|p0 [|p1 [|p2 [|p3 [|p4 [|p5 ps]]]]]]; try in4.
  destruct (field_u32 p2) as [fl|]; [|in4]. destruct (field_u32 p3) as [tt|]; [|in4]. destruct (field_u32 p4) as [n|]; [|in4].
  destruct (read_n s n) as [[d s1]|]; [|in4]. destruct (read_line s1) as [[tl s2]|]; in4.
Qed.

Lemma text_dispatch_cerr4 parts s : cerr4 (text_dispatch parts s).
Proof.
  unfold text_dispatch. destruct parts as [|c args]; [in4|].
  repeat match goal with
         | |- cerr4 (if ?b then _ else _) => destruct b
         end;
    try apply text_store_cerr4;
    repeat match goal with
           | |- cerr4 (match ?x with _ => _ end) => destruct x
           end;
    in4.
Qed.

Lemma text_client_errs : client_errs_only loop_model parse_text.
Proof.
  intros s e rest H. cbn. change (In e four).
  unfold parse_text in H. destruct (read_line s) as [[line s1]|]; [|discriminate].
  pose proof (text_dispatch_cerr4 (split_sp (trim_space line)) s1) as D.
  unfold cerr4 in D. unfold pre in H. cbn [fst] in H. rewrite H in D. exact D.
Qed.

(* the binary parser model reports no client error at all *)
Definition nocerr (o : pout) : Prop := match fst o with PClientErr _ _ => False | _ => True end.
Ltac nc := unfold nocerr; cbn [fst]; exact I.
Ltac rn' :=
  repeat match goal with
         | |- context [match read_n ?s ?n with _ => _ end] => destruct (read_n s n) as [[? ?]|]
         end.

Lemma bin_batch_nocerr mk qop fop : forall fuel h s acc, nocerr (bin_batch mk qop fop fuel h s acc).
Proof.
  induction fuel as [|f IH]; intros h s acc; [nc|].
  cbn [bin_batch]. destruct (h_op h =? qop).
  - destruct (read_n s (h_klen h)) as [[k s1]|]; [|nc].
    destruct (read_hdr s1) as [[h' s2]|]; [|nc].
    exact (IH h' s2 (mkGI k (h_opaque h) true :: acc)).
  - destruct (h_op h =? fop).
    + rn'; nc.
    + destruct (h_op h =? opNoop); nc.
Qed.

Lemma bin_dispatch_nocerr c h s : nocerr (bin_dispatch c h s).
Proof.
  unfold bin_dispatch.
  repeat match goal with
         | |- nocerr (if ?b then _ else _) => destruct b
         end;
    first [ apply bin_batch_nocerr
          | (unfold bin_set, bin_cat, bin_key, bin_exp_key;
             repeat match goal with |- nocerr (if ?b then _ else _) => destruct b end; rn'; nc) ].
Qed.

Lemma bin_no_client_err : forall c s e rest, fst (parse_bin_gen c s) <> PClientErr e rest.
Proof.
  intros c s e rest H. unfold parse_bin_gen in H.
  destruct (read_hdr s) as [[h s1]|]; [|discriminate].
  pose proof (bin_dispatch_nocerr c h s1) as D. unfold nocerr in D. unfold pre in H. cbn [fst] in H.
  rewrite H in D. exact D.
Qed.

Lemma bin_client_errs : client_errs_only loop_model parse_bin.
Proof. intros s e rest H. exfalso. exact (bin_no_client_err true s e rest H). Qed.

(* ---------------- proto/Stream.v serve_stream ---------------- *)
Lemma model_serve_stream : forall p parse orca, client_errs_only loop_model parse ->
  forall fuel s l1 l2 now,
    sh_serve_stream loop_model p parse orca fuel s l1 l2 now = Some (serve_stream p parse orca fuel s l1 l2 now).
Proof.
  intros p parse orca Hc fuel. induction fuel as [|f IH]; intros s l1 l2 now; [reflexivity|].
  cbn [sh_serve_stream serve_stream]. specialize (Hc s).
  destruct (fst (parse s)) as [r rest|e rest|].
  - rewrite model_serve1.
    destruct (serve1 std_exec std_exec orca r l1 l2 now) as [[[l1' l2'] cs] c].
    destruct c; [|reflexivity].
    rewrite IH. destruct (serve_stream p parse orca f rest l1' l2' now) as [[[out a] b] c']. reflexivity.
  - rewrite (model_parse_error_in e (Hc e rest eq_refl)).
    rewrite IH. destruct (serve_stream p parse orca f rest l1 l2 now) as [[[out a] b] c'].
    unfold render_all. cbn [map concat]. rewrite app_nil_r. reflexivity.
  - rewrite model_parse_other. reflexivity.
Qed.

(* ---------------- proto/ReqCommon.v serve_loop (C11) ---------------- *)
Lemma model_serve_loop : forall p, client_errs_only loop_model p ->
  forall fuel s, sh_serve_loop loop_model p fuel s = Some (serve_loop p fuel s).
Proof.
  intros p Hc fuel. induction fuel as [|f IH]; intros s; [reflexivity|].
  cbn [sh_serve_loop serve_loop]. specialize (Hc s).
  destruct (p s) as [r tr]. cbn [fst] in Hc.
  destruct r as [q rest|e rest|].
  - rewrite model_after. unfold after_model.
    destruct q; try reflexivity; rewrite IH; destruct (serve_loop p f rest); reflexivity.
  - rewrite (model_parse_error_in e (Hc e rest eq_refl)).
    rewrite IH. destruct (serve_loop p f rest); reflexivity.
  - rewrite model_parse_other. reflexivity.
Qed.

(* the C11 rule read off serve_loop itself: one step of the loop *)
Lemma serve_loop_step : forall p f s,
  serve_loop p (S f) s =
  match p s with
  | (PClose, tr) => Some [(SClose, 0, tr)]
  | (PClientErr e rest, tr) => option_map (cons (SErr e, len rest, tr)) (serve_loop p f rest)
  | (PDone q rest, tr) =>
      if rtype q =? RtQuit then Some [(SReq q, len rest, tr)]
      else option_map (cons (SReq q, len rest, tr)) (serve_loop p f rest)
  end.
Proof.
  intros p f s. cbn [serve_loop]. destruct (p s) as [r tr]. destruct r as [q rest|e rest|]; [|
    destruct (serve_loop p f rest); reflexivity | reflexivity].
  destruct q as [[| |] ? ? ? ? ? ? | [|] ? ? ? ? | | | | | | | | | |]; cbn;
    try (destruct (serve_loop p f rest); reflexivity); reflexivity.
Qed.

(* ---------------- (5) abort closes every closer ---------------- *)
Lemma model_abort_open : forall closers opened,
  sh_abort_open loop_model closers opened =
  Some (filter (fun h => negb (existsb (N.eqb h) closers)) opened).
Proof. reflexivity. Qed.

Lemma model_abort_closes_all : forall closers opened rest,
  sh_abort_open loop_model closers opened = Some rest ->
  (forall h, In h closers -> ~ In h rest) /\
  (forall h, In h rest <-> In h opened /\ ~ In h closers).
Proof.
  intros closers opened rest H. rewrite model_abort_open in H. inversion H; subst rest; clear H.
  assert (A : forall h, In h (filter (fun h => negb (existsb (N.eqb h) closers)) opened) <-> In h opened /\ ~ In h closers).
  { intros h. rewrite filter_In. split; intros [Ho X]; split; try exact Ho.
    - intros Hin. apply Bool.negb_true_iff in X.
      assert (existsb (N.eqb h) closers = true) as Y
        by (apply existsb_exists; exists h; split; [exact Hin | apply N.eqb_refl]).
      congruence.
    - apply Bool.negb_true_iff. destruct (existsb (N.eqb h) closers) eqn:Y; [|reflexivity].
      apply existsb_exists in Y. destruct Y as [x [Hx E]]. apply N.eqb_eq in E. subst x. contradiction. }
  split; [|exact A]. intros h Hin Hr. apply A in Hr. destruct Hr as [_ N']. exact (N' Hin).
Qed.

(* server/Listen.v abort (the end of Loop, and the EOF-before-a-byte path of listen.go) is that
   function on the connection's two handlers, and marks the connection Closed *)
Lemma model_abort_listen : forall s c r hs,
  sh_abort_open loop_model [fst hs; snd hs] (Listen.open s) = Some (Listen.open (fst (Listen.abort s c r hs))) /\
  Listen.lookup c (Listen.conns (fst (Listen.abort s c r hs))) =
    Some (Listen.mkConn Listen.Closed (Listen.c_made r) (Listen.c_srv r)).
Proof.
  intros s c r hs. split; [reflexivity|].
  unfold Listen.abort, Listen.set_conn. cbn. rewrite N.eqb_refl. reflexivity.
Qed.

Lemma listen_abort_closes_both : forall s c r hs,
  ~ In (fst hs) (Listen.open (fst (Listen.abort s c r hs))) /\
  ~ In (snd hs) (Listen.open (fst (Listen.abort s c r hs))).
Proof.
  intros s c r hs.
  destruct (model_abort_listen s c r hs) as [H _].
  destruct (model_abort_closes_all _ _ _ H) as [A _].
  split; apply A; cbn [In]; auto.
Qed.
