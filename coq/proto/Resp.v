(* Resp.v — protocol/binprot/respond.go and protocol/textprot/respond.go: the bytes each
   Responder call writes to the client. Opcodes, statuses, version strings and the error
   tables are the generated ones. *)
From Coq Require Import String.
From Rend Require Import base.Bytes gen.Consts_gen spec.MapSpec orca.Types.
Open Scope N_scope.

Definition crlf : bytes := [13; 10].

(* ---------------- binary ---------------- *)
(* writeResponseHeader: magic, opcode, key length, extras length, data type 0, status,
   total body (uint32), opaque, 8 zero bytes of CAS *)
Definition bin_hdr (opcode keylen extlen status total opaque : N) : bytes :=
  [magicResponse; opcode] ++ u16be keylen ++ [extlen mod 256; 0] ++ u16be status ++
  u32be (total mod 4294967296) ++ u32be opaque ++ zeros 8.

Definition error_to_code (e : N) : N :=
  match assocN errorToCode_tab e with Some c => c | None => statusInvalid end.
Fixpoint assoc_rt (l : list (N * bool * N)) (rt : N) (q : bool) : N :=
  match l with
  | [] => opInvalid
  | (a, b, c) :: r => if (a =? rt) && Bool.eqb b q then c else assoc_rt r rt q
  end.
Definition req_type_to_opcode (rt : N) (q : bool) : N := assoc_rt reqTypeToOpcode_tab rt q.

Definition bin_error (opaque rt e : N) (q : bool) : bytes :=
  bin_hdr (req_type_to_opcode rt q) 0 0 (error_to_code e) 0 opaque.

(* the opcode a successful store reply carries *)
Definition stored_opcode (rt : N) : N :=
  if rt =? RtSet then opSet else if rt =? RtAdd then opAdd else if rt =? RtReplace then opReplace
  else if rt =? RtAppend then opAppend else opPrepend.

Definition bin_get_common (g : gres) (opcode : N) : bytes :=
  bin_hdr opcode 0 4 statusSuccess (len (g_data g) + 4) (g_opaque g) ++ u32be (g_flags g) ++ g_data g.

Definition render_bin (c : rcall) : bytes :=
  match c with
  | PStored rt o q => if q then [] else bin_hdr (stored_opcode rt) 0 0 statusSuccess 0 o
  | PGet g => if g_miss g then (if g_quiet g then [] else bin_error (g_opaque g) RtGet EKeyNotFound false)
              else bin_get_common g opGet
  | PGat g => if g_miss g then (if g_quiet g then [] else bin_error (g_opaque g) RtGat EKeyNotFound false)
              else bin_get_common g opGat
  | PGetE g => if g_miss g then (if g_quiet g then [] else bin_error (g_opaque g) RtGetE EKeyNotFound false)
               else bin_hdr opGetE 0 8 statusSuccess (len (g_data g) + 8) (g_opaque g) ++
                    u32be (g_flags g) ++ u32be (g_exp g) ++ g_data g
  | PGetEnd o ne => if ne then bin_hdr opNoop 0 0 statusSuccess 0 o else []
  | PDelete o => bin_hdr opDelete 0 0 statusSuccess 0 o
  | PTouch o => bin_hdr opTouch 0 0 statusSuccess 0 o
  | PNoop o => bin_hdr opNoop 0 0 statusSuccess 0 o
  | PQuit o q => if q then [] else bin_hdr opQuit 0 0 statusSuccess 0 o
  | PVersion o => bin_hdr opVersion 0 0 statusSuccess (len versionString) o ++ versionString
  | PStat o => bin_hdr opStat 7 0 statusSuccess (7 + len versionNum) o ++ asc "version" ++ versionNum ++
               bin_hdr opStat 0 0 statusSuccess 0 0
  | PError o rt e q => bin_error o rt e q
  end.

(* ---------------- text ---------------- *)
Definition err_text (e : N) : bytes := match assocN errText_tab e with Some t => t | None => [] end.

Definition text_error (e : N) : bytes :=
  (if e =? EKeyNotFound then asc "NOT_FOUND"
   else if (e =? EKeyExists) || (e =? EItemNotStored) then asc "NOT_STORED"
   else if (e =? EValueTooBig) || (e =? EInvalidArgs) then asc "CLIENT_ERROR bad command line"
   else if e =? EBadIncDecValue then asc "CLIENT_ERROR invalid numeric delta argument"
   else if e =? EAuth then asc "CLIENT_ERROR"
   else err_text e) ++ crlf.

(* [stat_sep] is what separates the STAT line from END in TextResponder.Stat *)
Definition stat_sep : bytes := [13; 10].

Definition render_text (c : rcall) : bytes :=
  match c with
  | PStored _ _ _ => asc "STORED" ++ crlf
  | PGet g => if g_miss g then []
              else asc "VALUE " ++ g_key g ++ [32] ++ dec (g_flags g) ++ [32] ++ dec (len (g_data g)) ++ crlf ++
                   g_data g ++ crlf
  | PGetEnd _ _ => asc "END" ++ crlf
  | PGat _ | PGetE _ => []          (* the real responder panics; unreachable from the text parser *)
  | PDelete _ => asc "DELETED" ++ crlf
  | PTouch _ => asc "TOUCHED" ++ crlf
  | PNoop _ => asc "Yep, it works." ++ crlf
  | PQuit _ q => if q then [] else asc "Bye" ++ crlf
  | PVersion _ => asc "VERSION " ++ versionString ++ crlf
  | PStat _ => asc "STAT version " ++ versionNum ++ stat_sep ++ asc "END" ++ crlf
  | PError _ _ e _ => text_error e
  end.

Inductive proto := Bin | Text.
Definition render (p : proto) (c : rcall) : bytes :=
  match p with Bin => render_bin c | Text => render_text c end.
Definition render_all (p : proto) (cs : list rcall) : bytes := concat (map (render p) cs).
