(* FramesSpec.v — definitions used by the statements of C08 (no proofs here). *)
From Coq Require Import String.
From Rend Require Import base.Bytes gen.Consts_gen spec.MapSpec orca.Types proto.Resp proto.Frames.
Open Scope N_scope.

Definition req_items (r : req) : list gitem :=
  match r with RGet items _ _ | RGetE items _ _ => items | _ => [] end.
Definition hits_of (s : store) (now : N) (r : req) : nat :=
  length (filter (fun it => match live now s (gi_key it) with Some _ => true | None => false end) (req_items r)).
Definition loud_misses_of (s : store) (now : N) (r : req) : nat :=
  length (filter (fun it => match live now s (gi_key it) with Some _ => false | None => negb (gi_quiet it) end) (req_items r)).

(* a key the text protocol can carry: non-empty, no space, CR or LF *)
Definition text_key_ok (k : bytes) : Prop :=
  k <> [] /\ Forall (fun b => b <> 32 /\ b <> 13 /\ b <> 10) k.

Definition gres_ok (p : proto) (g : gres) : Prop :=
  g_opaque g < 4294967296 /\ g_flags g < 4294967296 /\ g_exp g < 4294967296 /\
  len (g_data g) + 8 < 4294967296 /\
  match p with Text => text_key_ok (g_key g) | Bin => True end.

(* responder calls whose fields fit their wire fields *)
Definition rcall_ok (p : proto) (c : rcall) : Prop :=
  match c with
  | PGet g | PGetE g | PGat g => gres_ok p g
  | PStored _ o _ | PGetEnd o _ | PDelete o | PTouch o | PNoop o | PQuit o _ | PVersion o | PStat o
  | PError o _ _ _ => o < 4294967296
  end.

(* the single binary frame a responder call is expected to decode to *)
Definition bin_frame_of (c : rcall) : bframe :=
  let plain := fun opc o => mkBF opc 0 0 statusSuccess o [] [] [] in
  let err := fun o rt e q => mkBF (req_type_to_opcode rt q) 0 0 (error_to_code e) o [] [] [] in
  match c with
  | PStored rt o _ => plain (stored_opcode rt) o
  | PGet g => if g_miss g then err (g_opaque g) RtGet EKeyNotFound false
              else mkBF opGet 0 4 statusSuccess (g_opaque g) (u32be (g_flags g)) [] (g_data g)
  | PGat g => if g_miss g then err (g_opaque g) RtGat EKeyNotFound false
              else mkBF opGat 0 4 statusSuccess (g_opaque g) (u32be (g_flags g)) [] (g_data g)
  | PGetE g => if g_miss g then err (g_opaque g) RtGetE EKeyNotFound false
               else mkBF opGetE 0 8 statusSuccess (g_opaque g) (u32be (g_flags g) ++ u32be (g_exp g)) [] (g_data g)
  | PGetEnd o _ => plain opNoop o
  | PDelete o => plain opDelete o
  | PTouch o => plain opTouch o
  | PNoop o => plain opNoop o
  | PQuit o _ => plain opQuit o
  | PVersion o => mkBF opVersion 0 0 statusSuccess o [] [] versionString
  | PStat o => mkBF opStat 7 0 statusSuccess o [] (asc "version") versionNum
  | PError o rt e q => err o rt e q
  end.

(* the text frame of a call that renders as a single frame *)
Definition text_frame_of (c : rcall) : tframe :=
  match c with
  | PGet g => TValue (g_key g) (g_flags g) (g_data g)
  | _ => TLine (firstn (length (render_text c) - 2) (render_text c))
  end.

(* a request whose fields fit the wire: what the parsers can produce *)
Definition item_ok (p : proto) (it : gitem) : Prop :=
  gi_opaque it < 4294967296 /\ match p with Text => text_key_ok (gi_key it) | Bin => True end.
(* The text parser never produces a quiet request (no "noreply" support: TextReq.wf_text), and
   the text responder has no quiet form of STORED: a quiet store in text would be answered. *)
Definition req_wire_ok (p : proto) (r : req) : Prop :=
  req_opaque r < 4294967296 /\
  match r with
  | RGet items no _ | RGetE items no _ => no < 4294967296 /\ Forall (item_ok p) items
  | RGat k _ _ => match p with Text => False | Bin => True end
  | _ => True
  end /\
  match p with Text => req_quiet r = false | Bin => True end.

(* what a store can serve at [now] fits the wire fields of a reply: 32-bit flags, a body length
   that fits the 32-bit total-body field together with the extras, a 32-bit remaining TTL *)
Definition store_wire_ok (now : N) (s : store) : Prop :=
  forall k e, live now s k = Some e ->
    e_flags e < 4294967296 /\ len (e_data e) + 8 < 4294967296 /\ remaining now (e_dl e) < 4294967296.
