(* Stream.v — one client connection, bytes in, bytes out: the parse loop of
   server/default.go composed with the orchestrator and the responder. The client's byte
   stream is followed by EOF (the client closed its end); [fuel] bounds the number of Parse
   calls. Used by C15 (disconnect at any byte) and as the byte-level model of a connection. *)
From Rend Require Import base.Bytes gen.Consts_gen spec.MapSpec orca.Types handlers.Std orca.Orcas
  proto.Resp proto.ReqCommon.
Open Scope N_scope.

(* result: bytes written to the client, both stores, and whether the loop ended (Closed) or
   ran out of fuel (Open) *)
Fixpoint serve_stream (p : proto) (parse : bytes -> pout) (orca : req -> prog) (fuel : nat)
                      (s : bytes) (l1 l2 : store) (now : N) : bytes * store * store * conn_state :=
  match fuel with
  | O => ([], l1, l2, Open)
  | S f =>
      match fst (parse s) with
      | PClose => ([], l1, l2, Closed)           (* EOF, short read, bad frame: abort closes remote, L1 and L2 *)
      | PClientErr e rest =>
          let '(out, a, b, c) := serve_stream p parse orca f rest l1 l2 now in
          (render p (PError 0 RtUnknown e false) ++ out, a, b, c)
      | PDone r rest =>
          let '(l1', l2', cs, c) := serve1 std_exec std_exec orca r l1 l2 now in
          match c with
          | Closed => (render_all p cs, l1', l2', Closed)
          | Open => let '(out, a, b, c') := serve_stream p parse orca f rest l1' l2' now in
                    (render_all p cs ++ out, a, b, c')
          end
      end
  end.

Lemma serve_stream_closes (p : proto) (parse : bytes -> pout) (orca : req -> prog) :
  progresses parse ->
  forall fuel s l1 l2 now, (length s < fuel)%nat ->
    snd (serve_stream p parse orca fuel s l1 l2 now) = Closed.
Proof.
  intros Hp fuel. induction fuel as [|f IH]; intros s l1 l2 now Hl; [lia|].
  cbn [serve_stream]. specialize (Hp s).
  destruct (fst (parse s)) as [r rest|e rest|].
  - destruct (serve1 std_exec std_exec orca r l1 l2 now) as [[[l1' l2'] cs] c].
    destruct c; [|reflexivity].
    specialize (IH rest l1' l2' now ltac:(lia)).
    destruct (serve_stream p parse orca f rest l1' l2' now) as [[[out a] b] c']. exact IH.
  - specialize (IH rest l1 l2 now ltac:(lia)).
    destruct (serve_stream p parse orca f rest l1 l2 now) as [[[out a] b] c']. exact IH.
  - reflexivity.
Qed.
