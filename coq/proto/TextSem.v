(* TextSem.v — the meaning of the Go constructs and library calls that `rendharness texttrans`
   emits when it translates /repo/protocol/textprot/parser.go (gen/TextParser_gen.v).
   HAND-WRITTEN and TRUSTED: this file is the reading of Go that the source-level tie of the
   text parser rests on; the control and data flow of parser.go is NOT here, it is re-derived
   from the source on every run. Definitions only (lemmas: proto/TextSemLemmas.v).

   Values. A Go string, a []byte: [bytes]. A []string, a [][]byte: [list bytes]. Every integer
   type: [N] (a signed 64-bit value is its two's complement in [0, 2^64), as in gen/GoSem.v).
   An `error`: [option N] as in orca/OrcaSem.v (None = nil, Some e = the error numbered e in
   gen/Consts_gen.v, EIO for anything that is not one of the common.ErrXxx values: io.EOF,
   io.ErrUnexpectedEOF, io.ErrShortBuffer, *strconv.NumError).

   Computations. A function that uses the connection's *bufio.Reader is a [M]: a function of
   the bytes still to come (the rest of the stream followed by EOF — the same reading as
   proto/TextReq.v) to the outcome of Parse as DefaultServer.Loop classifies it plus the
   allocation/demand trace (proto/ReqCommon.v [pout]), or None where the construct is outside
   what is given a meaning here. Calls that touch the reader or can fail are binders in
   continuation-passing form: `x, err := f(a)` is [f a (fun x err => rest)]. All reader
   expressions of parser.go (the field TextParser.reader, the parameter r of setRequest) denote
   the one reader of the connection: the state threaded through [M]. *)
From Coq Require Import String.
From Rend Require Import base.Bytes gen.Consts_gen gen.GoSem spec.MapSpec orca.Types orca.OrcaSem
  proto.Resp proto.ReqCommon proto.TextReq.
Open Scope N_scope.

Definition gerr := option N.
Definition M := bytes -> option pout.

(* events that were emitted before the rest of the computation ran *)
Definition mpre (evs : list aev) (o : option pout) : option pout := option_map (pre evs) o.

(* a run-time panic (index out of range, make with a negative length): recovered by the deferred
   handler of DefaultServer.Loop, which aborts the connection (proto/LoopShape.v, sh_on_panic) *)
Definition go_panic : M := fun _ => Some (PClose, []).
(* outside the semantics given here *)
Definition go_unsupported : M := fun _ => None.

(* ---------------- values of the interface common.Request ----------------
   One constructor per request struct of common/datatypes.go, the fields in the order of the
   struct definition (texttrans reads names, order and types from datatypes.go: a changed struct
   no longer fits these constructors). *)
Inductive greq :=
| GNil
| GSetRequest (key data : bytes) (flags exptime opaque : N) (quiet : bool)
| GGetRequest (keys : list bytes) (opaques : list N) (quiet : list bool) (noopOpaque : N) (noopEnd : bool)
| GDeleteRequest (key : bytes) (opaque : N) (quiet : bool)
| GTouchRequest (key : bytes) (exptime opaque : N) (quiet : bool)
| GGATRequest (key : bytes) (exptime opaque : N) (quiet : bool)
| GQuitRequest (opaque : N) (quiet : bool)
| GNoopRequest (opaque : N)
| GVersionRequest (opaque : N)
| GStatRequest (opaque : N).

(* What DefaultServer.Loop makes of (request, reqType) when err == nil: `switch reqType` and the
   type assertion request.(common.T) of that case (gen/Loop_gen.v ls_dispatch; RequestUnknown
   passes the request on without looking at it). None = the assertion fails, a panic. The
   model's [req] has no Quiet for delete/touch/gat (the binary parser never sets it either) and
   RCat has no flags/exptime (Append/Prepend do not use them). *)
Definition as_req (g : greq) (rt : N) : option req :=
  if rt =? RtSet then match g with GSetRequest k d f t o q => Some (RSet MSet k d f t o q) | _ => None end
  else if rt =? RtAdd then match g with GSetRequest k d f t o q => Some (RSet MAdd k d f t o q) | _ => None end
  else if rt =? RtReplace then match g with GSetRequest k d f t o q => Some (RSet MReplace k d f t o q) | _ => None end
  else if rt =? RtAppend then match g with GSetRequest k d _ _ o q => Some (RCat false k d o q) | _ => None end
  else if rt =? RtPrepend then match g with GSetRequest k d _ _ o q => Some (RCat true k d o q) | _ => None end
  else if rt =? RtDelete then match g with GDeleteRequest k o _ => Some (RDelete k o) | _ => None end
  else if rt =? RtTouch then match g with GTouchRequest k t o _ => Some (RTouch k t o) | _ => None end
  else if rt =? RtGat then match g with GGATRequest k t o _ => Some (RGat k t o) | _ => None end
  else if rt =? RtGet then match g with GGetRequest ks os qs no ne => Some (RGet (gitems ks os qs) no ne) | _ => None end
  else if rt =? RtGetE then match g with GGetRequest ks os qs no ne => Some (RGetE (gitems ks os qs) no ne) | _ => None end
  else if rt =? RtNoop then match g with GNoopRequest o => Some (RNoop o) | _ => None end
  else if rt =? RtQuit then match g with GQuitRequest o q => Some (RQuit o q) | _ => None end
  else if rt =? RtVersion then match g with GVersionRequest o => Some (RVersion o) | _ => None end
  else if rt =? RtStat then match g with GStatRequest o => Some (RStat o) | _ => None end
  else if rt =? RtUnknown then Some RUnknown
  else None.

(* the errors after which DefaultServer.Loop answers and goes on (gen/Loop_gen.v ls_parse_rule;
   gen/TextParserLink.v proves this list to be the one of the translated loop) *)
Definition is_client_err (e : N) : bool :=
  existsb (N.eqb e) [EBadRequest; EBadLength; EBadFlags; EBadExptime].

(* `return request, reqType, start, err` of Parse, as the loop sees it (ReqCommon.v [pres]); the
   third result (a time stamp for the metrics) is not observable in the model *)
Definition go_return (g : greq) (rt : N) (start : N) (e : gerr) : M := fun s =>
  Some (match e with
        | None => match as_req g rt with Some r => PDone r s | None => PClose end
        | Some c => if is_client_err c then PClientErr c s else PClose
        end, []).

(* timer.Now(): time is not modelled *)
Definition time_now : N := 0.

(* ---------------- bufio.Reader ---------------- *)
(* the line up to and including the first [d], and what follows; None when there is no [d] *)
Fixpoint read_until (d : N) (s : bytes) : option (bytes * bytes) :=
  match s with
  | [] => None
  | b :: r => if b =? d then Some ([b], r)
              else match read_until d r with
                   | Some (l, rest) => Some (b :: l, rest)
                   | None => None
                   end
  end.
(* `line, err := r.ReadString(d)`: the bytes up to and including the delimiter; at EOF before a
   delimiter everything that was left and io.EOF. The bytes received are buffered: ALine. *)
Definition rd_ReadString (d : N) (k : bytes -> gerr -> M) : M := fun s =>
  match read_until d s with
  | Some (l, rest) => mpre [ALine (len l)] (k l None rest)
  | None => mpre [ALine (len s)] (k s (Some EIO) [])
  end.

(* `buf := make([]byte, n)`: the allocation of a read buffer of the size the command line declares
   (ATextData); a length that is negative as an int panics *)
Definition mk_buf (n : N) (k : bytes -> M) : M := fun s =>
  if two63 <=? n then go_panic s else mpre [ATextData n] (k (zeros n) s).

(* `n, err := io.ReadAtLeast(r, buf, min)`; io.ReadFull(r, buf) is io.ReadAtLeast(r, buf, len(buf)).
   The continuation gets the new contents of buf, n and err.
     min negative (as an int) : the read loop does not run: (0, nil);
     len(buf) < min           : (0, io.ErrShortBuffer), nothing is read;
     len(buf) = min           : exactly min bytes, or at EOF the bytes that were left and
                                io.EOF / io.ErrUnexpectedEOF;
     len(buf) > min           : how much more than min is read depends on how the stream arrives —
                                not a function of the concatenated stream, unsupported. *)
Definition rd_ReadAtLeast (buf : bytes) (min : N) (k : bytes -> N -> gerr -> M) : M := fun s =>
  if two63 <=? min then k buf 0 None s
  else if len buf <? min then k buf 0 (Some EIO) s
  else if min <? len buf then None
  else match read_n s min with
       | Some (d, rest) => k d min None rest
       | None => k (s ++ drop (len s) buf) (len s) (Some EIO) []
       end.

(* ---------------- strings / strconv ---------------- *)
(* strings.TrimSpace: the byte-wise model of proto/TextReq.v (Unicode White_Space table) *)
Definition str_TrimSpace (x : bytes) : bytes := trim_space x.

(* strings.Split(x, sep) for a separator of one byte: always at least one part *)
Fixpoint str_Split1 (x : bytes) (c : N) : list bytes :=
  match x with
  | [] => [[]]
  | b :: r =>
      if b =? c then [] :: str_Split1 r c
      else match str_Split1 r c with
           | p :: ps => (b :: p) :: ps
           | [] => [[b]]
           end
  end.

(* the value strconv.ParseUint returns next to an error: the largest value of the bit size for
   an out-of-range numeral (digits only), 0 for a syntax error *)
Definition parse_uint_errval (x : bytes) : N :=
  match x with [] => 0 | _ => if forallb is_digit x then 4294967295 else 0 end.
(* `v, err := strconv.ParseUint(x, 10, 32)` (base/Bytes.v parse_u32); other bases and sizes:
   unsupported *)
Definition str_ParseUint (x : bytes) (base bits : N) (k : N -> gerr -> M) : M :=
  if (base =? 10) && (bits =? 32) then
    match parse_u32 x with
    | Some v => k v None
    | None => k (parse_uint_errval x) (Some EIO)
    end
  else go_unsupported.

(* string == string *)
Definition str_eqb (a b : bytes) : bool := bytes_eqb a b.

(* ---------------- slices ---------------- *)
(* x[i] on a []string / [][]byte. The translator puts [chk_index x i] in front of the statement
   that contains x[i]; [idx] itself is only evaluated in range *)
Definition idx (x : list bytes) (i : N) : bytes := nth (N.to_nat i) x [].
Definition chk_index {A} (x : list A) (i : N) (k : M) : M := if i <? len x then k else go_panic.
(* x[i:] *)
Definition slice_from {A} (x : list A) (i : N) : list A := drop i x.
Definition chk_slice_from {A} (x : list A) (i : N) (k : M) : M := if i <=? len x then k else go_panic.
(* make([]uint32, n), make([]bool, n): zero values (not traced: sized by what was received) *)
Definition mk_u32s (n : N) : list N := repeat 0 (N.to_nat n).
Definition mk_bools (n : N) : list bool := repeat false (N.to_nat n).
(* for _, v := range xs { acc = f(acc, v) } *)
Definition range_fold {A B} (f : A -> B -> A) (xs : list B) (a : A) : A := fold_left f xs a.
