(* TextReqProofs.v — proofs about proto/TextReq.v: round trip of the supported subset (C07),
   progress and allocation discipline (C11). *)
From Coq Require Import String.
From Rend Require Import base.Bytes base.BytesProofs gen.Consts_gen spec.MapSpec orca.Types proto.Resp
  proto.ReqCommon proto.ReqCommonProofs proto.TextReq.
Open Scope N_scope.

(* printable ASCII without space: what keys, command names and numerals consist of *)
Definition plain (b : N) : Prop := 33 <= b <= 126.
Definition Plain (l : bytes) : Prop := Forall plain l.

Lemma Plain_dec n : Plain (dec n).
Proof. eapply Forall_impl; [|apply dec_bytes]. unfold plain. intros; lia. Qed.
Lemma Plain_key k : tkey_okb k = true -> Plain k /\ k <> [].
Proof.
  unfold tkey_okb. destruct k as [|b k]; [discriminate|]. intros H. split; [|discriminate].
  rewrite forallb_forall in H. apply Forall_forall. intros x Hx. specialize (H x Hx).
  unfold keybyte_okb in H. unfold plain. lia.
Qed.
Lemma Plain_no10 l : Plain l -> Forall (fun b => b <> 10) l.
Proof. apply Forall_impl. unfold plain. intros; lia. Qed.
Lemma Plain_no32 l : Plain l -> Forall (fun b => b <> 32) l.
Proof. apply Forall_impl. unfold plain. intros; lia. Qed.

(* ---------------- ReadString ---------------- *)
Lemma read_line_app w : forall rest,
  Forall (fun b => b <> 10) w -> read_line (w ++ 10 :: rest) = Some (w ++ [10], rest).
Proof.
  induction w as [|b w IH]; intros rest H; cbn [app read_line].
  - reflexivity.
  - inversion H; subst. destruct (b =? 10) eqn:E; [lia|]. rewrite IH by assumption. reflexivity.
Qed.
Lemma read_line_crlf rest : read_line (crlf ++ rest) = Some (crlf, rest).
Proof. reflexivity. Qed.
Lemma read_line_length s : forall l rest,
  read_line s = Some (l, rest) -> (length s = length l + length rest)%nat /\ (1 <= length l)%nat.
Proof.
  induction s as [|b s IH]; intros l rest H; cbn [read_line] in H; [discriminate|].
  destruct (b =? 10).
  - inversion H; subst. cbn [length]. lia.
  - destruct (read_line s) as [[l' r']|] eqn:R; [|discriminate]. inversion H; subst.
    destruct (IH _ _ eq_refl). cbn [length]. lia.
Qed.

(* ---------------- TrimSpace ---------------- *)
Lemma ascii_space_plain b : plain b -> ascii_space b = false.
Proof. unfold plain, ascii_space. lia. Qed.
Lemma e2_space_plain c b : plain b -> e2_space c b = false.
Proof. unfold plain, e2_space. lia. Qed.

Lemma trim_left_plain b r : plain b -> trim_left (b :: r) = b :: r.
Proof.
  intros P. cbn [trim_left]. rewrite ascii_space_plain by exact P. unfold plain in P.
  destruct (b =? 194) eqn:E1; [lia|]. destruct (b =? 225) eqn:E2; [lia|].
  destruct (b =? 226) eqn:E3; [lia|]. destruct (b =? 227) eqn:E4; [lia|]. reflexivity.
Qed.
Lemma trim_rev_plain b r : plain b -> trim_rev (b :: r) = b :: r.
Proof.
  intros P. cbn [trim_rev]. rewrite ascii_space_plain by exact P.
  destruct r as [|c r']; [reflexivity|].
  assert ((b =? 133) || (b =? 160) = false) as -> by (unfold plain in P; lia).
  rewrite andb_false_r. destruct r' as [|d r'']; [reflexivity|].
  rewrite e2_space_plain by exact P.
  assert ((b =? 128) = false) as -> by (unfold plain in P; lia).
  rewrite !andb_false_r. reflexivity.
Qed.

Lemma trim_rev_crlf l : trim_rev (10 :: 13 :: l) = trim_rev l.
Proof. reflexivity. Qed.

(* a command line that starts and ends with a printable non-space byte is what TrimSpace
   leaves of it and its CR LF *)
Lemma trim_space_line b0 mid fin :
  plain b0 -> Plain fin -> fin <> [] -> trim_space (b0 :: mid ++ fin ++ crlf) = b0 :: mid ++ fin.
Proof.
  intros P0 PF NE. unfold trim_space. rewrite trim_left_plain by exact P0.
  destruct (exists_last NE) as (fin' & bl & ->).
  assert (plain bl) as Pl.
  { unfold Plain in PF. rewrite Forall_app in PF. destruct PF as [_ PF]. inversion PF; assumption. }
  replace (b0 :: mid ++ (fin' ++ [bl]) ++ crlf) with ((b0 :: mid ++ fin') ++ [bl; 13; 10])
    by (cbn [app]; rewrite <- !app_assoc; reflexivity).
  rewrite rev_app_distr. change (rev [bl; 13; 10]) with [10; 13; bl]. cbn [app].
  rewrite trim_rev_crlf, trim_rev_plain by exact Pl.
  change (bl :: rev (b0 :: mid ++ fin')) with (rev [bl] ++ rev (b0 :: mid ++ fin')).
  rewrite <- rev_app_distr, rev_involutive. cbn [app]. rewrite <- !app_assoc. reflexivity.
Qed.

Lemma trim_space_plain l : Plain l -> trim_space l = l.
Proof.
  intros P. destruct l as [|b r]; [reflexivity|].
  unfold trim_space. inversion P; subst. rewrite trim_left_plain by assumption.
  assert (b :: r <> []) as NE by discriminate.
  destruct (exists_last NE) as (l' & bl & E). rewrite E.
  assert (plain bl) as Pl.
  { rewrite E in P. unfold Plain in P. rewrite Forall_app in P. destruct P as [_ P]. inversion P; assumption. }
  rewrite rev_app_distr. change (rev [bl]) with [bl]. cbn [app]. rewrite trim_rev_plain by exact Pl.
  change (bl :: rev l') with (rev [bl] ++ rev l'). rewrite <- rev_app_distr, rev_involutive. reflexivity.
Qed.

Lemma field_u32_dec n : n < 4294967296 -> field_u32 (dec n) = Some n.
Proof. intros H. unfold field_u32. rewrite trim_space_plain by apply Plain_dec. apply parse_u32_dec, H. Qed.

(* ---------------- Split ---------------- *)
Lemma split_sp_nosp a : Forall (fun b => b <> 32) a -> split_sp a = [a].
Proof.
  induction a as [|b a IH]; intros H; cbn [split_sp]; [reflexivity|].
  inversion H; subst. destruct (b =? 32) eqn:E; [lia|]. rewrite IH by assumption. reflexivity.
Qed.
Lemma split_sp_app a : forall r, Forall (fun b => b <> 32) a -> split_sp (a ++ 32 :: r) = a :: split_sp r.
Proof.
  induction a as [|b a IH]; intros r H; cbn [app split_sp].
  - reflexivity.
  - inversion H; subst. destruct (b =? 32) eqn:E; [lia|]. rewrite IH by assumption. reflexivity.
Qed.

Lemma split_keys : forall items a,
  Forall (fun b => b <> 32) a -> Forall (fun g => Plain (gi_key g)) items ->
  split_sp (a ++ enc_keys items) = a :: map gi_key items.
Proof.
  induction items as [|g r IH]; intros a Ha Hk; cbn [enc_keys map].
  - rewrite app_nil_r. apply split_sp_nosp, Ha.
  - inversion Hk; subst. unfold sp. cbn [app]. rewrite split_sp_app by exact Ha.
    rewrite IH; [reflexivity | apply Plain_no32; assumption | assumption].
Qed.

Lemma enc_keys_app a b : enc_keys (a ++ b) = enc_keys a ++ enc_keys b.
Proof. induction a as [|g a IH]; cbn [app enc_keys]; [reflexivity|]. rewrite IH, <- !app_assoc. reflexivity. Qed.

Lemma enc_keys_no10 items : Forall (fun g => Plain (gi_key g)) items -> Forall (fun b => b <> 10) (enc_keys items).
Proof.
  induction 1 as [|g r Hg Hr IH]; cbn [enc_keys]; [constructor|].
  unfold sp. cbn [app]. constructor; [lia|]. apply Forall_app. split; [apply Plain_no10, Hg | exact IH].
Qed.

(* ---------------- dispatch ---------------- *)
Lemma dispatch_set m args s :
  text_dispatch (set_name m :: args) s
  = text_store (fun k d f t => RSet m k d f t 0 false) (set_name m :: args) s.
Proof. destruct m; reflexivity. Qed.
Lemma dispatch_cat fr args s :
  text_dispatch (cat_name fr :: args) s
  = text_store (fun k d _ _ => RCat fr k d 0 false) (cat_name fr :: args) s.
Proof. destruct fr; reflexivity. Qed.

Lemma Plain_set_name m : Plain (set_name m).
Proof. destruct m; cbn; repeat constructor; unfold plain; lia. Qed.
Lemma Plain_cat_name fr : Plain (cat_name fr).
Proof. destruct fr; cbn; repeat constructor; unfold plain; lia. Qed.

Ltac no_byte :=
  repeat first [ apply Forall_nil
               | apply Forall_cons; [lia|]
               | apply Forall_app; split
               | (apply Plain_no10; assumption) | (apply Plain_no32; assumption) ].

Ltac norm_app := repeat (progress cbn [app] || rewrite <- app_assoc).
Ltac eq_app := unfold crlf, sp; norm_app; reflexivity.

(* ---------------- round trip ---------------- *)
Lemma store_roundtrip (name : bytes) (mk : bytes -> bytes -> N -> N -> req) k d f t rest b0 name' :
  name = b0 :: name' -> plain b0 -> Plain name ->
  (forall args s, text_dispatch (name :: args) s = text_store mk (name :: args) s) ->
  tkey_okb k = true -> f < 4294967296 -> t < 4294967296 -> len d < 4294967296 ->
  fst (parse_text (enc_store name k d f t ++ rest)) = PDone (mk k d f t) rest.
Proof.
  intros En P0 Pn D K Hf Ht Hd. apply Plain_key in K. destruct K as [Pk _].
  pose proof (Plain_dec f) as Pf. pose proof (Plain_dec t) as Pt. pose proof (Plain_dec (len d)) as Pd.
  unfold parse_text, enc_store, sp, crlf.
  replace ((name ++ [32] ++ k ++ [32] ++ dec f ++ [32] ++ dec t ++ [32] ++ dec (len d) ++ [13; 10] ++ d ++ [13; 10]) ++ rest)
    with ((name ++ 32 :: k ++ 32 :: dec f ++ 32 :: dec t ++ 32 :: dec (len d) ++ [13]) ++ 10 :: (d ++ crlf ++ rest))
    by eq_app.
  rewrite read_line_app.
  2:{ rewrite En in *. inversion Pn; subst. unfold plain in *. no_byte. }
  unfold pre. cbn [fst].
  replace ((name ++ 32 :: k ++ 32 :: dec f ++ 32 :: dec t ++ 32 :: dec (len d) ++ [13]) ++ [10])
    with (b0 :: (name' ++ 32 :: k ++ 32 :: dec f ++ 32 :: dec t ++ [32]) ++ dec (len d) ++ crlf)
    by (rewrite En; eq_app).
  rewrite trim_space_line; [| exact P0 | exact Pd | apply dec_nonempty].
  replace (b0 :: (name' ++ 32 :: k ++ 32 :: dec f ++ 32 :: dec t ++ [32]) ++ dec (len d))
    with (name ++ 32 :: (k ++ 32 :: (dec f ++ 32 :: (dec t ++ 32 :: dec (len d)))))
    by (rewrite En; eq_app).
  rewrite !split_sp_app by (apply Plain_no32; assumption).
  rewrite split_sp_nosp by (apply Plain_no32; assumption).
  rewrite D. unfold text_store.
  rewrite !field_u32_dec by assumption.
  rewrite read_n_app, read_line_crlf. reflexivity.
Qed.

Lemma items_map items :
  forallb titem_okb items = true -> map (fun k => mkGI k 0 false) (map gi_key items) = items.
Proof.
  induction items as [|g r IH]; intros H; cbn [map forallb] in *; [reflexivity|].
  apply andb_true_iff in H. destruct H as [Hg Hr]. rewrite IH by exact Hr.
  unfold titem_okb in Hg. destruct g as [k o q]. cbn [gi_key gi_opaque gi_quiet] in *.
  apply andb_true_iff in Hg. destruct Hg as [Hg Q]. apply andb_true_iff in Hg. destruct Hg as [_ O].
  apply N.eqb_eq in O. subst o. destruct q; [discriminate | reflexivity].
Qed.

Lemma items_plain items : forallb titem_okb items = true ->
  Forall (fun g => Plain (gi_key g) /\ gi_key g <> []) items.
Proof.
  rewrite forallb_forall. intros H. apply Forall_forall. intros g Hg. specialize (H g Hg).
  unfold titem_okb in H. apply andb_true_iff in H. destruct H as [H _]. apply andb_true_iff in H.
  destruct H as [H _]. apply Plain_key, H.
Qed.

Lemma simple_roundtrip b0 name' fin r rest :
  plain b0 -> Plain name' -> Plain fin -> fin <> [] ->
  (forall s, text_dispatch [b0 :: name' ++ fin] s = (PDone r s, [])) ->
  fst (parse_text ((b0 :: name' ++ fin) ++ crlf ++ rest)) = PDone r rest.
Proof.
  intros P0 Pn Pf NE D. unfold parse_text, crlf.
  replace ((b0 :: name' ++ fin) ++ [13; 10] ++ rest) with ((b0 :: name' ++ fin ++ [13]) ++ 10 :: rest)
    by eq_app.
  rewrite read_line_app by (unfold plain in P0; no_byte).
  replace ((b0 :: name' ++ fin ++ [13]) ++ [10]) with (b0 :: name' ++ fin ++ crlf)
    by eq_app.
  rewrite trim_space_line by assumption.
  rewrite split_sp_nosp by (unfold plain in P0; no_byte).
  unfold pre. rewrite D. reflexivity.
Qed.

Theorem text_roundtrip : forall r rest,
  wf_text r = true -> fst (parse_text (enc_text r ++ rest)) = PDone r rest.
Proof.
  intros r rest W. destruct r; cbn [wf_text] in W; try discriminate; cbn [enc_text].
  - (* set/add/replace *)
    apply andb_true_iff in W. destruct W as [W Q]. apply andb_true_iff in W. destruct W as [W O].
    apply andb_true_iff in W. destruct W as [W Hd]. apply andb_true_iff in W. destruct W as [W Ht].
    apply andb_true_iff in W. destruct W as [K Hf].
    apply N.eqb_eq in O. subst opaque. destruct quiet; [discriminate|].
    unfold u32b in *.
    destruct m.
    + eapply (store_roundtrip (set_name MSet) (fun k d f t => RSet MSet k d f t 0 false)); try reflexivity; try assumption; try lia.
      * unfold plain; cbn; lia. * apply Plain_set_name.
    + eapply (store_roundtrip (set_name MAdd) (fun k d f t => RSet MAdd k d f t 0 false)); try reflexivity; try assumption; try lia.
      * unfold plain; cbn; lia. * apply Plain_set_name.
    + eapply (store_roundtrip (set_name MReplace) (fun k d f t => RSet MReplace k d f t 0 false)); try reflexivity; try assumption; try lia.
      * unfold plain; cbn; lia. * apply Plain_set_name.
  - (* append/prepend *)
    apply andb_true_iff in W. destruct W as [W Q]. apply andb_true_iff in W. destruct W as [W O].
    apply andb_true_iff in W. destruct W as [K Hd].
    apply N.eqb_eq in O. subst opaque. destruct quiet; [discriminate|].
    unfold u32b in *.
    destruct front.
    + eapply (store_roundtrip (cat_name true) (fun k d _ _ => RCat true k d 0 false)); try reflexivity; try assumption; try lia.
      * unfold plain; cbn; lia. * apply Plain_cat_name.
    + eapply (store_roundtrip (cat_name false) (fun k d _ _ => RCat false k d 0 false)); try reflexivity; try assumption; try lia.
      * unfold plain; cbn; lia. * apply Plain_cat_name.
  - (* delete *)
    apply andb_true_iff in W. destruct W as [K O]. apply N.eqb_eq in O. subst opaque.
    apply Plain_key in K. destruct K as [Pk NE].
    unfold parse_text. change (asc "delete") with [100; 101; 108; 101; 116; 101].
    replace (([100; 101; 108; 101; 116; 101] ++ sp ++ k ++ crlf) ++ rest)
      with (([100; 101; 108; 101; 116; 101] ++ 32 :: k ++ [13]) ++ 10 :: rest) by eq_app.
    rewrite read_line_app by no_byte.
    replace (([100; 101; 108; 101; 116; 101] ++ 32 :: k ++ [13]) ++ [10])
      with (100 :: [101; 108; 101; 116; 101; 32] ++ k ++ crlf) by eq_app.
    rewrite trim_space_line; [| unfold plain; lia | exact Pk | exact NE].
    change (100 :: [101; 108; 101; 116; 101; 32] ++ k) with ([100; 101; 108; 101; 116; 101] ++ 32 :: k).
    rewrite split_sp_app by no_byte. rewrite split_sp_nosp by (apply Plain_no32, Pk).
    reflexivity.
  - (* touch *)
    apply andb_true_iff in W. destruct W as [W O]. apply andb_true_iff in W. destruct W as [K Ht].
    apply N.eqb_eq in O. subst opaque. unfold u32b in Ht.
    apply Plain_key in K. destruct K as [Pk NE]. pose proof (Plain_dec ttl) as Pt.
    unfold parse_text. change (asc "touch") with [116; 111; 117; 99; 104].
    replace (([116; 111; 117; 99; 104] ++ sp ++ k ++ sp ++ dec ttl ++ crlf) ++ rest)
      with (([116; 111; 117; 99; 104] ++ 32 :: k ++ 32 :: dec ttl ++ [13]) ++ 10 :: rest) by eq_app.
    rewrite read_line_app by no_byte.
    replace (([116; 111; 117; 99; 104] ++ 32 :: k ++ 32 :: dec ttl ++ [13]) ++ [10])
      with (116 :: ([111; 117; 99; 104; 32] ++ k ++ [32]) ++ dec ttl ++ crlf) by eq_app.
    rewrite trim_space_line; [| unfold plain; lia | exact Pt | apply dec_nonempty].
    replace (116 :: ([111; 117; 99; 104; 32] ++ k ++ [32]) ++ dec ttl)
      with ([116; 111; 117; 99; 104] ++ 32 :: (k ++ 32 :: dec ttl)) by eq_app.
    rewrite split_sp_app by no_byte. rewrite split_sp_app by (apply Plain_no32, Pk).
    rewrite split_sp_nosp by (apply Plain_no32, Pt).
    unfold pre. cbn [fst].
    change (text_dispatch [[116; 111; 117; 99; 104]; k; dec ttl] rest)
      with (match field_u32 (dec ttl) with
            | Some t => (PDone (RTouch k t 0) rest, @nil aev)
            | None => (PClientErr EBadRequest rest, [])
            end).
    rewrite field_u32_dec by lia. reflexivity.
  - (* get *)
    apply andb_true_iff in W. destruct W as [W E]. apply andb_true_iff in W. destruct W as [W O].
    apply N.eqb_eq in O. subst noopOpaque. destruct noopEnd; [discriminate|].
    destruct items as [|g0 r0] eqn:Ei; [discriminate|]. rewrite <- Ei in *.
    assert (items <> []) as NE by (rewrite Ei; discriminate).
    pose proof (items_plain _ W) as PI.
    assert (Forall (fun g => Plain (gi_key g)) items) as PK.
    { eapply Forall_impl; [|exact PI]. intros a [H _]; exact H. }
    destruct (exists_last NE) as (its & gl & El).
    assert (Plain (gi_key gl) /\ gi_key gl <> []) as [Pl Nl].
    { rewrite El in PI. rewrite Forall_app in PI. destruct PI as [_ PI]. inversion PI; assumption. }
    unfold parse_text. change (asc "get") with [103; 101; 116].
    replace (([103; 101; 116] ++ enc_keys items ++ crlf) ++ rest)
      with (([103; 101; 116] ++ enc_keys items ++ [13]) ++ 10 :: rest) by eq_app.
    rewrite read_line_app.
    2:{ no_byte. apply enc_keys_no10, PK. }
    replace (([103; 101; 116] ++ enc_keys items ++ [13]) ++ [10])
      with (103 :: ([101; 116] ++ enc_keys its ++ [32]) ++ gi_key gl ++ crlf).
    2:{ rewrite El, enc_keys_app. cbn [enc_keys]. rewrite app_nil_r. eq_app. }
    rewrite trim_space_line; [| unfold plain; lia | exact Pl | exact Nl].
    replace (103 :: ([101; 116] ++ enc_keys its ++ [32]) ++ gi_key gl) with ([103; 101; 116] ++ enc_keys items).
    2:{ rewrite El, enc_keys_app. cbn [enc_keys]. rewrite app_nil_r. eq_app. }
    rewrite split_keys; [| no_byte | exact PK].
    unfold pre. cbn [fst].
    change (text_dispatch ([103; 101; 116] :: map gi_key items) rest)
      with (match map gi_key items with
            | [] => (PClientErr EBadRequest rest, @nil aev)
            | _ => (PDone (RGet (map (fun k => mkGI k 0 false) (map gi_key items)) 0 false) rest, [])
            end).
    rewrite (items_map items W). rewrite Ei. reflexivity.
  - (* noop *)
    apply N.eqb_eq in W. subst opaque.
    apply (simple_roundtrip 110 [] [111; 111; 112]); try (repeat constructor; unfold plain; lia); try discriminate.
  - (* quit *)
    apply andb_true_iff in W. destruct W as [O Q]. apply N.eqb_eq in O. subst opaque.
    destruct quiet; [discriminate|].
    apply (simple_roundtrip 113 [] [117; 105; 116]); try (repeat constructor; unfold plain; lia); try discriminate.
  - (* version *)
    apply N.eqb_eq in W. subst opaque.
    apply (simple_roundtrip 118 [] [101; 114; 115; 105; 111; 110]); try (repeat constructor; unfold plain; lia); try discriminate.
  - (* stats *)
    apply N.eqb_eq in W. subst opaque.
    apply (simple_roundtrip 115 [] [116; 97; 116; 115]); try (repeat constructor; unfold plain; lia); try discriminate.
Qed.

Lemma enc_text_nonempty r : wf_text r = true -> enc_text r <> [].
Proof.
  intros W E. pose proof (text_roundtrip r [] W) as RT. rewrite E in RT. cbn in RT. discriminate.
Qed.

Theorem text_pipeline rs :
  forallb wf_text rs = true -> parse_all parse_text (concat (map enc_text rs)) = Some rs.
Proof. apply parse_all_roundtrip; [exact text_roundtrip | exact enc_text_nonempty]. Qed.

(* ================= C11: progress and allocation ================= *)
Definition rest_le (o : pout) (s : bytes) : Prop :=
  match fst o with
  | PDone _ rest | PClientErr _ rest => (length rest <= length s)%nat
  | PClose => True
  end.

Lemma text_store_rest mk parts s : rest_le (text_store mk parts s) s.
Proof.
  unfold text_store, rest_le.
  destruct parts as [|p0 [|p1 [|p2 [|p3 [|p4 [|p5 ps]]]]]]; cbn [fst]; try lia.
  destruct (field_u32 p2) as [fl|]; cbn [fst]; [|lia].
  destruct (field_u32 p3) as [tt|]; cbn [fst]; [|lia].
  destruct (field_u32 p4) as [n|]; cbn [fst]; [|lia].
  destruct (read_n s n) as [[d s1]|] eqn:R; [|exact I]. apply read_n_length in R.
  destruct (read_line s1) as [[tl s2]|] eqn:L; cbn [fst length]; [|lia].
  apply read_line_length in L. lia.
Qed.

Lemma text_dispatch_rest parts s : rest_le (text_dispatch parts s) s.
Proof.
  unfold text_dispatch. destruct parts as [|c args]; [unfold rest_le; cbn [fst]; lia|].
  repeat match goal with
         | |- rest_le (if ?b then _ else _) _ => destruct b
         end;
    try apply text_store_rest;
    repeat match goal with
           | |- rest_le (match ?x with _ => _ end) _ => destruct x
           end;
    unfold rest_le; cbn [fst]; lia.
Qed.

Theorem text_progress : progresses parse_text.
Proof.
  intros s. unfold parse_text.
  destruct (read_line s) as [[line s1]|] eqn:L; [|exact I].
  apply read_line_length in L. pose proof (text_dispatch_rest (split_sp (trim_space line)) s1) as D.
  unfold rest_le, pre in *. cbn [fst].
  destruct (fst (text_dispatch (split_sp (trim_space line)) s1)); try exact I; lia.
Qed.

Lemma field_u32_lt f n : field_u32 f = Some n -> n < 4294967296.
Proof. unfold field_u32. apply parse_u32_lt. Qed.

Lemma len_length {A} (a b : list A) : (length a <= length b)%nat -> len a <= len b.
Proof. unfold len. lia. Qed.

Lemma text_store_alloc mk parts s : Forall (text_ev_ok s) (snd (text_store mk parts s)).
Proof.
  unfold text_store.
  destruct parts as [|p0 [|p1 [|p2 [|p3 [|p4 [|p5 ps]]]]]]; cbn [snd]; try constructor.
  destruct (field_u32 p2) as [fl|]; cbn [snd]; [|constructor].
  destruct (field_u32 p3) as [tt|]; cbn [snd]; [|constructor].
  destruct (field_u32 p4) as [n|] eqn:F; cbn [snd]; [|constructor].
  apply field_u32_lt in F.
  destruct (read_n s n) as [[d s1]|] eqn:R; [|repeat constructor; exact F].
  apply read_n_length in R.
  destruct (read_line s1) as [[tl s2]|] eqn:L; cbn [snd].
  - apply read_line_length in L. repeat constructor; [exact F|]. cbn. apply len_length. lia.
  - repeat constructor; [exact F|]. cbn. apply len_length. lia.
Qed.

Lemma text_dispatch_alloc parts s : Forall (text_ev_ok s) (snd (text_dispatch parts s)).
Proof.
  unfold text_dispatch. destruct parts as [|c args]; [constructor|].
  repeat match goal with
         | |- Forall _ (snd (if ?b then _ else _)) => destruct b
         end;
    try apply text_store_alloc;
    repeat match goal with
           | |- Forall _ (snd (match ?x with _ => _ end)) => destruct x
           end;
    constructor.
Qed.

Theorem text_alloc s : Forall (text_ev_ok s) (snd (parse_text s)).
Proof.
  unfold parse_text.
  destruct (read_line s) as [[line s1]|] eqn:L.
  - apply read_line_length in L. unfold pre. cbn [snd app]. constructor.
    + cbn. apply len_length. lia.
    + eapply Forall_impl; [|apply text_dispatch_alloc].
      intros a. destruct a; cbn; try tauto. intros H.
      assert (len s1 <= len s) by (apply len_length; lia). lia.
  - repeat constructor. cbn. lia.
Qed.

Theorem text_resegmented rs (segs : list bytes) :
  forallb wf_text rs = true -> concat segs = concat (map enc_text rs) ->
  parse_all parse_text (concat segs) = Some rs.
Proof. apply parse_all_resegmented; [exact text_roundtrip | exact enc_text_nonempty]. Qed.

Theorem text_never_spins s : exists l, serve parse_text s = Some l.
Proof. apply serve_total, text_progress. Qed.
