(* ReaderSem.v — meaning of what harness `bintrans` emits (gen/BinParser_gen.v) when it translates
   the request parser of /repo/protocol/binprot (parser.go, readRequestHeader of headers.go)
   statement by statement. HAND-WRITTEN, definitions only: the trusted reading of the Go
   constructs the parser uses. The integer operators are those of gen/GoSem.v.

   A Go function that reads from the connection's reader is a computation [rd A]: from the bytes
   still to come (followed by EOF — the reading of proto/ReqCommon.v read_n) to its results, the
   bytes left, and the allocation/demand trace (ReqCommon.aev) of the reads it made, in program
   order. [None] is STUCK: the code did something this reading gives no meaning to (statement
   not recognised by the translator, io.ReadAtLeast with a buffer longer than the minimum, a
   trace item that does not say the size demanded, loop fuel used up). A stuck run never equals
   a run of the model (run_parse turns it into (PClose, []), and the model's trace always starts
   with the header read).

   Go values: integers of every width are [N] (arithmetic wraps through GoSem's operators,
   widening conversions are the identity), []byte is [bytes], other slices are lists (nil = []),
   error is [gerr], structs are the records below (a nil *RequestHeader is the zero record — the
   parser never dereferences one), common.Request (interface) is [Request]. Pointers are read as
   values: bintrans only accepts field assignment through a pointer obtained from a sync.Pool in
   the same function. *)
From Coq Require Import String.
From Rend Require Import base.Bytes gen.Consts_gen spec.MapSpec orca.Types proto.Resp proto.ReqCommon.
From Rend Require Export gen.GoSem.
Open Scope N_scope.

(* ---------------- errors ---------------- *)
Inductive gerr :=
| GNil                       (* nil *)
| GEOF                       (* io.EOF *)
| GUnexpectedEOF             (* io.ErrUnexpectedEOF *)
| GShortBuffer               (* io.ErrShortBuffer *)
| GCommon (e : N)            (* common.ErrX, by its generated number (Consts_gen EX) *)
| GLocal (name : string).    (* a package-level `var ErrX = errors.New(..)` of binprot *)

Definition is_nil (e : gerr) : bool := match e with GNil => true | _ => false end.
Definition gerr_eqb (a b : gerr) : bool :=
  match a, b with
  | GNil, GNil | GEOF, GEOF | GUnexpectedEOF, GUnexpectedEOF | GShortBuffer, GShortBuffer => true
  | GCommon x, GCommon y => x =? y
  | GLocal x, GLocal y => String.eqb x y
  | _, _ => false
  end.

(* ---------------- the reader monad ---------------- *)
Definition rd (A : Type) : Type := bytes -> option (A * bytes * list aev).

Definition ret {A} (a : A) : rd A := fun s => Some (a, s, []).
Definition bind {A B} (m : rd A) (f : A -> rd B) : rd B := fun s =>
  match m s with
  | None => None
  | Some (a, s1, t1) =>
      match f a s1 with
      | None => None
      | Some (b, s2, t2) => Some (b, s2, t1 ++ t2)
      end
  end.
Notation "'do' p <- m ; k" := (bind m (fun p => k))
  (at level 200, p pattern, m at level 100, k at level 200, right associativity).

(* what bintrans emits for a statement (or an expression inside it) that it has no rule for *)
Definition untranslatable {A} (what : string) : rd A := fun _ => None.

(* ---------------- byte slices ---------------- *)
Definition make_bytes (n : N) : bytes := zeros n.            (* make([]byte, n) *)
Definition idx (b : bytes) (i : N) : N := nth (N.to_nat i) b 0.       (* b[i]; out of range panics in Go: not modelled *)
Definition slice (b : bytes) (lo hi : N) : bytes := take (hi - lo) (drop lo b).   (* b[lo:hi] *)
Definition be_Uint16 (b : bytes) : N := rd16 b.              (* binary.BigEndian.Uint16 (needs len >= 2) *)
Definition be_Uint32 (b : bytes) : N := rd32 b.              (* binary.BigEndian.Uint32 (needs len >= 4) *)

(* ---------------- io.ReadAtLeast(r, buf, min) ----------------
   [ev] is the trace item bintrans attaches from where the buffer comes from (rules in
   bintrans.go); it has to state the size demanded, otherwise the run is stuck.
   len(buf) < min: ErrShortBuffer, nothing read. len(buf) > min: Go reads between min and
   len(buf) bytes, depending on how the bytes arrive: stuck. len(buf) = min: the next min bytes
   fill the buffer, or — fewer than min are left before EOF — the bytes that are there are read
   into the front of the buffer and the error is io.EOF (none read) or io.ErrUnexpectedEOF.
   Results: the buffer afterwards (Go fills it in place), n, err. *)
Definition io_err (s : bytes) : gerr := match s with [] => GEOF | _ => GUnexpectedEOF end.
Definition io_ReadAtLeast (ev : aev) (buf : bytes) (min : N) : rd (bytes * N * gerr) := fun s =>
  if negb (asize ev =? min) then None
  else if len buf <? min then Some ((buf, 0, GShortBuffer), s, [ev])
  else if min <? len buf then None
  else match read_n s min with
       | Some (a, rest) => Some ((a, min, GNil), rest, [ev])
       | None => Some ((s ++ drop (len s) buf, len s, io_err s), [], [ev])
       end.

(* ---------------- `for cond { body }` ----------------
   [st] are the variables declared before the loop that the body assigns. The body either falls
   through with their new values (inl) or returns from the function (inr). Fuel: one more than
   the number of bytes still to come when the loop is entered (as BinReq.bin_batch); using it
   up is stuck. *)
Fixpoint while_fuel {St R} (fuel : nat) (cond : St -> bool) (body : St -> rd (St + R)) (st : St)
  : rd (St + R) := fun s =>
  match fuel with
  | O => None
  | S f =>
      if cond st then
        match body st s with
        | None => None
        | Some (inl st', s1, t1) =>
            match while_fuel f cond body st' s1 with
            | None => None
            | Some (r, s2, t2) => Some (r, s2, t1 ++ t2)
            end
        | Some (inr r, s1, t1) => Some (inr r, s1, t1)
        end
      else Some (inl st, s, [])
  end.
Definition while_ {St R} (cond : St -> bool) (body : St -> rd (St + R)) (st : St) : rd (St + R) :=
  fun s => while_fuel (S (length s)) cond body st s.

(* ---------------- structs ---------------- *)
(* protocol/binprot/headers.go *)
Record RequestHeader := mkRequestHeader {
  RequestHeader_Magic : N; RequestHeader_Opcode : N; RequestHeader_KeyLength : N;
  RequestHeader_ExtraLength : N; RequestHeader_DataType : N; RequestHeader_VBucket : N;
  RequestHeader_TotalBodyLength : N; RequestHeader_OpaqueToken : N; RequestHeader_CASToken : N }.
Definition set_RequestHeader_Magic (v : N) (r : RequestHeader) :=
  mkRequestHeader v (RequestHeader_Opcode r) (RequestHeader_KeyLength r) (RequestHeader_ExtraLength r) (RequestHeader_DataType r) (RequestHeader_VBucket r) (RequestHeader_TotalBodyLength r) (RequestHeader_OpaqueToken r) (RequestHeader_CASToken r).
Definition set_RequestHeader_Opcode (v : N) (r : RequestHeader) :=
  mkRequestHeader (RequestHeader_Magic r) v (RequestHeader_KeyLength r) (RequestHeader_ExtraLength r) (RequestHeader_DataType r) (RequestHeader_VBucket r) (RequestHeader_TotalBodyLength r) (RequestHeader_OpaqueToken r) (RequestHeader_CASToken r).
Definition set_RequestHeader_KeyLength (v : N) (r : RequestHeader) :=
  mkRequestHeader (RequestHeader_Magic r) (RequestHeader_Opcode r) v (RequestHeader_ExtraLength r) (RequestHeader_DataType r) (RequestHeader_VBucket r) (RequestHeader_TotalBodyLength r) (RequestHeader_OpaqueToken r) (RequestHeader_CASToken r).
Definition set_RequestHeader_ExtraLength (v : N) (r : RequestHeader) :=
  mkRequestHeader (RequestHeader_Magic r) (RequestHeader_Opcode r) (RequestHeader_KeyLength r) v (RequestHeader_DataType r) (RequestHeader_VBucket r) (RequestHeader_TotalBodyLength r) (RequestHeader_OpaqueToken r) (RequestHeader_CASToken r).
Definition set_RequestHeader_DataType (v : N) (r : RequestHeader) :=
  mkRequestHeader (RequestHeader_Magic r) (RequestHeader_Opcode r) (RequestHeader_KeyLength r) (RequestHeader_ExtraLength r) v (RequestHeader_VBucket r) (RequestHeader_TotalBodyLength r) (RequestHeader_OpaqueToken r) (RequestHeader_CASToken r).
Definition set_RequestHeader_VBucket (v : N) (r : RequestHeader) :=
  mkRequestHeader (RequestHeader_Magic r) (RequestHeader_Opcode r) (RequestHeader_KeyLength r) (RequestHeader_ExtraLength r) (RequestHeader_DataType r) v (RequestHeader_TotalBodyLength r) (RequestHeader_OpaqueToken r) (RequestHeader_CASToken r).
Definition set_RequestHeader_TotalBodyLength (v : N) (r : RequestHeader) :=
  mkRequestHeader (RequestHeader_Magic r) (RequestHeader_Opcode r) (RequestHeader_KeyLength r) (RequestHeader_ExtraLength r) (RequestHeader_DataType r) (RequestHeader_VBucket r) v (RequestHeader_OpaqueToken r) (RequestHeader_CASToken r).
Definition set_RequestHeader_OpaqueToken (v : N) (r : RequestHeader) :=
  mkRequestHeader (RequestHeader_Magic r) (RequestHeader_Opcode r) (RequestHeader_KeyLength r) (RequestHeader_ExtraLength r) (RequestHeader_DataType r) (RequestHeader_VBucket r) (RequestHeader_TotalBodyLength r) v (RequestHeader_CASToken r).
Definition set_RequestHeader_CASToken (v : N) (r : RequestHeader) :=
  mkRequestHeader (RequestHeader_Magic r) (RequestHeader_Opcode r) (RequestHeader_KeyLength r) (RequestHeader_ExtraLength r) (RequestHeader_DataType r) (RequestHeader_VBucket r) (RequestHeader_TotalBodyLength r) (RequestHeader_OpaqueToken r) v.

(* common/datatypes.go *)
Record SetRequest := mkSetRequest {
  SetRequest_Key : bytes; SetRequest_Data : bytes; SetRequest_Flags : N; SetRequest_Exptime : N;
  SetRequest_Opaque : N; SetRequest_Quiet : bool }.
Record GetRequest := mkGetRequest {
  GetRequest_Keys : list bytes; GetRequest_Opaques : list N; GetRequest_Quiet : list bool;
  GetRequest_NoopOpaque : N; GetRequest_NoopEnd : bool }.
Record DeleteRequest := mkDeleteRequest {
  DeleteRequest_Key : bytes; DeleteRequest_Opaque : N; DeleteRequest_Quiet : bool }.
Record TouchRequest := mkTouchRequest {
  TouchRequest_Key : bytes; TouchRequest_Exptime : N; TouchRequest_Opaque : N; TouchRequest_Quiet : bool }.
Record GATRequest := mkGATRequest {
  GATRequest_Key : bytes; GATRequest_Exptime : N; GATRequest_Opaque : N; GATRequest_Quiet : bool }.
Record QuitRequest := mkQuitRequest { QuitRequest_Opaque : N; QuitRequest_Quiet : bool }.
Record NoopRequest := mkNoopRequest { NoopRequest_Opaque : N }.
Record VersionRequest := mkVersionRequest { VersionRequest_Opaque : N }.
Record StatRequest := mkStatRequest { StatRequest_Opaque : N }.

(* the field lists the records above were written from: bintrans reads the struct declarations
   from the source and gen/BinParserLink.v proves the two lists equal *)
Open Scope string_scope.
Definition struct_decls_model : list (string * list (string * string)) := [
  ("RequestHeader", [("Magic", "uint8"); ("Opcode", "uint8"); ("KeyLength", "uint16");
                     ("ExtraLength", "uint8"); ("DataType", "uint8"); ("VBucket", "uint16");
                     ("TotalBodyLength", "uint32"); ("OpaqueToken", "uint32"); ("CASToken", "uint64")]);
  ("SetRequest", [("Key", "[]byte"); ("Data", "[]byte"); ("Flags", "uint32"); ("Exptime", "uint32");
                  ("Opaque", "uint32"); ("Quiet", "bool")]);
  ("GetRequest", [("Keys", "[][]byte"); ("Opaques", "[]uint32"); ("Quiet", "[]bool");
                  ("NoopOpaque", "uint32"); ("NoopEnd", "bool")]);
  ("DeleteRequest", [("Key", "[]byte"); ("Opaque", "uint32"); ("Quiet", "bool")]);
  ("TouchRequest", [("Key", "[]byte"); ("Exptime", "uint32"); ("Opaque", "uint32"); ("Quiet", "bool")]);
  ("GATRequest", [("Key", "[]byte"); ("Exptime", "uint32"); ("Opaque", "uint32"); ("Quiet", "bool")]);
  ("QuitRequest", [("Opaque", "uint32"); ("Quiet", "bool")]);
  ("NoopRequest", [("Opaque", "uint32")]);
  ("VersionRequest", [("Opaque", "uint32")]);
  ("StatRequest", [("Opaque", "uint32")])].
Close Scope string_scope.

(* a value of interface type common.Request *)
Inductive Request :=
| Req_nil
| Req_SetRequest (v : SetRequest)
| Req_GetRequest (v : GetRequest)
| Req_DeleteRequest (v : DeleteRequest)
| Req_TouchRequest (v : TouchRequest)
| Req_GATRequest (v : GATRequest)
| Req_QuitRequest (v : QuitRequest)
| Req_NoopRequest (v : NoopRequest)
| Req_VersionRequest (v : VersionRequest)
| Req_StatRequest (v : StatRequest).

(* ---------------- from Parse's results to the model's vocabulary ----------------
   (request, reqType) as DefaultServer.Loop dispatches them (switch reqType; request.(common.T),
   linked by gen/LoopLink.v) to orca.Types.req. The three parallel slices of a GetRequest become
   the item list; Flags/Exptime of append/prepend and Quiet of delete/touch/gat have no
   counterpart in [req] (the parser sets them to 0 / false). *)
Fixpoint zip3 (ks : list bytes) (os : list N) (qs : list bool) : list gitem :=
  match ks, os, qs with
  | k :: ks', o :: os', q :: qs' => mkGI k o q :: zip3 ks' os' qs'
  | _, _, _ => []
  end.
Definition abs_req (rq : Request) (rt : N) : req :=
  match rq with
  | Req_nil => RUnknown
  | Req_SetRequest v =>
      let k := SetRequest_Key v in let d := SetRequest_Data v in
      let o := SetRequest_Opaque v in let q := SetRequest_Quiet v in
      if rt =? RtSet then RSet MSet k d (SetRequest_Flags v) (SetRequest_Exptime v) o q
      else if rt =? RtAdd then RSet MAdd k d (SetRequest_Flags v) (SetRequest_Exptime v) o q
      else if rt =? RtReplace then RSet MReplace k d (SetRequest_Flags v) (SetRequest_Exptime v) o q
      else if rt =? RtAppend then RCat false k d o q
      else if rt =? RtPrepend then RCat true k d o q
      else RUnknown
  | Req_GetRequest v =>
      let items := zip3 (GetRequest_Keys v) (GetRequest_Opaques v) (GetRequest_Quiet v) in
      if rt =? RtGet then RGet items (GetRequest_NoopOpaque v) (GetRequest_NoopEnd v)
      else if rt =? RtGetE then RGetE items (GetRequest_NoopOpaque v) (GetRequest_NoopEnd v)
      else RUnknown
  | Req_DeleteRequest v => if rt =? RtDelete then RDelete (DeleteRequest_Key v) (DeleteRequest_Opaque v) else RUnknown
  | Req_TouchRequest v => if rt =? RtTouch then RTouch (TouchRequest_Key v) (TouchRequest_Exptime v) (TouchRequest_Opaque v) else RUnknown
  | Req_GATRequest v => if rt =? RtGat then RGat (GATRequest_Key v) (GATRequest_Exptime v) (GATRequest_Opaque v) else RUnknown
  | Req_QuitRequest v => if rt =? RtQuit then RQuit (QuitRequest_Opaque v) (QuitRequest_Quiet v) else RUnknown
  | Req_NoopRequest v => if rt =? RtNoop then RNoop (NoopRequest_Opaque v) else RUnknown
  | Req_VersionRequest v => if rt =? RtVersion then RVersion (VersionRequest_Opaque v) else RUnknown
  | Req_StatRequest v => if rt =? RtStat then RStat (StatRequest_Opaque v) else RUnknown
  end.

(* the parse-error rule of DefaultServer.Loop (ReqCommon.pres; linked to the source by
   gen/LoopLink.v): the four client errors get a reply and the loop goes on, any other error
   closes the connection *)
Definition client_err (e : N) : bool :=
  (e =? EBadRequest) || (e =? EBadLength) || (e =? EBadFlags) || (e =? EBadExptime).

(* one call of Parse — results (request, reqType, start, err) — as a ReqCommon.pout *)
Definition run_parse (m : rd (Request * N * N * gerr)) (s : bytes) : pout :=
  match m s with
  | None => (PClose, [])                 (* stuck: never a result of the model *)
  | Some ((rq, rt, _, err), rest, tr) =>
      (match err with
       | GNil => PDone (abs_req rq rt) rest
       | GCommon e => if client_err e then PClientErr e rest else PClose
       | _ => PClose
       end, tr)
  end.
