(* BinReq.v — protocol/binprot/parser.go + headers.go (request side): the encoder of the
   supported subset and BinaryParser.Parse as a total function on the bytes still to come
   (followed by EOF), read call for read call, with the allocation/demand trace.
   Opcodes, magic and header length are the generated ones. Definitions only.

   [parse_bin_gen checked]: [checked = true] is the code with the length-consistency guard of
   fixes/C11-binprot-length-underflow.patch (the model follows the fixed code);
   [checked = false] is the arithmetic as it stood before (kept for proto/BinReqOld.v). *)
From Rend Require Import base.Bytes gen.Consts_gen spec.MapSpec orca.Types proto.Resp proto.ReqCommon.
Open Scope N_scope.

(* ---------------- encoder ---------------- *)
(* writeRequestHeader layout: magic, opcode, key length (2), extras length, data type,
   vbucket (2), total body (4), opaque (4), CAS (8) *)
Definition enc_hdr (op klen elen total opaque : N) : bytes :=
  [magicRequest; op] ++ u16be klen ++ [elen; 0; 0; 0] ++ u32be total ++ u32be opaque ++ zeros 8.

Definition set_opcode (m : smode) (q : bool) : N :=
  match m, q with
  | MSet, false => opSet | MSet, true => opSetQ
  | MAdd, false => opAdd | MAdd, true => opAddQ
  | MReplace, false => opReplace | MReplace, true => opReplaceQ
  end.
Definition cat_opcode (front q : bool) : N :=
  match front, q with
  | false, false => opAppend | false, true => opAppendQ
  | true, false => opPrepend | true, true => opPrependQ
  end.

Definition enc_get_item (qop fop : N) (g : gitem) : bytes :=
  enc_hdr (if gi_quiet g then qop else fop) (len (gi_key g)) 0 (len (gi_key g)) (gi_opaque g) ++ gi_key g.
Definition enc_get (qop fop : N) (items : list gitem) (no : N) (ne : bool) : bytes :=
  concat (map (enc_get_item qop fop) items) ++ (if ne then enc_hdr opNoop 0 0 0 no else []).

Definition enc_bin (r : req) : bytes :=
  match r with
  | RSet m k d f t o q =>
      enc_hdr (set_opcode m q) (len k) 8 (8 + len k + len d) o ++ u32be f ++ u32be t ++ k ++ d
  | RCat fr k d o q => enc_hdr (cat_opcode fr q) (len k) 0 (len k + len d) o ++ k ++ d
  | RDelete k o => enc_hdr opDelete (len k) 0 (len k) o ++ k
  | RTouch k t o => enc_hdr opTouch (len k) 4 (4 + len k) o ++ u32be t ++ k
  | RGat k t o => enc_hdr opGat (len k) 4 (4 + len k) o ++ u32be t ++ k
  | RGet items no ne => enc_get opGetQ opGet items no ne
  | RGetE items no ne => enc_get opGetEQ opGetE items no ne
  | RNoop o => enc_hdr opNoop 0 0 0 o
  | RQuit o q => enc_hdr (if q then opQuitQ else opQuit) 0 0 0 o
  | RVersion o => enc_hdr opVersion 0 0 0 o
  | RStat o => enc_hdr opStat 0 0 0 o
  | RUnknown => []
  end.

(* ---------------- well-formed requests of the supported subset ---------------- *)
Definition u32b (x : N) : bool := x <? 4294967296.
Definition key_okb (k : bytes) : bool := (1 <=? len k) && (len k <? 65536) && bytes_okb k.
(* a batch: q1 .. qn quiet, then either one non-quiet get (NoopEnd = false, NoopOpaque = 0)
   or a no-op (NoopEnd = true, all keys quiet, at least one) *)
Fixpoint batch_okb (items : list gitem) (ne : bool) : bool :=
  match items with
  | [] => false
  | [g] => key_okb (gi_key g) && u32b (gi_opaque g) && Bool.eqb (gi_quiet g) ne
  | g :: r => key_okb (gi_key g) && u32b (gi_opaque g) && gi_quiet g && batch_okb r ne
  end.
Definition get_okb (items : list gitem) (no : N) (ne : bool) : bool :=
  batch_okb items ne && u32b no && (ne || (no =? 0)).

Definition wf_bin (r : req) : bool :=
  match r with
  | RSet _ k d f t o _ =>
      key_okb k && bytes_okb d && u32b f && u32b t && u32b o && (8 + len k + len d <? 4294967296)
  | RCat _ k d o _ => key_okb k && bytes_okb d && u32b o && (len k + len d <? 4294967296)
  | RDelete k o => key_okb k && u32b o
  | RTouch k t o | RGat k t o => key_okb k && u32b t && u32b o
  | RGet items no ne | RGetE items no ne => get_okb items no ne
  | RNoop o | RVersion o | RStat o => u32b o
  | RQuit o _ => u32b o
  | RUnknown => false
  end.

(* ---------------- parser ---------------- *)
Record hdr := mkHdr { h_op : N; h_klen : N; h_elen : N; h_total : N; h_opaque : N }.

(* readRequestHeader: io.ReadAtLeast(r, buf, 24); buf[0] must be the request magic; data
   type, vbucket and CAS are ignored *)
Definition read_hdr (s : bytes) : option (hdr * bytes) :=
  match read_n s reqHeaderLen with
  | Some (b, s1) =>
      if nth 0 b 0 =? magicRequest
      then Some (mkHdr (nth 1 b 0) (rd16 (drop 2 b)) (nth 4 b 0) (rd32 (drop 8 b)) (rd32 (drop 12 b)), s1)
      else None
  | None => None
  end.

Definition two32 : N := 4294967296.

(* setRequest: flags and exptime are read whatever ExtraLength says; the data length is
   computed in uint32 (with wrap-around) *)
Definition bin_set (checked : bool) (m : smode) (q : bool) (h : hdr) (s : bytes) : pout :=
  if checked && (h_total h <? h_elen h + h_klen h) then (PClose, [])
  else
    match read_n s 4 with
    | None => (PClose, [AWord])
    | Some (fb, s1) =>
    match read_n s1 4 with
    | None => (PClose, [AWord; AWord])
    | Some (eb, s2) =>
    match read_n s2 (h_klen h) with
    | None => (PClose, [AWord; AWord; AKey (h_klen h)])
    | Some (k, s3) =>
        let n := (h_total h + two32 - h_elen h - h_klen h) mod two32 in
        let tr := [AWord; AWord; AKey (h_klen h); AData (h_total h) (h_elen h) (h_klen h) n] in
        match read_n s3 n with
        | None => (PClose, tr)
        | Some (d, s4) => (PDone (RSet m k d (rd32 fb) (rd32 eb) (h_opaque h) q) s4, tr)
        end
    end end end.

(* appendPrependRequest: key, then TotalBodyLength - KeyLength bytes (extras not subtracted) *)
Definition bin_cat (checked : bool) (front q : bool) (h : hdr) (s : bytes) : pout :=
  if checked && (h_total h <? h_klen h) then (PClose, [])
  else
    match read_n s (h_klen h) with
    | None => (PClose, [AKey (h_klen h)])
    | Some (k, s1) =>
        let n := (h_total h + two32 - h_klen h) mod two32 in
        let tr := [AKey (h_klen h); AData (h_total h) 0 (h_klen h) n] in
        match read_n s1 n with
        | None => (PClose, tr)
        | Some (d, s2) => (PDone (RCat front k d (h_opaque h) q) s2, tr)
        end
    end.

(* get / gete / delete: the key only; ExtraLength and TotalBodyLength are not looked at, so
   declared-but-unread body bytes stay in the stream and are parsed as the next request *)
Definition bin_key (mk : bytes -> req) (h : hdr) (s : bytes) : pout :=
  match read_n s (h_klen h) with
  | None => (PClose, [AKey (h_klen h)])
  | Some (k, s1) => (PDone (mk k) s1, [AKey (h_klen h)])
  end.

(* gat / touch: uint32 exptime, then the key *)
Definition bin_exp_key (mk : bytes -> N -> req) (h : hdr) (s : bytes) : pout :=
  match read_n s 4 with
  | None => (PClose, [AWord])
  | Some (eb, s1) =>
      match read_n s1 (h_klen h) with
      | None => (PClose, [AWord; AKey (h_klen h)])
      | Some (k, s2) => (PDone (mk k (rd32 eb)) s2, [AWord; AKey (h_klen h)])
      end
  end.

(* readBatchGet / readBatchGetE: while the header is a quiet get, read its key and the next
   header; then a plain get closes the batch with one more key, a no-op closes it with
   NoopEnd; anything else: that header is consumed and dropped. Every iteration consumes a
   24-byte header, so fuel = 1 + |stream| is never used up. *)
Fixpoint bin_batch (mk : list gitem -> N -> bool -> req) (qop fop : N) (fuel : nat)
         (h : hdr) (s : bytes) (acc : list gitem) : pout :=
  match fuel with
  | O => (PClose, [])
  | S f =>
      if h_op h =? qop then
        match read_n s (h_klen h) with
        | None => (PClose, [AKey (h_klen h)])
        | Some (k, s1) =>
            match read_hdr s1 with
            | None => (PClose, [AKey (h_klen h); AHdr])
            | Some (h', s2) =>
                pre [AKey (h_klen h); AHdr]
                    (bin_batch mk qop fop f h' s2 (mkGI k (h_opaque h) true :: acc))
            end
        end
      else if h_op h =? fop then
        match read_n s (h_klen h) with
        | None => (PClose, [AKey (h_klen h)])
        | Some (k, s1) => (PDone (mk (rev (mkGI k (h_opaque h) false :: acc)) 0 false) s1, [AKey (h_klen h)])
        end
      else if h_op h =? opNoop then (PDone (mk (rev acc) (h_opaque h) true) s, [])
      else (PDone (mk (rev acc) 0 false) s, [])
  end.

Definition bin_dispatch (checked : bool) (h : hdr) (s : bytes) : pout :=
  let op := h_op h in
  if op =? opSet then bin_set checked MSet false h s
  else if op =? opSetQ then bin_set checked MSet true h s
  else if op =? opAdd then bin_set checked MAdd false h s
  else if op =? opAddQ then bin_set checked MAdd true h s
  else if op =? opReplace then bin_set checked MReplace false h s
  else if op =? opReplaceQ then bin_set checked MReplace true h s
  else if op =? opAppend then bin_cat checked false false h s
  else if op =? opAppendQ then bin_cat checked false true h s
  else if op =? opPrepend then bin_cat checked true false h s
  else if op =? opPrependQ then bin_cat checked true true h s
  else if op =? opGetQ then bin_batch RGet opGetQ opGet (S (length s)) h s []
  else if op =? opGet then bin_key (fun k => RGet [mkGI k (h_opaque h) false] 0 false) h s
  else if op =? opGetEQ then bin_batch RGetE opGetEQ opGetE (S (length s)) h s []
  else if op =? opGetE then bin_key (fun k => RGetE [mkGI k (h_opaque h) false] 0 false) h s
  else if op =? opGat then bin_exp_key (fun k t => RGat k t (h_opaque h)) h s
  else if op =? opDelete then bin_key (fun k => RDelete k (h_opaque h)) h s
  else if op =? opTouch then bin_exp_key (fun k t => RTouch k t (h_opaque h)) h s
  else if op =? opNoop then (PDone (RNoop (h_opaque h)) s, [])
  else if op =? opQuit then (PDone (RQuit (h_opaque h) false) s, [])
  else if op =? opQuitQ then (PDone (RQuit (h_opaque h) true) s, [])
  else if op =? opVersion then (PDone (RVersion (h_opaque h)) s, [])
  else if op =? opStat then (PDone (RStat (h_opaque h)) s, [])
  else (PClose, []).                 (* common.ErrUnknownCmd: not one of the four; Loop aborts *)

Definition parse_bin_gen (checked : bool) (s : bytes) : pout :=
  match read_hdr s with
  | None => (PClose, [AHdr])         (* EOF / short header / bad magic *)
  | Some (h, s1) => pre [AHdr] (bin_dispatch checked h s1)
  end.

Definition parse_bin : bytes -> pout := parse_bin_gen true.

(* the opcodes whose frames carry a data block *)
Definition is_set_op (op : N) : bool :=
  existsb (N.eqb op) [opSet; opSetQ; opAdd; opAddQ; opReplace; opReplaceQ].
Definition is_cat_op (op : N) : bool :=
  existsb (N.eqb op) [opAppend; opAppendQ; opPrepend; opPrependQ].

