(* TextReq.v — protocol/textprot/parser.go: the encoder of the supported subset and
   TextParser.Parse as a total function on the bytes still to come (followed by EOF), with
   the allocation/demand trace. Definitions only.

   strings.TrimSpace is modelled for arbitrary byte strings: it strips, at both ends, the
   six ASCII spaces and the UTF-8 encodings of the other Unicode White_Space code points
   (U+0085, U+00A0, U+1680, U+2000..U+200A, U+2028, U+2029, U+202F, U+205F, U+3000); a byte
   >= 0x80 that is not part of such a well-formed encoding stops the trimming. *)
From Coq Require Import String.
From Rend Require Import base.Bytes gen.Consts_gen spec.MapSpec orca.Types proto.Resp proto.ReqCommon.
Open Scope N_scope.

(* ---------------- encoder ---------------- *)
Definition sp : bytes := [32].
Definition set_name (m : smode) : bytes :=
  match m with MSet => asc "set" | MAdd => asc "add" | MReplace => asc "replace" end.
Definition cat_name (front : bool) : bytes := if front then asc "prepend" else asc "append".

Definition enc_store (name k d : bytes) (f t : N) : bytes :=
  name ++ sp ++ k ++ sp ++ dec f ++ sp ++ dec t ++ sp ++ dec (len d) ++ crlf ++ d ++ crlf.

Fixpoint enc_keys (items : list gitem) : bytes :=
  match items with [] => [] | g :: r => sp ++ gi_key g ++ enc_keys r end.

Definition enc_text (r : req) : bytes :=
  match r with
  | RSet m k d f t _ _ => enc_store (set_name m) k d f t
  | RCat fr k d _ _ => enc_store (cat_name fr) k d 0 0
  | RGet items _ _ => asc "get" ++ enc_keys items ++ crlf
  | RDelete k _ => asc "delete" ++ sp ++ k ++ crlf
  | RTouch k t _ => asc "touch" ++ sp ++ k ++ sp ++ dec t ++ crlf
  | RNoop _ => asc "noop" ++ crlf
  | RQuit _ _ => asc "quit" ++ crlf
  | RVersion _ => asc "version" ++ crlf
  | RStat _ => asc "stats" ++ crlf
  | RGat _ _ _ | RGetE _ _ _ | RUnknown => []
  end.

(* ---------------- well-formed requests of the supported subset ---------------- *)
Definition u32b (x : N) : bool := x <? 4294967296.
(* printable ASCII without space *)
Definition keybyte_okb (b : N) : bool := (33 <=? b) && (b <=? 126).
Definition tkey_okb (k : bytes) : bool :=
  match k with [] => false | _ => forallb keybyte_okb k end.
Definition titem_okb (g : gitem) : bool :=
  tkey_okb (gi_key g) && (gi_opaque g =? 0) && negb (gi_quiet g).

Definition wf_text (r : req) : bool :=
  match r with
  | RSet _ k d f t o q => tkey_okb k && u32b f && u32b t && u32b (len d) && (o =? 0) && negb q
  | RCat _ k d o q => tkey_okb k && u32b (len d) && (o =? 0) && negb q
  | RGet items no ne =>
      match items with [] => false | _ => forallb titem_okb items end && (no =? 0) && negb ne
  | RDelete k o => tkey_okb k && (o =? 0)
  | RTouch k t o => tkey_okb k && u32b t && (o =? 0)
  | RNoop o | RVersion o | RStat o => o =? 0
  | RQuit o q => (o =? 0) && negb q
  | RGat _ _ _ | RGetE _ _ _ | RUnknown => false
  end.

(* ---------------- strings.TrimSpace / strings.Split ---------------- *)
Definition ascii_space (b : N) : bool :=
  (b =? 9) || (b =? 10) || (b =? 11) || (b =? 12) || (b =? 13) || (b =? 32).
(* second and third byte of E2 xx yy that encode U+2000..200A, 2028, 2029, 202F, 205F *)
Definition e2_space (c d : N) : bool :=
  ((c =? 128) && (((128 <=? d) && (d <=? 138)) || (d =? 168) || (d =? 169) || (d =? 175)))
  || ((c =? 129) && (d =? 159)).

(* TrimLeftFunc(s, unicode.IsSpace): decode forward *)
Fixpoint trim_left (l : bytes) : bytes :=
  match l with
  | [] => []
  | b :: r =>
      if ascii_space b then trim_left r
      else if b =? 194 then
        match r with c :: r' => if (c =? 133) || (c =? 160) then trim_left r' else l | [] => l end
      else if b =? 225 then
        match r with c :: d :: r' => if (c =? 154) && (d =? 128) then trim_left r' else l | _ => l end
      else if b =? 226 then
        match r with c :: d :: r' => if e2_space c d then trim_left r' else l | _ => l end
      else if b =? 227 then
        match r with c :: d :: r' => if (c =? 128) && (d =? 128) then trim_left r' else l | _ => l end
      else l
  end.
(* TrimRightFunc on the reversed string: utf8.DecodeLastRune yields a space rune exactly
   when the string ends with that rune's encoding *)
Fixpoint trim_rev (l : bytes) : bytes :=
  match l with
  | [] => []
  | b :: r =>
      if ascii_space b then trim_rev r
      else match r with
           | c :: r' =>
               if (c =? 194) && ((b =? 133) || (b =? 160)) then trim_rev r'
               else match r' with
                    | d :: r'' =>
                        if ((d =? 225) && (c =? 154) && (b =? 128))
                           || ((d =? 226) && e2_space c b)
                           || ((d =? 227) && (c =? 128) && (b =? 128))
                        then trim_rev r'' else l
                    | [] => l
                    end
           | [] => l
           end
  end.
Definition trim_space (l : bytes) : bytes := rev (trim_rev (rev (trim_left l))).

(* strings.Split(s, " "): always at least one part *)
Fixpoint split_sp (l : bytes) : list bytes :=
  match l with
  | [] => [[]]
  | b :: r =>
      if b =? 32 then [] :: split_sp r
      else match split_sp r with
           | p :: ps => (b :: p) :: ps
           | [] => [[b]]
           end
  end.

(* bufio.Reader.ReadString('\n') on the rest of the stream followed by EOF: the line with
   its LF and what follows, or None when there is no LF (io.EOF; everything is consumed) *)
Fixpoint read_line (s : bytes) : option (bytes * bytes) :=
  match s with
  | [] => None
  | b :: r => if b =? 10 then Some ([b], r)
              else match read_line r with
                   | Some (l, rest) => Some (b :: l, rest)
                   | None => None
                   end
  end.

(* strconv.ParseUint(strings.TrimSpace(f), 10, 32) *)
Definition field_u32 (f : bytes) : option N := parse_u32 (trim_space f).

(* ---------------- parser ---------------- *)
(* setRequest (set/add/replace/append/prepend): exactly five parts; flags, exptime, length
   checked in this order; data block; then ReadString('\n') whose error is ignored *)
Definition text_store (mk : bytes -> bytes -> N -> N -> req) (parts : list bytes) (s : bytes) : pout :=
  match parts with
  | [_; k; f; t; l] =>
      match field_u32 f with
      | None => (PClientErr EBadFlags s, [])
      | Some flags =>
      match field_u32 t with
      | None => (PClientErr EBadExptime s, [])
      | Some ttl =>
      match field_u32 l with
      | None => (PClientErr EBadLength s, [])
      | Some n =>
          match read_n s n with
          | None => (PClose, [ATextData n])               (* ErrInternal: Loop aborts *)
          | Some (d, s1) =>
              match read_line s1 with
              | Some (tl, s2) => (PDone (mk k d flags ttl) s2, [ATextData n; ALine (len tl)])
              | None => (PDone (mk k d flags ttl) [], [ATextData n; ALine (len s1)])
              end
          end
      end end end
  | _ => (PClientErr EBadRequest s, [])
  end.

Definition is_cmd (c : bytes) (name : String.string) : bool := bytes_eqb c (asc name).

Definition text_dispatch (parts : list bytes) (s : bytes) : pout :=
  match parts with
  | [] => (PDone RUnknown s, [])                           (* cannot happen: Split gives >= 1 part *)
  | c :: args =>
      if is_cmd c "set" then text_store (fun k d f t => RSet MSet k d f t 0 false) parts s
      else if is_cmd c "add" then text_store (fun k d f t => RSet MAdd k d f t 0 false) parts s
      else if is_cmd c "replace" then text_store (fun k d f t => RSet MReplace k d f t 0 false) parts s
      else if is_cmd c "append" then text_store (fun k d _ _ => RCat false k d 0 false) parts s
      else if is_cmd c "prepend" then text_store (fun k d _ _ => RCat true k d 0 false) parts s
      else if is_cmd c "get" then
        match args with
        | [] => (PClientErr EBadRequest s, [])
        | _ => (PDone (RGet (map (fun k => mkGI k 0 false) args) 0 false) s, [])
        end
      else if is_cmd c "delete" then
        match args with
        | [k] => (PDone (RDelete k 0) s, [])
        | _ => (PClientErr EBadRequest s, [])
        end
      else if is_cmd c "touch" then
        match args with
        | [k; t] => match field_u32 t with
                    | Some ttl => (PDone (RTouch k ttl 0) s, [])
                    | None => (PClientErr EBadRequest s, [])
                    end
        | _ => (PClientErr EBadRequest s, [])
        end
      else if is_cmd c "noop" then
        match args with [] => (PDone (RNoop 0) s, []) | _ => (PClientErr EBadRequest s, []) end
      else if is_cmd c "quit" then
        match args with [] => (PDone (RQuit 0 false) s, []) | _ => (PClientErr EBadRequest s, []) end
      else if is_cmd c "version" then
        match args with [] => (PDone (RVersion 0) s, []) | _ => (PClientErr EBadRequest s, []) end
      else if is_cmd c "stats" then
        match args with [] => (PDone (RStat 0) s, []) | _ => (PClientErr EBadRequest s, []) end
      else (PDone RUnknown s, [])                          (* (nil, RequestUnknown, nil) *)
  end.

Definition parse_text (s : bytes) : pout :=
  match read_line s with
  | None => (PClose, [ALine (len s)])                      (* io.EOF before a line feed *)
  | Some (line, s1) => pre [ALine (len line)] (text_dispatch (split_sp (trim_space line)) s1)
  end.

(* what the text parser buffers: lines it actually received, and a data block of exactly the
   length the command line declares (a uint32) *)
Definition text_ev_ok (s : bytes) (a : aev) : Prop :=
  match a with
  | ALine n => n <= len s
  | ATextData n => n < 4294967296
  | _ => False
  end.

