(* C05 — chunked reads are all-or-nothing. Statements only; proofs in handlers/ChunkedProofs.v. *)
From Rend Require Import base.Bytes gen.Consts_gen spec.MapSpec orca.Types handlers.ChunkFmt handlers.Chunked
  handlers.ChunkedSpec handlers.ChunkedProofs.
Open Scope N_scope.

(* Whatever subset of a key's backend entries has been lost, and however the requests of any
   number of complete writes to the key were interleaved (distinct random tokens), a get returns
   a value one single write wrote in full, with that write's flags — or a miss. *)
Theorem c05_get_all_or_nothing : forall k now W s opq q,
  1 <= len k <= 250 -> Forall (write_ok k) W -> NoDup (map w_tok W) ->
  reach k now W s ->
  exists g, snd (brun (chunked_get [mkGI k opq q] []) s now) = HVals [g] None /\
            (g_miss g = true \/ exists w, In w W /\ g_data g = w_data w /\ g_flags g = w_flags w).
Proof. exact get_all_or_nothing. Qed.
Print Assumptions c05_get_all_or_nothing.

(* the same for get-and-touch *)
Theorem c05_gat_all_or_nothing : forall k now W s ttl opq,
  1 <= len k <= 250 -> Forall (write_ok k) W -> NoDup (map w_tok W) ->
  reach k now W s ->
  exists g, snd (brun (chunked_gat k ttl opq) s now) = HVals [g] None /\
            (g_miss g = true \/ exists w, In w W /\ g_data g = w_data w /\ g_flags g = w_flags w).
Proof. exact gat_all_or_nothing. Qed.
Print Assumptions c05_gat_all_or_nothing.

(* the chunk-count comparison is what makes this true: without it a lost middle chunk gives a
   torn value (the behaviour of the code before the fix) *)
Theorem c05_without_count_check_refuted : exists k now W s,
  reach k now W s /\
  let md := dec_meta (match s (meta_key k) with Some e => e_data e | None => [] end) in
  let vals := arrived (map (fun ck => snd (b_exec s now (QGetQ ck))) (chunk_keys k (m_nchunks md))) in
  existsb (fun v => negb (bytes_eqb (take tokenSize v) (m_token md))) vals = false /\
  forall w, In w W -> assemble md 0 vals ++ zeros (m_length md - len (assemble md 0 vals)) <> w_data w.
Proof. exact without_count_check_refuted. Qed.

Example c05_nonvacuous :
  let k := [107] in
  let w1 := mkW (repeat 1 16) 1000 (repeat 5 3000) 1 0 in
  let w2 := mkW (repeat 2 16) 1000 (repeat 6 1500) 2 0 in
  Forall (write_ok k) [w1; w2] /\ NoDup (map w_tok [w1; w2]) /\
  exists s, reach k 1000 [w1; w2] s /\ s (chunk_key k 1) <> None /\ s (chunk_key k 2) = None.
Proof. exact c05_example. Qed.
