(* C18 — metrics report what happened: exact counts, consistent latency summaries.
   Nothing but statements closed by lemmas.  The histogram statements are about the code WITH
   /verif/fixes/C18-hist-ring-index.patch and C18-hist-sampled-empty.patch, the lzcnt statement
   about the code WITH C18-lzcnt-portable-zero.patch; for the code without them the statements are
   false — see metrics/HistOld.v and metrics/LzcntOld.v for the refutations (replayed on the real
   code by the check). *)
From Rend Require Import base.Bytes gen.Consts_gen gen.Tables_gen.
From Rend Require Import metrics.Lzcnt metrics.LzcntProofs metrics.Bucket metrics.BucketProofs.
From Rend Require Import metrics.Hist metrics.HistProofs metrics.Counter metrics.CounterProofs.
From Rend Require Import metrics.HistConc metrics.HistConcProofs.
Open Scope N_scope.

(* ---- buckets (tables are the generated ones) ---- *)
(* the upper bound of the bucket a value is counted in is never below the value *)
Theorem c18_bucket_upper : forall n, n < 2 ^ 63 -> n <= nth (N.to_nat (getBucket n)) bucketValues 0.
Proof. exact bucket_upper. Qed.
Print Assumptions c18_bucket_upper.

(* the bucket is a non-decreasing function of the value *)
Theorem c18_bucket_mono : forall n m, n <= m < 2 ^ 63 -> getBucket n <= getBucket m.
Proof. exact bucket_mono. Qed.
Print Assumptions c18_bucket_mono.

(* ... on all of uint64, in fact *)
Theorem c18_bucket_mono64 : forall n m, n <= m -> m < 2 ^ 64 -> getBucket n <= getBucket m.
Proof. exact bucket_mono64. Qed.
Print Assumptions c18_bucket_mono64.

(* the bucket number indexes the counter array *)
Theorem c18_bucket_range : forall n, n < 2 ^ 64 -> getBucket n < numAtlasBuckets.
Proof. exact bucket_range. Qed.
Print Assumptions c18_bucket_range.

(* no division by zero, no out-of-range table index inside getBucket *)
Theorem c18_bucket_safe : forall n, 15 < n -> n < 2 ^ 64 ->
  let r := N.log2 n in
  0 < delta r /\ lsh r / 2 < len powerOf4Index /\ off r n <= 9 /\ getBucket n < len bucketValues.
Proof. exact bucket_safe. Qed.
Print Assumptions c18_bucket_safe.

(* builds that link the portable lzcnt compute the same buckets *)
Theorem c18_bucket_portable_same : forall n, n < 2 ^ 64 -> getBucket_portable n = getBucket n.
Proof. exact getBucket_portable_same. Qed.
Print Assumptions c18_bucket_portable_same.

(* ---- bit count: assembly = portable = 63 - floor(log2 x), 64 at zero ---- *)
Theorem c18_lzcnt : forall x, x < 2 ^ 64 ->
  lzcnt_portable x = lzcnt_asm x /\ lzcnt_asm x = (if x =? 0 then 64 else 63 - N.log2 x).
Proof. exact lzcnt_agree. Qed.
Print Assumptions c18_lzcnt.

(* ---- histogram, one reporting period ----
   h: any histogram state at the start of a period (fresh counters, ARBITRARY buffer contents left
   by earlier periods); obs: the period's observations in the order ObserveHist handled them, any
   length below 2^64 (ring wrap-around included), values below 2^64; sampled or not. *)
Theorem c18_hist_count : forall sampled h obs, period_start h -> obs_ok obs ->
  let r := fst (period sampled h obs) in
  r_count r = len obs /\ r_kept r = (if sampled then len obs / 4 else len obs) /\
  r_total r = sumN obs mod two64 /\ r_printed r = negb (r_kept r =? 0) /\
  (r_printed r = false -> r_pctls r = zeros23) /\ length (r_pctls r) = 23%nat.
Proof. exact hist_count. Qed.
Print Assumptions c18_hist_count.

(* when percentiles are printed (something was kept: always for an unsampled histogram with >= 1
   observation, from 4 observations on for a sampled one), min and max are the true extremes of
   ALL observations of the period and every percentile lies between them *)
Theorem c18_hist_minmax : forall sampled h obs, period_start h -> obs_ok obs ->
  let r := fst (period sampled h obs) in
  r_printed r = true ->
  (forall v, In v obs -> r_min r <= v <= r_max r) /\ In (r_min r) obs /\ In (r_max r) obs /\
  Forall (fun p => r_min r <= p <= r_max r) (r_pctls r) /\
  nth 0 (r_pctls r) 0 = r_min r /\ nth 20 (r_pctls r) 0 = r_max r.
Proof. exact hist_minmax. Qed.
Print Assumptions c18_hist_minmax.

(* ... and every printed percentile is one of the period's observations.
   When nothing was kept (sampled histogram, fewer than 4 observations) no percentile is printed
   (c18_hist_count: r_printed = false), only the count. *)
Theorem c18_hist_member : forall sampled h obs, period_start h -> obs_ok obs ->
  let r := fst (period sampled h obs) in
  r_printed r = true -> Forall (fun p => In p obs) (r_pctls r).
Proof. exact hist_member. Qed.
Print Assumptions c18_hist_member.

(* every period of a histogram's life starts as the theorems above require *)
Theorem c18_hist_all_periods : forall sampled ps, Forall obs_ok ps ->
  Forall2 (good_report sampled) ps (periods sampled newHist ps).
Proof. exact periods_good_newHist. Qed.
Print Assumptions c18_hist_all_periods.

(* ---- histogram, several goroutines ----
   Any number of goroutines enter ObserveHist on the period's fresh counters (stale buffer b), one per
   value of vs; each sync/atomic operation and the buffer store is one step; the steps interleave in
   ANY order (sys_run), CAS retries included; when all have returned the reader builds its report:
   count = number of calls, and if percentiles are printed each is one of the values and lies
   between the true min and max.  (Trusted: atomicity of sync/atomic, and the RWMutex which makes
   a period consist of complete calls.) *)
Theorem c18_hist_concurrent : forall sampled vs b d ts,
  obs_ok vs ->
  sys_run sampled (fresh_dat b, start_threads vs) (d, ts) -> forallb is_done ts = true ->
  good_report sampled vs (report_of d).
Proof. exact conc_report_good. Qed.
Print Assumptions c18_hist_concurrent.

(* report_of is what the sequential theorems call the report *)
Theorem c18_hist_report_of : forall h, fst (extract h) = report_of (dat h).
Proof. exact extract_report. Qed.
Print Assumptions c18_hist_report_of.

(* ---- counters ---- *)
Theorem c18_counter : forall threads trace c0, c0 < two64 -> interleave threads trace ->
  run_adds c0 trace = (c0 + sum_adds (concat threads)) mod two64.
Proof. exact counter_interleave. Qed.
Print Assumptions c18_counter.

Theorem c18_counter_perm : forall adds trace c0, c0 < two64 -> Permutation.Permutation adds trace ->
  run_adds c0 trace = (c0 + sum_adds adds) mod two64.
Proof. exact counter_perm. Qed.
Print Assumptions c18_counter_perm.

(* ---- non-vacuity ---- *)
(* a period that wraps the ring on a buffer full of stale values *)
Example c18_nonvacuous_hist :
  let stale := bwrite buf0 0 (repeat 7 40) in
  let h := mkHist (fresh_dat stale) stale in
  let obs := [5; 100; 3; 3; 9000000000000000000] in
  period_start h /\ obs_ok obs /\ r_printed (fst (period false h obs)) = true /\
  r_pctls (fst (period false h obs)) =
    [3; 3; 3; 3; 3; 3; 3; 3; 5; 5; 5; 5; 100; 100; 100; 100; 9000000000000000000; 9000000000000000000;
     9000000000000000000; 9000000000000000000; 9000000000000000000; 9000000000000000000; 9000000000000000000] /\
  r_printed (fst (period true h [1; 2; 3])) = false /\
  r_printed (fst (period true h [1; 2; 3; 4])) = true.
Proof.
  cbv zeta. split; [eexists; reflexivity|]. split.
  - split; [repeat constructor|reflexivity].
  - vm_compute. repeat split.
Qed.

(* two goroutines observing 5 and 9 whose steps interleave so that a CompareAndSwap of the first
   one fails and is retried: the run exists, ends with both returned, and reports 5 and 9 *)
Example c18_nonvacuous_concurrent :
  let s := run_sched false (fresh_dat buf0, start_threads [5; 9])
             [0; 0; 1; 1; 1; 0; 0; 0; 1; 0; 1; 0; 1; 0; 1; 0; 1; 0; 0; 1; 1]%nat in
  sys_run false (fresh_dat buf0, start_threads [5; 9]) s /\
  forallb is_done (snd s) = true /\
  r_count (report_of (fst s)) = 2 /\ r_min (report_of (fst s)) = 5 /\ r_max (report_of (fst s)) = 9 /\
  nth 10 (r_pctls (report_of (fst s))) 0 = 9.
Proof.
  cbv zeta. split; [apply run_sched_sound|]. vm_compute. repeat split.
Qed.

Example c18_nonvacuous_bucket :
  getBucket 16 = 15 /\ getBucket 20 = 15 /\ getBucket 21 = 16 /\ getBucket (2 ^ 63 - 1) = 275 /\
  lzcnt_asm 1 = 63 /\ lzcnt_portable (2 ^ 63) = 0.
Proof. vm_compute. repeat split. Qed.
