(* C08 — tie of the reply rendering to the real responders: constgen prints, on every run, the bytes
   that textprot.TextResponder.Error, binprot.BinaryResponder.Error and the argument-free text
   replies actually write (gen/Consts_gen.v); the hand-written rendering of proto/Resp.v yields
   exactly those bytes. Nothing but statements closed by lemmas (gen/RespLink.v). *)
From Rend Require Import base.Bytes gen.Consts_gen spec.MapSpec orca.Types proto.Resp gen.RespLink.
Open Scope N_scope.
Theorem c08_src_text_error : forall e b, In (e, b) textErrorReply_tab -> text_error e = b.
Proof. exact text_error_src_all. Qed.
Print Assumptions c08_src_text_error.
Theorem c08_src_bin_error : forall rt e b, In (rt, e, b) binErrorReply_tab -> bin_error 16909060 rt e false = b.
Proof. exact bin_error_src_all. Qed.
Print Assumptions c08_src_bin_error.
Theorem c08_src_text_fixed :
  textFixedReply_tab =
  [render_text (PStored RtSet 0 false); render_text (PDelete 0); render_text (PTouch 0); render_text (PGetEnd 0 false);
   render_text (PNoop 0); render_text (PQuit 0 false); render_text (PVersion 0); render_text (PStat 0)].
Proof. exact text_fixed_src. Qed.
Print Assumptions c08_src_text_fixed.
(* the tables cover all 18 error values and all 15 request types *)
Theorem c08_src_tables_complete :
  length textErrorReply_tab = length errText_tab /\ length binErrorReply_tab = (15 * length errText_tab)%nat.
Proof. exact resp_tables_complete. Qed.
Print Assumptions c08_src_tables_complete.
Example c08_src_nonvacuous : In (EValueTooBig, text_error EValueTooBig) textErrorReply_tab /\ text_error EValueTooBig <> [13; 10].
Proof. vm_compute. split; [intuition|discriminate]. Qed.
