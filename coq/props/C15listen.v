(* C14 / C15 — the accept loop as EXTRACTED FROM THE SOURCE of /repo/server/listen.go
   (gen/Listen_gen.v listen_src, written by `rendharness listentrans`; meaning of a shape:
   server/ListenShape.v): the transition function the extracted shape prescribes is a total
   function that has the properties of props/C14b.v and props/C15b.v; every error branch before the
   goroutine closes exactly what the iteration has opened; a CanParse error (EOF before the first
   byte included) aborts with the client connection and both handlers. The same source with the
   declarations of l1 / l2 moved before the loop does not have the properties. Nothing but
   statements closed by lemmas. *)
From Coq Require Import String.
From Rend Require Import base.Bytes server.Listen server.ListenShape gen.Listen_gen gen.ListenLink.
Open Scope N_scope.

(* the extracted shape is the model shape *)
Theorem c15_listen_src_is_model : listen_src = listen_model.
Proof. exact listen_src_link. Qed.
Print Assumptions c15_listen_src_is_model.

(* the loop the source prescribes is Listen.v's transition system *)
Theorem c15_listen_src_step : forall s e, sh_step listen_src s e = Some (step s e).
Proof. exact src_step. Qed.
Print Assumptions c15_listen_src_step.

(* C14 for the loop extracted from source *)
Theorem c14_src_own_handlers :
  exists stp : lstate -> event -> lstate * obs,
    (forall s e, sh_step listen_src s e = Some (stp s e)) /\
    (* every request of connection c is carried by exactly the handler pair constructed at c's accept *)
    (forall evs, wf evs = true ->
     forall pre c post, evs = pre ++ ERequest c :: post ->
     exists h1 h2, In (EAccept c, OMade h1 h2) (trace_gen stp pre) /\
                   snd (stp (st_gen stp pre) (ERequest c)) = OReq h1 h2) /\
    (* one pair of two different handlers per connection; pairs of different connections are disjoint *)
    (forall evs, wf evs = true ->
     forall c c' h1 h2 h1' h2',
       In (EAccept c, OMade h1 h2) (trace_gen stp evs) -> In (EAccept c', OMade h1' h2') (trace_gen stp evs) ->
       h1 <> h2 /\ (c = c' -> h1 = h1' /\ h2 = h2') /\
       (c <> c' -> h1 <> h1' /\ h1 <> h2' /\ h2 <> h1' /\ h2 <> h2')).
Proof. exact c14_src_own_handlers_lemma. Qed.
Print Assumptions c14_src_own_handlers.

(* C15 for the loop extracted from source; is_close_of c e := e = EClose c \/ e = EEOF0 c *)
Theorem c15_src_close_releases_own :
  exists stp : lstate -> event -> lstate * obs,
    (forall s e, sh_step listen_src s e = Some (stp s e)) /\
    (forall evs, wf evs = true ->
     forall pre e post c, evs = pre ++ e :: post -> is_close_of c e ->
     exists h1 h2,
       In (EAccept c, OMade h1 h2) (trace_gen stp pre) /\
       (forall p1 p2, pre = p1 ++ p2 -> In (EAccept c, OMade h1 h2) (trace_gen stp p1) ->
                      In h1 (open (st_gen stp p1)) /\ In h2 (open (st_gen stp p1))) /\
       snd (stp (st_gen stp pre) e) = OClosed [h1; h2] /\
       (forall h, In h (open (st_gen stp (pre ++ [e]))) <-> In h (open (st_gen stp pre)) /\ h <> h1 /\ h <> h2) /\
       (forall c' h1' h2', c' <> c -> In (EAccept c', OMade h1' h2') (trace_gen stp pre) ->
          (In h1' (open (st_gen stp (pre ++ [e]))) <-> In h1' (open (st_gen stp pre))) /\
          (In h2' (open (st_gen stp (pre ++ [e]))) <-> In h2' (open (st_gen stp pre))))) /\
    (forall evs, wf evs = true ->
     (forall c, In (EAccept c) evs -> In (EClose c) evs \/ In (EEOF0 c) evs) ->
     open (st_gen stp evs) = []).
Proof. exact c15_src_close_releases_own_lemma. Qed.
Print Assumptions c15_src_close_releases_own.

(* every error branch before the goroutine: what the iteration holds for certain / possibly (Accept
   may return a connection together with an error), what the branch closes (what, under a nil
   test?), how it is left. Each closes exactly what is held, once, what may be nil under a nil
   test only, and continues; after the last of them the iteration holds remote, l1 and l2, and the
   next statement is the go statement. Every Configure method returns its argument, so remote has a
   receiver for Close after a failed Configure. *)
Theorem c15_src_error_paths_close :
  sh_error_paths listen_src = Some [
    mkEPath (SAccept InLoop) [] [RRemote] [(RRemote, true)] BContinue;
    mkEPath SConfigure [RRemote] [] [(RRemote, false)] BContinue;
    mkEPath (SMake RL1 InLoop) [RRemote] [] [(RRemote, false)] BContinue;
    mkEPath (SMake RL2 InLoop) [RRemote; RL1] [] [(RL1, false); (RRemote, false)] BContinue] /\
  sh_error_paths_close listen_src [RRemote; RL1; RL2] /\
  (forall p ps, sh_error_paths listen_src = Some ps -> In p ps ->
     ep_exit p = BContinue /\
     (forall r, In r (ep_sure p ++ ep_maybe p) -> count r (map fst (ep_closes p)) = 1%nat) /\
     (forall c, In c (ep_closes p) -> res_in (fst c) (ep_sure p ++ ep_maybe p) = true) /\
     (forall c, In c (ep_closes p) -> res_in (fst c) (ep_maybe p) = true -> snd c = true)) /\
  Forall (fun c => snd c = true) (lsh_configure listen_src).
Proof. exact c15_src_error_paths_close_lemma. Qed.
Print Assumptions c15_src_error_paths_close.

(* CanParse fails — io.EOF before the first byte or any other error: one abort with the client
   connection and both handlers, then return; in Listen.v's terms the connection's own pair, open
   until then, is closed *)
Theorem c15_src_eof_before_first_byte_aborts :
  (forall eof, sh_detect_err listen_src eof = Some [RConn; RL1; RL2]) /\
  (forall evs, wf evs = true ->
   forall pre post c, evs = pre ++ EEOF0 c :: post ->
   exists h1 h2, In (EAccept c, OMade h1 h2) (trace pre) /\
     sh_step listen_src (st pre) (EEOF0 c) = Some (st (pre ++ [EEOF0 c]), OClosed [h1; h2]) /\
     In h1 (open (st pre)) /\ In h2 (open (st pre)) /\
     ~ In h1 (open (st (pre ++ [EEOF0 c]))) /\ ~ In h2 (open (st (pre ++ [EEOF0 c])))).
Proof. exact c15_src_eof_before_first_byte_aborts_lemma. Qed.
Print Assumptions c15_src_eof_before_first_byte_aborts.

(* the source with the declarations of l1 and l2 moved before the loop: its loop is step_shared,
   and no total function it prescribes has the C14 / C15 properties *)
Theorem c15_src_hoisted_refuted :
  (forall s e, sh_step (listen_with Hoisted Hoisted) s e = Some (step_shared s e)) /\
  (forall stp, (forall s e, sh_step (listen_with Hoisted Hoisted) s e = Some (stp s e)) ->
     ~ own_handlers stp /\ ~ close_releases_own stp).
Proof. exact (conj src_hoisted_is_shared src_hoisted_refuted_lemma). Qed.
Print Assumptions c15_src_hoisted_refuted.

(* the closers the server is built with, fed to abort as looptrans extracted it from
   server/utils.go, leave open exactly what Listen.v's abort leaves open *)
Theorem c15_src_server_closers_loop_abort : forall s c r hs,
  LoopShape.sh_abort_open Loop_gen.loop_src (hs_of [RConn; RL1; RL2] hs) (open s) = Some (open (fst (abort s c r hs))).
Proof. exact src_server_closers_loop_abort. Qed.
Print Assumptions c15_src_server_closers_loop_abort.

(* non-vacuity: the shape-driven function computes on an interleaving of three connections *)
Example c15listen_nonvacuous :
  let evs := [EAccept 7; EAccept 3; EEOF0 3] in
  wf evs = true /\
  sh_step listen_src (st [EAccept 7; EAccept 3]) (EEOF0 3) = Some (st evs, OClosed [2; 3]) /\
  sh_step listen_src (st [EAccept 7]) (EFirstByte 7) = Some (st [EAccept 7; EFirstByte 7], ONone) /\
  sh_step listen_src (st [EAccept 7; EFirstByte 7]) (ERequest 7) = Some (st [EAccept 7; EFirstByte 7], OReq 0 1) /\
  open (st evs) = [0; 1].
Proof. vm_compute. repeat split; reflexivity. Qed.
(* the shape-driven function distinguishes shapes: with l1, l2 hoisted connection 3's pair is closed by 7's EOF;
   with the client connection missing from abort's closers the step is undefined *)
Example c15listen_sensitive :
  sh_step (listen_with Hoisted Hoisted) (st [EAccept 7; EAccept 3]) (EEOF0 7) =
    Some (st_shared [EAccept 7; EAccept 3; EEOF0 7], OClosed [2; 3]) /\
  sh_step listen_src (st [EAccept 7; EAccept 3]) (EEOF0 7) = Some (st [EAccept 7; EAccept 3; EEOF0 7], OClosed [0; 1]) /\
  step_an (mkAn true RdOwn RdOwn [RL1; RL2] [RConn; RL1; RL2] (RL1, RL2)) (st [EAccept 7]) (EEOF0 7) = None /\
  sh_step (listen_with (ScopeOther "x") InLoop) init (EAccept 1) = None.
Proof. vm_compute. repeat split; reflexivity. Qed.
