(* C01wiresrc — the byte-level model of the direct backend handler (handlers/StdWire.v, on which
   props/C01wire.v rests) is tied to the SOURCE of /repo/handlers/memcached/std/{handler,localComm}.go and
   /repo/protocol/binprot/{commands,headers}.go: `rendharness stdtrans` translates those files statement by
   statement into gen/Std_gen.v (vocabulary and trusted meaning of the Go calls: handlers/StdSem.v);
   gen/StdLink.v proves the generated terms equal to the model. Statements only.

   NOT linked: Get / GetE (Handler.Get, realHandleGet, Handler.GetE, realHandleGetE are translated — the
   goroutine + per-key loop as m_range / m_emit / m_fail — but no link lemma to StdWire.w_get is proved).
   GAT is linked under [hdr_fits]: the response header's key / extras lengths are values of their Go types
   (the source subtracts twice in uint32, the model once in N); the hypothesis is not discharged here from
   the hypotheses of c01w_refines. *)
From Coq Require Import String.
From Rend Require Import base.Bytes gen.Consts_gen spec.MapSpec orca.Types proto.Resp proto.ReqCommon
  proto.BinReq handlers.Std orca.Orcas orca.Faults handlers.StdWire handlers.StdWireLemmas handlers.StdWireProofs
  handlers.StdSem gen.Std_gen gen.StdLink.
Open Scope N_scope.

(* the frames: for every request, what the source's Write*Cmd call (plus the value) puts into the write
   buffer is the model's frame — for every stale content of the pooled header and buffer and every value of
   the request fields the model does not carry *)
Theorem c01w_src_frames : forall E xo xq xf xt q, std_frame_src E xo xq xf xt q = std_frame q.
Proof. exact std_frame_src_link. Qed.
Print Assumptions c01w_src_frames.

Theorem c01w_src_get_frames : forall E withexp it, get_frame_src E withexp it = get_frame withexp it.
Proof. exact get_frame_src_link. Qed.
Print Assumptions c01w_src_get_frames.

(* every exported Write*Cmd of protocol/binprot/commands.go, with any opaque *)
Theorem c01w_src_write_cmds : forall E k f ttl ds opq s,
  WriteSetCmd_src E k f ttl ds opq s = wr (enc_hdr opSet (len k) 8 (len k + 8 + ds) opq ++ u32be f ++ u32be ttl ++ k) s /\
  WriteAddCmd_src E k f ttl ds opq s = wr (enc_hdr opAdd (len k) 8 (len k + 8 + ds) opq ++ u32be f ++ u32be ttl ++ k) s /\
  WriteReplaceCmd_src E k f ttl ds opq s = wr (enc_hdr opReplace (len k) 8 (len k + 8 + ds) opq ++ u32be f ++ u32be ttl ++ k) s /\
  WriteAppendCmd_src E k f ttl ds opq s = wr (enc_hdr opAppend (len k) 0 (len k + ds) opq ++ k) s /\
  WritePrependCmd_src E k f ttl ds opq s = wr (enc_hdr opPrepend (len k) 0 (len k + ds) opq ++ k) s /\
  WriteGetCmd_src E k opq s = wr (enc_hdr opGet (len k) 0 (len k) opq ++ k) s /\
  WriteGetQCmd_src E k opq s = wr (enc_hdr opGetQ (len k) 0 (len k) opq ++ k) s /\
  WriteGetECmd_src E k opq s = wr (enc_hdr opGetE (len k) 0 (len k) opq ++ k) s /\
  WriteGetEQCmd_src E k opq s = wr (enc_hdr opGetEQ (len k) 0 (len k) opq ++ k) s /\
  WriteDeleteCmd_src E k opq s = wr (enc_hdr opDelete (len k) 0 (len k) opq ++ k) s /\
  WriteTouchCmd_src E k ttl opq s = wr (enc_hdr opTouch (len k) 4 (len k + 4) opq ++ u32be ttl ++ k) s /\
  WriteGATCmd_src E k ttl opq s = wr (enc_hdr opGat (len k) 4 (len k + 4) opq ++ u32be ttl ++ k) s /\
  WriteGATQCmd_src E k ttl opq s = wr (enc_hdr opGatQ (len k) 4 (len k + 4) opq ++ u32be ttl ++ k) s /\
  WriteNoopCmd_src E opq s = wr (enc_hdr opNoop 0 0 0 opq) s.
Proof. exact write_cmds_link. Qed.
Print Assumptions c01w_src_write_cmds.

(* the translated body of binprot.ReadResponseHeader is the model's w_read_rhdr *)
Theorem c01w_src_read_rhdr : forall E s, ReadResponseHeader_src E s = m_read_rhdr s.
Proof. exact ReadResponseHeader_link. Qed.
Print Assumptions c01w_src_read_rhdr.

(* Set, Add, Replace, Append, Prepend, Delete, Touch (unconditionally) and GAT (under hdr_fits), on ANY
   connection: the source-translated method is std_wire — same connection afterwards, empty write buffer,
   same result or panic. Partial: Get / GetE are excluded by [not_get]. *)
Theorem c01w_src_wire_partial : forall E xo xq xf xt c q,
  not_get q -> wire_hdrs_fit (ge_ebody E) c (ge_now E) q ->
  std_wire_src_gen E xo xq xf xt c q = lift_out (std_wire (ge_ebody E) c (ge_now E) q).
Proof. exact std_wire_src_link. Qed.
Print Assumptions c01w_src_wire_partial.

(* c01w_in_sync (props/C01wire.v) transferred to the source-translated handler: on every path — every error
   status with any body — the translated method leaves the connection in sync and its write buffer empty, and
   never leaves the semantics of StdSem.v *)
Theorem c01w_src_in_sync_partial : forall (ebody : N -> bytes) (s : store) (now : N) (q : hreq) (pl : list senv),
  ebody_fits ebody -> hreq_fits q -> store_fits now s -> plan_fits pl ->
  not_get q -> wire_hdrs_fit ebody (conn0 s pl) now q ->
  forall st r, std_wire_src ebody (conn0 s pl) now q = (st, r) ->
  in_sync (ws_conn st) /\ ws_wbuf st = [] /\ r <> Undef.
Proof. exact std_wire_src_in_sync. Qed.
Print Assumptions c01w_src_in_sync_partial.

(* ---- non-vacuity ---- *)
Definition ex_E : genv := mkGE (fun _ => asc "Not found") 5 (mkQH 9 9 9 9 9 9 9 9 9) (mkRH 9 9 9 9 9 9) (asc "stale stale stale stale stale").
Example c01w_src_ex_set :
  std_wire_src_gen ex_E 7 true 0 0 (conn0 empty_store []) (HSet MAdd (asc "k") (asc "hello") 7 100) =
  lift_out (std_wire (ge_ebody ex_E) (conn0 empty_store []) 5 (HSet MAdd (asc "k") (asc "hello") 7 100)).
Proof. vm_compute. reflexivity. Qed.
Example c01w_src_ex_gat_miss :
  snd (std_wire_src_gen ex_E 7 true 0 0 (conn0 empty_store []) (HGat (asc "k") 10 77)) =
  Val (HVals [mkGR (asc "k") [] 0 0 77 false true] None).
Proof. vm_compute. reflexivity. Qed.
(* Get is translated and runs (not linked): a miss on an empty store *)
Example c01w_src_ex_get_runs :
  snd (std_wire_src_gen ex_E 7 true 0 0 (conn0 empty_store []) (HGet [mkGI (asc "a") 1 false])) =
  Val (HVals [mkGR (asc "a") [] 0 0 1 false true] None).
Proof. vm_compute. reflexivity. Qed.
