(* C09 — TTL fidelity (direct handlers). Statements only; proofs in orca/OrcaProofs.v.
   The chunked handler's per-entry deadlines are in props/C04.v / handlers/Chunked*.v. *)
From Rend Require Import base.Bytes gen.Consts_gen spec.MapSpec orca.Types handlers.Std orca.Orcas
  proto.Resp orca.OrcaSpec orca.OrcaProofs.
Open Scope N_scope.

(* the TTL rule: 0 never, up to 30 days relative to the command, above that absolute *)
Theorem c09_norm_rule : forall now ttl,
  norm now ttl = if ttl =? 0 then Never else if ttl <=? 2592000 then At (now + ttl) else At ttl.
Proof. exact norm_rule. Qed.
Print Assumptions c09_norm_rule.

(* the reference map applies the rule at set/add/replace/touch/gat and leaves the deadline
   alone at append/prepend/get: what each command does to the deadline of its key *)
Theorem c09_spec_deadlines : forall s now c,
  let s' := fst (spec_step s now c) in
  match c with
  | CSet m k d f ttl => forall e', live now s' k = Some e' -> snd (spec_step s now c) = OOk -> e_dl e' = norm now ttl
  | CTouch k ttl | CGat k ttl => forall e', live now s' k = Some e' -> live now s k <> None -> e_dl e' = norm now ttl
  | CCat _ k _ => forall e e', live now s k = Some e -> live now s' k = Some e' -> e_dl e' = e_dl e
  | CGet _ | CDelete _ => forall k e', live now s' k = Some e' -> live now s k = Some e'
  end.
Proof. exact spec_deadlines. Qed.
Print Assumptions c09_spec_deadlines.

(* in every state reachable by a history (any ports, evictions, configurations) every tier
   that can serve a key holds it with exactly the deadline of the reference map.
   [ttl_sane] bounds the absolute expiry times the requests carry; [deadlines_sane] is the same
   bound on what L2 already holds when the history starts (true of an empty L2): without it an
   initial L2 entry expiring later than twice the clock is back-filled with a shorter life. *)
Theorem c09_ttl : forall p lck h l1 l2,
  hist_ok p true lck h -> Forall ttl_sane h ->
  (forall now, sub_live now l1 l2) -> (forall now, same_deadlines now l1 l2) ->
  deadlines_sane (hd 0 (map h_now h)) l2 ->
  let '(_, l1', l2') := run_hist true lck h l1 l2 in
  let '(_, s') := ref_hist h l2 in
  forall now, last (map h_now h) 0 <= now ->
    store_eq l2' s' /\
    (forall k e1, live now l1' k = Some e1 -> exists e0, live now s' k = Some e0 /\ e_dl e1 = e_dl e0).
Proof. exact ttl_fidelity. Qed.
Print Assumptions c09_ttl.

(* a get that re-populates L1 from L2 gives the copy L2's deadline (remaining <= 30 days) ... *)
Theorem c09_backfill_deadline : forall now t, now < t -> t - now <= 2592000 ->
  norm now (remaining now (At t)) = At t.
Proof. exact backfill_deadline. Qed.
(* ... a never-expiring item stays never-expiring ... *)
Theorem c09_backfill_never : forall now, norm now (remaining now Never) = Never.
Proof. exact backfill_never. Qed.
(* ... and above 30 days the remaining TTL is read as an absolute time: the copy is dead on
   arrival when that time is not in the future, and short-lived otherwise (finding, DESIGN.md §8-16) *)
Theorem c09_backfill_over_30d_refuted : exists now t,
  now < t /\ norm now (remaining now (At t)) <> At t.
Proof. exact backfill_over_30d_refuted. Qed.

(* served iff not expired: the reference get hits exactly while now < deadline *)
Theorem c09_served_iff : forall s now k e, s k = Some e ->
  (b_get s now k = Some e <-> match e_dl e with Never => True | At t => now < t end).
Proof. exact served_iff. Qed.
Print Assumptions c09_served_iff.

Example c09_nonvacuous :
  let h := [mkH PMain 1000 [] (RSet MSet [1] [2] 0 50 0 false); mkH PBatch 1001 [[1]] (RGat [1] 900 3);
            mkH PMain 1002 [[1]] (RGet [mkGI [1] 1 false] 0 false)] in
  hist_ok Bin true false h /\ Forall ttl_sane h.
Proof. exact c09_example. Qed.
