(* C13 — the batching pool survives loss of its backend connections (the logic half).
   Statements only; proofs in handlers/BatchedProofs.v. Reconnecting, back-off timing, the
   hand-over between the reader and recovery goroutines and "serves normally again" are
   observed by the harness, not proved. *)
From Coq Require Import Permutation.
From Rend Require Import base.Bytes gen.Consts_gen spec.MapSpec orca.Types handlers.Std handlers.Batched
  handlers.BatchedSpec handlers.BatchedProofs.
Open Scope N_scope.

(* A cut at ANY position of the reply stream of a batch (after n replies; the backend may have
   applied any number of the unanswered requests): every caller of the batch gets either all of
   its replies, or a prefix of them followed by exactly one retry error — never a reply that
   belongs to someone else, never two errors. *)
Theorem c13_cut_outcomes : forall base reqs s now n applied r,
  wf_batch base reqs -> In r reqs ->
  let '(_, full) := run_batch base reqs s now None in
  let '(_, ds) := run_batch base reqs s now (Some (n, applied)) in
  of_chan ds (q_chan r) = of_chan full (q_chan r) \/
  exists pre, of_chan ds (q_chan r) = pre ++ [RErr RETRY] /\
              exists post, of_chan full (q_chan r) = pre ++ post /\ post <> [].
Proof. exact cut_outcomes. Qed.
Print Assumptions c13_cut_outcomes.

(* A multi-key get with transparent retries (any number of cuts at any positions, any opaque
   bases): if it reports no error, the results it handed to the caller are exactly one per
   requested (key, opaque, quiet) item — never a partial answer presented as complete — and
   every hit carries the value the backend holds for that key. *)
Theorem c13_get_complete_or_error : forall tries bases cuts items s now s' served,
  Forall (fun b => b < 2147483648) bases -> N.of_nat (length items) + 2 < 2147483648 ->
  (length bases >= tries)%nat ->
  get_retry tries bases cuts items true s now [] = (s', served, None) ->
  (tries > 0)%nat ->
  Permutation (map item_of_res served) items /\
  (forall g, In g served -> g_miss g = false ->
     exists e, live now s (g_key g) = Some e /\ g_data g = e_data e /\ g_flags g = e_flags e) /\
  store_eq s' s.
Proof. exact get_complete_or_error. Qed.
Print Assumptions c13_get_complete_or_error.

(* without cuts the first attempt serves everything *)
Theorem c13_get_no_cut : forall tries base items s now,
  base < 2147483648 -> N.of_nat (length items) + 2 < 2147483648 -> (tries > 0)%nat ->
  exists served, get_retry tries [base] [None] items true s now [] = (s, served, None) /\
                 map item_of_res served = items.
Proof. exact get_no_cut. Qed.

(* the behaviour before the fix: the retry re-requested only one outstanding non-quiet key *)
Theorem c13_old_retry_drops_keys_refuted : exists pending,
  ~ Permutation (old_retry_request pending) pending.
Proof. exact old_retry_refuted. Qed.
(* ... whereas the fixed retry request is always a rearrangement of what is pending *)
Theorem c13_retry_request_complete : forall pending, Permutation (retry_request pending) pending.
Proof. exact retry_request_complete. Qed.
Print Assumptions c13_retry_request_complete.

Example c13_nonvacuous :
  let items := [mkGI [1] 1 true; mkGI [2] 2 false; mkGI [3] 3 false] in
  let s := upd empty_store [2] (Some (mkE [7] 0 Never)) in
  exists s' served, get_retry 4 [5; 6; 7; 8] [Some (1%nat, 0%nat); None] items true s 10 [] = (s', served, None) /\
                    length served = 3%nat.
Proof. exact c13_example. Qed.
