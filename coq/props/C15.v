(* C15 — a client disconnect at any byte releases everything held for that connection (the
   logic half). The server learns of the disconnect as EOF from Parse; DefaultServer.Loop then
   aborts, which closes the remote connection and both backend handlers; a key lock is only
   ever held inside an orchestrator call (C12), never across Parse. That goroutines end and
   sockets close is observed by the harness for every prefix, not proved. *)
From Rend Require Import base.Bytes gen.Consts_gen spec.MapSpec orca.Types handlers.Std orca.Orcas
  proto.Resp proto.ReqCommon proto.BinReq proto.TextReq proto.BinReqProofs proto.TextReqProofs proto.Stream.
Open Scope N_scope.

(* For EVERY byte stream (valid pipeline or not) cut at EVERY offset, over either protocol,
   with any orchestrator, from any state: the connection's loop comes to an end with the
   connection closed — it never keeps waiting with the connection open. *)
Theorem c15_prefix_closes_bin : forall orca (s : bytes) (n : nat) l1 l2 now,
  let cut := firstn n s in
  snd (serve_stream Bin parse_bin orca (S (length cut)) cut l1 l2 now) = Closed.
Proof.
  intros orca s n l1 l2 now cut. apply serve_stream_closes; [exact (bin_progress true) | lia].
Qed.
Print Assumptions c15_prefix_closes_bin.

Theorem c15_prefix_closes_text : forall orca (s : bytes) (n : nat) l1 l2 now,
  let cut := firstn n s in
  snd (serve_stream Text parse_text orca (S (length cut)) cut l1 l2 now) = Closed.
Proof.
  intros orca s n l1 l2 now cut. apply serve_stream_closes; [exact text_progress | lia].
Qed.
Print Assumptions c15_prefix_closes_text.

(* nothing is read beyond the cut: a prefix that ends inside a request executes exactly the
   complete requests before it (the loop is a function of the bytes received) — shown on a
   concrete pipeline cut inside the second request's value *)
Example c15_nonvacuous :
  let s := enc_bin (RSet MSet [107] [1; 2; 3] 0 0 1 false) ++ enc_bin (RSet MSet [107] [4; 5; 6] 0 0 2 false) in
  let cut := firstn (length s - 2) s in
  let '(out, l1, _, c) := serve_stream Bin parse_bin l1only (S (length cut)) cut empty_store empty_store 5 in
  c = Closed /\ out = render_bin (PStored RtSet 1 false) /\
  match l1 [107] with Some e => e_data e = [1; 2; 3] | None => False end.
Proof. vm_compute. repeat split. Qed.
