(* C18 — source-level tie of the concurrent histogram / counter models: the SEQUENCE OF ATOMIC STEPS
   of metrics.ObserveHist (which cell is touched by which sync/atomic primitive, in which order,
   under the read lock; the two CAS retry loops; the sampling return; the ring index), the single
   atomic add of IncCounter / IncCounterBy, the period swap of extractHist under the write lock and
   the literal of newHist are read from /repo's SOURCE on every run (histtrans -> gen/Hist_gen.v:
   observe_src, inccounter_src, inccounterby_src, extract_src, newhist_src) and given their meaning
   by the interpreter of metrics/HistShape.v (one atomic primitive = one step of a goroutine).
   Nothing but statements closed by lemmas (gen/HistLink.v, metrics/HistShapeProofs.v).

   Trusted: the translation rules listed at the head of harness/cmd/rendharness/histtrans.go; that
   sync/atomic primitives are indivisible; that RWMutex excludes the writer while a read lock is
   held (here it is PROVED that ObserveHist holds the read lock at every one of its atomic steps
   and that extractHist touches h.dat / h.bakbuf only under the write lock). *)
From Coq Require Import String.
From Rend Require Import base.Bytes gen.Consts_gen metrics.Lzcnt metrics.Bucket metrics.Hist metrics.HistProofs
  metrics.HistConc metrics.HistConcProofs metrics.Counter metrics.CounterProofs metrics.HistShape
  metrics.HistShapeProofs gen.Hist_gen gen.HistLink.
Open Scope N_scope.

(* ---- ObserveHist ---- *)
(* the extracted body is the statement list HistConc.v was written from *)
Theorem c18_src_observe_link : observe_src = observe_model.
Proof. exact observe_src_link. Qed.
Print Assumptions c18_src_observe_link.

(* a goroutine entering the extracted body (h := &hists[id]; h.lock.RLock() done) is HistConc's
   starting thread *)
Theorem c18_src_observe_start : forall sampled v,
  thread_of (enter observe_src sampled v) = mkThread v PTotal.
Proof. exact src_observe_start. Qed.
Print Assumptions c18_src_observe_start.

(* the step function of the extracted body IS tstep: from every configuration (position, locals)
   a goroutine can be in — whatever the shared data d is at each of its steps —, executing the
   next atomic primitive changes d as tstep does and leads to the configuration of tstep's next
   pc (thread_of maps (position, locals) to HistConc's thread) *)
Theorem c18_src_observe_steps : forall sampled v c d, reach observe_src sampled v c ->
  tstep sampled d (thread_of c) = (fst (istep sampled d c), thread_of (snd (istep sampled d c))).
Proof. exact src_observe_steps. Qed.
Print Assumptions c18_src_observe_steps.

(* ... and every transition of tstep, from any pc, is the transition of a configuration standing
   at a position of the extracted body: tstep has no behaviour the source does not have *)
Theorem c18_src_observe_onto : forall sampled d v p, exists c,
  (exists n, k_rest c = skipn n observe_src) /\ thread_of c = mkThread v p /\
  tstep sampled d (mkThread v p) = (fst (istep sampled d c), thread_of (snd (istep sampled d c))).
Proof. exact src_observe_onto. Qed.
Print Assumptions c18_src_observe_onto.

(* the read lock is held from the first to the last atomic step on every path: a goroutine that
   still has a step to take holds it, one that has returned (after the buffer store, or after the
   count when sampled out) has released it *)
Theorem c18_src_observe_locked : forall sampled v c, reach observe_src sampled v c ->
  k_lock c = (if cfg_done c then LFree else LHeld).
Proof. exact src_observe_locked. Qed.
Print Assumptions c18_src_observe_locked.

(* any number of goroutines: the interleaved runs of the extracted body are runs of HistConc's
   system (the one c18_hist_concurrent is about), and HistConc's system can do nothing else *)
Theorem c18_src_observe_is_tstep : forall sampled vs d cs,
  src_run sampled (d, enter_all observe_src sampled vs) cs ->
  sys_run sampled (d, start_threads vs) (fst cs, map thread_of (snd cs)) /\
  (forall s', sys_step sampled (fst cs, map thread_of (snd cs)) s' ->
     exists d' cs', s' = (d', map thread_of cs') /\ src_step sampled cs (d', cs')).
Proof. exact src_observe_is_tstep. Qed.
Print Assumptions c18_src_observe_is_tstep.

(* c18_hist_concurrent stated about the extracted body itself; in addition every call has made
   exactly one atomic add of 1 on the bucket counter getBucket(value) (whose final value under any
   interleaving is c18_counter) and has released its read lock *)
Theorem c18_src_hist_concurrent : forall sampled vs b d cs,
  obs_ok vs ->
  src_run sampled (fresh_dat b, enter_all observe_src sampled vs) (d, cs) -> forallb cfg_done cs = true ->
  good_report sampled vs (report_of d) /\
  Forall (fun c => k_lock c = LFree /\ k_bucket c = [(getBucket (k_val c), 1)]) cs /\
  map k_val cs = vs.
Proof. exact src_hist_concurrent. Qed.
Print Assumptions c18_src_hist_concurrent.

(* ---- counters ---- *)
(* IncCounterBy is exactly one atomic.AddUint64 on counters[id] with the amount, IncCounter with 1 *)
Theorem c18_src_inccounter_atomic : forall amount,
  counter_adds inccounterby_src amount = Some [amount] /\ counter_adds inccounter_src amount = Some [1].
Proof. exact src_inccounter_atomic. Qed.
Print Assumptions c18_src_inccounter_atomic.

(* c18_counter about the extracted bodies: goroutines calling IncCounterBy with the amounts of
   their lists / IncCounter once per element, the atomic adds interleaved in any order *)
Theorem c18_src_counter : forall threads trace c0, c0 < two64 ->
  interleave (map (calls_adds inccounterby_src) threads) trace ->
  run_adds c0 trace = (c0 + sum_adds (concat threads)) mod two64.
Proof. exact src_counter_by. Qed.
Print Assumptions c18_src_counter.

Theorem c18_src_counter_one : forall threads trace c0, c0 < two64 ->
  interleave (map (calls_adds inccounter_src) threads) trace ->
  run_adds c0 trace = (c0 + len (concat threads)) mod two64.
Proof. exact src_counter_1. Qed.
Print Assumptions c18_src_counter_one.

(* ---- the reader ---- *)
(* extractHist: returns the period's data; the histogram starts the next period on the old backup
   buffer with min = MaxUint64 and all counters zero; the returned buffer becomes the backup; every
   access to h.dat / h.bakbuf is made under the write lock and the lock is released (the `true`).
   Hist.extract — the model the sequential theorems are about — is this swap followed by the
   in-place sort of the returned (= new backup) buffer when percentiles are printed *)
Theorem c18_src_extract_locked : forall h,
  x_run extract_src h = Some (dat h, mkHist (fresh_dat (bakbuf h)) (h_buf (dat h)), true) /\
  fst (extract h) = report_of (dat h) /\
  dat (snd (extract h)) = fresh_dat (bakbuf h) /\
  bakbuf (snd (extract h)) = (if prints (dat h) then snd (hdatPercentiles (dat h)) else h_buf (dat h)).
Proof. exact src_extract_locked. Qed.
Print Assumptions c18_src_extract_locked.

(* newHist: both buffers have buflen+1 slots, min = MaxUint64, everything else zero *)
Theorem c18_src_newhist : newhist_meaning newhist_src = Some newHist.
Proof. exact src_newhist. Qed.
Print Assumptions c18_src_newhist.

(* ---- non-vacuity ---- *)
(* two goroutines observing 5 and 9 run the extracted body, interleaved so that a CompareAndSwap
   fails and is retried: the run exists, both return with the lock released, the data is the one
   HistConc's system reaches on the same schedule *)
Example c18_src_nonvacuous_run :
  let sched := [0; 0; 1; 1; 1; 0; 0; 0; 1; 0; 1; 0; 1; 0; 1; 0; 1; 0; 0; 1; 1]%nat in
  let s := run_src_sched false (fresh_dat buf0, enter_all observe_src false [5; 9]) sched in
  src_run false (fresh_dat buf0, enter_all observe_src false [5; 9]) s /\
  forallb cfg_done (snd s) = true /\
  map k_lock (snd s) = [LFree; LFree] /\
  map k_bucket (snd s) = [[(5, 1)]; [(9, 1)]] /\
  (fst s, map thread_of (snd s)) = run_sched false (fresh_dat buf0, start_threads [5; 9]) sched /\
  h_count (fst s) = 2 /\ h_min (fst s) = 5 /\ h_max (fst s) = 9 /\ h_total (fst s) = 14 /\
  bget (h_buf (fst s)) 0 = 5 /\ bget (h_buf (fst s)) 1 = 9.
Proof.
  cbv zeta. split; [apply run_src_sched_sound|]. vm_compute. repeat split.
Qed.

(* a sampled histogram: the first three calls return right after the count (lock released, nothing
   kept), the fourth is kept *)
Example c18_src_nonvacuous_sampled :
  let s := run_src_sched true (fresh_dat buf0, enter_all observe_src true [7; 8; 9; 10]) (repeat 0 9 ++ repeat 1 9 ++ repeat 2 9 ++ repeat 3 9)%nat in
  forallb cfg_done (snd s) = true /\ map k_lock (snd s) = [LFree; LFree; LFree; LFree] /\
  h_count (fst s) = 4 /\ h_kept (fst s) = 1 /\ bget (h_buf (fst s)) 0 = 10 /\
  (* the lock is held in the middle of a call *)
  k_lock (snd (istep true (fresh_dat buf0) (enter observe_src true 7))) = LHeld.
Proof. vm_compute. repeat split. Qed.

Example c18_src_nonvacuous_counter :
  calls_adds inccounterby_src [3; 4] = [3; 4] /\ calls_adds inccounter_src [3; 4] = [1; 1] /\
  interleave (map (calls_adds inccounterby_src) [[3; 4]; [10]]) [3; 10; 4].
Proof.
  split; [reflexivity|]. split; [reflexivity|].
  apply (il_step [] 3 [4] [[10]]). apply (il_step [[4]] 10 [] []). apply (il_step [] 4 [] [[]]).
  apply il_done. repeat constructor.
Qed.
