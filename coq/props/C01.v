(* C01 — single-cache illusion. Statements only; proofs in orca/OrcaProofs.v.
   Reading guide: [ref_run]/[ref_hist] = the same requests on ONE map (one-tier orchestrator
   over one backend, never locked, never evicted); c01_ref_is_mapspec ties that to
   MapSpec.spec_step. [reply_equiv] = same frames on the wire; for a get the value/miss frames
   may come in any order, followed by the same terminator. *)
From Rend Require Import base.Bytes gen.Consts_gen spec.MapSpec orca.Types handlers.Std orca.Orcas
  proto.Resp orca.OrcaSpec orca.OrcaProofs proto.ReqCommon proto.BinReq proto.TextReq proto.Stream proto.StreamProofs.
Open Scope N_scope.

(* the reference run is the reference map: same store, same outcome class and values *)
Theorem c01_ref_is_mapspec : forall s now r c,
  cmd_of r = Some c ->
  let '(s', cs, e) := ref_run s now r in
  let '(s0, o) := spec_step s now c in
  store_eq s' s0 /\ outcome_of r cs e = o.
Proof. exact ref_is_mapspec. Qed.
Print Assumptions c01_ref_is_mapspec.

(* one request, any of the six orchestrator configurations, either protocol. [combo_ok] excludes
   locked + text + multi-key get (refuted below), gat/gete in text, and a get with no key at all
   through the locking wrapper (it answers nothing; no parser produces such a request) *)
Theorem c01_request : forall p k lck now l1 l2 r,
  inv k now l1 l2 -> in_scope k r = true -> combo_ok p lck r = true ->
  let '(l1', l2', cs, c) := serve1 std_exec std_exec (orca_cfg k lck) r l1 l2 now in
  let '(s', _, cs0, c0) := serve1 std_exec std_exec l1only r (auth k l1 l2) empty_store now in
  reply_equiv p r cs cs0 /\ c = c0 /\ store_eq (auth k l1' l2') s' /\ inv k now l1' l2'.
Proof. exact request_refines. Qed.
Print Assumptions c01_request.

(* every history, main and batch port interleaved, with arbitrary L1 evictions (when an L2 is
   deployed; with L1 alone the L1 is the map, and [hist_ok] admits no evictions from it) *)
Theorem c01_refines_spec : forall p two lck h l1 l2,
  hist_ok p two lck h ->
  (forall now, inv (kind_of two PMain) now l1 l2) ->
  let '(out, l1', l2') := run_hist two lck h l1 l2 in
  let '(out0, s') := ref_hist h (if two then l2 else l1) in
  Forall2 (fun x y => reply_equiv p (h_req (fst x)) (fst (snd x)) (fst y) /\ snd (snd x) = snd y)
          (combine h out) out0 /\
  store_eq (if two then l2' else l1') s'.
Proof. exact history_refines. Qed.
Print Assumptions c01_refines_spec.

(* the excluded combination really fails: locked + text + two keys gives two END lines *)
Theorem c01_locked_text_multiget_refuted :
  exists r, combo_ok Text true r = false /\
    let '(_, _, cs, _) := serve1 std_exec std_exec (orca_cfg KL1L2 true) r empty_store empty_store 0 in
    let '(_, _, cs0, _) := serve1 std_exec std_exec l1only r empty_store empty_store 0 in
    frames Text cs <> frames Text cs0.
Proof. exact locked_text_multiget_refuted. Qed.

(* non-vacuity: a concrete non-trivial history meets the hypotheses *)
Example c01_nonvacuous :
  let h := [mkH PMain 100 [] (RSet MSet [1] [2;3] 5 0 7 false);
            mkH PBatch 101 [[1]] (RGet [mkGI [1] 1 true; mkGI [9] 2 false] 0 false);
            mkH PMain 102 [] (RSet MAdd [1] [4] 0 10 8 false)] in
  hist_ok Bin true true h /\ (forall now, inv (kind_of true PMain) now empty_store empty_store).
Proof. exact c01_example. Qed.

(* The same at the byte level: what a client connection receives for the bytes of ANY pipeline
   of well-formed requests (parser, server loop, orchestrator, responder composed: proto/Stream.v)
   is exactly the concatenation of the replies to those requests served one after the other
   (until a quit), so with c01_request/c01_refines_spec the bytes are those of one map. *)
Theorem c01_bytes_bin : forall orca rs l1 l2 now,
  forallb wf_bin rs = true ->
  let s := concat (map enc_bin rs) in
  serve_stream Bin parse_bin orca (S (length s)) s l1 l2 now = serve_reqs Bin orca rs l1 l2 now.
Proof. exact stream_bin_pipeline. Qed.
Print Assumptions c01_bytes_bin.

Theorem c01_bytes_text : forall orca rs l1 l2 now,
  forallb wf_text rs = true ->
  let s := concat (map enc_text rs) in
  serve_stream Text parse_text orca (S (length s)) s l1 l2 now = serve_reqs Text orca rs l1 l2 now.
Proof. exact stream_text_pipeline. Qed.
Print Assumptions c01_bytes_text.
