(* C03 (continued): the executable scheduler the harness replays schedules with
   (conc/LockExec.v) only produces executions of the transition system the theorems are about.
   Statements only; proofs in conc/LockExecProofs.v. *)
From Rend Require Import base.Bytes conc.LockLTS conc.LockExec conc.LockExecProofs.
Open Scope N_scope.

Section S.
Variables (Cell Res : Type) (slot_of : bytes -> N) (multi_reader locking : bool) (n : nat).

(* threads beyond the first n are idle with nothing to do (as in the harness's initial states) *)
Definition quiet_above (st : state Cell Res) : Prop :=
  forall u, (n <= u)%nat -> exists d, thr Cell Res st u = TIdle Cell Res [] d.

Theorem c03_tstep_sound : forall st t st' l,
  quiet_above st -> tstep Cell Res slot_of multi_reader locking n st t = Some (st', l) ->
  step Cell Res slot_of multi_reader locking st l st' /\ quiet_above st'.
Proof. exact (tstep_sound Cell Res slot_of multi_reader locking n). Qed.

Theorem c03_run_sched_sound : forall sched st st' ls,
  quiet_above st -> (forall t pn, In (t, pn) sched -> (t < n)%nat) ->
  run_sched Cell Res slot_of multi_reader locking n st sched = Some (st', ls) ->
  exec Cell Res slot_of multi_reader locking st ls st' /\ quiet_above st'.
Proof. exact (run_sched_sound Cell Res slot_of multi_reader locking n). Qed.
End S.
Print Assumptions c03_run_sched_sound.
