(* C13b — Handler.doRequest of the batching pool: append and prepend are applied at most once
   whatever happens to the pool's connections (C10: "reads after a fault return the correct
   value or a miss, never anything else"; C13: "its own correct result after a transparent
   retry, or an error"). Statements only; model handlers/BatchedRetry.v (compared with the real
   doRequest on every combination of command x key present x cut before/after the backend
   applied each submission by `rendharness c13`), proofs handlers/BatchedRetryProofs.v. *)
From Rend Require Import base.Bytes gen.Consts_gen spec.MapSpec orca.Types handlers.Std handlers.Batched
  handlers.BatchedSpec handlers.BatchedRetry handlers.BatchedRetryProofs.
Open Scope N_scope.

(* for every number of tries, every opaque base and every cut plan (any submission cut before
   or after the backend applied it): the backend ends up holding what it held, or what ONE
   application of the append/prepend leaves - never more *)
Theorem c13_cat_at_most_once : forall tries bases cuts front k d s now s' r,
  do_request false tries bases cuts (HCat front k d) s now = (s', r) ->
  s' = s \/ s' = fst (b_cat front s now k d).
Proof. exact cat_at_most_once. Qed.
Print Assumptions c13_cat_at_most_once.

(* an acknowledged append/prepend was applied exactly once and the backend answered "stored" *)
Theorem c13_cat_ack_applied_once : forall tries bases cuts front k d s now s',
  do_request false tries bases cuts (HCat front k d) s now = (s', HDone) ->
  s' = fst (b_cat front s now k d) /\ decode_error (snd (b_cat front s now k d)) = None.
Proof. exact cat_ack_applied_once. Qed.
Print Assumptions c13_cat_ack_applied_once.

(* an unconditional set MAY be resubmitted: for every number of tries and every cut plan the
   backend ends up holding what it held or what one set leaves (a set applied twice is a set
   applied once), and an acknowledged set was applied - the "transparent retry" of C13 *)
Theorem c13_set_retry_exact : forall resend_cat tries bases cuts k d f ttl s now s' r,
  do_request resend_cat tries bases cuts (HSet MSet k d f ttl) s now = (s', r) ->
  (store_eq s' s \/ store_eq s' (b_put s now k d f ttl)) /\
  (r = HDone -> store_eq s' (b_put s now k d f ttl)).
Proof. intros rc tries bases cuts k d f ttl s now s' r H. eapply set_retry_exact; [left; intros x; reflexivity | exact H]. Qed.
Print Assumptions c13_set_retry_exact.

(* the retry loop as it stood before the fix (append/prepend resubmitted like everything else):
   a cut after the backend applied the request, then a clean submission - acknowledged once,
   applied twice: "+" prepended to OLD gives "++OLD" *)
Theorem c13_old_resend_applies_twice_refuted :
  let '(s', r) := do_request true 2 [0; 0] [Some (0%nat, 1%nat); None] (HCat true [107] [43]) old_store 10 in
  r = HDone /\ option_map e_data (s' [107]) = Some [43; 43; 79; 76; 68].
Proof. exact old_resend_applies_twice. Qed.

(* non-vacuity / the same plan with the loop as it is: an error, applied once *)
Example c13_no_resend_now :
  let '(s', r) := do_request false 2 [0; 0] [Some (0%nat, 1%nat); None] (HCat true [107] [43]) old_store 10 in
  r = HErr EInternal /\ option_map e_data (s' [107]) = Some [43; 79; 76; 68].
Proof. exact new_no_resend. Qed.
