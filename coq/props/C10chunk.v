(* C10chunk.v — C10 / C05 / C04 for the CHUNKED handler under backend faults, at handler level
   (model: handlers/ChunkedFaults.v; tie: harness tier c10h, checks/Check10h.v).
   Every theorem holds for EVERY fault plan: any number of faults, at any backend requests of the
   call (error status without applying / connection broken before / after the request was
   applied). Termination and containment of a call under any plan are by construction: [frun] is
   a structural recursion, each request is answered or fails, a panic is a value (CPanic). *)
From Coq Require Import String.
From Rend Require Import base.Bytes gen.Consts_gen spec.MapSpec orca.Types handlers.ChunkFmt
  handlers.Chunked handlers.ChunkedSpec handlers.ChunkedRefBase handlers.ChunkedFaults handlers.ChunkedFaultsProofs
  handlers.ChunkedFaultsRead handlers.ChunkedFaultsWrite handlers.ChunkedFaultsEx
  handlers.ChunkedRefCmds handlers.ChunkedFaultsSpec handlers.ChunkedFaultsAfter handlers.ChunkedFaultsLater handlers.ChunkedFaultsMulti handlers.ChunkedFaultsTouch.
Open Scope N_scope.

(* the empty plan is the fault-free handler of Chunked.v (C04 / C05 / C09 are about it) *)
Theorem brun_f_no_fault : forall p s now,
  brun_f no_cfaults p s now = (fst (brun p s now), CRes (snd (brun p s now))).
Proof. exact ChunkedFaultsProofs.brun_f_no_fault. Qed.
Print Assumptions brun_f_no_fault.

Theorem c10_chunked_no_fault : forall tok cnow s now q,
  chunked_exec_f no_cfaults tok cnow s now q =
  (fst (chunked_exec tok cnow s now q), CRes (snd (chunked_exec tok cnow s now q))).
Proof. exact chunked_exec_f_no_fault. Qed.
Print Assumptions c10_chunked_no_fault.

(* C05 under faults: a get / get-and-touch under any plan returns an error, a miss, or exactly
   the value and flags the store held — never a torn value, never a panic; and it creates nothing
   (every live backend entry afterwards is an entry from before, same data and flags) *)
Theorem c10_chunked_read_sound_get : forall pl s now k opq qt,
  plan_ok pl -> 1 <= len k <= 250 -> wf_key s now k ->
  let X := chunked_exec_f pl [] 0 s now (HGet [mkGI k opq qt]) in
  lsub now s (fst X) /\
  ((exists e, snd X = CRes (HVals [] (Some e))) \/
   (exists g, snd X = CRes (HVals [g] None) /\ g_key g = k /\ (g_miss g = true \/ gres_is g (cview s now k)))).
Proof. exact get_sound_f. Qed.
Print Assumptions c10_chunked_read_sound_get.

Theorem c10_chunked_read_sound_gat : forall pl s now k ttl opq,
  plan_ok pl -> 1 <= len k <= 250 -> wf_key s now k ->
  let X := chunked_exec_f pl [] 0 s now (HGat k ttl opq) in
  lsub now s (fst X) /\
  ((exists e, snd X = CRes (HErr e)) \/
   (exists g, snd X = CRes (HVals [g] None) /\ g_key g = k /\ (g_miss g = true \/ gres_is g (cview s now k)))).
Proof. exact gat_sound_f. Qed.
Print Assumptions c10_chunked_read_sound_gat.

(* a set / add / replace that reports success under any plan has stored the complete new value *)
Theorem c10_chunked_set_acked : forall pl tok now s m k d f ttl s',
  plan_ok pl -> 1 <= len k <= 250 -> len tok = tokenSize -> len d < 4294967296 -> f < 4294967296 ->
  now < 4294967296 -> ttl < 4294967296 -> now + ttl < 4294967296 -> snd (c_exptime now ttl) = false ->
  chunked_exec_f pl tok now s now (HSet m k d f ttl) = (s', CRes HDone) ->
  abs_entry s' now k = lv now (Some (mkE d f (norm now ttl))).
Proof. exact set_acked_f. Qed.
Print Assumptions c10_chunked_set_acked.

(* all-or-nothing after a set / add / replace, WHATEVER it returned (success, error, panic): the
   key then reads as nothing, as the value before, or as the complete new value — never a mix of
   old and new chunks. Needs a token no live chunk of the key carries (tokens are random). *)
Theorem c10_chunked_set_aon : forall pl s now tok k d f ttl,
  plan_ok pl -> 1 <= len k <= 250 -> len tok = tokenSize -> len d < 4294967296 -> f < 4294967296 ->
  now < 4294967296 -> fst (c_exptime now ttl) < 4294967296 -> fresh_tok s now k tok ->
  forall m, snd (c_exptime now ttl) = false ->
  let st := fst (chunked_exec_f pl tok now s now (HSet m k d f ttl)) in
  cview st now k = None \/ cview st now k = cview s now k \/ cview st now k = Some (d, f).
Proof. exact set_aon_f. Qed.
Print Assumptions c10_chunked_set_aon.

(* without a fresh token the guarantee is false: a half-written value is readable *)
Theorem c10_chunked_set_aon_needs_fresh_token : exists pl s now tok k d f,
  plan_ok pl /\ wf_key s now k /\
  let st := fst (chunked_exec_f pl tok now s now (HSet MSet k d f 0)) in
  cview st now k <> None /\ cview st now k <> cview s now k /\ cview st now k <> Some (d, f).
Proof. exact set_aon_stale_token_refuted. Qed.
Print Assumptions c10_chunked_set_aon_needs_fresh_token.

(* a delete that reports success under any plan leaves no readable entry *)
Theorem c10_chunked_delete_acked : forall pl tok cnow s now k s',
  plan_ok pl -> chunked_exec_f pl tok cnow s now (HDelete k) = (s', CRes HDone) ->
  abs_entry s' now k = None.
Proof. exact delete_acked_abs. Qed.
Print Assumptions c10_chunked_delete_acked.

(* whatever a delete returns, the key afterwards reads as nothing or as before *)
Theorem c10_chunked_delete_aon : forall pl tok cnow s now k,
  let st := fst (chunked_exec_f pl tok cnow s now (HDelete k)) in
  cview st now k = None \/ cview st now k = cview s now k.
Proof. exact delete_aon_view. Qed.
Print Assumptions c10_chunked_delete_aon.

(* C04 confinement under faults: only backend keys derived from the named client keys receive a
   request, and the entries of every other client key are left exactly as they were *)
Theorem c10_chunked_confined_f : forall pl tok cnow q s now bq bk,
  In bq (chunked_trace_f pl tok cnow s now q) -> key_of bq = Some bk ->
  exists k, In k (hreq_keys q) /\ derived k bk.
Proof. exact confinement_f. Qed.
Print Assumptions c10_chunked_confined_f.

Theorem c10_chunked_frame_f : forall pl tok cnow q s now k',
  ~ In k' (hreq_keys q) ->
  abs_entry (fst (chunked_exec_f pl tok cnow s now q)) now k' = abs_entry s now k'.
Proof. exact frame_abs_f. Qed.
Print Assumptions c10_chunked_frame_f.

(* ---- what a LATER fault-free read returns ---- *)
(* a fault-free get / get-and-touch of ANY backend store — well-formed or half-written — returns
   exactly the abstraction of the store (a hit with abs_entry's data and flags, or a miss) *)
Theorem c10_chunked_read_is_abs : forall st now k,
  meta_small st now k ->
  (forall opq qt, read_get st now k opq qt = HVals [owed_item st now k opq qt] None) /\
  (forall ttl opq, read_gat st now k ttl opq = HVals [owed_item st now k opq false] None).
Proof. exact read_is_abs. Qed.
Print Assumptions c10_chunked_read_is_abs.

Theorem c10_chunked_set_acked_read : forall pl tok now s m k d f ttl s',
  plan_ok pl -> 1 <= len k <= 250 -> len tok = tokenSize -> len d < 4294967296 -> f < 4294967296 ->
  now < 4294967296 -> ttl < 4294967296 -> now + ttl < 4294967296 -> snd (c_exptime now ttl) = false ->
  chunked_exec_f pl tok now s now (HSet m k d f ttl) = (s', CRes HDone) ->
  let v := view (lv now (Some (mkE d f (norm now ttl)))) in
  (forall opq qt, reads_as (read_get s' now k opq qt) v) /\ (forall ttl2 opq, reads_as (read_gat s' now k ttl2 opq) v).
Proof. exact set_acked_read. Qed.
Print Assumptions c10_chunked_set_acked_read.

Theorem c10_chunked_set_aon_read : forall pl s now tok k d f ttl,
  plan_ok pl -> 1 <= len k <= 250 -> len tok = tokenSize -> len d < 4294967296 -> f < 4294967296 ->
  now < 4294967296 -> fst (c_exptime now ttl) < 4294967296 -> fresh_tok s now k tok -> meta_small s now k ->
  forall m, snd (c_exptime now ttl) = false ->
  let st := fst (chunked_exec_f pl tok now s now (HSet m k d f ttl)) in
  exists v, (v = None \/ v = cview s now k \/ v = Some (d, f)) /\
            (forall opq qt, reads_as (read_get st now k opq qt) v) /\
            (forall ttl2 opq, reads_as (read_gat st now k ttl2 opq) v).
Proof. exact set_aon_read. Qed.
Print Assumptions c10_chunked_set_aon_read.

Theorem c10_chunked_delete_acked_read : forall pl tok cnow s now k s',
  plan_ok pl -> chunked_exec_f pl tok cnow s now (HDelete k) = (s', CRes HDone) ->
  (forall opq qt, read_get s' now k opq qt = HVals [mkGR k [] 0 0 opq qt true] None) /\
  (forall ttl2 opq, read_gat s' now k ttl2 opq = HVals [mkGR k [] 0 0 opq false true] None).
Proof. exact delete_acked_read. Qed.
Print Assumptions c10_chunked_delete_acked_read.

(* ---- append / prepend under any plan (catv front d old = d ++ old or old ++ d) ---- *)
(* acknowledged => a later read returns the old value extended, with the old flags
   (realTimeMaxDelta < now: the recorded absolute expiry is re-used as a TTL, as in C04b) *)
Theorem c10_chunked_cat_acked : forall pl s now tok k d front s',
  plan_ok pl -> 1 <= len k <= 250 -> wf_key s now k -> len tok = tokenSize -> now < 2147483648 ->
  (forall old fl, cview s now k = Some (old, fl) -> len old + len d < 4294967296) ->
  realTimeMaxDelta < now -> chunked_exec_f pl tok now s now (HCat front k d) = (s', CRes HDone) ->
  exists old fl, cview s now k = Some (old, fl) /\
    (forall opq qt, reads_as (read_get s' now k opq qt) (Some (catv front d old, fl))) /\
    (forall ttl2 opq, reads_as (read_gat s' now k ttl2 opq) (Some (catv front d old, fl))).
Proof. exact cat_acked_read. Qed.
Print Assumptions c10_chunked_cat_acked.

(* whatever it returned (success, error, panic): a later read returns nothing, the old value, or
   the complete concatenation — never a mix *)
Theorem c10_chunked_cat_aon : forall pl s now tok k d front,
  plan_ok pl -> 1 <= len k <= 250 -> wf_key s now k -> len tok = tokenSize -> now < 2147483648 ->
  (forall old fl, cview s now k = Some (old, fl) -> len old + len d < 4294967296) ->
  fresh_tok s now k tok ->
  let st := fst (chunked_exec_f pl tok now s now (HCat front k d)) in
  exists v, (v = None \/ v = cview s now k \/ exists old fl, cview s now k = Some (old, fl) /\ v = Some (catv front d old, fl)) /\
            (forall opq qt, reads_as (read_get st now k opq qt) v) /\
            (forall ttl2 opq, reads_as (read_gat st now k ttl2 opq) v).
Proof. exact cat_aon_read. Qed.
Print Assumptions c10_chunked_cat_aon.

(* ---- multi-key get under any plan: every returned item answers the request item at its
   position (key, opaque) and is a miss or exactly that key's value before the call; without an
   error every item is answered ---- *)
Theorem c10_chunked_read_sound_multi : forall pl s now items,
  plan_ok pl -> Forall (fun it => 1 <= len (gi_key it) <= 250 /\ wf_key s now (gi_key it)) items ->
  let X := chunked_exec_f pl [] 0 s now (HGet items) in
  lsub now s (fst X) /\
  exists rs eo, snd X = CRes (HVals rs eo) /\ answers s now items rs /\ (eo = None -> length rs = length items).
Proof. exact get_multi_sound_f. Qed.
Print Assumptions c10_chunked_read_sound_multi.

(* touch under any plan never changes the value: whatever it returned (success, error, panic),
   the key afterwards reads as nothing or with exactly the data and flags it had; which deadline
   it then carries (old / new, possibly mixed over metadata and chunks) is NOT stated *)
Theorem c10_chunked_touch_aon : forall pl s now tok k ttl,
  plan_ok pl -> 1 <= len k <= 250 -> wf_key s now k -> fst (c_exptime now ttl) < 4294967296 ->
  let st := fst (chunked_exec_f pl tok now s now (HTouch k ttl)) in
  cview st now k = None \/ cview st now k = cview s now k.
Proof. exact touch_aon_f. Qed.
Print Assumptions c10_chunked_touch_aon.

(* ---- non-vacuity ---- *)
(* a two-chunk value; set of a three-chunk value with the connection breaking after the second
   chunk was applied: the handler panics, the key reads as nothing *)
Example c10chunk_example_panic : c10chunk_ex_panic = (CPanic, @None (bytes * N)).
Proof. vm_compute. reflexivity. Qed.
(* a get whose second chunk read is answered "busy": an error, not a value *)
Example c10chunk_example_busy : c10chunk_ex_busy = CRes (HVals [] (Some EBusy)).
Proof. vm_compute. reflexivity. Qed.
