(* C14 — concurrent connections do not interfere (the logical half: see DESIGN.md for the
   data-race half, which no Gallina model expresses). Statements only; proofs in conc/LockProofs.v. *)
From Rend Require Import base.Bytes conc.LockLTS conc.LockProofs.
Open Scope N_scope.

(* keys a thread will ever touch *)
Definition thread_keys {Cell Res} (st0 : state Cell Res) (t : nat) (k : bytes) : Prop :=
  exists todo done c s, thr Cell Res st0 t = TIdle Cell Res todo done /\ In c todo /\ In s c /\ s_key s = k.

(* the solo run of a command list on the cells: sections one after the other *)
Fixpoint solo_secs {Cell Res} (secs : list (section Cell Res)) (cs : bytes -> Cell) : (bytes -> Cell) * list Res :=
  match secs with
  | [] => (cs, [])
  | s :: r => let '(c', x) := crun (s_prog s) (cs (s_key s)) in
              let '(cs', xs) := solo_secs r (upd_cell Cell cs (s_key s) c') in (cs', x :: xs)
  end.

(* With or without the locking wrapper, for ANY interleaving at backend-call granularity: if
   the connections work on pairwise disjoint key sets, each one observes exactly the results
   of its solo run, and the final cells are those of the solo runs. *)
Theorem c14_noninterference :
  forall (Cell Res : Type) (slot_of : bytes -> N) (multi_reader locking : bool)
         (st0 st : state Cell Res) (ls : list (label Cell Res)),
  initial Cell Res st0 ->
  (forall t u k, t <> u -> thread_keys st0 t k -> ~ thread_keys st0 u k) ->
  exec Cell Res slot_of multi_reader locking st0 ls st -> no_panic Cell Res ls -> quiescent Cell Res st ->
  forall t todo, thr Cell Res st0 t = TIdle Cell Res todo [] ->
    let '(cs', xs) := solo_secs (concat todo) (cells Cell Res st0) in
    observed Cell Res ls t = xs /\ (forall k, thread_keys st0 t k -> cells Cell Res st k = cs' k).
Proof. exact noninterference. Qed.
Print Assumptions c14_noninterference.
