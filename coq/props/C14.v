(* C14 — concurrent connections do not interfere (the logical half: see DESIGN.md for the
   data-race half, which no Gallina model expresses). Statements only; proofs in conc/LockProofs.v. *)
From Rend Require Import base.Bytes conc.LockLTS conc.LockProofs.
Open Scope N_scope.

(* keys a thread will ever touch *)
Definition thread_keys {Cell Res} (st0 : state Cell Res) (t : nat) (k : bytes) : Prop :=
  exists todo done c s, thr Cell Res st0 t = TIdle Cell Res todo done /\ In c todo /\ In s c /\ s_key s = k.

(* the solo run of a command list on the cells: sections one after the other *)
Fixpoint solo_secs {Cell Res} (secs : list (section Cell Res)) (cs : bytes -> Cell) : (bytes -> Cell) * list Res :=
  match secs with
  | [] => (cs, [])
  | s :: r => let '(c', x) := crun (s_prog s) (cs (s_key s)) in
              let '(cs', xs) := solo_secs r (upd_cell Cell cs (s_key s) c') in (cs', x :: xs)
  end.

(* With or without the locking wrapper, for ANY interleaving at backend-call granularity: if
   the connections work on pairwise disjoint key sets, each one that has completed all its
   commands ([~ unfinished]: quiescence alone allows commands never invoked) observed exactly
   the results of its solo run, and the final cells of its keys are those of its solo run. *)
Theorem c14_noninterference :
  forall (Cell Res : Type) (slot_of : bytes -> N) (multi_reader locking : bool)
         (st0 st : state Cell Res) (ls : list (label Cell Res)),
  initial Cell Res st0 ->
  (forall t u k, t <> u -> thread_keys st0 t k -> ~ thread_keys st0 u k) ->
  exec Cell Res slot_of multi_reader locking st0 ls st -> no_panic Cell Res ls -> quiescent Cell Res st ->
  forall t todo, thr Cell Res st0 t = TIdle Cell Res todo [] -> ~ unfinished Cell Res st t ->
    let '(cs', xs) := solo_secs (concat todo) (cells Cell Res st0) in
    observed Cell Res ls t = xs /\ (forall k, thread_keys st0 t k -> cells Cell Res st k = cs' k).
Proof. exact noninterference. Qed.
Print Assumptions c14_noninterference.

(* non-vacuity: two connections on different keys *)
Example c14_premises_satisfiable :
  let sec k := @mkSec unit nat k true (CRet 0%nat) in
  let st0 := mkSt unit nat (fun _ => tt)
               (fun t => match t with
                         | O => TIdle unit nat [[sec [1]]] []
                         | S O => TIdle unit nat [[sec [2]]] []
                         | _ => TIdle unit nat [] []
                         end) in
  initial unit nat st0 /\ (forall t u k, t <> u -> thread_keys st0 t k -> ~ thread_keys st0 u k) /\
  thread_keys st0 0%nat [1] /\ thread_keys st0 1%nat [2].
Proof.
  cbn zeta.
  assert (K : forall t k, thread_keys (mkSt unit nat (fun _ => tt)
               (fun t => match t with
                         | O => TIdle unit nat [[@mkSec unit nat [1] true (CRet 0%nat)]] []
                         | S O => TIdle unit nat [[@mkSec unit nat [2] true (CRet 0%nat)]] []
                         | _ => TIdle unit nat [] []
                         end)) t k -> (t = 0%nat /\ k = [1]) \/ (t = 1%nat /\ k = [2])).
  { intros t k (todo & done & c & s & E & Ic & Is & Ek). destruct t as [|[|t]]; cbn in E; inversion E; subst; clear E.
    - destruct Ic as [<-|[]]. destruct Is as [<-|[]]. left. auto.
    - destruct Ic as [<-|[]]. destruct Is as [<-|[]]. right. auto.
    - destruct Ic. }
  split. { intros [|[|t]]; eexists; reflexivity. }
  split.
  - intros t u k N Ht Hu. apply K in Ht. apply K in Hu.
    destruct Ht as [[-> ->]|[-> ->]], Hu as [[-> E]|[-> E]]; congruence.
  - split; do 4 eexists; (split; [reflexivity|]); (split; [left; reflexivity|]); (split; [left; reflexivity|reflexivity]).
Qed.
