(* C11 — malformed client input is contained. Statements only.

   The model (proto/BinReq.v, proto/TextReq.v, the loop in proto/ReqCommon.v) follows the code
   WITH fixes/C11-binprot-length-underflow.patch. For the arithmetic as it stood before the
   patch the statement about inconsistent frames is false: proto/BinReqOld.v proves the
   refutation, `./check C11` replays the witness against the implementation. *)
From Rend Require Import base.Bytes gen.Consts_gen spec.MapSpec orca.Types proto.Resp
  proto.ReqCommon proto.ReqCommonProofs proto.BinReq proto.BinReqProofs proto.BinReqOld
  proto.TextReq proto.TextReqProofs.
Open Scope N_scope.

(* totality is by construction: parse_bin, parse_text : bytes -> pres * list aev are Gallina
   functions. Progress: for ARBITRARY bytes every Parse that does not close the connection
   consumes at least one byte. *)
Theorem c11_progress_bin : forall s : bytes,
  match fst (parse_bin s) with
  | PDone _ rest | PClientErr _ rest => (length rest < length s)%nat
  | PClose => True
  end.
Proof. exact (bin_progress true). Qed.
Print Assumptions c11_progress_bin.

Theorem c11_progress_text : forall s : bytes,
  match fst (parse_text s) with
  | PDone _ rest | PClientErr _ rest => (length rest < length s)%nat
  | PClose => True
  end.
Proof. exact text_progress. Qed.
Print Assumptions c11_progress_text.

(* DefaultServer.Loop on arbitrary bytes followed by EOF never spins: with fuel |input| + 1
   the loop always comes to an end ... *)
Theorem c11_never_spins_bin : forall s : bytes, exists l, serve parse_bin s = Some l.
Proof. exact bin_never_spins. Qed.
Print Assumptions c11_never_spins_bin.

Theorem c11_never_spins_text : forall s : bytes, exists l, serve parse_text s = Some l.
Proof. exact text_never_spins. Qed.
Print Assumptions c11_never_spins_text.

(* ... and its last step closes this one connection (abort, or the quit request); every
   earlier step is a dispatched request or a client-error reply *)
Theorem c11_ends_closed : forall (p : bytes -> pout) (fuel : nat) (s : bytes) l,
  serve_loop p fuel s = Some l ->
  exists l' x n tr, l = l' ++ [(x, n, tr)] /\ closes x = true.
Proof. exact serve_loop_ends. Qed.
Print Assumptions c11_ends_closed.

(* binary: for arbitrary bytes, every buffer the parser allocates / waits for is a constant
   (24-byte pooled header, 4-byte words), a key buffer of the 16-bit length its header
   declares, or a data buffer under a header with extras + key <= total whose size is exactly
   total - extras - key (<= total < 2^32) *)
Theorem c11_alloc_bin : forall s : bytes,
  bytes_ok s -> Forall (fun a => aev_consistent a /\ aev_bounded a) (snd (parse_bin s)).
Proof. exact bin_alloc. Qed.
Print Assumptions c11_alloc_bin.

Theorem c11_alloc_bin_sizes : forall s : bytes,
  bytes_ok s -> Forall (fun a => asize a <= adeclared a) (snd (parse_bin s)).
Proof. exact bin_alloc_sizes. Qed.
Print Assumptions c11_alloc_bin_sizes.

(* text: lines actually received, and a data block of exactly the declared uint32 length *)
Theorem c11_alloc_text : forall s : bytes, Forall (text_ev_ok s) (snd (parse_text s)).
Proof. exact text_alloc. Qed.
Print Assumptions c11_alloc_text.

(* a store frame whose length fields contradict each other — total body shorter than extras
   plus key (append/prepend: shorter than the key) — is refused right after its header: the
   connection is closed, nothing was allocated and nothing more is read *)
Theorem c11_inconsistent : forall (s : bytes) (h : hdr) (s1 : bytes),
  read_hdr s = Some (h, s1) ->
  (is_set_op (h_op h) = true /\ h_total h < h_elen h + h_klen h) \/
  (is_cat_op (h_op h) = true /\ h_total h < h_klen h) ->
  parse_bin s = (PClose, [AHdr]).
Proof. exact bin_inconsistent. Qed.
Print Assumptions c11_inconsistent.

(* the arithmetic before the patch: a frame declaring total 0, extras 8, key 1 makes the
   parser allocate and wait for 2^32 - 9 bytes *)
Theorem c11_inconsistent_refuted_old :
  exists s h s1,
    read_hdr s = Some (h, s1) /\ h_op h = opSet /\ h_total h < h_elen h + h_klen h /\
    In (AData 0 8 1 4294967287) (snd (parse_bin_old s)).
Proof. exact bin_inconsistent_refuted_old. Qed.
Print Assumptions c11_inconsistent_refuted_old.

(* non-vacuity: a header that passes the magic check with inconsistent lengths exists and is
   refused; a consistent frame with the same opcode is accepted *)
Example c11_nonvacuous :
  parse_bin underflow_witness = (PClose, [AHdr]) /\
  (exists h s1, read_hdr underflow_witness = Some (h, s1) /\ is_set_op (h_op h) = true /\
                h_total h < h_elen h + h_klen h) /\
  fst (parse_bin (enc_bin (RSet MSet [107] [1; 2] 0 0 0 false))) = PDone (RSet MSet [107] [1; 2] 0 0 0 false) [].
Proof.
  split; [vm_compute; reflexivity|]. split; [|vm_compute; reflexivity].
  eexists. eexists. split; [vm_compute; reflexivity|]. split; vm_compute; reflexivity.
Qed.
