(* C02 — placeholder until the theorems are in place (see DESIGN.md). *)
From Rend Require Import base.Bytes.
