(* C02 — L1 is only a cache. Statements only; proofs in orca/OrcaProofs.v. *)
From Rend Require Import base.Bytes gen.Consts_gen spec.MapSpec orca.Types handlers.Std orca.Orcas
  proto.Resp orca.OrcaSpec orca.OrcaProofs.
Open Scope N_scope.

(* two histories that differ only in their L1 evictions (any subset of keys, at any position),
   started from any two L1 contents consistent with the same L2, give equivalent replies *)
Theorem c02_evictions_invisible : forall p lck h h' l1 l1' l2,
  map (fun st => (h_port st, h_now st, h_req st)) h = map (fun st => (h_port st, h_now st, h_req st)) h' ->
  hist_ok p true lck h -> hist_ok p true lck h' ->
  (forall now, sub_live now l1 l2) -> (forall now, sub_live now l1' l2) ->
  let '(out, _, m2) := run_hist true lck h l1 l2 in
  let '(out', _, m2') := run_hist true lck h' l1' l2 in
  Forall2 (fun x y => (exists cs0, reply_equiv p (h_req (fst x)) (fst (snd x)) cs0 /\
                                   reply_equiv p (h_req (fst x)) (fst y) cs0) /\ snd (snd x) = snd y)
          (combine h out) out' /\
  store_eq m2 m2'.
Proof. exact evictions_invisible. Qed.
Print Assumptions c02_evictions_invisible.

(* whenever no command is in flight, every key L1 can serve is served by L2 with the same
   value and flags (and L1's copy does not outlive L2's) — now and at any later time *)
Theorem c02_l1_subset_l2 : forall p lck h l1 l2,
  hist_ok p true lck h -> (forall now, sub_live now l1 l2) ->
  let '(_, l1', l2') := run_hist true lck h l1 l2 in
  forall now, last (map h_now h) 0 <= now -> sub_live now l1' l2'.
Proof. exact l1_subset_l2_always. Qed.
Print Assumptions c02_l1_subset_l2.

(* an eviction (any set of keys) preserves the invariant by itself *)
Theorem c02_evict_preserves : forall now l1 l2 ks, sub_live now l1 l2 -> sub_live now (evict l1 ks) l2.
Proof. exact evict_preserves. Qed.
Print Assumptions c02_evict_preserves.

Example c02_nonvacuous :
  let h := [mkH PMain 100 [] (RSet MSet [1] [2;3] 5 0 7 false); mkH PMain 101 [] (RGet [mkGI [1] 1 false] 0 false)] in
  let h' := [mkH PMain 100 [] (RSet MSet [1] [2;3] 5 0 7 false); mkH PMain 101 [[1]] (RGet [mkGI [1] 1 false] 0 false)] in
  map (fun st => (h_port st, h_now st, h_req st)) h = map (fun st => (h_port st, h_now st, h_req st)) h' /\
  hist_ok Bin true false h /\ hist_ok Bin true false h'.
Proof. exact c02_example. Qed.
