(* C07 — wire decoding is faithful, exact, boundary-independent. Statements only.

   Model: proto/BinReq.v and proto/TextReq.v give BinaryParser.Parse / TextParser.Parse as
   total functions on the bytes still to come (the concatenated stream), one read call of the
   Go code per step; [fst (parse s) = PDone r rest] says: Parse returned request [r] with a nil
   error and left exactly [rest] unread.

   Partial residue (stated, not proved): that the result does not depend on how the stream is
   cut into reads is the contract of io.ReadAtLeast / bufio.Reader; the model consumes the
   concatenation. The segmentation tier of `rendharness c07` tests exactly that on the real
   parsers. Text keys are restricted to printable ASCII without space (strings.TrimSpace
   strips UTF-8 spaces such as U+00A0 from the end of the line, so a key ending in C2 A0 does
   not survive; the model reproduces that, the theorem excludes it). *)
From Rend Require Import base.Bytes base.BytesProofs gen.Consts_gen spec.MapSpec orca.Types proto.Resp
  proto.ReqCommon proto.ReqCommonProofs proto.BinReq proto.BinReqProofs proto.TextReq proto.TextReqProofs proto.BinPrefix proto.TextPrefix.
Open Scope N_scope.

(* binary: every well-formed request of the supported subset — set/add/replace (+Q),
   append/prepend (+Q), delete, touch, gat, get, getq* closed by get or noop, gete/geteq*
   likewise, noop, quit/quitq, version, stat; keys of 1..65535 arbitrary bytes, data up to
   2^32 - 9 - |key| arbitrary bytes, all 32-bit flags/ttl/opaque — is decoded to exactly what
   was sent, consuming exactly its own bytes, whatever follows *)
Theorem c07_bin_roundtrip : forall (r : req) (rest : bytes),
  wf_bin r = true -> fst (parse_bin (enc_bin r ++ rest)) = PDone r rest.
Proof. exact bin_roundtrip. Qed.
Print Assumptions c07_bin_roundtrip.

(* text: set/add/replace/append/prepend/get k1..kn/delete/touch/noop/quit/version/stats; keys
   non-empty printable ASCII without space, data arbitrary bytes (CR, LF, 0x80 included) of
   length < 2^32, all 32-bit flags/ttl *)
Theorem c07_text_roundtrip : forall (r : req) (rest : bytes),
  wf_text r = true -> fst (parse_text (enc_text r ++ rest)) = PDone r rest.
Proof. exact text_roundtrip. Qed.
Print Assumptions c07_text_roundtrip.

(* strconv.ParseUint(strconv.FormatUint(n, 10), 10, 32) = n: what the text numerals rely on *)
Theorem c07_decimal : forall n, n < 4294967296 -> parse_u32 (dec n) = Some n.
Proof. exact parse_u32_dec. Qed.
Print Assumptions c07_decimal.

(* any pipeline decodes to the same sequence, nothing left over *)
Theorem c07_pipeline_bin : forall rs : list req,
  forallb wf_bin rs = true -> parse_all parse_bin (concat (map enc_bin rs)) = Some rs.
Proof. exact bin_pipeline. Qed.
Print Assumptions c07_pipeline_bin.

Theorem c07_pipeline_text : forall rs : list req,
  forallb wf_text rs = true -> parse_all parse_text (concat (map enc_text rs)) = Some rs.
Proof. exact text_pipeline. Qed.
Print Assumptions c07_pipeline_text.

(* however the byte stream is split into segments: the decoder is a function of the
   concatenation. PARTIAL: that the Go readers hand the parser the concatenation of the
   segments (io.ReadAtLeast, bufio.Reader.ReadString) is assumed here and tested by the
   harness on the real parsers at every split point. *)
Theorem c07_segmentation_bin_partial : forall (rs : list req) (segs : list bytes),
  forallb wf_bin rs = true -> concat segs = concat (map enc_bin rs) ->
  parse_all parse_bin (concat segs) = Some rs.
Proof. exact bin_resegmented. Qed.
Print Assumptions c07_segmentation_bin_partial.

Theorem c07_segmentation_text_partial : forall (rs : list req) (segs : list bytes),
  forallb wf_text rs = true -> concat segs = concat (map enc_text rs) ->
  parse_all parse_text (concat segs) = Some rs.
Proof. exact text_resegmented. Qed.
Print Assumptions c07_segmentation_text_partial.

(* the first byte of a connection decides the protocol: through the selection loop of
   server/listen.go over [binprot; textprot] (last match wins, fallback = last protocol)
   0x80 selects binary, a lowercase letter selects text — and so does every other byte *)
Theorem c07_first_byte :
  select_proto default_protocols magicRequest = Some Bin /\
  (forall b, 97 <= b <= 122 -> select_proto default_protocols b = Some Text) /\
  (forall b, b <> magicRequest -> select_proto default_protocols b = Some Text).
Proof. exact select_first_byte. Qed.
Print Assumptions c07_first_byte.

(* non-vacuity: one request per supported binary opcode family and text command is
   well-formed; a 250-byte binary key of arbitrary bytes and data containing CR LF 0x80 *)
Example c07_nonvacuous_bin :
  forallb wf_bin
    [RSet MSet (repeat 255 250) [13; 10; 128] 4294967295 2147483648 1 true;
     RSet MAdd [0] [] 0 0 0 false; RSet MReplace [10] [10] 1 1 1 false;
     RCat false [32] [1] 7 true; RCat true [13; 10] [2] 7 false;
     RDelete [128] 3; RTouch [1] 4294967295 5; RGat [2] 0 6;
     RGet [mkGI [1] 1 true; mkGI [2] 2 true; mkGI [3] 3 false] 0 false;
     RGet [mkGI [1] 1 true] 9 true; RGet [mkGI [7] 4294967295 false] 0 false;
     RGetE [mkGI [1] 1 true; mkGI [2] 2 true] 4 true; RGetE [mkGI [1] 1 false] 0 false;
     RNoop 1; RQuit 2 false; RQuit 2 true; RVersion 3; RStat 4] = true.
Proof. vm_compute. reflexivity. Qed.

Example c07_nonvacuous_text :
  forallb wf_text
    [RSet MSet [107] [13; 10; 128; 32; 10] 4294967295 2147483648 0 false;
     RSet MAdd [33] [] 0 0 0 false; RSet MReplace [126] [0] 1 1 0 false;
     RCat false [107] [1] 0 false; RCat true [107] [2] 0 false;
     RGet [mkGI [97] 0 false; mkGI [98; 99] 0 false] 0 false;
     RDelete [107] 0; RTouch [107] 4294967295 0; RNoop 0; RQuit 0 false; RVersion 0; RStat 0] = true.
Proof. vm_compute. reflexivity. Qed.

(* "consuming exactly the bytes of that request", the converse: the decoders decide from the
   bytes they consume and from nothing that follows. A request decoded from a stream is decoded
   from every extension of that stream, the extension left unread behind it (binary) ... *)
Theorem c07_bin_decides_from_consumed : forall (s b : bytes) (r : req) (rest : bytes),
  fst (parse_bin s) = PDone r rest -> fst (parse_bin (s ++ b)) = PDone r (rest ++ b).
Proof. exact bin_extension. Qed.
Print Assumptions c07_bin_decides_from_consumed.

(* ... so a request whose bytes have not all arrived is not a request: no proper prefix of a
   well-formed binary request decodes to anything, whichever field the stream ends in - the
   parser reports an I/O error and the connection is closed *)
Theorem c07_bin_prefix_not_decoded : forall (r : req) (a b : bytes),
  wf_bin r = true -> enc_bin r = a ++ b -> b <> [] ->
  (forall r' rest, fst (parse_bin a) <> PDone r' rest) /\ fst (parse_bin a) = PClose.
Proof. intros r a b H1 H2 H3. split; [exact (bin_prefix_not_decoded r a b H1 H2 H3) | exact (bin_prefix_closes r a b H1 H2 H3)]. Qed.
Print Assumptions c07_bin_prefix_not_decoded.

(* text: the decoded request does not depend on what follows; the unread remainder does in one
   case only - setRequest discards the line after the data block without looking at it *)
Theorem c07_text_decides_from_consumed : forall (s b : bytes) (r : req) (rest : bytes),
  fst (parse_text s) = PDone r rest -> exists rest', fst (parse_text (s ++ b)) = PDone r rest'.
Proof. exact text_extension. Qed.
Print Assumptions c07_text_decides_from_consumed.

(* a truncated text request decodes to nothing or (data block complete, its "\r\n" cut) to that
   very request, never to another one *)
Theorem c07_text_prefix_same_or_nothing : forall (r : req) (a b : bytes),
  wf_text r = true -> enc_text r = a ++ b ->
  forall r' rest, fst (parse_text a) = PDone r' rest -> r' = r.
Proof. exact text_prefix_same_or_nothing. Qed.
Print Assumptions c07_text_prefix_same_or_nothing.

(* non-vacuity: a set cut at the key/value boundary closes; a text set without its final CR LF
   is the one truncated form that still decodes *)
Example c07_prefix_witness :
  (let r := RSet MSet [107] [1; 2; 3] 5 6 7 false in
   wf_bin r = true /\ fst (parse_bin (firstn 33 (enc_bin r))) = PClose) /\
  (let t := RSet MSet [107] [120; 121] 1 2 0 false in
   wf_text t = true /\ fst (parse_text (firstn (length (enc_text t) - 2) (enc_text t))) = PDone t [] /\
   fst (parse_text (firstn (length (enc_text t) - 3) (enc_text t))) = PClose).
Proof. vm_compute. repeat split; reflexivity. Qed.
