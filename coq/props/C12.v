(* C12 — key locks are always released; a failure below closes the connection.
   Statements only; proofs in conc/LockProofs.v. The lock table is not separate state in the
   LTS: a lock is held exactly while a thread is inside a section (TRun), which is how
   `lock.Lock(); defer lock.Unlock()` and LockedOrca.Get's per-key Lock/Unlock (with the
   recover-unlock-repanic handler) behave. *)
From Rend Require Import base.Bytes conc.LockLTS conc.LockProofs.
Open Scope N_scope.

Section C12.
Variables (Cell Res : Type) (slot_of : bytes -> N) (multi_reader : bool).
Notation exec := (exec Cell Res slot_of multi_reader true).

(* no outcome of a command — normal return, error reply, a panic at any point, the client
   going away — leaves a lock held by that connection *)
Theorem c12_released : forall st0 ls st t,
  exec st0 ls st ->
  (match thr Cell Res st t with
   | TIdle _ _ _ _ | TDead _ _ _ | TWait _ _ _ _ _ _ _ => True
   | TRun _ _ _ _ _ _ _ _ => False
   end) ->
  forall a, ~ holds Cell Res slot_of multi_reader st t a.
Proof. exact (released Cell Res slot_of multi_reader). Qed.

(* a panic underneath any command (get included) ends with the connection closed *)
Theorem c12_panic_closes : forall st st' t,
  step Cell Res slot_of multi_reader true st (LPanic Cell Res t) st' ->
  (exists done, thr Cell Res st' t = TDead Cell Res done) /\ forall a, ~ holds Cell Res slot_of multi_reader st' t a.
Proof. exact (panic_closes Cell Res slot_of multi_reader). Qed.

(* a connection never holds more than one key lock *)
Theorem c12_at_most_one : forall st t a b,
  holds Cell Res slot_of multi_reader st t a -> holds Cell Res slot_of multi_reader st t b -> a = b.
Proof. exact (at_most_one Cell Res slot_of multi_reader). Qed.

(* hence no deadlock: while some connection still has work to do, some step is enabled —
   whatever the schedule so far, including panics and multi-key gets with overlapping keys
   in opposite orders. ([initial st0]: reachable from a state where every connection is idle;
   it makes "is somebody inside a section" decidable — only the finitely many connections
   that ever moved can be — so that the step is exhibited constructively.) *)
Theorem c12_no_deadlock : forall st0 ls st t,
  initial Cell Res st0 -> exec st0 ls st -> unfinished Cell Res st t ->
  exists l st', step Cell Res slot_of multi_reader true st l st' /\ (forall u, l <> LPanic Cell Res u).
Proof. exact (no_deadlock Cell Res slot_of multi_reader). Qed.

(* the next command on a key from any connection proceeds once the holder is done:
   if nobody is inside a section on that lock, any waiter for it can acquire *)
Theorem c12_next_proceeds : forall st t s rest acc todo done,
  thr Cell Res st t = TWait Cell Res s rest acc todo done ->
  (forall u, ~ holds Cell Res slot_of multi_reader st u (slot_of (s_key s))) ->
  exists st', step Cell Res slot_of multi_reader true st (LAcquire Cell Res t s) st'.
Proof. exact (next_proceeds Cell Res slot_of multi_reader). Qed.
End C12.
Print Assumptions c12_no_deadlock.
Print Assumptions c12_released.
Print Assumptions c12_panic_closes.
Print Assumptions c12_at_most_one.
Print Assumptions c12_next_proceeds.

(* the behaviour before the fix: LockedOrca.Get recovered the panic, unlocked, and did NOT
   re-panic — the server loop carried on with a connection whose reply was never written *)
Theorem c12_get_swallowed_panic_refuted : old_get_panic_model_leaves_connection_open.
Proof. exact old_get_panic_refuted. Qed.
Print Assumptions c12_get_swallowed_panic_refuted.
