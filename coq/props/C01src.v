(* C01 — source-level tie for the orchestrators: the methods Set, Add, Replace, Append, Prepend,
   Delete, Touch, Gat of L1OnlyOrca, L1L2Orca and L1L2BatchOrca, translated from /repo's source on
   every run (gen/Orcas_gen.v, by `rendharness orctrans`), are equivalent to the interaction
   programs of orca/Orcas.v that C01/C02/C10 are stated about. Nothing but statements closed by
   lemmas (gen/OrcasLink.v, orca/ProgEq.v).
   Reading guide: [<orca>_src r] dispatches a request to the generated method ([src_covered]: the
   set family, append/prepend, delete, touch, gat; Get/GetE and the requests that touch no backend
   are not translated and stay the hand model). [peq] = same handler calls and responder calls in
   the same order with the same arguments and the same returned error, for every handler result
   that is well-typed for its call ([res_ok]); [peq_all] = for every handler result whatsoever.
   Responder (client socket) write errors are not modelled on either side. *)
From Rend Require Import base.Bytes gen.Consts_gen spec.MapSpec orca.Types handlers.Std orca.Orcas orca.Faults
  orca.OrcaSem orca.ProgEq orca.ProgEqX proto.Resp gen.Orcas_gen gen.OrcasLink gen.OrcasGetLink.
Open Scope N_scope.

Theorem c01_src_l1only : forall r, src_covered r = true -> peq (l1only_src r) (l1only r).
Proof. exact l1only_src_link. Qed.
Print Assumptions c01_src_l1only.

Theorem c01_src_l1l2 : forall r, src_covered r = true -> peq (l1l2_src r) (l1l2 r).
Proof. exact l1l2_src_link. Qed.
Print Assumptions c01_src_l1l2.

Theorem c01_src_l1l2batch : forall r, src_covered r = true -> peq (l1l2batch_src r) (l1l2batch r).
Proof. exact l1l2batch_src_link. Qed.
Print Assumptions c01_src_l1l2batch.

(* the same without the typing side condition: the two sides agree on every handler result *)
Theorem c01_src_all : forall r,
  peq_all (l1only_src r) (l1only r) /\ peq_all (l1l2_src r) (l1l2 r) /\ peq_all (l1l2batch_src r) (l1l2batch r).
Proof. exact (fun r => conj (l1only_src_link_all r) (conj (l1l2_src_link_all r) (l1l2batch_src_link_all r))). Qed.
Print Assumptions c01_src_all.

(* what the equivalence buys: over the direct handlers the translated and the modelled
   orchestrators compute the same stores, responder calls and error *)
Theorem c01_src_run : forall r l1 l2 now, src_covered r = true ->
  run std_exec std_exec (l1only_src r) l1 l2 now = run std_exec std_exec (l1only r) l1 l2 now /\
  run std_exec std_exec (l1l2_src r) l1 l2 now = run std_exec std_exec (l1l2 r) l1 l2 now /\
  run std_exec std_exec (l1l2batch_src r) l1 l2 now = run std_exec std_exec (l1l2batch r) l1 l2 now.
Proof. exact orcas_src_run. Qed.
Print Assumptions c01_src_run.

(* the general transfer lemma and its side condition for the direct handler *)
Theorem c01_src_transfer : forall h1 h2, hexec_ok h1 -> hexec_ok h2 ->
  forall p p', peq p p' -> forall l1 l2 now, run h1 h2 p l1 l2 now = run h1 h2 p' l1 l2 now.
Proof. exact peq_run. Qed.
Print Assumptions c01_src_transfer.
Theorem c01_src_std_ok : hexec_ok std_exec.
Proof. exact hexec_ok_std. Qed.
Print Assumptions c01_src_std_ok.

(* and under every backend fault plan of orca/Faults.v (C10's interpreter) *)
Theorem c01_src_run_f : forall r pl st now,
  run_f pl (l1only_src r) st now = run_f pl (l1only r) st now /\
  run_f pl (l1l2_src r) st now = run_f pl (l1l2 r) st now /\
  run_f pl (l1l2batch_src r) st now = run_f pl (l1l2batch r) st now.
Proof. exact orcas_src_run_f. Qed.
Print Assumptions c01_src_run_f.

(* non-vacuity: the dispatcher really is the generated method; the equivalence tells programs
   apart (another handler call, another argument, another returned error) *)
Example c01_src_dispatch : forall k d f ttl o q,
  l1l2_src (RSet MSet k d f ttl o q) = l1l2_Set_src k d f ttl o q /\
  l1l2batch_src (RCat true k d o q) = l1l2batch_Prepend_src k d o q /\
  l1only_src (RGat k ttl o) = l1only_Gat_src k ttl o.
Proof. intros. repeat split. Qed.
Example c01_src_peq_discriminates :
  ~ peq (l1l2batch_Prepend_src [1] [2] 0 false) (l1l2batch (RCat false [1] [2] 0 false)) /\
  ~ peq (Ret None) (Ret (Some EIO)) /\
  ~ peq (l1l2 (RSet MSet [1] [2] 0 0 0 false)) (l1l2batch (RSet MSet [1] [2] 0 0 0 false)).
Proof.
  repeat split; intro H.
  - inversion H.
  - inversion H.
  - inversion H as [| |t q k k' Hk]; subst. specialize (Hk HDone I). inversion Hk.
Qed.

(* ================= Get and GetE =================
   The six methods Get / GetE of the three orchestrators are translated as well (the loop that
   drains the handler's two channels is the combinator [drain] of orca/OrcaSem.v, under the handler
   contract stated there: responses in order, then at most one error — the shape of [HVals rs eo]).
   [<orca>_srcg r] dispatches EVERY request that reaches a backend to its generated method.
   L1OnlyOrca: exact ([peq_all]). The two-tier Get: [peqx_all] (orca/ProgEqX.v) = the same handler
   calls with the same arguments in the same order, the same returned error, and the same responder
   calls up to the Exptime inside a PGet/PGat — a field that common.GetResponse, the Go type
   Responder.Get takes, does not have (the model has one record for GetResponse and GetEResponse and
   hands the L2 GetE result to PGet whole); no renderer reads it ([c01_src_erase_invisible]). *)
Theorem c01_src_get_l1only : forall items no ne,
  peq_all (l1only_Get_src items no ne) (l1only (RGet items no ne)) /\
  peq_all (l1only_GetE_src items no ne) (l1only (RGetE items no ne)).
Proof. exact (fun items no ne => conj (l1only_Get_link_all items no ne) (l1only_GetE_link_all items no ne)). Qed.
Print Assumptions c01_src_get_l1only.

Theorem c01_src_get_l1l2 : forall items no ne,
  peqx_all (l1l2_Get_src items no ne) (l1l2 (RGet items no ne)) /\
  peq_all (l1l2_GetE_src items no ne) (l1l2 (RGetE items no ne)).
Proof. exact (fun items no ne => conj (l1l2_Get_link_all items no ne) (l1l2_GetE_link_all items no ne)). Qed.
Print Assumptions c01_src_get_l1l2.

Theorem c01_src_get_l1l2batch : forall items no ne,
  peqx_all (l1l2batch_Get_src items no ne) (l1l2batch (RGet items no ne)) /\
  peq_all (l1l2batch_GetE_src items no ne) (l1l2batch (RGetE items no ne)).
Proof. exact (fun items no ne => conj (l1l2batch_Get_link_all items no ne) (l1l2batch_GetE_link_all items no ne)). Qed.
Print Assumptions c01_src_get_l1l2batch.

(* every request kind, every handler result whatsoever *)
Theorem c01_src_full : forall r,
  peq_all (l1only_srcg r) (l1only r) /\ peqx_all (l1l2_srcg r) (l1l2 r) /\ peqx_all (l1l2batch_srcg r) (l1l2batch r).
Proof. exact (fun r => conj (l1only_srcg_link_all r) (conj (l1l2_srcg_link_all r) (l1l2batch_srcg_link_all r))). Qed.
Print Assumptions c01_src_full.

(* ... exact for everything but the two-tier Get *)
Theorem c01_src_full_exact : forall r, (match r with RGet _ _ _ => False | _ => True end) ->
  peq_all (l1l2_srcg r) (l1l2 r) /\ peq_all (l1l2batch_srcg r) (l1l2batch r).
Proof. exact l1l2_srcg_link_exact. Qed.
Print Assumptions c01_src_full_exact.

(* the erased field is invisible on the wire, in both protocols *)
Theorem c01_src_erase_invisible : forall pr c, render pr (rc_erase c) = render pr c.
Proof. exact render_erase. Qed.
Print Assumptions c01_src_erase_invisible.

(* over the direct handlers: same stores, same responder calls (up to that field), same error *)
Theorem c01_src_full_run : forall r l1 l2 now,
  run std_exec std_exec (l1only_srcg r) l1 l2 now = run std_exec std_exec (l1only r) l1 l2 now /\
  obs_erase (run std_exec std_exec (l1l2_srcg r) l1 l2 now) = obs_erase (run std_exec std_exec (l1l2 r) l1 l2 now) /\
  obs_erase (run std_exec std_exec (l1l2batch_srcg r) l1 l2 now) = obs_erase (run std_exec std_exec (l1l2batch r) l1 l2 now).
Proof. exact orcas_srcg_run. Qed.
Print Assumptions c01_src_full_run.

(* under every backend fault plan of orca/Faults.v (C10's interpreter) *)
Theorem c01_src_full_run_f : forall r pl st now,
  run_f pl (l1only_srcg r) st now = run_f pl (l1only r) st now /\
  obs_erase_f (run_f pl (l1l2_srcg r) st now) = obs_erase_f (run_f pl (l1l2 r) st now) /\
  obs_erase_f (run_f pl (l1l2batch_srcg r) st now) = obs_erase_f (run_f pl (l1l2batch r) st now).
Proof. exact orcas_srcg_run_f. Qed.
Print Assumptions c01_src_full_run_f.

(* hence: identical stores, identical returned error and identical BYTES to the client, in either
   protocol, for every request, without and with backend faults *)
Theorem c01_src_full_bytes : forall pr r l1 l2 now,
  run_bytes pr (run std_exec std_exec (l1only_srcg r) l1 l2 now) = run_bytes pr (run std_exec std_exec (l1only r) l1 l2 now) /\
  run_bytes pr (run std_exec std_exec (l1l2_srcg r) l1 l2 now) = run_bytes pr (run std_exec std_exec (l1l2 r) l1 l2 now) /\
  run_bytes pr (run std_exec std_exec (l1l2batch_srcg r) l1 l2 now) = run_bytes pr (run std_exec std_exec (l1l2batch r) l1 l2 now).
Proof. exact orcas_srcg_bytes. Qed.
Print Assumptions c01_src_full_bytes.

Theorem c01_src_full_bytes_f : forall pr r pl st now,
  run_f_bytes pr (run_f pl (l1only_srcg r) st now) = run_f_bytes pr (run_f pl (l1only r) st now) /\
  run_f_bytes pr (run_f pl (l1l2_srcg r) st now) = run_f_bytes pr (run_f pl (l1l2 r) st now) /\
  run_f_bytes pr (run_f pl (l1l2batch_srcg r) st now) = run_f_bytes pr (run_f pl (l1l2batch r) st now).
Proof. exact orcas_srcg_bytes_f. Qed.
Print Assumptions c01_src_full_bytes_f.

(* the general transfer lemma for the relaxed equivalence *)
Theorem c01_src_transfer_x : forall h1 h2, hexec_ok h1 -> hexec_ok h2 ->
  forall p p', peqx p p' -> forall l1 l2 now,
    obs_erase (run h1 h2 p l1 l2 now) = obs_erase (run h1 h2 p' l1 l2 now).
Proof. exact (peqx_on_run res_ok). Qed.
Print Assumptions c01_src_transfer_x.

(* non-vacuity: the full dispatcher is the generated method; [peqx] identifies exactly the Exptime
   inside PGet/PGat and nothing else; a generated two-tier Get really runs (an L1 miss, an L2 hit
   with 40 s to live: back-fill of L1 with that TTL, the value to the client, the terminator) *)
Example c01_src_get_dispatch : forall items no ne,
  l1only_srcg (RGet items no ne) = l1only_Get_src items no ne /\
  l1only_srcg (RGetE items no ne) = l1only_GetE_src items no ne /\
  l1l2_srcg (RGet items no ne) = l1l2_Get_src items no ne /\
  l1l2batch_srcg (RGet items no ne) = l1l2batch_Get_src items no ne /\
  (forall k o, l1l2_srcg (RDelete k o) = l1l2_Delete_src k o).
Proof. intros. repeat split. Qed.
Example c01_src_peqx_discriminates :
  peqx_all (Emit (PGet (mkGR [1] [2] 3 40 5 false false)) (Ret None)) (Emit (PGet (mkGR [1] [2] 3 0 5 false false)) (Ret None)) /\
  ~ peqx_all (Emit (PGet (mkGR [1] [2] 3 0 5 false false)) (Ret None)) (Emit (PGet (mkGR [1] [2] 4 0 5 false false)) (Ret None)) /\
  ~ peqx_all (Emit (PGetE (mkGR [1] [2] 3 40 5 false false)) (Ret None)) (Emit (PGetE (mkGR [1] [2] 3 0 5 false false)) (Ret None)) /\
  ~ peqx (l1l2_Get_src [mkGI [1] 0 false] 0 true) (l1l2batch (RGet [mkGI [1] 0 false] 0 true)) /\
  ~ peqx (l1only_Get_src [mkGI [1] 0 false] 0 true) (l1only (RGetE [mkGI [1] 0 false] 0 true)).
Proof.
  repeat split.
  - repeat constructor.
  - intro H. inversion H as [|c c' p p' Hc Hp|]; subst. discriminate Hc.
  - intro H. inversion H as [|c c' p p' Hc Hp|]; subst. discriminate Hc.
  - intro H. inversion H as [| |t q k k' Hk]; subst.
    specialize (Hk (HVals [mkGR [1] [] 0 0 0 false true] None) I). inversion Hk.
  - intro H. inversion H.
Qed.
Example c01_src_get_runs :
  let l2 : store := upd empty_store [1] (Some (mkE [9; 9] 7 (At 140))) in
  let '(l1', l2', cs, e) := run std_exec std_exec (l1l2_Get_src [mkGI [1] 5 false; mkGI [2] 6 true] 8 true) empty_store l2 100 in
  cs = [PGet (mkGR [1] [9; 9] 7 0 5 false false); PGet (mkGR [2] [] 0 0 6 true true); PGetEnd 8 true] /\
  e = None /\ l1' [1] = Some (mkE [9; 9] 7 (At 140)) /\ l1' [2] = None.
Proof. vm_compute. repeat split. Qed.
