(* C01 — source-level tie for the orchestrators: the methods Set, Add, Replace, Append, Prepend,
   Delete, Touch, Gat of L1OnlyOrca, L1L2Orca and L1L2BatchOrca, translated from /repo's source on
   every run (gen/Orcas_gen.v, by `rendharness orctrans`), are equivalent to the interaction
   programs of orca/Orcas.v that C01/C02/C10 are stated about. Nothing but statements closed by
   lemmas (gen/OrcasLink.v, orca/ProgEq.v).
   Reading guide: [<orca>_src r] dispatches a request to the generated method ([src_covered]: the
   set family, append/prepend, delete, touch, gat; Get/GetE and the requests that touch no backend
   are not translated and stay the hand model). [peq] = same handler calls and responder calls in
   the same order with the same arguments and the same returned error, for every handler result
   that is well-typed for its call ([res_ok]); [peq_all] = for every handler result whatsoever.
   Responder (client socket) write errors are not modelled on either side. *)
From Rend Require Import base.Bytes gen.Consts_gen spec.MapSpec orca.Types handlers.Std orca.Orcas orca.Faults
  orca.OrcaSem orca.ProgEq gen.Orcas_gen gen.OrcasLink.
Open Scope N_scope.

Theorem c01_src_l1only : forall r, src_covered r = true -> peq (l1only_src r) (l1only r).
Proof. exact l1only_src_link. Qed.
Print Assumptions c01_src_l1only.

Theorem c01_src_l1l2 : forall r, src_covered r = true -> peq (l1l2_src r) (l1l2 r).
Proof. exact l1l2_src_link. Qed.
Print Assumptions c01_src_l1l2.

Theorem c01_src_l1l2batch : forall r, src_covered r = true -> peq (l1l2batch_src r) (l1l2batch r).
Proof. exact l1l2batch_src_link. Qed.
Print Assumptions c01_src_l1l2batch.

(* the same without the typing side condition: the two sides agree on every handler result *)
Theorem c01_src_all : forall r,
  peq_all (l1only_src r) (l1only r) /\ peq_all (l1l2_src r) (l1l2 r) /\ peq_all (l1l2batch_src r) (l1l2batch r).
Proof. exact (fun r => conj (l1only_src_link_all r) (conj (l1l2_src_link_all r) (l1l2batch_src_link_all r))). Qed.
Print Assumptions c01_src_all.

(* what the equivalence buys: over the direct handlers the translated and the modelled
   orchestrators compute the same stores, responder calls and error *)
Theorem c01_src_run : forall r l1 l2 now, src_covered r = true ->
  run std_exec std_exec (l1only_src r) l1 l2 now = run std_exec std_exec (l1only r) l1 l2 now /\
  run std_exec std_exec (l1l2_src r) l1 l2 now = run std_exec std_exec (l1l2 r) l1 l2 now /\
  run std_exec std_exec (l1l2batch_src r) l1 l2 now = run std_exec std_exec (l1l2batch r) l1 l2 now.
Proof. exact orcas_src_run. Qed.
Print Assumptions c01_src_run.

(* the general transfer lemma and its side condition for the direct handler *)
Theorem c01_src_transfer : forall h1 h2, hexec_ok h1 -> hexec_ok h2 ->
  forall p p', peq p p' -> forall l1 l2 now, run h1 h2 p l1 l2 now = run h1 h2 p' l1 l2 now.
Proof. exact peq_run. Qed.
Print Assumptions c01_src_transfer.
Theorem c01_src_std_ok : hexec_ok std_exec.
Proof. exact hexec_ok_std. Qed.
Print Assumptions c01_src_std_ok.

(* and under every backend fault plan of orca/Faults.v (C10's interpreter) *)
Theorem c01_src_run_f : forall r pl st now,
  run_f pl (l1only_src r) st now = run_f pl (l1only r) st now /\
  run_f pl (l1l2_src r) st now = run_f pl (l1l2 r) st now /\
  run_f pl (l1l2batch_src r) st now = run_f pl (l1l2batch r) st now.
Proof. exact orcas_src_run_f. Qed.
Print Assumptions c01_src_run_f.

(* non-vacuity: the dispatcher really is the generated method; the equivalence tells programs
   apart (another handler call, another argument, another returned error) *)
Example c01_src_dispatch : forall k d f ttl o q,
  l1l2_src (RSet MSet k d f ttl o q) = l1l2_Set_src k d f ttl o q /\
  l1l2batch_src (RCat true k d o q) = l1l2batch_Prepend_src k d o q /\
  l1only_src (RGat k ttl o) = l1only_Gat_src k ttl o.
Proof. intros. repeat split. Qed.
Example c01_src_peq_discriminates :
  ~ peq (l1l2batch_Prepend_src [1] [2] 0 false) (l1l2batch (RCat false [1] [2] 0 false)) /\
  ~ peq (Ret None) (Ret (Some EIO)) /\
  ~ peq (l1l2 (RSet MSet [1] [2] 0 0 0 false)) (l1l2batch (RSet MSet [1] [2] 0 0 0 false)).
Proof.
  repeat split; intro H.
  - inversion H.
  - inversion H.
  - inversion H as [| |t q k k' Hk]; subst. specialize (Hk HDone I). inversion Hk.
Qed.
