(* C08 / C01 — the reply renderers tied to the SOURCE of protocol/binprot/respond.go,
   protocol/binprot/headers.go (writeResponseHeader, pools, ResponseHeader) and protocol/textprot/respond.go.
   gen/Resp_gen.v is produced by harness `resptrans` from those files on every run (statement by statement,
   writer monad of proto/WriterSem.v); running the program of a Responder call yields a [wres]:
   [WBytes b] = it stayed inside the translated fragment and handed exactly b to the connection's writer,
   [WPanic] = it panicked, [WOutside _] = it reached a statement the translator does not cover.
   [oh], [ob] are the arbitrary stale contents of the objects sync.Pool hands out.
   Nothing but statements closed by lemmas (gen/RespSrcLink.v). *)
From Coq Require Import String.
From Rend Require Import base.Bytes gen.Consts_gen gen.GoSem spec.MapSpec orca.Types proto.Resp
  proto.WriterSem gen.Resp_gen gen.RespSrcLink.
Open Scope N_scope.

(* every binary Responder call writes exactly render_bin, for every call and every pool content *)
Theorem c08_src_render_bin : forall oh ob c, render_bin_src oh ob c = WBytes (render_bin c).
Proof. exact render_bin_src_eq. Qed.
Print Assumptions c08_src_render_bin.

(* every text Responder call writes exactly render_text; GAT and GetE panic (and only they) *)
Theorem c08_src_render_text :
  forall oh ob c, render_text_src oh ob c = if text_panics c then WPanic else WBytes (render_text c).
Proof. exact render_text_src_eq. Qed.
Print Assumptions c08_src_render_text.

(* from ANY writer state: the bytes are appended to what the connection already got, the status stays
   WRunning, and the pending flag is cleared whenever bytes were written (compositional form) *)
Theorem c08_src_render_bin_any_state : forall c out pend oh ob t,
  exists r t', bin_call_src c (mkW out pend WRunning oh ob t) =
               (r, after (mkW out pend WRunning oh ob t) (render_bin c) WRunning t').
Proof. exact bin_call_spec. Qed.
Print Assumptions c08_src_render_bin_any_state.

Theorem c08_src_render_text_any_state : forall c out pend oh ob t,
  exists r, text_call_src c (mkW out pend WRunning oh ob t) =
            (r, if text_panics c then mkW out pend WPanicked oh ob t
                else after (mkW out pend WRunning oh ob t) (render_text c) WRunning t).
Proof. exact text_call_spec. Qed.
Print Assumptions c08_src_render_text_any_state.

(* a sequence of calls on one connection writes render_all *)
Theorem c08_src_render_all_bin : forall cs out pend oh ob t,
  exists t' pend', bin_calls_src cs (mkW out pend WRunning oh ob t) =
                   (tt, mkW (out ++ render_all Bin cs) pend' WRunning oh ob t').
Proof. exact bin_calls_spec. Qed.
Print Assumptions c08_src_render_all_bin.

(* flush discipline: after every Responder call nothing is left in the bufio.Writer — every path that
   writes ends with a Flush, quiet hits included (seeds F13 / K08 remove exactly that) *)
Theorem c08_src_flush_discipline :
  forall oh ob c, flushed_bin_src oh ob c = true /\ flushed_text_src oh ob c = true.
Proof. exact flush_discipline_src. Qed.
Print Assumptions c08_src_flush_discipline.

(* TextResponder.resp passes its argument as the FORMAT of fmt.Fprintf; the replies are right because no
   error text of the compiled table contains '%' *)
Theorem c08_src_text_format_safe : forall e, no_pct (err_text e) = true.
Proof. exact err_text_no_pct. Qed.
Print Assumptions c08_src_text_format_safe.

(* the translator met no statement outside its fragment and no inconsistency between the sources *)
Theorem c08_src_render_complete : resp_untranslated = [] /\ resp_problems = [].
Proof. exact resp_src_complete. Qed.
Print Assumptions c08_src_render_complete.

(* non-vacuity: a concrete get hit and the stat reply, computed from the TRANSLATED programs with junk
   in the pooled objects *)
Example c08_render_get_hit_bin :
  render_bin_src (fun _ _ => 171) (fun _ _ => 205)
    (PGet (mkGR (asc "k") (asc "World") 3735928559 0 16909060 false false)) =
  WBytes (hx "810000000400000000000009010203040000000000000000deadbeef" ++ asc "World").
Proof. vm_compute. reflexivity. Qed.
Example c08_render_get_hit_text :
  render_text_src (fun _ _ => 171) (fun _ _ => 205)
    (PGet (mkGR (asc "k") (asc "World") 7 0 16909060 false false)) =
  WBytes (asc "VALUE k 7 5" ++ [13; 10] ++ asc "World" ++ [13; 10]).
Proof. vm_compute. reflexivity. Qed.
Example c08_render_stat_bin :
  render_bin_src (fun _ _ => 171) (fun _ _ => 205) (PStat 1) =
  WBytes (hx "81100007000000000000000a000000010000000000000000" ++ asc "version0.1" ++
          hx "811000000000000000000000000000000000000000000000").
Proof. vm_compute. reflexivity. Qed.
Example c08_render_stat_text :
  render_text_src (fun _ _ => 171) (fun _ _ => 205) (PStat 1) =
  WBytes (asc "STAT version 0.1" ++ [13; 10] ++ asc "END" ++ [13; 10]).
Proof. vm_compute. reflexivity. Qed.
Example c08_render_text_gat_panics :
  render_text_src (fun _ _ => 0) (fun _ _ => 0) (PGat (mkGR [] [] 0 0 0 false false)) = WPanic.
Proof. reflexivity. Qed.
(* a quiet hit is flushed, a quiet miss writes nothing *)
Example c08_render_quiet :
  flushed_bin_src (fun _ _ => 0) (fun _ _ => 0) (PGet (mkGR (asc "k") (asc "v") 0 0 9 true false)) = true /\
  render_bin_src (fun _ _ => 0) (fun _ _ => 0) (PGet (mkGR (asc "k") [] 0 0 9 true true)) = WBytes [].
Proof. split; vm_compute; reflexivity. Qed.
