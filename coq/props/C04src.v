(* C04src — the chunked handler's write path TRANSLATED FROM SOURCE (gen/Chunked_gen.v, written by
   `rendharness chunktrans` from handlers/memcached/chunked/{handler,localComm}.go) is the model's program.
   Statements only; proofs in gen/ChunkedLink.v. *)
From Rend Require Import base.Bytes gen.Consts_gen spec.MapSpec orca.Types handlers.ChunkFmt handlers.Chunked
  handlers.ChunkedSpec handlers.ChunkSem handlers.ChunkSemLemmas gen.Chunked_gen gen.ChunkedLink.
Open Scope N_scope.

(* Set / Add / Replace (handleSetCommon with its chunk loop, readResponseHeader): the same backend commands
   with the same arguments in the same order and the same result, for every reply of the right kind *)
Theorem c04_src_set : forall tok cnow k d f ttl, len tok = tokenSize -> tokenSize < chunk_full (len k) ->
  beq_on shape_w (chunked_Set_src tok cnow k d f ttl) (blift (chunked_set tok cnow MSet k d f ttl)).
Proof. exact c04_src_set_link. Qed.
Print Assumptions c04_src_set.
Theorem c04_src_add : forall tok cnow k d f ttl, len tok = tokenSize -> tokenSize < chunk_full (len k) ->
  beq_on shape_w (chunked_Add_src tok cnow k d f ttl) (blift (chunked_set tok cnow MAdd k d f ttl)).
Proof. exact c04_src_add_link. Qed.
Print Assumptions c04_src_add.
Theorem c04_src_replace : forall tok cnow k d f ttl, len tok = tokenSize -> tokenSize < chunk_full (len k) ->
  beq_on shape_w (chunked_Replace_src tok cnow k d f ttl) (blift (chunked_set tok cnow MReplace k d f ttl)).
Proof. exact c04_src_replace_link. Qed.
Print Assumptions c04_src_replace.

(* Delete (getMetadata, simpleCmdLocal, the queueing loop and the reply loop): for replies of the right kind
   whose metadata values are metadataSize bytes long (the assumption of ChunkSem.c_read_meta) *)
Theorem c04_src_delete : forall tok cnow k,
  beq_on shape_ok (chunked_Delete_src tok cnow k) (blift (chunked_delete k)).
Proof. exact c04_src_delete_link. Qed.
Print Assumptions c04_src_delete.

(* Touch (getMetadata, the two chunk loops, the metadata rewritten with the new expiration time) *)
Theorem c04_src_touch : forall tok cnow k ttl,
  beq_on shape_ok (chunked_Touch_src tok cnow k ttl) (blift (chunked_touch cnow k ttl)).
Proof. exact c04_src_touch_link. Qed.
Print Assumptions c04_src_touch.

(* every reply a backend store gives is of the right kind, so the two run identically on every store *)
Theorem c04_src_set_run : forall s now tok cnow k d f ttl, len tok = tokenSize -> len k <= 250 ->
  brun (chunked_Set_src tok cnow k d f ttl) s now =
  (fst (brun (chunked_set tok cnow MSet k d f ttl) s now), SVal (snd (brun (chunked_set tok cnow MSet k d f ttl) s now))).
Proof. exact src_set_run. Qed.
Print Assumptions c04_src_set_run.

(* c04_roundtrip for the translated Set: set through the code's own program, then get, returns the bytes
   and flags written *)
Theorem c04_src_roundtrip : forall s now tok cnow k d f ttl opq q,
  1 <= len k <= 250 -> len tok = tokenSize -> len d < 4294967296 -> f < 4294967296 ->
  cnow < 4294967296 -> ttl < 4294967296 -> cnow + ttl < 4294967296 ->
  snd (c_exptime cnow ttl) = false ->
  alive now (mkE [] 0 (norm now ttl)) = true ->
  let '(s1, r1) := brun (chunked_Set_src tok cnow k d f ttl) s now in
  r1 = SVal HDone /\
  brun (chunked_get [mkGI k opq q] []) s1 now = (s1, HVals [mkGR k d f 0 opq q false] None).
Proof. exact src_set_roundtrip. Qed.
Print Assumptions c04_src_roundtrip.

(* non-vacuity: the translated program really runs (3 chunks) and nothing of it is outside the semantics *)
Example c04_src_nonvacuous :
  let k := [107; 101; 121] in let d := repeat 7 2500 in let tok := repeat 9 16 in
  snd (brun (chunked_Set_src tok 1000 k d 5 0) empty_store 1000) = SVal HDone /\
  length (btrace (chunked_Set_src tok 1000 k d 5 0) empty_store 1000) = 4%nat.
Proof. vm_compute. split; reflexivity. Qed.
