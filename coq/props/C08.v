(* C08 — reply discipline. Statements only; proofs in proto/FramesProofs.v. *)
From Coq Require Import String.
From Rend Require Import base.Bytes gen.Consts_gen spec.MapSpec orca.Types handlers.Std orca.Orcas
  proto.Resp proto.Frames proto.FramesSpec orca.OrcaSpec proto.FramesProofs.
Open Scope N_scope.

(* every non-empty binary reply is one complete frame whose length fields match its contents:
   the strict decoder recovers exactly the expected fields and leaves the following bytes alone *)
Theorem c08_bin_frame : forall c rest,
  rcall_ok Bin c -> render_bin c <> [] -> (forall o, c <> PStat o) ->
  dec_bin (render_bin c ++ rest) = Some (bin_frame_of c, rest).
Proof. exact bin_frame. Qed.
Print Assumptions c08_bin_frame.

(* binary stat answers with two frames, the second one empty *)
Theorem c08_bin_stat : forall o rest, o < 4294967296 ->
  exists f2 mid, dec_bin (render_bin (PStat o) ++ rest) = Some (bin_frame_of (PStat o), mid) /\
                 dec_bin mid = Some (f2, rest) /\
                 bf_value f2 = [] /\ bf_key f2 = [] /\ bf_status f2 = statusSuccess.
Proof. exact bin_stat. Qed.

(* every non-empty text reply other than stats is one complete frame (a line, or a VALUE block
   whose byte count equals the block length) *)
Theorem c08_text_frame : forall c rest,
  rcall_ok Text c -> render_text c <> [] -> (forall o, c <> PStat o) ->
  (forall g, c = PGet g -> g_miss g = false) ->
  dec_text (render_text c ++ rest) = Some (text_frame_of c, rest).
Proof. exact text_frame. Qed.
Print Assumptions c08_text_frame.

(* text stats is two complete lines: STAT ... and END *)
Theorem c08_text_stat : forall o rest,
  exists l1, dec_text (render_text (PStat o) ++ rest) = Some (TLine l1, asc "END" ++ crlf ++ rest) /\
             dec_text (asc "END" ++ crlf ++ rest) = Some (TLine (asc "END"), rest).
Proof. exact text_stat. Qed.

(* Reply discipline of one request, in every orchestrator configuration including the locking
   wrapper, from any consistent state: the bytes written decode completely into well-formed
   frames; a non-quiet non-get request gets exactly one reply (echoing its opaque in binary);
   a get of n keys gets one value per hit, one not-found per non-quiet miss (binary), and
   exactly one terminator, which comes last (END; the no-op reply of a quiet batch; nothing
   when the batch ends in a plain get); a quiet request is silent on success. After any error
   reply the connection stays open.
   [req_wire_ok]: opaques fit 32 bits, text keys are text-safe, and no quiet request in text (the
   text parser produces none and the text responder answers STORED regardless of quiet).
   [store_wire_ok]: what the authoritative tier can serve fits the reply's wire fields (32-bit
   flags and remaining TTL, value length + extras below 2^32); without it the length and flags
   fields of a value frame wrap around. *)
Theorem c08_discipline : forall p k lck now l1 l2 r,
  inv k now l1 l2 -> in_scope k r = true -> combo_ok p lck r = true -> req_wire_ok p r ->
  store_wire_ok now (auth k l1 l2) ->
  let '(_, _, cs, c) := serve1 std_exec std_exec (orca_cfg k lck) r l1 l2 now in
  (exists fs, decode p (render_all p cs) = Some fs /\
              discipline p r (hits_of (auth k l1 l2) now r) (loud_misses_of (auth k l1 l2) now r) fs = true) /\
  (c = Closed -> exists o q, r = RQuit o q).
Proof. exact reply_discipline. Qed.
Print Assumptions c08_discipline.

(* the excluded combination really breaks it: locked + text + two keys gives two terminators *)
Theorem c08_locked_text_multiget_refuted : exists r l1 l2,
  combo_ok Text true r = false /\
  let '(_, _, cs, _) := serve1 std_exec std_exec (orca_cfg KL1L2 true) r l1 l2 0 in
  exists fs, decode Text (render_all Text cs) = Some fs /\
             discipline Text r (hits_of l2 0 r) (loud_misses_of l2 0 r) fs = false.
Proof. exact locked_text_multiget_discipline_refuted. Qed.

Example c08_nonvacuous :
  let r := RGet [mkGI [107] 1 true; mkGI [108] 2 false] 0 false in
  let l2 := upd empty_store [107] (Some (mkE [1; 2; 3] 5 Never)) in
  inv KL1L2 10 empty_store l2 /\ in_scope KL1L2 r = true /\ combo_ok Bin true r = true /\ req_wire_ok Bin r /\
  store_wire_ok 10 (auth KL1L2 empty_store l2) /\
  hits_of l2 10 r = 1%nat /\ loud_misses_of l2 10 r = 1%nat.
Proof. exact c08_example. Qed.
