(* C07 / C11 — source-level tie for the binary request parser. BinaryParser.Parse and every function
   of package binprot it reaches (readRequestHeader, setRequest, appendPrependRequest, readBatchGet,
   readBatchGetE, readString, readUInt32) are translated from /repo's source on every run
   (gen/BinParser_gen.v, by `rendharness bintrans`, statement by statement; meaning of the emitted
   operators: proto/ReaderSem.v) and proved equal to the hand-written model proto/BinReq.v
   parse_bin that the theorems of props/C07.v and props/C11.v are stated about. Nothing here but
   statements closed by lemmas of gen/BinParserLink.v.

   [parse_bin_src s]: one call of Parse on the bytes [s] still to come (followed by EOF), classified
   as DefaultServer.Loop treats its results (ReaderSem.run_parse), with the allocation/demand trace
   of its reads. Hypothesis [bytes_ok s]: the elements of the stream are bytes (< 256) — the model
   is total on lists of arbitrary numbers, Go's uint8/uint16/uint32 header arithmetic is not.
   Trusted: the rules of bintrans (listed in the header of the generated file) and ReaderSem.v. *)
From Rend Require Import base.Bytes gen.Consts_gen spec.MapSpec orca.Types proto.Resp proto.ReqCommon
  proto.BinReq proto.ReaderSem gen.BinParser_gen gen.BinParserLink.
Open Scope N_scope.

(* the translated parser IS the model: same result (request and unread rest / close) and same
   allocation trace, for every stream of bytes *)
Theorem c07_src_bin_parse : forall s : bytes, bytes_ok s -> parse_bin_src s = parse_bin s.
Proof. exact parse_bin_src_link. Qed.
Print Assumptions c07_src_bin_parse.

(* the translator had a rule for every statement it met, and the records of ReaderSem.v have the
   fields the structs of the source declare *)
Theorem c07_src_bin_complete : bintrans_untranslated = [] /\ struct_decls_src = struct_decls_model.
Proof. exact (conj bintrans_complete struct_decls_link). Qed.
Print Assumptions c07_src_bin_complete.

(* C07 round trip, about the translated code: every well-formed request of the supported subset is
   decoded to exactly what was sent, consuming exactly its own bytes, whatever bytes follow *)
Theorem c07_src_bin_roundtrip : forall (r : req) (rest : bytes),
  wf_bin r = true -> bytes_ok (enc_bin r ++ rest) -> fst (parse_bin_src (enc_bin r ++ rest)) = PDone r rest.
Proof. exact src_bin_roundtrip. Qed.
Print Assumptions c07_src_bin_roundtrip.

(* C11, about the translated code: every successful Parse consumes at least one byte ... *)
Theorem c11_src_progress_bin : forall s : bytes, bytes_ok s ->
  match fst (parse_bin_src s) with
  | PDone _ rest | PClientErr _ rest => (length rest < length s)%nat
  | PClose => True
  end.
Proof. exact src_bin_progress. Qed.
Print Assumptions c11_src_progress_bin.

(* ... every buffer it allocates / waits for is a constant or what the header consistently declares ... *)
Theorem c11_src_alloc_bin : forall s : bytes,
  bytes_ok s -> Forall (fun a => aev_consistent a /\ aev_bounded a) (snd (parse_bin_src s)).
Proof. exact src_bin_alloc. Qed.
Print Assumptions c11_src_alloc_bin.

Theorem c11_src_alloc_bin_sizes : forall s : bytes,
  bytes_ok s -> Forall (fun a => asize a <= adeclared a) (snd (parse_bin_src s)).
Proof. exact src_bin_alloc_sizes. Qed.
Print Assumptions c11_src_alloc_bin_sizes.

(* ... and a store frame whose length fields contradict each other is refused right after its
   header, nothing allocated, nothing more read *)
Theorem c11_src_inconsistent : forall (s : bytes) (h : hdr) (s1 : bytes),
  bytes_ok s -> read_hdr s = Some (h, s1) ->
  (is_set_op (h_op h) = true /\ h_total h < h_elen h + h_klen h) \/
  (is_cat_op (h_op h) = true /\ h_total h < h_klen h) ->
  parse_bin_src s = (PClose, [AHdr]).
Proof. exact src_bin_inconsistent. Qed.
Print Assumptions c11_src_inconsistent.

(* the translated code is never stuck (ReaderSem: a stuck run has the empty trace) *)
Theorem c07_src_bin_not_stuck : forall s, bytes_ok s -> exists tr, snd (parse_bin_src s) = AHdr :: tr.
Proof. exact src_bin_trace_starts. Qed.
Print Assumptions c07_src_bin_not_stuck.

(* non-vacuity: the translated term computes. A set of key "k", value 1 2 3 followed by a byte of
   the next request; a getq/getq/noop batch; a set declaring total body 0 with extras 8 and key 1
   (the frame the length guard exists for) is refused after the header; a stream cut inside the
   value demands the value and closes; the streams of the examples are bytes *)
Example c07_src_set :
  parse_bin_src (enc_bin (RSet MSet [107] [1; 2; 3] 5 6 7 false) ++ [128]) =
  (PDone (RSet MSet [107] [1; 2; 3] 5 6 7 false) [128], [AHdr; AWord; AWord; AKey 1; AData 12 8 1 3]).
Proof. vm_compute. reflexivity. Qed.

Example c07_src_batch :
  let r := RGet [mkGI [1] 1 true; mkGI [2; 2] 2 true] 9 true in
  parse_bin_src (enc_bin r) = (PDone r [], [AHdr; AKey 1; AHdr; AKey 2; AHdr]).
Proof. vm_compute. reflexivity. Qed.

Example c11_src_guard :
  parse_bin_src (enc_hdr opSet 1 8 0 0 ++ [0; 0; 0; 0; 0; 0; 0; 0; 107]) = (PClose, [AHdr]).
Proof. vm_compute. reflexivity. Qed.

Example c07_src_cut :
  parse_bin_src (firstn 35 (enc_bin (RSet MSet [107] [1; 2; 3] 5 6 7 false))) =
  (PClose, [AHdr; AWord; AWord; AKey 1; AData 12 8 1 3]).
Proof. vm_compute. reflexivity. Qed.

Example c07_src_examples_are_bytes :
  bytes_okb (enc_bin (RSet MSet [107] [1; 2; 3] 5 6 7 false) ++ [128]) = true /\
  bytes_okb (enc_bin (RGet [mkGI [1] 1 true; mkGI [2; 2] 2 true] 9 true)) = true.
Proof. vm_compute. split; reflexivity. Qed.
