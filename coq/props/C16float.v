(* C16 (and C04) - the float64 idioms of /repo/handlers/memcached/chunked agree with the integer
   functions of the model (handlers/ChunkFmt.v):
     int(math.Ceil(float64(a) / float64(b)))   = (a + b - 1) / b = num_chunks a b     (handler.go, chunkedLimitedReader.go)
     int(math.Min(float64(x), float64(y)))     = min x y                              (keys.go, chunkedLimitedReader.go)
   Float64 arithmetic is Flocq 4.1's model of IEEE-754 binary64 (definitions in base/FloatIdioms.v):
     round64 = round radix2 (FLT_exp (-1074) 53) ZnearestE  on reals  (Flocq.Core),
     go_float64_of_int = Binary.binary_normalize mode_NE _ 0,  go_div = Bits.b64_div mode_NE (= Binary.Bdiv),
     go_ceil = Binary.Bnearbyint mode_UP,  go_int_of_float64 = Binary.Btrunc,  go_min = math.Min's case
     analysis over Binary.Bcompare; go_ceil_div / go_min_int are the compositions written in the source.
   Nothing but statements closed by lemmas of base/FloatIdiomsProofs.v. *)
From Coq Require Import ZArith Reals.
From Flocq Require Import Core.Core IEEE754.BinarySingleNaN IEEE754.Binary IEEE754.Bits.
From Rend Require Import base.Bytes base.FloatIdioms base.FloatIdiomsProofs handlers.ChunkFmt.
Open Scope Z_scope.

(* real level: a and b are binary64 numbers, and the ceiling of the correctly rounded quotient
   (round to nearest even in the binary64 format) is the integer ceiling *)
Theorem c16_float_ceil_real : forall a b : Z, 0 <= a < 2^32 -> 1 <= b < 2^12 ->
  format64 (IZR a) /\ format64 (IZR b) /\
  Zceil (round64 (IZR a / IZR b)) = (a + b - 1) / b.
Proof. exact ceil_div_float64. Qed.
Print Assumptions c16_float_ceil_real.

(* binary64 level: both conversions are exact, Bdiv returns the finite float whose value is the
   correctly rounded quotient, Ceil of it is the finite float (a+b-1)/b, and converting back to
   int yields (a+b-1)/b *)
Theorem c16_float_ceil : forall a b : Z, 0 <= a < 2^32 -> 1 <= b < 2^12 ->
  let fa := go_float64_of_int a in
  let fb := go_float64_of_int b in
  B2R 53 1024 fa = IZR a /\ B2R 53 1024 fb = IZR b /\
  is_finite 53 1024 (go_div fa fb) = true /\
  B2R 53 1024 (go_div fa fb) = round64 (IZR a / IZR b) /\
  is_finite 53 1024 (go_ceil (go_div fa fb)) = true /\
  B2R 53 1024 (go_ceil (go_div fa fb)) = IZR ((a + b - 1) / b) /\
  go_ceil_div a b = (a + b - 1) / b.
Proof. exact ceil_div_b64. Qed.
Print Assumptions c16_float_ceil.

(* math.Min: both conversions are exact, the minimum is one of the two finite floats, and converting
   it back to int yields Z.min *)
Theorem c16_float_min : forall x y : Z, 0 <= x < 2^53 -> 0 <= y < 2^53 ->
  let fx := go_float64_of_int x in
  let fy := go_float64_of_int y in
  B2R 53 1024 fx = IZR x /\ B2R 53 1024 fy = IZR y /\
  is_finite 53 1024 (go_min fx fy) = true /\
  B2R 53 1024 (go_min fx fy) = IZR (Z.min x y) /\
  go_min_int x y = Z.min x y.
Proof. exact min_float64. Qed.
Print Assumptions c16_float_min.

Theorem c16_float_min_real : forall x y : Z, 0 <= x < 2^53 -> 0 <= y < 2^53 ->
  format64 (IZR x) /\ format64 (IZR y) /\ Rmin (IZR x) (IZR y) = IZR (Z.min x y).
Proof. exact min_real64. Qed.
Print Assumptions c16_float_min_real.

(* the model's functions (N arithmetic) *)
Theorem c16_float_ceil_N : forall a b : N, (a < 2^32)%N -> (1 <= b)%N -> (b < 2^12)%N ->
  Z.to_N (Zceil (round64 (IZR (Z.of_N a) / IZR (Z.of_N b)))) = num_chunks a b.
Proof. exact ceil_div_float64_N. Qed.
Print Assumptions c16_float_ceil_N.

Theorem c16_float_ceil_b64_N : forall a b : N, (a < 2^32)%N -> (1 <= b)%N -> (b < 2^12)%N ->
  Z.to_N (go_ceil_div (Z.of_N a) (Z.of_N b)) = num_chunks a b.
Proof. exact ceil_div_b64_N. Qed.
Print Assumptions c16_float_ceil_b64_N.

Theorem c16_float_min_N : forall cs i total : N, (cs * i + cs < 2^53)%N -> (total < 2^53)%N ->
  Z.to_N (go_min_int (Z.of_N (cs * i + cs)) (Z.of_N total)) = slice_end cs i total.
Proof. exact (fun cs i total => min_float64_N (cs * i + cs) total). Qed.
Print Assumptions c16_float_min_N.

(* non-vacuity: the hypotheses are satisfiable and the two sides are the expected numbers, for an
   exact multiple of the chunk payload and for one byte more (where the rounded quotient is not an
   integer) *)
Example c16_float_nonvacuous :
  Zceil (round64 (IZR (1096 * 3) / IZR 1096)) = 3 /\
  Zceil (round64 (IZR (1096 * 3 + 1) / IZR 1096)) = 4 /\
  go_ceil_div (1096 * 3) 1096 = 3 /\ go_ceil_div (1096 * 3 + 1) 1096 = 4 /\
  num_chunks (1096 * 3) 1096 = 3%N /\ num_chunks (1096 * 3 + 1) 1096 = 4%N /\
  go_min_int (1096 * 3) 3289 = 3288 /\ slice_end 1096 2 3289 = 3288%N.
Proof.
  assert (A : 0 <= 1096 * 3 < 2^32) by (split; [discriminate | reflexivity]).
  assert (A' : 0 <= 1096 * 3 + 1 < 2^32) by (split; [discriminate | reflexivity]).
  assert (B : 1 <= 1096 < 2^12) by (split; [discriminate | reflexivity]).
  destruct (c16_float_ceil_real _ _ A B) as (_ & _ & H1).
  destruct (c16_float_ceil_real _ _ A' B) as (_ & _ & H2).
  destruct (c16_float_ceil _ _ A B) as (_ & _ & _ & _ & _ & _ & H3).
  destruct (c16_float_ceil _ _ A' B) as (_ & _ & _ & _ & _ & _ & H4).
  assert (X : 0 <= 1096 * 3 < 2^53) by (split; [discriminate | reflexivity]).
  assert (Y : 0 <= 3289 < 2^53) by (split; [discriminate | reflexivity]).
  destruct (c16_float_min _ _ X Y) as (_ & _ & _ & _ & H5).
  rewrite H1, H2, H3, H4, H5. vm_compute. repeat split; reflexivity.
Qed.

(* the binary64 operations also compute: Flocq's Bdiv etc. evaluated on the two examples *)
Example c16_float_computes :
  go_ceil_div (1096 * 3) 1096 = 3 /\ go_ceil_div (1096 * 3 + 1) 1096 = 4 /\ go_min_int 3288 3289 = 3288.
Proof. vm_compute. repeat split; reflexivity. Qed.
