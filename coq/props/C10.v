(* C10 — backend faults are contained. Statements only; proofs in orca/FaultProofs.v.
   The fault model (orca/Faults.v): any backend request on L1 or L2 may be answered with an
   error status, or the connection may break at it (request applied or not, or right after
   the reply). "Promptly", "the process keeps running", "other connections are unaffected"
   are observed by the harness, not proved. *)
From Rend Require Import base.Bytes gen.Consts_gen spec.MapSpec orca.Types handlers.Std orca.Orcas
  proto.Resp orca.OrcaSpec orca.Faults orca.FaultProofs.
Open Scope N_scope.

Definition fs_of (l1 l2 : store) : fstate := mkFS (mkTS l1 false 0) (mkTS l2 false 0).

(* at most one fault in the whole plan *)
Definition at_most_one_fault (pl : plan) : Prop :=
  forall t n t' n', pl t n <> None -> pl t' n' <> None -> t = t' /\ n = n'.

(* an injected status is an error status, i.e. one that binprot.DecodeError maps to an error
   (the thirteen statuses of Consts_gen.decodeError_tab). DecodeError returns nil for every
   other status, so a backend that answers, say, 0x07 without applying the request is taken
   for success — see c10_unknown_status_taken_for_success below (known finding). *)
Definition error_statuses (pl : plan) : Prop :=
  forall t n st, pl t n = Some (FStatus st) -> decode_error st <> None.

(* Contained, for ANY fault plan (any number of faults, any kinds, any positions), any
   orchestrator configuration, any state: the client request ends either with the connection
   closed, or with a reply stream that ends in the request's own completion (acknowledgement /
   terminator) or an error reply — and in which every non-quiet key of a get was answered
   unless an error reply ended it. Never "open, and still waiting".
   [combo_ok Bin lck r] excludes exactly one request: a get without any key through the locking
   wrapper (LockedOrca.Get loops over the keys, so it writes nothing at all; neither parser
   produces such a request; same exclusion as in C01): c10_locked_empty_get_unanswered. *)
Theorem c10_contained : forall pl k lck r st now,
  in_scope k r = true -> combo_ok Bin lck r = true ->
  let '(_, cs, c) := serve1_f pl (orca_cfg k lck) r st now in
  c = Closed \/ (answered r cs = true /\ get_keys_answered r cs = true).
Proof. exact contained. Qed.
Print Assumptions c10_contained.

Theorem c10_locked_empty_get_unanswered :
  let '(_, cs, c) := serve1_f no_faults (orca_cfg KL1L2 true) (RGet [] 0 false) (fs_of empty_store empty_store) 0 in
  c = Open /\ cs = [] /\ in_scope KL1L2 (RGet [] 0 false) = true.
Proof. exact locked_empty_get_unanswered. Qed.
Print Assumptions c10_locked_empty_get_unanswered.

(* No stale value after an ack: with one fault anywhere, from a consistent state, if a
   set/add/replace/append/prepend/delete/touch was acknowledged then the authoritative tier
   holds exactly what the reference map holds after the command, and L1 holds for that key
   either nothing or the same value (in particular a refused L1 write was compensated). *)
Theorem c10_no_stale_after_ack : forall pl k lck r now l1 l2 key,
  at_most_one_fault pl -> error_statuses pl -> inv k now l1 l2 -> in_scope k r = true ->
  (match r with RSet _ x _ _ _ _ _ | RCat _ x _ _ _ | RDelete x _ | RTouch x _ _ => x = key | _ => False end) ->
  let '(st', cs, c) := serve1_f pl (orca_cfg k lck) r (fs_of l1 l2) now in
  c = Open -> existsb (is_ack r) cs = true ->
  let '(s1, _, _) := ref_run (auth k l1 l2) now r in
  live now (auth k (t_store (f1 st')) (t_store (f2 st'))) key = live now s1 key /\
  (k <> KL1Only -> forall e1, live now (t_store (f1 st')) key = Some e1 ->
     exists e2, live now (t_store (f2 st')) key = Some e2 /\ e_data e1 = e_data e2 /\ e_flags e1 = e_flags e2).
Proof. exact no_stale_after_ack. Qed.
Print Assumptions c10_no_stale_after_ack.

(* A read during a fault returns the map's value or a miss, never anything else: every value
   frame a get emits under any single fault carries the data and flags the authoritative tier
   holds for that key. (The proof does not use the single-fault hypothesis: read_sound_any.) *)
Theorem c10_read_sound : forall pl k lck now l1 l2 items no ne g,
  at_most_one_fault pl -> inv k now l1 l2 ->
  let '(_, cs, _) := serve1_f pl (orca_cfg k lck) (RGet items no ne) (fs_of l1 l2) now in
  In (PGet g) cs -> g_miss g = false ->
  exists e, live now (auth k l1 l2) (g_key g) = Some e /\ g_data g = e_data e /\ g_flags g = e_flags e.
Proof. exact read_sound. Qed.
Print Assumptions c10_read_sound.

(* Reads after a fault: whatever single fault struck whatever command, every value L1 can
   serve afterwards is the value L2 held before the command or the value L2 holds after it —
   so a later fault-free read returns the old value, the new value, or a miss. *)
Theorem c10_after_fault : forall pl k lck r now l1 l2 key e1,
  at_most_one_fault pl -> error_statuses pl -> sub_live now l1 l2 -> k <> KL1Only -> in_scope k r = true ->
  let '(st', _, _) := serve1_f pl (orca_cfg k lck) r (fs_of l1 l2) now in
  live now (t_store (f1 st')) key = Some e1 ->
  (exists e, live now l2 key = Some e /\ e_data e1 = e_data e /\ e_flags e1 = e_flags e) \/
  (exists e, live now (t_store (f2 st')) key = Some e /\ e_data e1 = e_data e /\ e_flags e1 = e_flags e).
Proof. exact after_fault. Qed.
Print Assumptions c10_after_fault.

(* without [error_statuses]: one reply with a status DecodeError does not know (0x07) to the L2
   set of a plain set; the set is acknowledged, L1 holds the new value, L2 held and holds
   nothing — both theorems above fail *)
Theorem c10_unknown_status_taken_for_success :
  let pl := plan1 L2 0 (FStatus 7) in
  let r := RSet MSet [1] [7] 0 0 1 false in
  at_most_one_fault pl /\ ~ error_statuses pl /\ inv KL1L2 5 empty_store empty_store /\
  let '(st', cs, c) := serve1_f pl (orca_cfg KL1L2 false) r (fs_of empty_store empty_store) 5 in
  c = Open /\ existsb (is_ack r) cs = true /\
  live 5 (t_store (f2 st')) [1] = None /\
  (exists e, live 5 (t_store (f1 st')) [1] = Some e /\ e_data e = [7]) /\
  let '(s1, _, _) := ref_run empty_store 5 r in exists e, live 5 s1 [1] = Some e /\ e_data e = [7].
Proof. exact unknown_status_taken_for_success. Qed.
Print Assumptions c10_unknown_status_taken_for_success.

(* the behaviour before the fix of L1L2Orca.Get: an L1 error in the middle of a multi-key get
   was forgotten after one L2 hit, the connection stayed open and a non-quiet key was never answered *)
Theorem c10_old_get_error_overwritten_refuted : old_l1l2_get_leaves_key_unanswered.
Proof. exact old_get_refuted. Qed.
Print Assumptions c10_old_get_error_overwritten_refuted.

Example c10_nonvacuous :
  let pl : plan := fun t n => match t, n with L1, 1%nat => Some (FBreak false) | _, _ => None end in
  at_most_one_fault pl /\ error_statuses pl /\
  inv KL1L2 5 empty_store (upd empty_store [1] (Some (mkE [9] 0 Never))) /\
  in_scope KL1L2 (RGet [mkGI [1] 1 true; mkGI [2] 2 true; mkGI [1] 3 false] 0 false) = true /\
  combo_ok Bin true (RGet [mkGI [1] 1 true; mkGI [2] 2 true; mkGI [1] 3 false] 0 false) = true.
Proof. exact c10_example. Qed.
