(* C03app — source-level tie for the DEPLOYMENT: the lock LTS of C03/C12 has one lock table for
   all the connections of the proxy, whichever port they arrive on. Whether that is so is decided
   in app/memproxy.go's main (package main: out of reach of the orchestrator-level harness); its
   wiring is extracted from the source on every run (gen/App_gen.v, by `rendharness apptrans`) and
   evaluated here for EVERY valuation of the command-line flags. Statements only (gen/AppLink.v). *)
From Coq Require Import String List Bool.
Import ListNotations.
From Rend Require Import server.AppWiring gen.App_gen gen.AppLink.
Open Scope string_scope.

(* the servers main starts, for every flag valuation: listener, orchestrator constructor, and how
   it is locked (OwnSet site multi = orcas.Locked creates the lock set at call site [site];
   SharedSet (RSite site) = orcas.LockedWithExisting with the id of the set created there) *)
Theorem c03_app_wiring : forall f : flags, started f app_serves_src = app_expected f.
Proof. exact app_wiring_src. Qed.
Print Assumptions c03_app_wiring.

(* -locked -l2-enabled: the batch port's orchestrator locks on the main port's lock set; the
   set is single-reader under -chunked or -multi-reader=false *)
Theorem c03_app_one_lock_table : forall f : flags,
  f "locked" = true -> f "l2enabled" = true ->
  exists l site multi,
    started f app_serves_src =
      [(Some l, Some (mkR "L1L2" (OwnSet site multi)));
       (Some (LTcp "batchPort"), Some (mkR "L1L2Batch" (SharedSet (RSite site))))] /\
    (f "chunked" = true -> multi = false) /\ (f "multiReader" = false -> multi = false).
Proof. exact app_one_lock_table. Qed.
Print Assumptions c03_app_one_lock_table.

Theorem c03_app_unlocked : forall f : flags, f "locked" = false ->
  Forall (fun s => match snd s with Some r => r_lock r = NoLock | None => False end) (started f app_serves_src).
Proof. exact app_unlocked. Qed.

(* both ports get the same protocol list, server loop and handler constructors: -chunked selects
   the chunked L1 handler (and, above, the single-reader lock set), L2 is a direct handler *)
Theorem c03_app_handlers : forall f : flags, started_with f app_serves_src = app_expected_with f.
Proof. exact app_handlers_src. Qed.
Print Assumptions c03_app_handlers.

(* non-vacuity: the evaluation distinguishes a batch port with a lock set of its own *)
Example c03_app_nonvacuous :
  let f : flags := fun s => if (s =? "locked") || (s =? "l2enabled") || (s =? "multiReader") then true else false in
  let own := [mkServe BTrue (LTcp "port") (PsList []) "" (OLocked 1 (OBase "L1L2") BTrue "c") HUnset HUnset;
              mkServe BTrue (LTcp "batchPort") (PsList []) "" (OLocked 2 (OBase "L1L2Batch") BTrue "c") HUnset HUnset] in
  started f own <> app_expected f /\ started f app_serves_src = app_expected f.
Proof. split; [vm_compute; discriminate | apply app_wiring_src]. Qed.
