(* C07 / C11 — source-level tie for the text protocol parser: TextParser.Parse and setRequest of
   /repo/protocol/textprot/parser.go, translated statement by statement from their source on every
   run (gen/TextParser_gen.v [parse_text_src], by `rendharness texttrans`; the meaning of the
   library calls it uses is the hand-written proto/TextSem.v), compute what the hand-written model
   parse_text (proto/TextReq.v) computes, which the C07 and C11 theorems are stated about.
   Nothing but statements closed by lemmas (gen/TextParserLink.v).

   Reading guide: [parse_text_src s] is Parse run on the bytes [s] still to come followed by EOF;
   [Some (res, trace)] = how DefaultServer.Loop classifies what Parse returned (PDone request rest /
   PClientErr e rest / PClose) and what the parser allocated / waited for; [None] = the source used
   a library call outside what TextSem.v gives a meaning to (never, by the first theorem).

   Trusted (not covered): proto/TextSem.v (ReadString, ReadAtLeast on the concatenated stream,
   TrimSpace, Split, ParseUint, make, the panic reading of out-of-range indices, the
   classification of the returned 4-tuple by the loop); the rules by which texttrans drops
   metrics / log / timer statements and identifies t.reader and r with the one reader of the
   connection (listed in the header of gen/TextParser_gen.v). A value-level translation does not
   see aliasing between the returned slices and bufio's buffer. *)
From Coq Require Import String.
From Rend Require Import base.Bytes gen.Consts_gen spec.MapSpec orca.Types orca.Orcas proto.Resp proto.ReqCommon
  proto.TextReq proto.TextSem proto.LoopShape gen.Loop_gen gen.TextParser_gen gen.TextParserLink.
Open Scope N_scope.

(* the parser read from the source IS the model: outcome, unread rest and trace, on every stream *)
Theorem c07_src_text_parse : forall s : bytes, parse_text_src s = Some (parse_text s).
Proof. exact parse_text_src_link. Qed.
Print Assumptions c07_src_text_parse.

(* C07 for the translated parser: every well-formed text request is decoded to exactly what was
   sent, consuming exactly its own bytes, whatever follows *)
Theorem c07_src_text_roundtrip : forall (r : req) (rest : bytes),
  wf_text r = true -> option_map fst (parse_text_src (enc_text r ++ rest)) = Some (PDone r rest).
Proof. exact src_text_roundtrip. Qed.
Print Assumptions c07_src_text_roundtrip.

(* C11 for the translated parser: one Parse call that does not close the connection consumes at
   least one byte ... *)
Theorem c11_src_text_progress : forall s : bytes,
  exists o, parse_text_src s = Some o /\
    match fst o with
    | PDone _ rest | PClientErr _ rest => (length rest < length s)%nat
    | PClose => True
    end.
Proof. exact src_text_progress. Qed.
Print Assumptions c11_src_text_progress.

(* ... and buffers only lines it received and a data block of the declared uint32 length *)
Theorem c11_src_text_alloc : forall s : bytes,
  exists o, parse_text_src s = Some o /\ Forall (text_ev_ok s) (snd o).
Proof. exact src_text_alloc. Qed.
Print Assumptions c11_src_text_alloc.

(* the errors that TextSem.v classifies as "answered, the loop goes on" are exactly those after
   which the loop translated from server/default.go continues *)
Theorem c07_src_text_client_errs : forall e,
  is_client_err e = true <-> exists cs, sh_on_parse_error loop_src e = Some (cs, Open).
Proof. exact is_client_err_loop. Qed.
Print Assumptions c07_src_text_client_errs.

(* non-vacuity: the translated parser, evaluated: a set with its data block, a multi-key get, the
   three numeral errors in the order the source checks them, an unknown command, a cut line *)
Example c07_src_text_witness :
  parse_text_src (asc "set k 5 7 3" ++ crlf ++ asc "abc" ++ crlf ++ asc "x") =
    Some (PDone (RSet MSet (asc "k") (asc "abc") 5 7 0 false) (asc "x"), [ALine 13; ATextData 3; ALine 2]) /\
  parse_text_src (asc "get a bc" ++ crlf) =
    Some (PDone (RGet [mkGI (asc "a") 0 false; mkGI (asc "bc") 0 false] 0 false) [], [ALine 10]) /\
  option_map fst (parse_text_src (asc "set k x y z" ++ crlf)) = Some (PClientErr EBadFlags []) /\
  option_map fst (parse_text_src (asc "set k 0 y z" ++ crlf)) = Some (PClientErr EBadExptime []) /\
  option_map fst (parse_text_src (asc "set k 0 0 z" ++ crlf)) = Some (PClientErr EBadLength []) /\
  option_map fst (parse_text_src (asc "touch k" ++ crlf)) = Some (PClientErr EBadRequest []) /\
  option_map fst (parse_text_src (asc "bogus" ++ crlf)) = Some (PDone RUnknown []) /\
  parse_text_src (asc "set k 0 0 9" ++ crlf ++ asc "abc") = Some (PClose, [ALine 13; ATextData 9]) /\
  parse_text_src (asc "get a") = Some (PClose, [ALine 5]).
Proof. vm_compute. repeat split; reflexivity. Qed.
