(* C16 (and C04) — source-level tie: the chunk arithmetic of /repo, translated from its source on
   every run (gen/Funcs_gen.v), IS the model's. Nothing but statements closed by lemmas. *)
From Rend Require Import base.Bytes gen.Consts_gen gen.GoSem gen.Funcs_gen gen.FuncsLink handlers.ChunkFmt.
Open Scope N_scope.
(* chunked.chunkSize(keylen) returns (chunk_data, chunk_full) whenever a chunk has room for its token *)
Theorem c16_src_chunkSize : forall klen,
  klen + tokenSize <= chunkMaxSize - chunkOverhead ->
  chunkSize_src klen = (chunk_data klen, chunk_full klen).
Proof. exact chunkSize_src_eq. Qed.
Print Assumptions c16_src_chunkSize.
(* chunked.chunkSliceIndices returns the model's slice bounds (sizes below 2^62) *)
Theorem c16_src_sliceIndices : forall cs i total,
  cs * i + cs < 2 ^ 62 -> total < 2 ^ 62 ->
  chunkSliceIndices_src cs i total = (slice_start cs i, slice_end cs i total).
Proof. exact chunkSliceIndices_src_eq. Qed.
Print Assumptions c16_src_sliceIndices.
(* non-vacuity: every memcached key length meets the first hypothesis *)
Example c16_src_nonvacuous : 250 + tokenSize <= chunkMaxSize - chunkOverhead /\ chunkSize_src 250 = (847, 863).
Proof. vm_compute. split; [discriminate|reflexivity]. Qed.
