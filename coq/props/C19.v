(* C19 — cluster routing is a stable function of the key and the node set.
   Nothing but statements closed by lemmas of cluster/KetamaProofs.v, and non-vacuity examples.

   Reading guide.  [pts : label -> list N] is the point function (in the code: MD5 of "<label>-<k>",
   four little-endian uint32 per digest) — arbitrary here.  [is_ring pts ls r]: r is a point-sorted
   permutation of the (point,label) pairs of the labels ls in list order — ANY such r, because
   sort.Sort is not stable.  [lookup r h] = Continuum.Bucket(h): label of the first entry with
   point >= h, wrapping to index 0; [lookup_bs] is the same written with sort.Search.
   Premise "ring points are distinct": [NoDup (all_points pts ls)]; the weaker [distinct_owners]
   (a point has one owning label) is enough and also covers a node list naming one address twice. *)
From Rend Require Import base.Bytes cluster.Ketama cluster.KetamaProofs.
From Coq Require Import Sorting.Permutation Sorting.Sorted.
Open Scope N_scope.

(* ---- the model's executable lookup is the binary search of the code, and meets its specification ---- *)
Theorem c19_lookup_is_search : forall (label : Type) (r : list (@entry label)) (h : N),
  Sorted le_point r -> lookup_bs r h = lookup r h.
Proof. exact (@lookup_bs_eq). Qed.
Print Assumptions c19_lookup_is_search.

Theorem c19_lookup_spec : forall (label : Type) (r : list (@entry label)) (h : N) (l : label),
  Sorted le_point r -> lookup r h = Some l -> owner_spec r h l.
Proof. exact (@lookup_sound). Qed.
Print Assumptions c19_lookup_spec.

(* ---- not on the order nodes were listed (nor on how the unstable sort broke ties) ---- *)
Theorem c19_order_independent : forall (label : Type) (pts : label -> list N)
    (ls ls' : list label) (r r' : list (@entry label)),
  NoDup (all_points pts ls) -> Permutation ls ls' ->
  is_ring pts ls r -> is_ring pts ls' r' ->
  forall h, lookup r h = lookup r' h.
Proof. exact (@lookup_order_independent). Qed.
Print Assumptions c19_order_independent.

(* stronger: only the SET of labels matters (repetitions allowed), under the weaker premise *)
Theorem c19_set_independent : forall (label : Type) (pts : label -> list N)
    (ls ls' : list label) (r r' : list (@entry label)),
  (forall l, In l ls <-> In l ls') -> distinct_owners pts ls ->
  is_ring pts ls r -> is_ring pts ls' r' ->
  forall h, lookup r h = lookup r' h.
Proof. exact (@lookup_set_independent). Qed.
Print Assumptions c19_set_independent.

(* ---- a set and a later get of the same key reach the same node, whichever connection asks:
   Set goes through a handler with continuum r, Get through a handler with its own continuum r'
   built from the same node set (any order); the get finds what the set stored ---- *)
Theorem c19_set_get : forall (label key val : Type) (pts : label -> list N)
    (label_eq_dec : forall a b : label, {a = b} + {a <> b})
    (key_eq_dec : forall a b : key, {a = b} + {a <> b})
    (hash : key -> N) (ls ls' : list label) (r r' : list (@entry label))
    (st : @cluster_state label key val) (k : key) (v : val),
  (forall l, In l ls <-> In l ls') -> distinct_owners pts ls ->
  is_ring pts ls r -> is_ring pts ls' r' -> r <> [] ->
  route hash r' k = route hash r k /\
  h_get hash r' (h_set label_eq_dec key_eq_dec hash r st k v) k = Some v.
Proof. exact (@set_then_get). Qed.
Print Assumptions c19_set_get.

(* same handler (same ring): no premise about points at all *)
Theorem c19_set_get_same_ring : forall (label key val : Type)
    (label_eq_dec : forall a b : label, {a = b} + {a <> b})
    (key_eq_dec : forall a b : key, {a = b} + {a <> b})
    (hash : key -> N) (r : list (@entry label)) (st : @cluster_state label key val) (k : key) (v : val),
  r <> [] -> h_get hash r (h_set label_eq_dec key_eq_dec hash r st k v) k = Some v.
Proof. exact (@set_then_get_same_ring). Qed.
Print Assumptions c19_set_get_same_ring.

(* ---- removing node x re-routes only the hashes x owned ---- *)
Theorem c19_removal : forall (label : Type) (pts : label -> list N)
    (label_eq_dec : forall a b : label, {a = b} + {a <> b})
    (ls : list label) (x : label) (r r' : list (@entry label)),
  NoDup (all_points pts ls) ->
  is_ring pts ls r -> is_ring pts (remove label_eq_dec x ls) r' ->
  forall h, lookup r h <> Some x -> lookup r' h = lookup r h.
Proof. exact (@lookup_removal). Qed.
Print Assumptions c19_removal.

Theorem c19_removal_set : forall (label : Type) (pts : label -> list N)
    (ls ls' : list label) (x : label) (r r' : list (@entry label)),
  (forall l, In l ls' <-> In l ls /\ l <> x) -> distinct_owners pts ls ->
  is_ring pts ls r -> is_ring pts ls' r' ->
  forall h, lookup r h <> Some x -> lookup r' h = lookup r h.
Proof. exact (@lookup_removal_gen). Qed.
Print Assumptions c19_removal_set.

(* ---- every node with at least one point owns a non-empty arc ---- *)
Theorem c19_arc : forall (label : Type) (pts : label -> list N)
    (ls : list label) (r : list (@entry label)) (l : label),
  NoDup (all_points pts ls) -> is_ring pts ls r -> In l ls -> pts l <> [] ->
  exists h, In h (pts l) /\ lookup r h = Some l.
Proof. exact (@lookup_arc_nonempty). Qed.
Print Assumptions c19_arc.

(* "every node receives a share of any large key sample": what is provable without knowing MD5 is
   that node l owns, for each of its points p, the whole arc (previous ring point, p].  That these
   arcs add up to a share near 1/n, and that a key sample hits them, is a property of MD5's
   distribution: MEASURED by the harness (min/max share per node set), not proved. *)
Theorem c19_share_partial : forall (label : Type) (pts : label -> list N)
    (ls : list label) (r : list (@entry label)) (l : label) (p h : N),
  distinct_owners pts ls -> is_ring pts ls r -> In l ls -> In p (pts l) ->
  h <= p -> (forall q, In q (all_points pts ls) -> q < h \/ p <= q) ->
  lookup r h = Some l.
Proof. exact (@lookup_arc). Qed.
Print Assumptions c19_share_partial.

(* ---- the premise is necessary: with two labels sharing a point, two point-sorted rings of the
   same labels (listed in the two orders — or even in the same order, the sort being unstable)
   send the same hash to different nodes ---- *)
(* pts_collide_w 0 = [5; 9], pts_collide_w _ = [5; 7]  (KetamaProofs.v) *)
Theorem c19_order_independent_without_distinct_points_refuted :
  exists (ls ls' : list N) (r r' : list (N * N)) (h : N),
    Permutation ls ls' /\ is_ring pts_collide_w ls r /\ is_ring pts_collide_w ls' r' /\
    is_ring pts_collide_w ls r' /\ lookup r h <> lookup r' h.
Proof. exact collide_witness. Qed.
Print Assumptions c19_order_independent_without_distinct_points_refuted.

(* ---- with fixes/C19-ketama-tiebreak.patch (Less breaks ties on the label, [lle] = string order of
   labels, any partial order here) the premise disappears: order independence and removal hold for
   EVERY point function, colliding points included ---- *)
Theorem c19_order_independent_tiebreak : forall (label : Type) (pts : label -> list N)
    (lle : label -> label -> Prop),
  (forall a, lle a a) -> (forall a b c, lle a b -> lle b c -> lle a c) ->
  (forall a b, lle a b -> lle b a -> a = b) ->
  forall (ls ls' : list label) (r r' : list (@entry label)),
  (forall l, In l ls <-> In l ls') ->
  is_ring_tb pts lle ls r -> is_ring_tb pts lle ls' r' ->
  forall h, lookup r h = lookup r' h.
Proof. exact (@lookup_set_independent_tb). Qed.
Print Assumptions c19_order_independent_tiebreak.

Theorem c19_removal_tiebreak : forall (label : Type) (pts : label -> list N)
    (lle : label -> label -> Prop),
  (forall a, lle a a) -> (forall a b c, lle a b -> lle b c -> lle a c) ->
  (forall a b, lle a b -> lle b a -> a = b) ->
  forall (ls ls' : list label) (x : label) (r r' : list (@entry label)),
  (forall l, In l ls' <-> In l ls /\ l <> x) ->
  is_ring_tb pts lle ls r -> is_ring_tb pts lle ls' r' ->
  forall h, lookup r h <> Some x -> lookup r' h = lookup r h.
Proof. exact (@lookup_removal_tb). Qed.
Print Assumptions c19_removal_tiebreak.

(* non-vacuity: the colliding point function of the refutation has a tie-broken ring, the same for
   both listing orders *)
Example c19_nonvacuous_tiebreak :
  is_ring_tb pts_collide_w N.le [0; 1] [(5, 0); (5, 1); (7, 1); (9, 0)] /\
  is_ring_tb pts_collide_w N.le [1; 0] [(5, 0); (5, 1); (7, 1); (9, 0)] /\
  ~ is_ring_tb pts_collide_w N.le [0; 1] [(5, 1); (5, 0); (7, 1); (9, 0)].
Proof.
  repeat split.
  - vm_compute. perm_concrete.
  - repeat constructor; unfold le_entry; cbn [fst snd]; lia.
  - vm_compute. perm_concrete.
  - repeat constructor; unfold le_entry; cbn [fst snd]; lia.
  - intros [_ Hs]. inversion Hs as [|? ? _ Hhd]; subst. inversion Hhd as [|? ? Hle]; subst.
    unfold le_entry in Hle; cbn [fst snd] in Hle. lia.
Qed.

(* ---- non-vacuity: three nodes with two points each, all distinct ---- *)
Definition pts3 (l : N) : list N :=
  match l with 0 => [10; 50] | 1 => [30; 70] | 2 => [20; 60] | _ => [] end.
Definition ring3 : list (N * N) := [(10, 0); (20, 2); (30, 1); (50, 0); (60, 2); (70, 1)].
Definition ring3_without1 : list (N * N) := [(10, 0); (20, 2); (50, 0); (60, 2)].

Example c19_nonvacuous_premises :
  NoDup (all_points pts3 [0; 1; 2]) /\ distinct_owners pts3 [0; 1; 2] /\
  Permutation [0; 1; 2] [2; 0; 1] /\
  is_ring pts3 [0; 1; 2] ring3 /\ is_ring pts3 [2; 0; 1] ring3 /\ ring3 <> [] /\
  is_ring pts3 (remove N.eq_dec 1 [0; 1; 2]) ring3_without1 /\ pts3 1 <> [].
Proof.
  assert (Hn : NoDup (all_points pts3 [0; 1; 2])) by nodup_concrete.
  repeat split; try discriminate; auto using nodup_distinct_owners.
  - perm_concrete.
  - vm_compute. perm_concrete.
  - unfold ring3. sorted_concrete.
  - vm_compute. perm_concrete.
  - unfold ring3. sorted_concrete.
  - vm_compute. perm_concrete.
  - unfold ring3_without1. sorted_concrete.
Qed.

(* the lookup does something: an inner hash, an exact point, the wrap-around, and a removal that
   re-routes exactly the hashes node 1 owned *)
Example c19_nonvacuous_lookup :
  lookup ring3 25 = Some 1 /\ lookup ring3 30 = Some 1 /\ lookup ring3 31 = Some 0 /\
  lookup ring3 71 = Some 0 /\ lookup ring3 0 = Some 0 /\ lookup_bs ring3 71 = Some 0 /\
  lookup ring3_without1 25 = Some 0 /\ lookup ring3_without1 15 = lookup ring3 15 /\
  lookup ring3 15 = Some 2.
Proof. vm_compute. repeat split. Qed.

(* set through one handler, get through another whose node list was given in another order *)
Example c19_nonvacuous_set_get :
  h_get (fun k : N => k) ring3
    (h_set N.eq_dec N.eq_dec (fun k : N => k) ring3 (fun _ _ => None) 25 (7 : N)) 25 = Some 7.
Proof. vm_compute. reflexivity. Qed.

(* =====================================================================================================
   The CONCRETE ring.  cluster/MD5.v (RFC 1321 MD5 over byte strings), cluster/KetamaFloat.v (the float32
   / float64 computation of the round count `limit`, on the standard library's SpecFloat — the executable
   IEEE-754 specification Flocq's binary32/binary64 operations are built on) and cluster/KetamaConcrete.v
   instantiate the abstract point function: [ring_of ls] is the ring ketama.go builds for the labels ls
   (byte strings, weight 1 each), a function of the labels alone; [node_of ls key] = Continuum.Hash(key).
   Correspondence: sub-command c19k / checks/Check19K.v recompute real rings and lookups from the labels.
   ===================================================================================================== *)
From Coq Require Import String.
From Rend Require Import cluster.MD5 cluster.MD5Proofs cluster.KetamaFloat cluster.KetamaFloatProofs
  cluster.KetamaConcrete cluster.KetamaConcreteProofs.

(* ---- MD5 is MD5: the test suite of RFC 1321 §A.5 (messages of one, two and three blocks) ---- *)
Theorem c19_md5_vectors :
  md5 (asc "") = hx "d41d8cd98f00b204e9800998ecf8427e" /\
  md5 (asc "a") = hx "0cc175b9c0f1b6a831c399e269772661" /\
  md5 (asc "abc") = hx "900150983cd24fb0d6963f7d28e17f72" /\
  md5 (asc "message digest") = hx "f96b697d7cb7938d525a2f31aaf161d0" /\
  md5 (asc "abcdefghijklmnopqrstuvwxyz") = hx "c3fcd3d76192e4007dfb496cca67e13b" /\
  md5 (asc "ABCDEFGHIJKLMNOPQRSTUVWXYZabcdefghijklmnopqrstuvwxyz0123456789")
    = hx "d174ab98d277d9f5a5611c2c9f419d9f" /\
  md5 (asc "12345678901234567890123456789012345678901234567890123456789012345678901234567890")
    = hx "57edf4a22be3c955ac49da2e2107b67a".
Proof. exact md5_rfc1321_vectors. Qed.
Print Assumptions c19_md5_vectors.

(* the 32-bit wrap of the model is arithmetic modulo 2^32; a digest has 16 bytes and yields 4 points < 2^32 *)
Theorem c19_md5_shape : forall (m label : bytes) (k p : N),
  (forall a b, add32 a b = (a + b) mod 2^32) /\ List.length (md5 m) = 16%nat /\
  List.length (ketama_points label k) = 4%nat /\ (In p (ketama_points label k) -> p < 2^32).
Proof. exact md5_shape. Qed.
Print Assumptions c19_md5_shape.

(* ---- limit := int(float32(float64(float32(1)/float32(n)) * 40.0 * float64(n))) for n equal-weight nodes:
   40 rounds, except 39 at exactly the listed sizes (kernel-evaluated sweep over 1..4096) ---- *)
Theorem c19_limit_equal_weights : forall n : N, 1 <= n <= 4096 ->
  ketama_limit_eq n = (if existsb (N.eqb n) limit39_sizes then 39 else 40)
  /\ 39 <= ketama_limit_eq n <= 40
  /\ (ketama_limit_eq n = 39 <-> In n limit39_sizes)
  /\ (n <= 60 -> ketama_limit_eq n = 40).
Proof. exact limit_equal_weights_facts. Qed.
Print Assumptions c19_limit_equal_weights.

(* the list, spelled out: 61 is the first size with 156 points per node *)
Example c19_limit39_sizes :
  limit39_sizes =
  [61; 122; 237; 244; 474; 488; 933; 948; 951; 953; 976; 1699; 1813; 1829; 1831; 1837; 1866; 1896;
   1902; 1906; 1952; 1987; 2021; 2023; 3398; 3475; 3573; 3587; 3626; 3658; 3662; 3674; 3732; 3735;
   3775; 3792; 3804; 3812; 3843; 3903; 3904; 3907; 3923; 3925; 3971; 3974; 3995; 4007; 4039; 4042;
   4046; 4067; 4071] /\ ketama_limit_eq 61 = 39 /\ ketama_limit_eq 32 = 40.
Proof. repeat split; vm_compute; reflexivity. Qed.

(* unequal weights (not used by rend, whose Node.Weight() is 1): n <= 16 buckets with every weight in 1..8.
   A bucket of weight w in a list of total weight [total] gets floor(40*n*w/total) rounds, one less at the 4
   listed (n, w, total) = (11, 1|2|4|8, 55) — where 40*n*w is divisible by total — and never 0. *)
Theorem c19_limit_weighted : forall n w total : Z,
  (1 <= n <= 16)%Z -> (1 <= w <= 8)%Z -> (w + (n - 1) <= total <= w + 8 * (n - 1))%Z ->
  ketama_limit w total n =
    ((40 * n * w) / total - (if existsb (triple_eqb (n, w, total)) weighted_minus1 then 1 else 0))%Z
  /\ (1 <= ketama_limit w total n)%Z
  /\ ((40 * n * w) / total - 1 <= ketama_limit w total n <= (40 * n * w) / total)%Z
  /\ ((40 * n * w) mod total <> 0 -> ketama_limit w total n = (40 * n * w) / total)%Z.
Proof. exact limit_weighted. Qed.
Print Assumptions c19_limit_weighted.

(* the model is sensitive to the float32 steps: without the final conversion to float32 (seeded change C19)
   25, 29 and 31 nodes would get 39 rounds; with float64 throughout, 7, 14 and 28 *)
Theorem c19_limit_variants_differ :
  filter (fun n => negb (Z.eqb (ketama_limit_no_f32_round 1 n n) (ketama_limit 1 n n))) (zrange 1 32) = [25; 29; 31]%Z
  /\ filter (fun n => negb (Z.eqb (ketama_limit_all_f64 1 n n) (ketama_limit 1 n n))) (zrange 1 32) = [7; 14; 28]%Z.
Proof. exact limit_variants_differ. Qed.
Print Assumptions c19_limit_variants_differ.

(* ---- the concrete ring is a ring of the abstract model (so every theorem above applies to it) ---- *)
Theorem c19_concrete_ring : forall ls : list bytes,
  is_ring_tb (kpts (ketama_limit_eq (len ls))) bytes_le ls (ring_of ls)
  /\ is_ring (kpts (ketama_limit_eq (len ls))) ls (ring_of ls)
  /\ (forall a, bytes_le a a) /\ (forall a b c, bytes_le a b -> bytes_le b c -> bytes_le a c)
  /\ (forall a b, bytes_le a b -> bytes_le b a -> a = b) /\ (forall a b, bytes_le a b \/ bytes_le b a).
Proof. exact concrete_ring_facts. Qed.
Print Assumptions c19_concrete_ring.

(* conversely: whatever sorting algorithm produced it, a (point,label)-sorted permutation of the entries IS
   [ring_of ls] — the model's ring is the only one the fixed Less admits *)
Theorem c19_concrete_ring_unique : forall (ls : list bytes) (r : list (N * bytes)),
  is_ring_tb (kpts (ketama_limit_eq (len ls))) bytes_le ls r -> r = ring_of ls.
Proof. exact ring_of_unique. Qed.
Print Assumptions c19_concrete_ring_unique.

(* ---- every node gets ring points (the provable half of "every node receives a share"): with up to 4096
   equal-weight nodes each listed node owns 156 or 160 entries of the ring ---- *)
Theorem c19_every_node_has_points : forall (ls : list bytes) (l : bytes),
  1 <= len ls <= 4096 -> In l ls ->
  (len (kpts (ketama_limit_eq (len ls)) l) = 156 \/ len (kpts (ketama_limit_eq (len ls)) l) = 160)
  /\ exists p, In (p, l) (ring_of ls).
Proof. exact every_node_has_points. Qed.
Print Assumptions c19_every_node_has_points.

Theorem c19_concrete_ring_size : forall ls : list bytes,
  len (ring_of ls) = 4 * ketama_limit_eq (len ls) * len ls.
Proof. exact ring_of_length. Qed.
Print Assumptions c19_concrete_ring_size.

(* ---- order independence, concretely and without premise: the ring itself, hence the node of every key ---- *)
Theorem c19_concrete_order_independent : forall (ls ls' : list bytes),
  Permutation ls ls' ->
  ring_of ls' = ring_of ls /\ forall key, node_of ls' key = node_of ls key.
Proof. exact concrete_order_independent. Qed.
Print Assumptions c19_concrete_order_independent.

(* ---- removal locality, concretely: removing node x re-routes only x's keys — provided the round count is
   the same for both sizes, which is a theorem up to 60 nodes (and false from 61 to 60) ---- *)
Theorem c19_concrete_removal : forall (ls ls' : list bytes) (x key : bytes),
  (forall l, In l ls' <-> In l ls /\ l <> x) ->
  ketama_limit_eq (len ls') = ketama_limit_eq (len ls) ->
  node_of ls key <> Some x -> node_of ls' key = node_of ls key.
Proof. exact node_of_removal. Qed.
Print Assumptions c19_concrete_removal.

Theorem c19_concrete_removal_upto_60 : forall (ls ls' : list bytes) (x key : bytes),
  (forall l, In l ls' <-> In l ls /\ l <> x) ->
  1 <= len ls' -> len ls' <= 60 -> len ls <= 60 ->
  node_of ls key <> Some x -> node_of ls' key = node_of ls key.
Proof. exact node_of_removal_upto_60. Qed.
Print Assumptions c19_concrete_removal_upto_60.

(* what the correspondence check evaluates ([ring_of_w], explicit weights) is [ring_of] for weights 1 *)
Theorem c19_concrete_weights_one : forall ls : list bytes,
  len ls < 4294967296 -> ring_of_w (map (fun l => (l, 1)) ls) = ring_of ls.
Proof. exact ring_of_w_ones. Qed.
Print Assumptions c19_concrete_weights_one.

(* non-vacuity: a three-node ring computed from the labels alone (values as crypto/md5 gives them) *)
Example c19_nonvacuous_concrete :
  len (ring_of demo_labels) = 480
  /\ ketama_points (asc "10.0.0.1:11211") 0 = [1644766326; 266575842; 1549369152; 2004188753]
  /\ ring_of [asc "10.0.0.3:11211"; asc "10.0.0.1:11211"; asc "10.0.0.2:11211"] = ring_of demo_labels
  /\ node_of demo_labels (asc "hello") = node_of (rev demo_labels) (asc "hello")
  /\ node_of demo_labels (asc "hello") <> None.
Proof. exact demo_ring_facts. Qed.
