(* C19 — cluster routing is a stable function of the key and the node set.
   Nothing but statements closed by lemmas of cluster/KetamaProofs.v, and non-vacuity examples.

   Reading guide.  [pts : label -> list N] is the point function (in the code: MD5 of "<label>-<k>",
   four little-endian uint32 per digest) — arbitrary here.  [is_ring pts ls r]: r is a point-sorted
   permutation of the (point,label) pairs of the labels ls in list order — ANY such r, because
   sort.Sort is not stable.  [lookup r h] = Continuum.Bucket(h): label of the first entry with
   point >= h, wrapping to index 0; [lookup_bs] is the same written with sort.Search.
   Premise "ring points are distinct": [NoDup (all_points pts ls)]; the weaker [distinct_owners]
   (a point has one owning label) is enough and also covers a node list naming one address twice. *)
From Rend Require Import base.Bytes cluster.Ketama cluster.KetamaProofs.
From Coq Require Import Sorting.Permutation Sorting.Sorted.
Open Scope N_scope.

(* ---- the model's executable lookup is the binary search of the code, and meets its specification ---- *)
Theorem c19_lookup_is_search : forall (label : Type) (r : list (@entry label)) (h : N),
  Sorted le_point r -> lookup_bs r h = lookup r h.
Proof. exact (@lookup_bs_eq). Qed.
Print Assumptions c19_lookup_is_search.

Theorem c19_lookup_spec : forall (label : Type) (r : list (@entry label)) (h : N) (l : label),
  Sorted le_point r -> lookup r h = Some l -> owner_spec r h l.
Proof. exact (@lookup_sound). Qed.
Print Assumptions c19_lookup_spec.

(* ---- not on the order nodes were listed (nor on how the unstable sort broke ties) ---- *)
Theorem c19_order_independent : forall (label : Type) (pts : label -> list N)
    (ls ls' : list label) (r r' : list (@entry label)),
  NoDup (all_points pts ls) -> Permutation ls ls' ->
  is_ring pts ls r -> is_ring pts ls' r' ->
  forall h, lookup r h = lookup r' h.
Proof. exact (@lookup_order_independent). Qed.
Print Assumptions c19_order_independent.

(* stronger: only the SET of labels matters (repetitions allowed), under the weaker premise *)
Theorem c19_set_independent : forall (label : Type) (pts : label -> list N)
    (ls ls' : list label) (r r' : list (@entry label)),
  (forall l, In l ls <-> In l ls') -> distinct_owners pts ls ->
  is_ring pts ls r -> is_ring pts ls' r' ->
  forall h, lookup r h = lookup r' h.
Proof. exact (@lookup_set_independent). Qed.
Print Assumptions c19_set_independent.

(* ---- a set and a later get of the same key reach the same node, whichever connection asks:
   Set goes through a handler with continuum r, Get through a handler with its own continuum r'
   built from the same node set (any order); the get finds what the set stored ---- *)
Theorem c19_set_get : forall (label key val : Type) (pts : label -> list N)
    (label_eq_dec : forall a b : label, {a = b} + {a <> b})
    (key_eq_dec : forall a b : key, {a = b} + {a <> b})
    (hash : key -> N) (ls ls' : list label) (r r' : list (@entry label))
    (st : @cluster_state label key val) (k : key) (v : val),
  (forall l, In l ls <-> In l ls') -> distinct_owners pts ls ->
  is_ring pts ls r -> is_ring pts ls' r' -> r <> [] ->
  route hash r' k = route hash r k /\
  h_get hash r' (h_set label_eq_dec key_eq_dec hash r st k v) k = Some v.
Proof. exact (@set_then_get). Qed.
Print Assumptions c19_set_get.

(* same handler (same ring): no premise about points at all *)
Theorem c19_set_get_same_ring : forall (label key val : Type)
    (label_eq_dec : forall a b : label, {a = b} + {a <> b})
    (key_eq_dec : forall a b : key, {a = b} + {a <> b})
    (hash : key -> N) (r : list (@entry label)) (st : @cluster_state label key val) (k : key) (v : val),
  r <> [] -> h_get hash r (h_set label_eq_dec key_eq_dec hash r st k v) k = Some v.
Proof. exact (@set_then_get_same_ring). Qed.
Print Assumptions c19_set_get_same_ring.

(* ---- removing node x re-routes only the hashes x owned ---- *)
Theorem c19_removal : forall (label : Type) (pts : label -> list N)
    (label_eq_dec : forall a b : label, {a = b} + {a <> b})
    (ls : list label) (x : label) (r r' : list (@entry label)),
  NoDup (all_points pts ls) ->
  is_ring pts ls r -> is_ring pts (remove label_eq_dec x ls) r' ->
  forall h, lookup r h <> Some x -> lookup r' h = lookup r h.
Proof. exact (@lookup_removal). Qed.
Print Assumptions c19_removal.

Theorem c19_removal_set : forall (label : Type) (pts : label -> list N)
    (ls ls' : list label) (x : label) (r r' : list (@entry label)),
  (forall l, In l ls' <-> In l ls /\ l <> x) -> distinct_owners pts ls ->
  is_ring pts ls r -> is_ring pts ls' r' ->
  forall h, lookup r h <> Some x -> lookup r' h = lookup r h.
Proof. exact (@lookup_removal_gen). Qed.
Print Assumptions c19_removal_set.

(* ---- every node with at least one point owns a non-empty arc ---- *)
Theorem c19_arc : forall (label : Type) (pts : label -> list N)
    (ls : list label) (r : list (@entry label)) (l : label),
  NoDup (all_points pts ls) -> is_ring pts ls r -> In l ls -> pts l <> [] ->
  exists h, In h (pts l) /\ lookup r h = Some l.
Proof. exact (@lookup_arc_nonempty). Qed.
Print Assumptions c19_arc.

(* "every node receives a share of any large key sample": what is provable without knowing MD5 is
   that node l owns, for each of its points p, the whole arc (previous ring point, p].  That these
   arcs add up to a share near 1/n, and that a key sample hits them, is a property of MD5's
   distribution: MEASURED by the harness (min/max share per node set), not proved. *)
Theorem c19_share_partial : forall (label : Type) (pts : label -> list N)
    (ls : list label) (r : list (@entry label)) (l : label) (p h : N),
  distinct_owners pts ls -> is_ring pts ls r -> In l ls -> In p (pts l) ->
  h <= p -> (forall q, In q (all_points pts ls) -> q < h \/ p <= q) ->
  lookup r h = Some l.
Proof. exact (@lookup_arc). Qed.
Print Assumptions c19_share_partial.

(* ---- the premise is necessary: with two labels sharing a point, two point-sorted rings of the
   same labels (listed in the two orders — or even in the same order, the sort being unstable)
   send the same hash to different nodes ---- *)
(* pts_collide_w 0 = [5; 9], pts_collide_w _ = [5; 7]  (KetamaProofs.v) *)
Theorem c19_order_independent_without_distinct_points_refuted :
  exists (ls ls' : list N) (r r' : list (N * N)) (h : N),
    Permutation ls ls' /\ is_ring pts_collide_w ls r /\ is_ring pts_collide_w ls' r' /\
    is_ring pts_collide_w ls r' /\ lookup r h <> lookup r' h.
Proof. exact collide_witness. Qed.
Print Assumptions c19_order_independent_without_distinct_points_refuted.

(* ---- with fixes/C19-ketama-tiebreak.patch (Less breaks ties on the label, [lle] = string order of
   labels, any partial order here) the premise disappears: order independence and removal hold for
   EVERY point function, colliding points included ---- *)
Theorem c19_order_independent_tiebreak : forall (label : Type) (pts : label -> list N)
    (lle : label -> label -> Prop),
  (forall a, lle a a) -> (forall a b c, lle a b -> lle b c -> lle a c) ->
  (forall a b, lle a b -> lle b a -> a = b) ->
  forall (ls ls' : list label) (r r' : list (@entry label)),
  (forall l, In l ls <-> In l ls') ->
  is_ring_tb pts lle ls r -> is_ring_tb pts lle ls' r' ->
  forall h, lookup r h = lookup r' h.
Proof. exact (@lookup_set_independent_tb). Qed.
Print Assumptions c19_order_independent_tiebreak.

Theorem c19_removal_tiebreak : forall (label : Type) (pts : label -> list N)
    (lle : label -> label -> Prop),
  (forall a, lle a a) -> (forall a b c, lle a b -> lle b c -> lle a c) ->
  (forall a b, lle a b -> lle b a -> a = b) ->
  forall (ls ls' : list label) (x : label) (r r' : list (@entry label)),
  (forall l, In l ls' <-> In l ls /\ l <> x) ->
  is_ring_tb pts lle ls r -> is_ring_tb pts lle ls' r' ->
  forall h, lookup r h <> Some x -> lookup r' h = lookup r h.
Proof. exact (@lookup_removal_tb). Qed.
Print Assumptions c19_removal_tiebreak.

(* non-vacuity: the colliding point function of the refutation has a tie-broken ring, the same for
   both listing orders *)
Example c19_nonvacuous_tiebreak :
  is_ring_tb pts_collide_w N.le [0; 1] [(5, 0); (5, 1); (7, 1); (9, 0)] /\
  is_ring_tb pts_collide_w N.le [1; 0] [(5, 0); (5, 1); (7, 1); (9, 0)] /\
  ~ is_ring_tb pts_collide_w N.le [0; 1] [(5, 1); (5, 0); (7, 1); (9, 0)].
Proof.
  repeat split.
  - vm_compute. perm_concrete.
  - repeat constructor; unfold le_entry; cbn [fst snd]; lia.
  - vm_compute. perm_concrete.
  - repeat constructor; unfold le_entry; cbn [fst snd]; lia.
  - intros [_ Hs]. inversion Hs as [|? ? _ Hhd]; subst. inversion Hhd as [|? ? Hle]; subst.
    unfold le_entry in Hle; cbn [fst snd] in Hle. lia.
Qed.

(* ---- non-vacuity: three nodes with two points each, all distinct ---- *)
Definition pts3 (l : N) : list N :=
  match l with 0 => [10; 50] | 1 => [30; 70] | 2 => [20; 60] | _ => [] end.
Definition ring3 : list (N * N) := [(10, 0); (20, 2); (30, 1); (50, 0); (60, 2); (70, 1)].
Definition ring3_without1 : list (N * N) := [(10, 0); (20, 2); (50, 0); (60, 2)].

Example c19_nonvacuous_premises :
  NoDup (all_points pts3 [0; 1; 2]) /\ distinct_owners pts3 [0; 1; 2] /\
  Permutation [0; 1; 2] [2; 0; 1] /\
  is_ring pts3 [0; 1; 2] ring3 /\ is_ring pts3 [2; 0; 1] ring3 /\ ring3 <> [] /\
  is_ring pts3 (remove N.eq_dec 1 [0; 1; 2]) ring3_without1 /\ pts3 1 <> [].
Proof.
  assert (Hn : NoDup (all_points pts3 [0; 1; 2])) by nodup_concrete.
  repeat split; try discriminate; auto using nodup_distinct_owners.
  - perm_concrete.
  - vm_compute. perm_concrete.
  - unfold ring3. sorted_concrete.
  - vm_compute. perm_concrete.
  - unfold ring3. sorted_concrete.
  - vm_compute. perm_concrete.
  - unfold ring3_without1. sorted_concrete.
Qed.

(* the lookup does something: an inner hash, an exact point, the wrap-around, and a removal that
   re-routes exactly the hashes node 1 owned *)
Example c19_nonvacuous_lookup :
  lookup ring3 25 = Some 1 /\ lookup ring3 30 = Some 1 /\ lookup ring3 31 = Some 0 /\
  lookup ring3 71 = Some 0 /\ lookup ring3 0 = Some 0 /\ lookup_bs ring3 71 = Some 0 /\
  lookup ring3_without1 25 = Some 0 /\ lookup ring3_without1 15 = lookup ring3 15 /\
  lookup ring3 15 = Some 2.
Proof. vm_compute. repeat split. Qed.

(* set through one handler, get through another whose node list was given in another order *)
Example c19_nonvacuous_set_get :
  h_get (fun k : N => k) ring3
    (h_set N.eq_dec N.eq_dec (fun k : N => k) ring3 (fun _ _ => None) 25 (7 : N)) 25 = Some 7.
Proof. vm_compute. reflexivity. Qed.
