(* C15 — the accept loop (server.ListenAndServe, model server/Listen.v): a connection's end (EOF
   before the first byte, or the end of its server loop) closes exactly the two handlers constructed
   for it, which were open until then, and nothing of any other connection; when all accepted
   connections are closed no handler is open. The loop with l1/l2 hoisted out of the iteration does
   not have the property. Nothing but statements closed by lemmas. *)
From Rend Require Import base.Bytes server.Listen server.ListenProofs.
Open Scope N_scope.

(* for ALL well-formed event sequences from the initial state; is_close_of c e := e = EClose c \/ e = EEOF0 c *)
Theorem c15_close_releases_own :
  forall evs, wf evs = true ->
  forall pre e post c, evs = pre ++ e :: post -> is_close_of c e ->
  exists h1 h2,
    (* the pair constructed at c's accept *)
    In (EAccept c, OMade h1 h2) (trace pre) /\
    (* was open at every point from its construction until now *)
    (forall p1 p2, pre = p1 ++ p2 -> In (EAccept c, OMade h1 h2) (trace p1) ->
                   In h1 (open (st p1)) /\ In h2 (open (st p1))) /\
    (* is what the event closes *)
    snd (step (st pre) e) = OClosed [h1; h2] /\
    (* and nothing else changes in the set of open handlers *)
    (forall h, In h (open (st (pre ++ [e]))) <-> In h (open (st pre)) /\ h <> h1 /\ h <> h2) /\
    (* in particular no handler of another connection is closed *)
    (forall c' h1' h2', c' <> c -> In (EAccept c', OMade h1' h2') (trace pre) ->
       (In h1' (open (st (pre ++ [e]))) <-> In h1' (open (st pre))) /\
       (In h2' (open (st (pre ++ [e]))) <-> In h2' (open (st pre)))).
Proof. exact close_releases_own_step. Qed.
Print Assumptions c15_close_releases_own.

Theorem c15_all_closed_none_open :
  forall evs, wf evs = true ->
  (forall c, In (EAccept c) evs -> In (EClose c) evs \/ In (EEOF0 c) evs) ->
  open (st evs) = [].
Proof. exact all_closed_none_open_step. Qed.
Print Assumptions c15_all_closed_none_open.

(* the same statement as c15_close_releases_own about the loop whose closures share the hoisted
   variables l1, l2 is false *)
Theorem c15_shared_refuted :
  ~ (forall evs, wf evs = true ->
     forall pre e post c, evs = pre ++ e :: post -> is_close_of c e ->
     exists h1 h2,
       In (EAccept c, OMade h1 h2) (trace_shared pre) /\
       (forall p1 p2, pre = p1 ++ p2 -> In (EAccept c, OMade h1 h2) (trace_shared p1) ->
                      In h1 (open (st_shared p1)) /\ In h2 (open (st_shared p1))) /\
       snd (step_shared (st_shared pre) e) = OClosed [h1; h2] /\
       (forall h, In h (open (st_shared (pre ++ [e]))) <-> In h (open (st_shared pre)) /\ h <> h1 /\ h <> h2) /\
       (forall c' h1' h2', c' <> c -> In (EAccept c', OMade h1' h2') (trace_shared pre) ->
          (In h1' (open (st_shared (pre ++ [e]))) <-> In h1' (open (st_shared pre))) /\
          (In h2' (open (st_shared (pre ++ [e]))) <-> In h2' (open (st_shared pre))))).
Proof. exact close_releases_own_shared_false. Qed.
Print Assumptions c15_shared_refuted.

(* non-vacuity: closes in an order different from the accept order; the open set after every prefix *)
Example c15b_nonvacuous :
  let evs := [EAccept 7; EAccept 3; EAccept 9; EEOF0 3; EFirstByte 9; EFirstByte 7; ERequest 9; EClose 7; EClose 9] in
  wf evs = true /\
  map snd (trace evs) = [OMade 0 1; OMade 2 3; OMade 4 5; OClosed [2; 3]; ONone; ONone; OReq 4 5; OClosed [0; 1]; OClosed [4; 5]] /\
  open (st (firstn 3 evs)) = [0; 1; 2; 3; 4; 5] /\ open (st (firstn 4 evs)) = [0; 1; 4; 5] /\
  open (st (firstn 8 evs)) = [4; 5] /\ open (st evs) = [].
Proof. vm_compute. repeat split; reflexivity. Qed.
(* the defective loop on the witness of the refutation: connection 1's EOF closes connection 2's
   handlers, connection 1's own stay open for ever *)
Example c15b_shared_witness :
  wf shared_bad15 = true /\
  trace_shared shared_bad15 = [(EAccept 1, OMade 0 1); (EAccept 2, OMade 2 3); (EEOF0 1, OClosed [2; 3])] /\
  open (st_shared shared_bad15) = [0; 1] /\
  open (st_shared (shared_bad15 ++ [EFirstByte 2; EClose 2])) = [0; 1] /\
  trace shared_bad15 = [(EAccept 1, OMade 0 1); (EAccept 2, OMade 2 3); (EEOF0 1, OClosed [0; 1])].
Proof. vm_compute. repeat split; reflexivity. Qed.
