(* C04 — chunked storage is transparent. Statements only; proofs in handlers/ChunkedProofs.v. *)
From Rend Require Import base.Bytes gen.Consts_gen spec.MapSpec orca.Types handlers.ChunkFmt handlers.Chunked
  handlers.ChunkedSpec handlers.ChunkedProofs.
Open Scope N_scope.

(* distinct client keys never share a backend entry *)
Theorem c04_chunk_key_injective : forall k k' i j,
  i < 18446744073709551616 -> j < 18446744073709551616 ->
  chunk_key k i = chunk_key k' j -> k = k' /\ i = j.
Proof. exact chunk_key_injective. Qed.
Print Assumptions c04_chunk_key_injective.
Theorem c04_meta_key_injective : forall k k', meta_key k = meta_key k' -> k = k'.
Proof. exact meta_key_injective. Qed.
Theorem c04_meta_not_chunk : forall k k' j, j < 18446744073709551616 -> meta_key k <> chunk_key k' j.
Proof. exact meta_not_chunk. Qed.
Print Assumptions c04_meta_not_chunk.

(* the metadata record survives encoding *)
Theorem c04_meta_roundtrip : forall m,
  m_length m < 4294967296 -> m_flags m < 4294967296 -> m_nchunks m < 4294967296 -> m_csize m < 4294967296 ->
  m_instime m < 4294967296 -> m_exptime m < 4294967296 -> len (m_token m) = tokenSize ->
  dec_meta (enc_meta m) = m.
Proof. exact meta_roundtrip. Qed.
Print Assumptions c04_meta_roundtrip.

(* splitting into zero-padded chunks and reassembling by arrival order gives the value back,
   for every length (0, on and around every chunk boundary, any number of chunks) *)
Theorem c04_reassemble : forall (ds : N) (d tok : bytes) md,
  0 < ds -> len tok = tokenSize ->
  m_length md = len d -> m_csize md = ds -> m_nchunks md = num_chunks (len d) ds ->
  let vals := map (fun c => tok ++ c) (chunks ds d) in
  assemble md 0 vals ++ zeros (m_length md - len (assemble md 0 vals)) = d.
Proof. exact reassemble. Qed.
Print Assumptions c04_reassemble.

(* set then get through the chunking backend returns exactly the bytes and flags written,
   from any prior backend contents, for every key of 1..250 bytes *)
Theorem c04_roundtrip : forall s now tok cnow k d f ttl opq q,
  1 <= len k <= 250 -> len tok = tokenSize -> len d < 4294967296 -> f < 4294967296 ->
  cnow < 4294967296 -> ttl < 4294967296 -> cnow + ttl < 4294967296 ->
  snd (c_exptime cnow ttl) = false ->
  alive now (mkE [] 0 (norm now ttl)) = true ->
  let '(s1, r1) := brun (chunked_set tok cnow MSet k d f ttl) s now in
  r1 = HDone /\
  brun (chunked_get [mkGI k opq q] []) s1 now = (s1, HVals [mkGR k d f 0 opq q false] None).
Proof. exact set_get_roundtrip. Qed.
Print Assumptions c04_roundtrip.

(* an operation on key k only ever reads or writes backend entries derived from k *)
Theorem c04_confinement : forall tok cnow q s now bq bk,
  In bq (btrace (chunked_prog tok cnow q) s now) -> key_of bq = Some bk ->
  exists k, In k (hreq_keys q) /\ derived k bk.
Proof. exact confinement. Qed.
Print Assumptions c04_confinement.

(* a delete that succeeded leaves no entry of that key readable *)
Theorem c04_delete_unreadable : forall s now k s' opq q,
  brun (chunked_delete k) s now = (s', HDone) ->
  brun (chunked_get [mkGI k opq q] []) s' now = (s', HVals [mkGR k [] 0 0 opq q true] None).
Proof. exact delete_unreadable. Qed.
Print Assumptions c04_delete_unreadable.

(* non-vacuity *)
Example c04_nonvacuous :
  let k := [107; 101; 121] in let d := repeat 7 2500 in let tok := repeat 9 16 in
  1 <= len k <= 250 /\ len tok = tokenSize /\ snd (c_exptime 1000 0) = false /\
  snd (brun (chunked_get [mkGI k 1 false] [])
            (fst (brun (chunked_set tok 1000 MSet k d 5 0) empty_store 1000)) 1000)
  = HVals [mkGR k d 5 0 1 false false] None.
Proof. vm_compute. repeat split; discriminate. Qed.
