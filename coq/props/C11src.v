(* C11 / C12 / C15 — source-level tie for the per-connection server loop: the decisions of
   DefaultServer.Loop (/repo/server/default.go) and abort (/repo/server/utils.go), extracted from
   their source on every run (gen/Loop_gen.v [loop_src], by `rendharness looptrans`), are the
   decisions of the hand-written loop models that C11, C12, C15, C01 and C10 are stated about.
   Nothing but statements closed by lemmas (gen/LoopLink.v, proto/LoopShapeProofs.v).

   Reading guide: [loop_shape] (proto/LoopShape.v) records, after dropping metrics, timers and
   logging: the body of the deferred recover handler, the errors after which a Parse error lets the
   loop continue and what either branch does, what every case of `switch reqType` calls, the rule
   applied to the orchestrator's error, and the loops of abort. [sh_*] is the loop DRIVEN by such a
   shape; it is defined (Some) only where every branch involved is one of the recognised forms and
   all ways through it agree. The theorems say: the model function = the loop driven by the shape
   read from the source.

   Not covered (no model definition represents it; see proto/LoopShapeProofs.v): which error a
   PClose of the parser models stands for; s.conns as a list of three closers (listen.go); panics
   inside the recover handler / abort themselves (their helper calls — identifyPanic, err.Error —
   are recorded with the operations that could panic, and assumed to return); panics of Parse. *)
From Coq Require Import String.
From Rend Require Import base.Bytes gen.Consts_gen spec.MapSpec orca.Types handlers.Std orca.Orcas orca.Faults
  proto.Resp proto.ReqCommon proto.Stream proto.BinReq proto.TextReq proto.LoopShape proto.LoopShapeProofs
  gen.Loop_gen gen.Orcas_gen gen.OrcasLink gen.LoopLink gen.OrcasGetLink gen.LoopGetLink.
From Rend Require server.Listen.
Open Scope N_scope.

(* the extracted shape is the one the models assume *)
Theorem c11_src_loop_shape : loop_src = loop_model.
Proof. exact loop_src_link. Qed.
Print Assumptions c11_src_loop_shape.

(* (1) a Parse error: the source answers with Error(nil, RequestUnknown, err) and continues for
   the four client errors, aborts and returns for every other numbered error ... *)
Theorem c11_src_parse_error_rule : forall e,
  sh_on_parse_error loop_src e =
  if existsb (N.eqb e) [EBadRequest; EBadLength; EBadFlags; EBadExptime]
  then Some ([PError 0 RtUnknown e false], Open) else Some ([], Closed).
Proof. exact src_parse_error. Qed.
Print Assumptions c11_src_parse_error_rule.

Theorem c11_src_continues_iff : forall e,
  (exists cs, sh_on_parse_error loop_src e = Some (cs, Open)) <->
  In e [EBadRequest; EBadLength; EBadFlags; EBadExptime].
Proof. exact src_continues_iff. Qed.
Print Assumptions c11_src_continues_iff.

(* ... and for an error without a number (io.EOF, short read, bad magic) *)
Theorem c11_src_parse_other_closes : sh_on_parse_other loop_src = Some Closed.
Proof. exact src_parse_other. Qed.
Print Assumptions c11_src_parse_other_closes.

(* the parser models classify as "client error, loop continues" (PClientErr) only errors the
   source continues after; the binary parser model never does *)
Theorem c11_src_client_errs :
  (forall s e rest, fst (parse_text s) = PClientErr e rest ->
     exists cs, sh_on_parse_error loop_src e = Some (cs, Open)) /\
  (forall s e rest, fst (parse_bin s) <> PClientErr e rest).
Proof.
  exact (conj (fun s e rest H => proj2 (src_continues_iff e) (proj1 src_client_errs s e rest H))
              (bin_no_client_err true)).
Qed.
Print Assumptions c11_src_client_errs.

(* the loop of C11 (proto/ReqCommon.v serve_loop, the subject of c11_never_spins_*, c11_ends_closed)
   is the loop driven by the extracted shape, for both parsers *)
Theorem c11_src_serve_loop : forall fuel s,
  sh_serve_loop loop_src parse_text fuel s = Some (serve_loop parse_text fuel s) /\
  sh_serve_loop loop_src parse_bin fuel s = Some (serve_loop parse_bin fuel s).
Proof.
  exact (fun fuel s => conj (src_serve_loop parse_text (proj1 src_client_errs) fuel s)
                            (src_serve_loop parse_bin (proj2 src_client_errs) fuel s)).
Qed.
Print Assumptions c11_src_serve_loop.

(* (2) the switch sends every request to the orchestrator method named after its type, with the
   request itself: over the methods translated by orctrans it is the dispatcher of gen/OrcasLink.v
   (the subject of the c01_src theorems) *)
Theorem c11_src_dispatch : forall r,
  sh_dispatch loop_src l1only_ms r = Some (l1only_src r) /\
  sh_dispatch loop_src l1l2_ms r = Some (l1l2_src r) /\
  sh_dispatch loop_src l1l2batch_ms r = Some (l1l2batch_src r).
Proof. exact src_dispatch. Qed.
Print Assumptions c11_src_dispatch.

(* ... and with Get / GetE translated too (gen/OrcasGetLink.v, the subject of c01_src_full): the
   loop hands them the request itself; only Noop/Quit/Version/Stat/Unknown stay hand-modelled *)
Theorem c11_src_dispatch_full : forall r,
  sh_dispatch loop_src l1only_msg r = Some (l1only_srcg r) /\
  sh_dispatch loop_src l1l2_msg r = Some (l1l2_srcg r) /\
  sh_dispatch loop_src l1l2batch_msg r = Some (l1l2batch_srcg r).
Proof. exact src_dispatch_full. Qed.
Print Assumptions c11_src_dispatch_full.

(* (2)+(3) after the method returned e: Quit closes whatever it returned; otherwise no error ->
   next iteration, an application error (common.IsAppError) -> Error(request, reqType, err) and
   next iteration, any other error -> abort *)
Theorem c11_src_after_dispatch : forall r e,
  sh_after loop_src r e =
  Some (match r with
        | RQuit _ _ => ([], Closed)
        | _ => match e with
               | None => ([], Open)
               | Some err => if is_app_error err
                             then ([PError (req_opaque r) (rtype r) err (req_quiet r)], Open)
                             else ([], Closed)
               end
        end).
Proof. exact src_after. Qed.
Print Assumptions c11_src_after_dispatch.

(* orca/Orcas.v serve1 (C01, C02, C10, C15) is one iteration of the loop driven by the shape *)
Theorem c11_src_serve1 : forall h1 h2 orca r l1 l2 now,
  sh_serve1 loop_src h1 h2 orca r l1 l2 now = Some (serve1 h1 h2 orca r l1 l2 now).
Proof. exact src_serve1. Qed.
Print Assumptions c11_src_serve1.

(* the same read off serve1 itself: after an orchestrator error the connection stays open iff it
   is an application error; quit closes *)
Theorem c11_src_error_rule_model : forall h1 h2 orca r l1 l2 now err,
  rtype r <> RtQuit ->
  snd (run h1 h2 (orca r) l1 l2 now) = Some err ->
  (snd (serve1 h1 h2 orca r l1 l2 now) = Open <-> is_app_error err = true).
Proof. exact serve1_error_rule. Qed.
Print Assumptions c11_src_error_rule_model.

Theorem c11_src_quit_closes_model : forall h1 h2 orca o q l1 l2 now,
  snd (serve1 h1 h2 orca (RQuit o q) l1 l2 now) = Closed.
Proof. exact serve1_quit_closes. Qed.
Print Assumptions c11_src_quit_closes_model.

(* (4) a panic underneath: every way through the source's recover handler runs abort and none
   re-panics, whatever the panic value (only the log lines depend on it) — which is what
   orca/Faults.v serve1_f does with FPanicked, and serve1_f as a whole is one iteration of the loop
   driven by the shape under every fault plan *)
Theorem c12_src_panic_closes : forall pl orca r st now,
  snd (run_f pl (orca r) st now) = FPanicked ->
  sh_on_panic loop_src = Some (snd (serve1_f pl orca r st now)) /\ snd (serve1_f pl orca r st now) = Closed.
Proof.
  exact (fun pl orca r st now H => conj (src_panic_closes pl orca r st now H) (serve1_f_panic_closes pl orca r st now H)).
Qed.
Print Assumptions c12_src_panic_closes.

Theorem c12_src_serve1_f : forall pl orca r st now,
  sh_serve1_f loop_src pl orca r st now = Some (serve1_f pl orca r st now).
Proof. exact src_serve1_f. Qed.
Print Assumptions c12_src_serve1_f.

(* the byte-level connection of C15 (proto/Stream.v serve_stream) is the loop driven by the shape *)
Theorem c15_src_serve_stream : forall orca fuel s l1 l2 now,
  sh_serve_stream loop_src Text parse_text orca fuel s l1 l2 now = Some (serve_stream Text parse_text orca fuel s l1 l2 now) /\
  sh_serve_stream loop_src Bin parse_bin orca fuel s l1 l2 now = Some (serve_stream Bin parse_bin orca fuel s l1 l2 now).
Proof.
  exact (fun orca fuel s l1 l2 now => conj (src_serve_stream_text orca fuel s l1 l2 now) (src_serve_stream_bin orca fuel s l1 l2 now)).
Qed.
Print Assumptions c15_src_serve_stream.

(* (5) abort reaches its loop on every way and the loop closes every non-nil closer: of the open
   handles exactly those not among the closers stay open *)
Theorem c15_src_abort_closes_all : forall closers opened,
  exists rest, sh_abort_open loop_src closers opened = Some rest /\
    (forall h, In h closers -> ~ In h rest) /\
    (forall h, In h rest <-> In h opened /\ ~ In h closers).
Proof. exact src_abort_closes_all. Qed.
Print Assumptions c15_src_abort_closes_all.

(* server/Listen.v abort (C15b: the end of Loop / EOF before the first byte) is that function on
   the connection's two backend handlers: both are closed, the connection is marked Closed *)
Theorem c15_src_abort_listen : forall s c r hs,
  sh_abort_open loop_src [fst hs; snd hs] (Listen.open s) = Some (Listen.open (fst (Listen.abort s c r hs))) /\
  Listen.lookup c (Listen.conns (fst (Listen.abort s c r hs))) =
    Some (Listen.mkConn Listen.Closed (Listen.c_made r) (Listen.c_srv r)) /\
  ~ In (fst hs) (Listen.open (fst (Listen.abort s c r hs))) /\
  ~ In (snd hs) (Listen.open (fst (Listen.abort s c r hs))).
Proof. exact src_abort_listen. Qed.
Print Assumptions c15_src_abort_listen.

(* ---- non-vacuity ---- *)
(* each of the four client errors is reported by the text parser model on some input *)
Example c11_src_four_occur :
  fst (parse_text (asc "get" ++ crlf)) = PClientErr EBadRequest [] /\
  fst (parse_text (asc "set k x 0 1" ++ crlf)) = PClientErr EBadFlags [] /\
  fst (parse_text (asc "set k 0 x 1" ++ crlf)) = PClientErr EBadExptime [] /\
  fst (parse_text (asc "set k 0 0 x" ++ crlf)) = PClientErr EBadLength [].
Proof. vm_compute. repeat split. Qed.

(* the shape-driven loop tells shapes apart: the seeded changes of /verif/seeded (a recover handler
   that returns early for io.EOF, an abort skipped for a bare io.EOF after dispatch), an error
   list without ErrBadLength, Add dispatched to Set, a Quit case that does not abort, an abort
   that returns before its loop — none of them is the model *)
Open Scope string_scope.
Definition with_recover (b : list lstep) : loop_shape :=
  mkLoop (RHandler b) (ls_parse loop_model) (ls_parse_rule loop_model) (ls_dispatch loop_model) (ls_default loop_model)
         (ls_unhandled loop_model) (ls_post_rule loop_model) (ls_extra loop_model) (ls_abort loop_model) (ls_helpers loop_model).
Definition with_post (q : post_rule) : loop_shape :=
  mkLoop (ls_recover loop_model) (ls_parse loop_model) (ls_parse_rule loop_model) (ls_dispatch loop_model) (ls_default loop_model)
         (ls_unhandled loop_model) q (ls_extra loop_model) (ls_abort loop_model) (ls_helpers loop_model).
Definition with_parse_rule (p : perr_rule) : loop_shape :=
  mkLoop (ls_recover loop_model) (ls_parse loop_model) p (ls_dispatch loop_model) (ls_default loop_model)
         (ls_unhandled loop_model) (ls_post_rule loop_model) (ls_extra loop_model) (ls_abort loop_model) (ls_helpers loop_model).
Definition with_dispatch (d : list dcase) : loop_shape :=
  mkLoop (ls_recover loop_model) (ls_parse loop_model) (ls_parse_rule loop_model) d (ls_default loop_model)
         (ls_unhandled loop_model) (ls_post_rule loop_model) (ls_extra loop_model) (ls_abort loop_model) (ls_helpers loop_model).
Definition with_abort (a : abort_shape) : loop_shape :=
  mkLoop (ls_recover loop_model) (ls_parse loop_model) (ls_parse_rule loop_model) (ls_dispatch loop_model) (ls_default loop_model)
         (ls_unhandled loop_model) (ls_post_rule loop_model) (ls_extra loop_model) a (ls_helpers loop_model).

Example c11_src_discriminates :
  (* seeded C12-2 *)
  sh_on_panic (with_recover [KIf "r == io.EOF" [KReturn] []; KHelper "identifyPanic"; KAbort]) = None /\
  (* seeded F06 *)
  sh_after (with_post (QRule TIsAppError [KError ErrReqType] [KIf "err != io.EOF" [KAbort] []; KReturn]))
           (RDelete [1] 0) (Some EIO) = None /\
  (* a re-panicking handler, a missing handler *)
  sh_on_panic (with_recover [KAbort; KPanic]) = None /\
  sh_on_panic (mkLoop RMissing PParse PRuleMissing [] None [] QRuleMissing [] (mkAbort [] CloseMissing []) []) = None /\
  (* ErrBadLength no longer continues *)
  sh_on_parse_error (with_parse_rule (PRule [EBadRequest; EBadFlags; EBadExptime] [KError ErrNilUnknown; KContinue] [KAbort; KReturn]))
                    EBadLength = Some ([], Closed) /\
  sh_on_parse_error loop_src EBadLength = Some ([PError 0 RtUnknown EBadLength false], Open) /\
  sh_on_parse_error loop_src EInternal = Some ([], Closed) /\
  (* case common.RequestAdd: err = s.orca.Set(...) *)
  sh_after (with_dispatch [DCase RtAdd [KCall OSet (AReqAs "SetRequest") true]]) (RSet MAdd [1] [2] 0 0 0 false) None = None /\
  (* a Quit case without abort; a case whose result is not assigned to err *)
  sh_after (with_dispatch [DCase RtQuit [KCall OQuit (AReqAs "QuitRequest") false; KReturn]]) (RQuit 0 false) None = None /\
  sh_after (with_dispatch [DCase RtNoop [KCall ONoop (AReqAs "NoopRequest") false]]) (RNoop 0) None = None /\
  (* abort that may return before closing; abort that stops at the first closer *)
  sh_abort_open (with_abort (mkAbort [KIf "err == io.EOF" [KReturn] []] CloseAllNonNil [])) [1] [1; 2] = None /\
  sh_abort_open (with_abort (mkAbort [] (CloseOther "for _, c := range toClose[:1] { ... }") [])) [1] [1; 2] = None /\
  sh_abort_open loop_src [1; 3] [1; 2; 3; 4] = Some [2; 4].
Proof. vm_compute. repeat split. Qed.
