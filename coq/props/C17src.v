(* C17 — source-level tie: entry.isExpired of /repo/handlers/inmem, translated from its source on
   every run (gen/Funcs_gen.v) with the clock reading as a parameter, IS the model's [expired].
   Nothing but statements closed by lemmas. *)
From Rend Require Import base.Bytes gen.GoSem gen.Funcs_gen gen.FuncsLink handlers.Inmem.
Open Scope N_scope.
Theorem c17_src_isExpired : forall now e, isExpired_src now (r_exp e) (r_flags e) = expired now e.
Proof. exact isExpired_src_eq. Qed.
Print Assumptions c17_src_isExpired.
Example c17_src_nonvacuous : isExpired_src 1700000005 1700000004 0 = true /\ isExpired_src 1700000005 1700000005 0 = false /\ isExpired_src 1700000005 0 0 = false.
Proof. vm_compute. repeat split. Qed.
