(* C14 — the accept loop (server.ListenAndServe, model server/Listen.v): one handler pair per client
   connection, every request of a connection is carried by the pair constructed at its accept, pairs
   of different connections are disjoint; the loop with l1/l2 hoisted out of the iteration does not
   have the property. Nothing but statements closed by lemmas. *)
From Rend Require Import base.Bytes server.Listen server.ListenProofs.
Open Scope N_scope.

(* for ALL well-formed event sequences from the initial state *)
Theorem c14_own_handlers :
  (* every request of connection c is carried by exactly the handler pair constructed at c's accept *)
  (forall evs, wf evs = true ->
   forall pre c post, evs = pre ++ ERequest c :: post ->
   exists h1 h2, In (EAccept c, OMade h1 h2) (trace pre) /\ snd (step (st pre) (ERequest c)) = OReq h1 h2)
  /\
  (* a connection has one pair of two different handlers; pairs of different connections are disjoint *)
  (forall evs, wf evs = true ->
   forall c c' h1 h2 h1' h2',
     In (EAccept c, OMade h1 h2) (trace evs) -> In (EAccept c', OMade h1' h2') (trace evs) ->
     h1 <> h2 /\ (c = c' -> h1 = h1' /\ h2 = h2') /\
     (c <> c' -> h1 <> h1' /\ h1 <> h2' /\ h2 <> h1' /\ h2 <> h2')).
Proof. exact c14_own_handlers_lemma. Qed.
Print Assumptions c14_own_handlers.

(* the same statement about the loop whose closures share the hoisted variables l1, l2 is false *)
Theorem c14_shared_refuted :
  ~ (forall evs, wf evs = true ->
     forall pre c post, evs = pre ++ ERequest c :: post ->
     exists h1 h2, In (EAccept c, OMade h1 h2) (trace_shared pre) /\
                   snd (step_shared (st_shared pre) (ERequest c)) = OReq h1 h2).
Proof. exact own_handlers_shared_false. Qed.
Print Assumptions c14_shared_refuted.

(* non-vacuity: an interleaving of three connections; each request names the connection's own pair *)
Example c14b_nonvacuous :
  let evs := [EAccept 7; EAccept 3; EFirstByte 3; EAccept 9; ERequest 3; EFirstByte 7; ERequest 7; EEOF0 9;
              ERequest 3; EClose 3; ERequest 7; EClose 7] in
  wf evs = true /\
  trace evs = [(EAccept 7, OMade 0 1); (EAccept 3, OMade 2 3); (EFirstByte 3, ONone); (EAccept 9, OMade 4 5);
               (ERequest 3, OReq 2 3); (EFirstByte 7, ONone); (ERequest 7, OReq 0 1); (EEOF0 9, OClosed [4; 5]);
               (ERequest 3, OReq 2 3); (EClose 3, OClosed [2; 3]); (ERequest 7, OReq 0 1); (EClose 7, OClosed [0; 1])].
Proof. vm_compute. split; reflexivity. Qed.
(* the defective loop on the witness of the refutation: connection 1's request is carried by connection 2's pair *)
Example c14b_shared_witness :
  wf shared_bad14 = true /\
  trace_shared shared_bad14 = [(EAccept 1, OMade 0 1); (EAccept 2, OMade 2 3); (EFirstByte 1, ONone); (ERequest 1, OReq 2 3)] /\
  trace shared_bad14 = [(EAccept 1, OMade 0 1); (EAccept 2, OMade 2 3); (EFirstByte 1, ONone); (ERequest 1, OReq 0 1)].
Proof. vm_compute. repeat split; reflexivity. Qed.
(* ill-formed sequences exist (wf is not constantly true) *)
Example c14b_wf_rejects : wf [EAccept 1; ERequest 1] = false /\ wf [EAccept 1; EAccept 1] = false /\ wf [EAccept 1; EEOF0 1; EFirstByte 1] = false.
Proof. vm_compute. repeat split; reflexivity. Qed.
