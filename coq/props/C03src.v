(* C03 — source-level tie for the locking wrapper: the lock discipline of /repo/orcas/locked.go,
   extracted from its source on every run (gen/Locked_gen.v, by `rendharness locktrans`), IS the
   discipline that the lock LTS of C03/C12/C14 (conc/LockInst.v [sections_of]) and the sequential
   model of the wrapper (orca/Orcas.v [locked]) are built on. Nothing but statements closed by
   lemmas (gen/LockedLink.v, conc/LockShapeProofs.v).
   Reading guide (types: conc/LockShape.v): [locked_src m] = the shape extracted from method m;
   LSingle key mode acquire release call = one lock for the whole method; LPerKey ... = one lock per
   key inside `for idx, key := range req.Keys`; LNone = no lock. [sec_locks slot_of mr secs] = the
   (lock index, exclusive?) pairs the sections take, in order; [sub_gets] = the single-key
   sub-requests of a get (noop fields on the last one only); [shape_plan sh r] = the (key, write?,
   request for the wrapped orchestrator) list a shape prescribes for r; [acq_exclusive] follows an
   acquisition mode through getlock, the constructor and getNewLocks. *)
From Coq Require Import String.
From Rend Require Import base.Bytes gen.Consts_gen spec.MapSpec orca.Types handlers.Std orca.Orcas
  proto.Resp orca.OrcaSpec conc.LockLTS conc.LockExec conc.LockInst conc.LockShape
  gen.Locked_gen gen.LockedLink.
Open Scope N_scope.

(* every request method: the shape read off the source is the shape the models assume *)
Theorem c03_src_lock_discipline : forall m, locked_src m = locked_model m.
Proof. exact locked_src_link. Qed.
Print Assumptions c03_src_lock_discipline.

(* set, add, replace, append, prepend, delete, touch, gat: the source takes the WRITE lock of the
   request's own key for the whole method (Lock right after getlock, deferred Unlock) and calls
   the same method of the wrapped orchestrator with the same request; the LTS has exactly one
   section for it, exclusive in both reader modes, on lock_slot of that key, whose body is the
   wrapped orchestrator's program for r; sequentially the wrapper is the wrapped orchestrator *)
Theorem c03_src_write_sections : forall now k c multi_reader r key,
  req_key r = Some key ->
  locked_src (method_of r) = LSingle KeyOfReq ModeWrite AcquireBeforeCall ReleaseDeferred CallSame /\
  sections_of now k r = [mkSec key true (to_cprog_gen now (is_one k) key (base_orca k r) [])] /\
  sec_locks (lock_slot c) multi_reader (sections_of now k r) = [(lock_slot c key, true)] /\
  locked (base_orca k) r = base_orca k r.
Proof. exact src_write_sections. Qed.
Print Assumptions c03_src_write_sections.

(* get / gete of k1..kn: the source takes, per key and in order, the READ lock of that key, calls
   the same method with the single-key sub-request, unlocks BEFORE the error check, and its panic
   handler unlocks and re-panics; the LTS has n sections in the order of the keys, the i-th on
   lock_slot ki, shared in multi-reader mode and exclusive otherwise, with the wrapped
   orchestrator's program for the i-th sub-request as body *)
Theorem c03_src_get_sections : forall now k c multi_reader (gete : bool) items no ne,
  let r := if gete then RGetE items no ne else RGet items no ne in
  locked_src (method_of r) =
    LPerKey KeyOfLoop ModeRead AcquireBeforeCall ReleaseBeforeErrCheck CallPerKeySub (PanicHandler true true) StopOnError /\
  sec_locks (lock_slot c) multi_reader (sections_of now k r) =
    map (fun it => (lock_slot c (gi_key it), negb multi_reader)) items /\
  map (fun s => (s_key s, s_write s)) (sections_of now k r) = map (fun it => (gi_key it, false)) items /\
  map (@s_prog cell sres) (sections_of now k r) =
    map (fun kq => to_cprog_gen now (is_one k) (fst kq) (base_orca k (snd kq)) []) (sub_gets gete items no ne).
Proof. exact src_get_sections. Qed.
Print Assumptions c03_src_get_sections.

(* noop, quit, version, stat, unknown: no lock in the source, no section in the LTS, and the
   wrapper is the wrapped orchestrator *)
Theorem c03_src_passthrough : forall now k r,
  req_key r = None -> req_gets r = None ->
  locked_src (method_of r) = LNone CallSame /\ sections_of now k r = [] /\ forall w, locked w r = w r.
Proof. exact src_passthrough. Qed.
Print Assumptions c03_src_passthrough.

(* all requests at once: both hand-written models are what the SOURCE shape of the request's
   method prescribes — the sections of the LTS are its plan, the sequential wrapper is its plan
   run in order, stopping at the first error *)
Theorem c03_src_models_follow_source : forall now k w r,
  option_map (plan_sections now k) (shape_plan (locked_src (method_of r)) r) = Some (sections_of now k r) /\
  shape_prog w (locked_src (method_of r)) r = Some (locked w r).
Proof. exact (fun now k w r => conj (src_sections_follow_plan now k r) (src_locked_follows_shape w r)). Qed.
Print Assumptions c03_src_models_follow_source.

(* the lock set: with getlock, Locked / LockedWithExisting and getNewLocks as the source has them,
   a write section excludes everybody, a read section excludes everybody unless the lock set is
   multi-reader — the LTS's [exclusive] — and the lock index is [lock_slot] *)
Theorem c03_src_lockset :
  getlock_src = getlock_model /\ ctor_Locked_src = ctor_new_model /\
  ctor_LockedWithExisting_src = ctor_existing_model /\ getNewLocks_src = newlocks_model.
Proof. exact lockset_src_link. Qed.
Print Assumptions c03_src_lockset.

Theorem c03_src_lockset_exclusive : forall (C R : Type) multi_reader (s : section C R),
  acq_exclusive getNewLocks_src ctor_Locked_src getlock_src multi_reader (if s_write s then ModeWrite else ModeRead)
    = Some (exclusive C R multi_reader s) /\
  acq_exclusive getNewLocks_src ctor_LockedWithExisting_src getlock_src multi_reader (if s_write s then ModeWrite else ModeRead)
    = Some (exclusive C R multi_reader s) /\
  shape_slot getNewLocks_src ctor_Locked_src getlock_src = Some lock_slot /\
  shape_slot getNewLocks_src ctor_LockedWithExisting_src getlock_src = Some lock_slot.
Proof. exact src_lockset. Qed.
Print Assumptions c03_src_lockset_exclusive.

(* non-vacuity: a three-key get on 16 locks in multi-reader mode takes three shared locks in the
   order of the keys (two of the keys share a lock), only the last sub-request carries the noop;
   a set takes one exclusive lock; the shapes are not the catch-all constructor; and a shape that
   differs from the source's (gat under the read lock) prescribes different sections *)
Example c03_src_nonvacuous :
  let items := [mkGI [1] 7 false; mkGI [2] 8 true; mkGI [17] 9 false] in
  sec_locks (lock_slot 4) true (sections_of 0 KL1L2 (RGet items 5 true)) = [(12, false); (5, false); (12, false)] /\
  map snd (sub_gets false items 5 true) = [RGet [mkGI [1] 7 false] 0 false; RGet [mkGI [2] 8 true] 0 false; RGet [mkGI [17] 9 false] 5 true] /\
  sec_locks (lock_slot 4) true (sections_of 0 KL1L2 (RSet MSet [1] [10] 0 0 0 false)) = [(12, true)] /\
  sec_locks (lock_slot 4) false (sections_of 0 KL1L2 (RGet items 5 true)) = [(12, true); (5, true); (12, true)] /\
  (forall m, match locked_src m with LOther _ => False | _ => True end) /\
  locked_src LMSet <> locked_src LMGet /\ locked_src LMGet <> locked_src LMNoop /\ locked_src LMNoop <> locked_src LMSet /\
  option_map (plan_sections 0 KL1L2)
     (shape_plan (LSingle KeyOfReq ModeRead AcquireBeforeCall ReleaseDeferred CallSame) (RGat [1] 0 0))
    <> Some (sections_of 0 KL1L2 (RGat [1] 0 0)).
Proof.
  cbv zeta.
  split; [vm_compute; reflexivity|]. split; [vm_compute; reflexivity|].
  split; [vm_compute; reflexivity|]. split; [vm_compute; reflexivity|].
  split; [intros m; destruct m; exact I|].
  split; [discriminate|]. split; [discriminate|]. split; [discriminate|].
  cbn [shape_plan req_key mode_write option_map plan_sections map sections_of]. intros H. inversion H.
Qed.
