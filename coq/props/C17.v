(* C17 — the in-memory debug backend (handlers/inmem) is functionally the reference map, and its
   reads do not write. Nothing but statements closed by lemmas of handlers/InmemProofs.v.
   The model (handlers/Inmem.v) is the code AFTER /verif/fixes/C17-inmem.patch; the code before
   it violates the first four statements (handlers/InmemOld.v, lemmas *_refuted).

   PARTIAL (stated, not hidden): "can be used by any number of connections concurrently without
   corrupting data or terminating the process" is about the Go memory model and the Go runtime's
   map-fault detector, neither of which exists in this Gallina model. What is proved here is the
   discipline that makes it true for a map behind a sync.RWMutex: reads execute no map statement
   (c17_reads_readonly) and every step that executes one holds the write lock
   (c17_writes_under_write_lock); together with Go's RWMutex guarantee (writers exclusive) the
   handler calls are then serialised per write and the sequential theorem applies to the order
   of lock acquisition. The harness's concurrent tier (child process, 2..32 goroutines, also
   under the race detector) observes the rest. *)
From Coq Require Import String.
From Rend Require Import base.Bytes gen.Consts_gen spec.MapSpec orca.Types handlers.Std
  handlers.Inmem handlers.InmemProofs.
Open Scope N_scope.

(* For every history of handler calls [(now, request)] starting from the empty map — clock
   readings non-decreasing and now + ttl < 2^32 ([hist_ok]; the first IS needed: the code
   removes an entry it finds expired while the reference keeps it, so only a clock running
   backwards could tell them apart; the second is uint32 exptime arithmetic) — the model of the
   handler returns, command by command,
   (1) the outcome class of the reference map [gspec_step inmem_norm] (stored/exists/miss, and for
       get/gat/gete per key hit-or-miss with data and flags);
   (2) exactly [ref_result], i.e. the error code this backend uses for the class (ErrKeyExists /
       ErrKeyNotFound) and, for the get family, every field of every response computed from the
       REFERENCE store: key, opaque, quiet echoed in order, data and flags of the live entry, and
       for GetE the exptime field = the raw absolute second of the reference deadline ([dl_raw]:
       0 for never; the code returns the stored exptime, not a remaining TTL);
   (3) a final state whose abstraction has the same live entries as the reference store at
       every second from the last clock reading on.
   The reference is instantiated with the backend's OWN TTL rule [inmem_norm] (TTLs always
   relative, no 30-day rule, alive during the second exptime = now), not memcached's [norm]:
   TTL fidelity is C09's subject, not C17's. *)
Theorem c17_refines_spec : forall h : list (N * hreq),
  hist_ok 0 h ->
  map outcome_of (snd (inmem_run cempty h)) = snd (gspec_run inmem_norm empty_store (hist_cmds h))
  /\ snd (inmem_run cempty h) = snd (ref_run empty_store h)
  /\ live_eq (last_now 0 h) (abs (fst (inmem_run cempty h)))
             (fst (gspec_run inmem_norm empty_store (hist_cmds h))).
Proof. exact inmem_refines_spec. Qed.
Print Assumptions c17_refines_spec.

(* the same, for one command from any related pair of states (the simulation step) *)
Theorem c17_step_simulation : forall st s now q,
  now + ttl_of q < two32 -> live_eq now (abs st) s ->
  live_eq now (abs (fst (inmem_exec st now q))) (fst (gspec_step inmem_norm s now (cmd_of q)))
  /\ snd (inmem_exec st now q) = ref_result s now q
  /\ outcome_of (snd (inmem_exec st now q)) = snd (gspec_step inmem_norm s now (cmd_of q)).
Proof. exact sim_step. Qed.
Print Assumptions c17_step_simulation.

(* an add on a live key fails with ErrKeyExists, executes no map statement, leaves the state as it is *)
Theorem c17_add_existing : forall st now k d f ttl e,
  st k = Some e -> expired now e = false ->
  inmem_step st now (HSet MAdd k d f ttl) = mkStep LWrite [] (HErr EKeyExists)
  /\ inmem_exec st now (HSet MAdd k d f ttl) = (st, HErr EKeyExists).
Proof. exact inmem_add_existing. Qed.
Print Assumptions c17_add_existing.

(* a delete of a missing or expired key reports not-found; of a live key succeeds and removes it *)
Theorem c17_delete_missing : forall st now k,
  lookup st now k = None -> snd (inmem_exec st now (HDelete k)) = HErr EKeyNotFound.
Proof. exact inmem_delete_missing. Qed.
Print Assumptions c17_delete_missing.
Theorem c17_delete_live : forall st now k e,
  lookup st now k = Some e ->
  snd (inmem_exec st now (HDelete k)) = HDone /\ fst (inmem_exec st now (HDelete k)) k = None.
Proof. exact inmem_delete_live. Qed.
Print Assumptions c17_delete_live.

(* an expired entry behaves as an absent one: every command gives the same result as on the
   state without it, and the two resulting states have the same live entries ever after *)
Theorem c17_expired_absent : forall st now k e q,
  st k = Some e -> expired now e = true -> now + ttl_of q < two32 ->
  snd (inmem_exec st now q) = snd (inmem_exec (cdel st k) now q)
  /\ live_eq now (abs (fst (inmem_exec st now q))) (abs (fst (inmem_exec (cdel st k) now q))).
Proof. exact inmem_expired_absent. Qed.
Print Assumptions c17_expired_absent.

(* Get and GetE execute no map statement, in every state, for every key list; they take the
   read lock; the state after is the state before *)
Theorem c17_reads_readonly : forall st now items,
  (inmem_step st now (HGet items)).(s_ops) = [] /\ (inmem_step st now (HGet items)).(s_lock) = LRead /\
  (inmem_step st now (HGetE items)).(s_ops) = [] /\ (inmem_step st now (HGetE items)).(s_lock) = LRead /\
  wrote (inmem_step st now (HGet items)) = false /\ wrote (inmem_step st now (HGetE items)) = false /\
  fst (inmem_exec st now (HGet items)) = st /\ fst (inmem_exec st now (HGetE items)) = st.
Proof. exact inmem_reads_readonly. Qed.
Print Assumptions c17_reads_readonly.

(* every step that executes a map statement holds the write lock *)
Theorem c17_writes_under_write_lock : forall st now q,
  wrote (inmem_step st now q) = true -> s_lock (inmem_step st now q) = LWrite.
Proof. exact inmem_writes_locked. Qed.
Print Assumptions c17_writes_under_write_lock.

(* ---- non-vacuity ---- *)
Definition ka := asc "a".
Definition demo : list (N * hreq) :=
  [ (1000, HSet MSet ka (asc "x") 7 5);          (* exptime 1005 *)
    (1000, HSet MAdd ka (asc "y") 1 0);          (* exists *)
    (1001, HCat false ka (asc "z"));
    (1005, HGetE [mkGI ka 9 true]);              (* still alive during second 1005 *)
    (1006, HGet [mkGI ka 0 false]);              (* expired *)
    (1006, HDelete ka);                          (* not found *)
    (1006, HSet MAdd ka (asc "w") 2 0);          (* stored over the expired entry *)
    (1007, HGat ka 10 3);
    (1007, HDelete ka);
    (1007, HTouch ka 0) ].

(* the hypotheses are satisfiable and the history exercises every outcome class *)
Example c17_nonvacuous_history :
  hist_ok 0 demo /\
  snd (inmem_run cempty demo) =
    [ HDone; HErr EKeyExists; HDone;
      HVals [mkGR ka (asc "xz") 7 1005 9 true false] None;
      HVals [mkGR ka [] 0 0 0 false true] None;
      HErr EKeyNotFound; HDone;
      HVals [mkGR ka (asc "w") 2 0 3 false false] None;
      HDone; HErr EKeyNotFound ].
Proof. split; [cbn; unfold two32; lia | vm_compute; reflexivity]. Qed.

(* the premises of c17_add_existing / c17_expired_absent / c17_delete_missing are inhabited *)
Example c17_nonvacuous_states :
  let st := apply_ops cempty [MPut ka (mkRaw 1005 7 (asc "x"))] in
  (st ka = Some (mkRaw 1005 7 (asc "x")) /\ expired 1005 (mkRaw 1005 7 (asc "x")) = false) /\
  expired 1006 (mkRaw 1005 7 (asc "x")) = true /\
  lookup st 1006 ka = None /\ lookup cempty 1000 ka = None /\
  (* and a write step does write: the lock theorem's premise is inhabited *)
  wrote (inmem_step st 1000 (HDelete ka)) = true.
Proof. vm_compute. repeat split. Qed.
