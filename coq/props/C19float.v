(* C19float — the float32/float64 computation of ketama.go's `limit`, which props/C19.v sweeps on the standard
   library's SpecFloat (axiom-free), is the computation on Flocq 4.1's IEEE-754 binary32/binary64 values:

     limit := int(float32(float64(float32(w) / float32(total)) * 40.0 * float64(n)))

   [ketama_limit_flocq] (cluster/KetamaFloatFlocq.v): float32(u)/float64(i) = binary_normalize mode_NE,
   / = Bdiv mode_NE on binary_float 24 128, * = Bmult mode_NE on binary_float 53 1024, float64(x)/float32(x) =
   binary_normalize mode_NE of the signed mantissa (CompCert's Bconv), int(x) = Btrunc.
   This theorem — and in C19 only this one — depends on the standard library's axioms for the real numbers and
   classical logic (ClassicalDedekindReals.sig_not_dec, ClassicalDedekindReals.sig_forall_dec,
   FunctionalExtensionality.functional_extensionality_dep, Classical_Prop.classic), because Flocq's operations
   carry proofs about real numbers inside their definitions. *)
From Coq Require Import ZArith.
From Rend Require Import cluster.KetamaFloat cluster.KetamaFloatFlocq cluster.KetamaFloatFlocqProofs.

Theorem c19_float_limit_is_flocq : forall w total n : Z,
  ketama_limit_flocq w total n = ketama_limit w total n.
Proof. exact ketama_limit_flocq_eq. Qed.
Print Assumptions c19_float_limit_is_flocq.
