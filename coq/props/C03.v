(* C03 — under the locking wrapper concurrent commands on one key are atomic.
   Statements only; proofs in conc/LockProofs.v. *)
From Rend Require Import base.Bytes gen.Consts_gen spec.MapSpec orca.Types handlers.Std orca.Orcas
  proto.Resp orca.OrcaSpec conc.LockLTS conc.LockInst conc.LockProofs.
Open Scope N_scope.

(* Generic: ANY number of threads, ANY programs made of good sections, ANY schedule, ANY lock
   striping function, single- and multi-reader mode. When all commands have completed, every
   section returned exactly what the reference map returns when the sections are executed one
   at a time in the order of their linearization points (acquisition of a write section,
   release of a read section — both inside the section's own invoke/return window), and every
   cell is consistent and equal to the reference map. *)
Theorem c03_linearizable_generic :
  forall (Cell Res V : Type) (slot_of : bytes -> N) (multi_reader : bool)
         (cinv : Cell -> Prop) (absv : Cell -> V)
         (wspec : section Cell Res -> V -> V * Res) (rspec : section Cell Res -> V -> Res)
         (st0 st : state Cell Res) (ls : list (label Cell Res)),
  initial Cell Res st0 -> all_good Cell Res V cinv absv wspec rspec st0 ->
  (forall k, cinv (cells Cell Res st0 k)) ->
  exec Cell Res slot_of multi_reader true st0 ls st -> no_panic Cell Res ls -> quiescent Cell Res st ->
  let '(m, out) := lin_replay Cell Res V wspec rspec ls (fun k => absv (cells Cell Res st0 k)) in
  (forall t, observed Cell Res ls t = predicted Res out t) /\
  (forall k, cinv (cells Cell Res st k) /\ absv (cells Cell Res st k) = m k).
Proof. exact linearizable_generic. Qed.
Print Assumptions c03_linearizable_generic.

(* The real orchestrators. Two-tier deployments (L1/L2 on the main port, the batch-port
   orchestrator on the same lock set): every section LockedOrca builds for an in-scope request
   is good w.r.t. the single-map reference, the invariant being [cinv] (the L1 copy, if any, has
   L2's value and flags and does not outlive it). *)
Theorem c03_orca_sections_good : forall now k r s,
  k <> KL1Only -> in_scope k r = true -> In s (sections_of now k r) ->
  good_section cell sres (option entry) (cinv now) (absv now)
               (fun s v => ref_sec now s v) (fun s v => snd (ref_sec now s v)) s.
Proof. exact orca_sections_good. Qed.
Print Assumptions c03_orca_sections_good.

(* One-tier deployment (L1Only): its only backend is the second component of the cell; the
   invariant [cinv1] says the unused first component stays empty (with a stale non-empty first
   component [cinv] alone is not preserved by a one-tier delete). *)
Theorem c03_orca_sections_good_one : forall now r s,
  in_scope KL1Only r = true -> In s (sections_of now KL1Only r) ->
  good_section cell sres (option entry) cinv1 (absv now)
               (fun s v => ref_sec now s v) (fun s v => snd (ref_sec now s v)) s.
Proof. exact orca_sections_good_one. Qed.
Print Assumptions c03_orca_sections_good_one.

(* ... so every concurrent history of connections on the main and the batch port sharing one
   lock set is linearizable w.r.t. the single map, and afterwards L1 holds nothing that
   differs from L2 (cinv = the L1 copy, if any, has L2's value and flags and does not outlive it) *)
Theorem c03_linearizable : forall now slot_of multi_reader (st0 st : state cell sres) ls,
  initial cell sres st0 ->
  (forall t todo done c s, thr cell sres st0 t = TIdle cell sres todo done -> In c todo -> In s c ->
     exists k r, k <> KL1Only /\ in_scope k r = true /\ In s (sections_of now k r)) ->
  (forall k, cinv now (cells cell sres st0 k)) ->
  exec cell sres slot_of multi_reader true st0 ls st -> no_panic cell sres ls -> quiescent cell sres st ->
  let '(m, out) := lin_replay cell sres (option entry) (fun s v => ref_sec now s v)
                     (fun s v => snd (ref_sec now s v)) ls (fun k => absv now (cells cell sres st0 k)) in
  (forall t, observed cell sres ls t = predicted sres out t) /\
  (forall k, cinv now (cells cell sres st k) /\ absv now (cells cell sres st k) = m k).
Proof. exact linearizable_orcas. Qed.
Print Assumptions c03_linearizable.

(* the same for the one-tier deployment *)
Theorem c03_linearizable_one : forall now slot_of multi_reader (st0 st : state cell sres) ls,
  initial cell sres st0 ->
  (forall t todo done c s, thr cell sres st0 t = TIdle cell sres todo done -> In c todo -> In s c ->
     exists r, in_scope KL1Only r = true /\ In s (sections_of now KL1Only r)) ->
  (forall k, cinv1 (cells cell sres st0 k)) ->
  exec cell sres slot_of multi_reader true st0 ls st -> no_panic cell sres ls -> quiescent cell sres st ->
  let '(m, out) := lin_replay cell sres (option entry) (fun s v => ref_sec now s v)
                     (fun s v => snd (ref_sec now s v)) ls (fun k => absv now (cells cell sres st0 k)) in
  (forall t, observed cell sres ls t = predicted sres out t) /\
  (forall k, cinv1 (cells cell sres st k) /\ absv now (cells cell sres st k) = m k).
Proof. exact linearizable_orcas_one. Qed.
Print Assumptions c03_linearizable_one.

(* the reference of a section is the single map: the section run on a cold L1 writes the client
   the same bytes, and leaves the same value, as the one-tier orchestrator on a one-key map *)
Theorem c03_ref_is_single_map : forall now k r key v,
  in_scope k r = true -> req_key r = Some key ->
  let s := mkSec key true (to_cprog_gen now (is_one k) key (base_orca k r) []) in
  let '(s', _, cs0, e0) := run std_exec std_exec (l1only r) (single key v) empty_store now in
  ref_sec now s v = (live now s' key, (render_all Bin cs0, render_all Text cs0, e0)).
Proof. exact ref_is_single_map. Qed.
Print Assumptions c03_ref_is_single_map.

(* without the wrapper the same programs are NOT atomic: two concurrent sets on one key can
   leave L1 and L2 with different values *)
Theorem c03_unlocked_refuted : exists now slot_of (st0 st : state cell sres) ls,
  initial cell sres st0 /\ (forall k, cinv now (cells cell sres st0 k)) /\
  exec cell sres slot_of true false st0 ls st /\ quiescent cell sres st /\
  exists k, ~ cinv now (cells cell sres st k).
Proof. exact unlocked_refuted. Qed.
Print Assumptions c03_unlocked_refuted.

(* non-vacuity: two connections setting the same key through L1/L2 satisfy the premises of
   c03_linearizable (it is the initial state of the refutation above) *)
Example c03_premises_satisfiable :
  initial cell sres ur_st0 /\ (forall k, cinv 0 (cells cell sres ur_st0 k)) /\
  (forall t todo done c s, thr cell sres ur_st0 t = TIdle cell sres todo done -> In c todo -> In s c ->
     exists k r, k <> KL1Only /\ in_scope k r = true /\ In s (sections_of 0 k r)) /\
  exists c s, thr cell sres ur_st0 0%nat = TIdle cell sres [c] [] /\ In s c.
Proof.
  split. { intros [|[|t]]; eexists; reflexivity. }
  split. { intros k e1 E. discriminate E. }
  split.
  - intros [|[|t]] todo done c s E Ic Is; cbn in E; inversion E; subst; clear E.
    + destruct Ic as [<-|[]]. destruct Is as [<-|[]].
      exists KL1L2, (RSet MSet [1] [10] 0 0 0 false). split; [discriminate|]. split; [reflexivity|left; reflexivity].
    + destruct Ic as [<-|[]]. destruct Is as [<-|[]].
      exists KL1L2, (RSet MSet [1] [20] 0 0 0 false). split; [discriminate|]. split; [reflexivity|left; reflexivity].
    + destruct Ic.
  - exists [ur_sec [10]], (ur_sec [10]). split; [reflexivity|left; reflexivity].
Qed.
