(* C03 — under the locking wrapper concurrent commands on one key are atomic.
   Statements only; proofs in conc/LockProofs.v. *)
From Rend Require Import base.Bytes gen.Consts_gen spec.MapSpec orca.Types handlers.Std orca.Orcas
  proto.Resp orca.OrcaSpec conc.LockLTS conc.LockInst conc.LockProofs.
Open Scope N_scope.

(* Generic: ANY number of threads, ANY programs made of good sections, ANY schedule, ANY lock
   striping function, single- and multi-reader mode. When all commands have completed, every
   section returned exactly what the reference map returns when the sections are executed one
   at a time in the order of their linearization points (acquisition of a write section,
   release of a read section — both inside the section's own invoke/return window), and every
   cell is consistent and equal to the reference map. *)
Theorem c03_linearizable_generic :
  forall (Cell Res V : Type) (slot_of : bytes -> N) (multi_reader : bool)
         (cinv : Cell -> Prop) (absv : Cell -> V)
         (wspec : section Cell Res -> V -> V * Res) (rspec : section Cell Res -> V -> Res)
         (st0 st : state Cell Res) (ls : list (label Cell Res)),
  initial Cell Res st0 -> all_good Cell Res V cinv absv wspec rspec st0 ->
  (forall k, cinv (cells Cell Res st0 k)) ->
  exec Cell Res slot_of multi_reader true st0 ls st -> no_panic Cell Res ls -> quiescent Cell Res st ->
  let '(m, out) := lin_replay Cell Res V wspec rspec ls (fun k => absv (cells Cell Res st0 k)) in
  (forall t, observed Cell Res ls t = predicted Res out t) /\
  (forall k, cinv (cells Cell Res st k) /\ absv (cells Cell Res st k) = m k).
Proof. exact linearizable_generic. Qed.
Print Assumptions c03_linearizable_generic.

(* The real orchestrators: every section LockedOrca builds for an in-scope request of the
   L1-only, L1/L2 or batch-port orchestrator is good w.r.t. the single-map reference ... *)
Theorem c03_orca_sections_good : forall now k r s,
  in_scope k r = true -> In s (sections_of now k r) ->
  good_section cell sres (option entry) (cinv now) (absv now)
               (fun s v => ref_sec now s v) (fun s v => snd (ref_sec now s v)) s.
Proof. exact orca_sections_good. Qed.
Print Assumptions c03_orca_sections_good.

(* ... so every concurrent history of connections on the main and the batch port sharing one
   lock set is linearizable w.r.t. the single map, and afterwards L1 holds nothing that
   differs from L2 (cinv = the L1 copy, if any, has L2's value and flags and does not outlive it) *)
Theorem c03_linearizable : forall now slot_of multi_reader (st0 st : state cell sres) ls,
  initial cell sres st0 ->
  (forall t todo done c s, thr cell sres st0 t = TIdle cell sres todo done -> In c todo -> In s c ->
     exists k r, in_scope k r = true /\ In s (sections_of now k r)) ->
  (forall k, cinv now (cells cell sres st0 k)) ->
  exec cell sres slot_of multi_reader true st0 ls st -> no_panic cell sres ls -> quiescent cell sres st ->
  let '(m, out) := lin_replay cell sres (option entry) (fun s v => ref_sec now s v)
                     (fun s v => snd (ref_sec now s v)) ls (fun k => absv now (cells cell sres st0 k)) in
  (forall t, observed cell sres ls t = predicted sres out t) /\
  (forall k, cinv now (cells cell sres st k) /\ absv now (cells cell sres st k) = m k).
Proof. exact linearizable_orcas. Qed.
Print Assumptions c03_linearizable.

(* the reference of a section is the single map: the section run on a cold L1 writes the client
   the same bytes, and leaves the same value, as the one-tier orchestrator on a one-key map *)
Theorem c03_ref_is_single_map : forall now k r key v,
  in_scope k r = true -> req_key r = Some key ->
  let s := mkSec key true (to_cprog_gen now (is_one k) key (base_orca k r) []) in
  let '(s', _, cs0, e0) := run std_exec std_exec (l1only r) (single key v) empty_store now in
  ref_sec now s v = (live now s' key, (render_all Bin cs0, render_all Text cs0, e0)).
Proof. exact ref_is_single_map. Qed.
Print Assumptions c03_ref_is_single_map.

(* without the wrapper the same programs are NOT atomic: two concurrent sets on one key can
   leave L1 and L2 with different values *)
Theorem c03_unlocked_refuted : exists now slot_of (st0 st : state cell sres) ls,
  initial cell sres st0 /\ (forall k, cinv now (cells cell sres st0 k)) /\
  exec cell sres slot_of true false st0 ls st /\ quiescent cell sres st /\
  exists k, ~ cinv now (cells cell sres st k).
Proof. exact unlocked_refuted. Qed.
