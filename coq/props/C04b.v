(* C04 (continued) / C09 for the chunked handler — every chunked command refines the reference
   map on the abstraction of the backend store, and keeps the store well-formed; every backend
   entry of a readable key carries the reference map's deadline.
   Statements only; proofs in handlers/ChunkedRefProofs.v. *)
From Rend Require Import base.Bytes gen.Consts_gen spec.MapSpec orca.Types handlers.ChunkFmt handlers.Chunked
  handlers.ChunkedSpec handlers.ChunkedRefProofs.
Open Scope N_scope.

Definition hcmd (q : hreq) : option cmd :=
  match q with
  | HSet m k d f ttl => Some (CSet m k d f ttl)
  | HCat fr k d => Some (CCat fr k d)
  | HDelete k => Some (CDelete k)
  | HTouch k ttl => Some (CTouch k ttl)
  | HGet items => Some (CGet (map gi_key items))
  | HGat k ttl _ => Some (CGat k ttl)
  | HGetE _ => None
  end.
(* the outcome class a handler result stands for *)
Definition hres_outcome (q : hreq) (r : hres) : option outcome :=
  match r with
  | HDone => Some OOk
  | HErr e => if e =? EKeyExists then Some OExists
              else if (e =? EKeyNotFound) || (e =? EItemNotStored) then Some OMiss else None
  | HVals rs None => Some (OVals (map (fun g => if g_miss g then None else Some (g_data g, g_flags g)) rs))
  | HVals _ (Some _) => None
  end.

(* Every command of the chunking backend, from any well-formed backend state, for keys of
   1..250 bytes and every value length: the result is what ONE map holding the abstraction of
   the backend returns, the new backend abstracts to the new map (pointwise on what is live),
   and well-formedness is kept — in particular every entry of a readable key carries exactly the
   deadline the map prescribes (set/add/replace/touch/gat: norm now ttl; append/prepend/get: unchanged). *)
Theorem c04_refines_spec : forall tok cnow now st q c,
  wf_store st now -> call_ok tok cnow now q ->
  (* append/prepend: the concatenated value still fits the 32-bit length field of the metadata *)
  cat_fits st now q ->
  hcmd q = Some c ->
  (* gat leaves the expiry recorded inside the metadata stale (known finding): excluded here *)
  (forall k ttl o, q <> HGat k ttl o) ->
  let '(st', r) := chunked_exec tok cnow st now q in
  let '(a', o) := spec_step (abs_store st now) now c in
  hres_outcome q r = Some o /\
  (forall k, 1 <= len k <= 250 -> live now (abs_store st' now) k = live now a' k) /\
  wf_store st' now.
Proof. exact chunked_refines_spec. Qed.
Print Assumptions c04_refines_spec.

(* get-and-touch: right reply, right value, right deadlines on every backend entry — but the
   metadata's own Exptime field stays stale (so wf_store is NOT kept: the known finding) *)
Theorem c04_gat_refines_partial : forall tok cnow now st k ttl o,
  wf_store st now -> call_ok tok cnow now (HGat k ttl o) ->
  let '(st', r) := chunked_exec tok cnow st now (HGat k ttl o) in
  let '(a', oc) := spec_step (abs_store st now) now (CGat k ttl) in
  hres_outcome (HGat k ttl o) r = Some oc /\
  (forall k', 1 <= len k' <= 250 -> live now (abs_store st' now) k' = live now a' k').
Proof. exact chunked_gat_refines. Qed.
Print Assumptions c04_gat_refines_partial.

Theorem c09_chunked_gat_stale_exptime_refuted : exists tok now st k ttl o,
  wf_store st now /\ call_ok tok now now (HGat k ttl o) /\
  ~ wf_store (fst (chunked_exec tok now st now (HGat k ttl o))) now.
Proof. exact chunked_gat_breaks_wf. Qed.
Print Assumptions c09_chunked_gat_stale_exptime_refuted.

Example c04b_nonvacuous :
  let tok := repeat 9 16 in let k := [107; 101; 121] in
  let st := fst (chunked_exec tok 3000000 empty_store 3000000 (HSet MSet k (repeat 7 2500) 5 100)) in
  wf_key st 3000000 k /\ call_ok tok 3000000 3000000 (HCat false k [1; 2; 3]) /\
  cat_fits st 3000000 (HCat false k [1; 2; 3]) /\ abs_entry st 3000000 k <> None.
Proof. exact c04b_example. Qed.
