(* C16 — fixed-size chunk discipline. Nothing but statements closed by lemmas. *)
From Rend Require Import base.Bytes gen.Consts_gen handlers.ChunkFmt handlers.ChunkFmtProofs.
Open Scope N_scope.

(* every data entry written for a key has the same value length, a function of |key| only *)
Theorem c16_uniform : forall (key data token : bytes),
  len token = tokenSize -> tokenSize <= chunk_full (len key) ->
  Forall (fun v => len v = chunk_full (len key))
         (map (fun c => token ++ c) (chunks (chunk_data (len key)) data)).
Proof. exact chunk_values_uniform. Qed.
Print Assumptions c16_uniform.

(* backend key length + value length + 67 never exceeds the slab budget *)
Theorem c16_budget : forall (key : bytes) (i : N),
  1 <= len key <= 250 -> i < 999 ->
  len (chunk_key key i) + chunk_full (len key) + 67 <= 1184.
Proof. exact chunk_budget. Qed.
Print Assumptions c16_budget.

(* number of chunks = ceil(len / payload) *)
Theorem c16_ceil : forall (key data : bytes),
  1 <= len key <= 250 ->
  let ds := chunk_data (len key) in
  let n := len (chunks ds data) in
  len data <= n * ds /\ (0 < len data -> (n - 1) * ds < len data) /\ (len data = 0 -> n = 0).
Proof. exact chunk_count_ceil. Qed.
Print Assumptions c16_ceil.

(* the metadata entry has constant size *)
Theorem c16_meta : forall m, len (m_token m) = tokenSize -> len (enc_meta m) = metadataSize.
Proof. exact meta_const_size. Qed.
Print Assumptions c16_meta.

(* non-vacuity: a 250-byte key with a three-chunk value meets the hypotheses *)
Example c16_nonvacuous :
  let key := repeat 107 250 in let data := repeat 1 2000 in
  1 <= len key <= 250 /\ tokenSize <= chunk_full (len key) /\
  len (chunks (chunk_data (len key)) data) = 3.
Proof. vm_compute. repeat split; discriminate. Qed.
