(* C06src — C06 about the SOURCE of conn.batchIntoBuffer (handlers/memcached/batched/conn.go), as
   translated by harness batchtrans into gen/Batch_gen.v (meaning of the Go constructs:
   handlers/BatchSem.v; abstraction: gen/BatchLink.v). Statements only; proofs in gen/BatchLink.v.
   rand_Int31 = the value c.rand.Int31() returned; pooled = the buffer batcherPool.Get() returned. *)
From Coq Require Import String.
From Rend Require Import base.Bytes gen.Consts_gen spec.MapSpec orca.Types handlers.Std handlers.Batched
  handlers.BatchedSpec handlers.BatchSem gen.Batch_gen gen.BatchLink.
Open Scope N_scope.

(* the translated function computes the model's: it does not panic on well-typed requests (dynamic
   type fits the request type; Keys/Opaques/Quiet of a get of equal length), the buffer reads back as
   the model's wire requests under the model's opaques in the model's order, the `responses` map is
   assigned the model's routing table entry by entry, `channels` the model's expected counts *)
Theorem c06_src_batchIntoBuffer : forall rand_Int31 pooled reqs qs,
  abs_reqs reqs = Some qs ->
  exists buf resp chans,
    batchIntoBuffer rand_Int31 pooled reqs = Ok (buf, resp, chans) /\
    wire_of buf = Some (map (fun e => (fst (fst e), snd (fst e))) (batch_entries (bs_u32 rand_Int31) qs)) /\
    map fst resp = map (fun e => fst (fst e)) (batch_entries (bs_u32 rand_Int31) qs) /\
    abs_table (map (fun e => (fst (fst e), snd (fst e))) (batch_entries (bs_u32 rand_Int31) qs)) resp
      = batch_entries (bs_u32 rand_Int31) qs /\
    chans = map (fun q => (q_chan q, Z.of_nat (expected (q_req q)))) qs.
Proof. exact src_batchIntoBuffer. Qed.
Print Assumptions c06_src_batchIntoBuffer.

(* c06_opaques_distinct about the translated code: the keys assigned in `responses` are pairwise
   distinct (no handle is overwritten) *)
Theorem c06_src_opaques_distinct : forall rand_Int31 pooled reqs qs buf resp chans,
  abs_reqs reqs = Some qs -> wf_batch rand_Int31 qs ->
  batchIntoBuffer rand_Int31 pooled reqs = Ok (buf, resp, chans) ->
  NoDup (map fst resp).
Proof. exact src_opaques_distinct. Qed.
Print Assumptions c06_src_opaques_distinct.

(* c06_routing about the translated code: the backend answering what the translated function wrote,
   the reader routing by the table the translated function built *)
Theorem c06_src_routing : forall rand_Int31 pooled reqs qs buf resp chans W s now,
  abs_reqs reqs = Some qs -> wf_batch rand_Int31 qs ->
  batchIntoBuffer rand_Int31 pooled reqs = Ok (buf, resp, chans) -> wire_of buf = Some W ->
  let '(_, ds) := run_table (abs_table W resp) s now in
  (forall c, of_chan ds c <> [] -> exists q, In q qs /\ q_chan q = c) /\
  (forall q, In q qs -> length (of_chan ds (q_chan q)) = expected (q_req q)).
Proof. exact src_routing. Qed.
Print Assumptions c06_src_routing.

(* c06_batched_eq_direct about the translated code *)
Theorem c06_src_batched_eq_direct : forall rand_Int31 pooled reqs qs buf resp chans W s now,
  abs_reqs reqs = Some qs -> wf_batch rand_Int31 qs ->
  batchIntoBuffer rand_Int31 pooled reqs = Ok (buf, resp, chans) -> wire_of buf = Some W ->
  let '(s', ds) := run_table (abs_table W resp) s now in
  let '(s0, hs) := direct qs s now in
  store_eq s' s0 /\
  forall q, In q qs -> assoc_chan hs (q_chan q) = Some (call_result (q_req q) (of_chan ds (q_chan q))).
Proof. exact src_batched_eq_direct. Qed.
Print Assumptions c06_src_batched_eq_direct.

(* non-vacuity: a batch of an add, a three-key get (one key twice) and a gat from three callers, the
   pooled buffer not empty; the hypotheses hold and the translated function returns what is shown *)
Definition c06src_reqs : list request :=
  [mk_request RtAdd (Dyn_SetRequest (mk_SetRequest [1] [9] 3 0 77 true)) 0;
   mk_request RtGet (Dyn_GetRequest (mk_GetRequest [[1]; [2]; [1]] [5; 6; 5] [true; false; true] 0 false)) 1;
   mk_request RtGat (Dyn_GATRequest (mk_GATRequest [1] 100 7 false)) 2].

Example c06src_nonvacuous_abs :
  abs_reqs c06src_reqs =
  Some [mkQ 0 (HSet MAdd [1] [9] 3 0); mkQ 1 (HGet [mkGI [1] 5 true; mkGI [2] 6 false; mkGI [1] 5 true]);
        mkQ 2 (HGat [1] 100 7)].
Proof. vm_compute. reflexivity. Qed.

Example c06src_nonvacuous_run :
  batchIntoBuffer 2147483647 [BData [0]] c06src_reqs =
  Ok ([BDataCmd opAdd [1] 3 0 1 2147483648; BData [9];
       BKeyCmd opGet [1] 2147483649; BKeyCmd opGet [2] 2147483650; BKeyCmd opGet [1] 2147483651;
       BKeyExpCmd opGat [1] 100 2147483653],
      [(2147483648, mk_reshandle [1] 77 true 0);
       (2147483649, mk_reshandle [1] 5 true 1); (2147483650, mk_reshandle [2] 6 false 1);
       (2147483651, mk_reshandle [1] 5 true 1);
       (2147483653, mk_reshandle [1] 7 false 2)],
      [(0%nat, 1%Z); (1%nat, 3%Z); (2%nat, 1%Z)]).
Proof. vm_compute. reflexivity. Qed.

Example c06src_nonvacuous_wire :
  wire_of [BDataCmd opAdd [1] 3 0 1 2147483648; BData [9]; BKeyCmd opGet [1] 2147483649;
           BKeyExpCmd opGat [1] 100 2147483653] =
  Some [(2147483648, WSet MAdd [1] [9] 3 0); (2147483649, WGet [1]); (2147483653, WGat [1] 100)].
Proof. vm_compute. reflexivity. Qed.
