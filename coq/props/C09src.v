(* C09 — source-level tie: the chunked handler's exptime(ttl), translated from its source on every
   run (gen/Funcs_gen.v) with the clock reading as a parameter, IS the model's c_exptime.
   Nothing but statements closed by lemmas. *)
From Rend Require Import base.Bytes gen.Consts_gen gen.GoSem gen.Funcs_gen gen.FuncsLink handlers.Chunked.
Open Scope N_scope.
Theorem c09_src_exptime : forall now ttl,
  now < two32 -> ttl < two32 -> now + ttl < two32 ->
  exptime_src now ttl = c_exptime now ttl.
Proof. exact exptime_src_eq. Qed.
Print Assumptions c09_src_exptime.
(* the third hypothesis is needed: the code's uint32 sum wraps (unix times after 2106) *)
Theorem c09_src_exptime_wraps : exptime_src 4294967295 10 = (9, false).
Proof. exact exptime_src_wraps. Qed.
Print Assumptions c09_src_exptime_wraps.
Example c09_src_nonvacuous : exptime_src 1700000000 2592001 = (2592001, true) /\ exptime_src 1700000000 100 = (1700000100, false).
Proof. vm_compute. split; reflexivity. Qed.
