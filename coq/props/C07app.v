(* C07app — the protocol list that the deployment hands to the listener is the list for which the
   first-byte selection is proved (c07_first_byte over [default_protocols]): extracted from
   app/memproxy.go's main on every run (gen/App_gen.v, `rendharness apptrans`). Statement only. *)
From Coq Require Import String List.
Import ListNotations.
From Rend Require Import server.AppWiring gen.App_gen proto.Resp proto.ReqCommon gen.AppLink.
Open Scope string_scope.

Theorem c07_app_protocols : forall f : flags,
  Forall (fun x => option_map (map proto_of_pkg) (fst (fst (fst x))) = Some (map Some default_protocols))
         (started_with f app_serves_src).
Proof. exact app_protocols_src. Qed.
Print Assumptions c07_app_protocols.
