(* C01wire — the byte-level contract between the direct backend handler
   (handlers/memcached/std over protocol/binprot) and a memcached: what C01, C08 and C10 rely on
   when they model a handler call as "apply the reference operation, map the status".
   Statements only.

   Model: handlers/StdWire.v. [std_wire ebody c now q] is one handler call [q] on the backend
   connection [c]: the frames it writes (binprot.Write*Cmd), a memcached server at byte level
   answering them (b_* of spec/MapSpec.v; reply frames as memcached builds them; [ebody] is the
   text it puts into an error reply, any text), and the handler's reads of the reply stream
   (ReadResponseHeader, DecodeError, Discard / ReadAtLeast per path). [conn0 s pl] is an idle
   connection to a backend holding [s]; [pl] lists what the server is free to choose per
   request: the CAS token of its reply and, for C10, an injected error status with any body.
   [in_sync c]: nothing unread, nothing half-sent, no read ever wanted more than was sent.

   Hypotheses, all explicit: [hreq_fits] key length < 2^16 (memcached accepts 250), flags / ttl <
   2^32, total body < 2^32; [store_fits] what the backend can serve fits the reply fields;
   [plan_fits] an injected status is one binprot.DecodeError knows (the generated table) with a
   body < 2^32 (the last two Examples show what an unknown status does); [ebody_fits] error texts
   < 2^32 bytes. *)
From Coq Require Import String.
From Rend Require Import base.Bytes gen.Consts_gen spec.MapSpec orca.Types proto.Resp proto.ReqCommon
  proto.BinReq handlers.Std orca.Orcas orca.Faults handlers.StdWire handlers.StdWireLemmas handlers.StdWireProofs
  checks.Check01w.
Open Scope N_scope.

(* encoder -> server -> consumer is exactly the abstract handler of handlers/Std.v: same result
   (values, flags, remaining lifetime for gete, misses, opaques, quiet flags, error), same new
   backend store; the connection is back in sync and exactly the frames of the call were written *)
Theorem c01w_refines : forall (ebody : N -> bytes) (s : store) (now : N) (q : hreq) (pl : list senv),
  ebody_fits ebody -> hreq_fits q -> store_fits now s -> plan_clean pl ->
  forall c' o, std_wire ebody (conn0 s pl) now q = (c', o) ->
  o = HRes (snd (std_exec s now q)) /\ wc_store c' = fst (std_exec s now q) /\ in_sync c' /\
  wc_wlog c' = concat (std_frames q).
Proof. exact std_wire_refines. Qed.
Print Assumptions c01w_refines.

(* on every path — every error status DecodeError knows, with any body, at any request of the
   call — the handler consumes exactly what the server sent: nothing left, nothing missing;
   and it wrote a prefix of the call's frames (all of them unless a get ended with an error) *)
Theorem c01w_in_sync : forall (ebody : N -> bytes) (s : store) (now : N) (q : hreq) (pl : list senv),
  ebody_fits ebody -> hreq_fits q -> store_fits now s -> plan_fits pl ->
  forall c' o, std_wire ebody (conn0 s pl) now q = (c', o) ->
  in_sync c' /\
  exists m, (m <= length (std_frames q))%nat /\ wc_wlog c' = concat (firstn m (std_frames q)) /\
            (match o with HRes (HVals _ (Some _)) => True | _ => m = length (std_frames q) end).
Proof. exact std_wire_in_sync. Qed.
Print Assumptions c01w_in_sync.

(* under injected statuses the wire-level handler is the faulty handler of orca/Faults.v (C10):
   same result, same store, one plan entry used per request sent *)
Theorem c10w_refines_faults : forall (ebody : N -> bytes) (s : store) (now : N) (q : hreq) (pl : list senv),
  ebody_fits ebody -> hreq_fits q -> store_fits now s -> plan_fits pl ->
  forall c' o, std_wire ebody (conn0 s pl) now q = (c', o) ->
  o = snd (exec_f (plan_fn pl) (mkTS s false 0) now q) /\
  wc_store c' = t_store (fst (exec_f (plan_fn pl) (mkTS s false 0) now q)) /\
  wc_plan c' = skipn (t_seen (fst (exec_f (plan_fn pl) (mkTS s false 0) now q))) pl.
Proof. exact std_wire_refines_faults. Qed.
Print Assumptions c10w_refines_faults.

(* every frame the handler writes is a well-formed request: rend's own binary decoder (C07)
   decodes it to the intended command with opaque 0, not quiet, consuming exactly the frame;
   the server finds a complete frame with CAS 0 (unconditional) *)
Theorem c01w_request_wellformed : forall q : hreq,
  hreq_fits q -> hreq_wf q -> Forall2 frame_decodes (std_frames q) (std_reqs q).
Proof. exact std_wire_frames_wellformed. Qed.
Print Assumptions c01w_request_wellformed.

(* any number of calls on the same connection: results and final store are those of the
   abstract handler run on the same history, and the connection ends in sync *)
Theorem c01w_history : forall (ebody : N -> bytes) (s : store) (pl : list senv) (h : list (N * hreq)),
  ebody_fits ebody -> plan_clean pl -> hist_fits0 s h ->
  forall c' os, wire_run ebody (conn0 s pl) h = (c', os) ->
  os = map HRes (snd (std_run s h)) /\ wc_store c' = fst (std_run s h) /\ in_sync c'.
Proof. exact std_wire_history. Qed.
Print Assumptions c01w_history.

(* the same with injected statuses anywhere in the history *)
Theorem c10w_history_faults : forall ebody : N -> bytes, ebody_fits ebody ->
  forall (h : list (N * hreq)) (s : store) (pl0 : list senv) (wl rl : bytes) (n : nat),
  plan_fits pl0 -> hist_fits (plan_fn pl0) (mkTS s false n) h ->
  exists wl' rl',
    wire_run ebody (mkWC s (skipn n pl0) [] [] false wl rl) h =
    (mkWC (t_store (fst (std_run_f (plan_fn pl0) (mkTS s false n) h)))
          (skipn (t_seen (fst (std_run_f (plan_fn pl0) (mkTS s false n) h))) pl0) [] [] false wl' rl',
     snd (std_run_f (plan_fn pl0) (mkTS s false n) h)).
Proof. exact std_wire_history_faults. Qed.
Print Assumptions c10w_history_faults.

(* ---- non-vacuity ---- *)
Definition ex_ebody (st : N) : bytes :=
  if st =? statusKeyEnoent then asc "Not found" else if st =? statusKeyExists then asc "Data exists for key."
  else asc "Not stored.".
Definition ex_hist : list (N * hreq) :=
  [(10, HSet MSet (asc "k") (asc "hello") 7 100);
   (11, HSet MAdd (asc "k") (asc "x") 0 0);                        (* refused: error reply with a body *)
   (12, HTouch (asc "k") 0);                                       (* hit: reply carries 4 bytes of extras *)
   (13, HGetE [mkGI (asc "k") 5 true; mkGI (asc "z") 6 false]);    (* hit then miss *)
   (14, HCat true (asc "k") (asc ">>"));
   (15, HGat (asc "k") 50 77);
   (16, HDelete (asc "z"))].

Example c01w_ex_hypotheses : ebody_fits ex_ebody /\ hist_fits0 empty_store (firstn 4 ex_hist).
Proof.
  split.
  - intros st. unfold ex_ebody. destruct (st =? statusKeyEnoent); [|destruct (st =? statusKeyExists)]; vm_compute; reflexivity.
  - assert (store_fits 11 (upd empty_store (asc "k") (Some (mkE (asc "hello") 7 (At 110))))) as S11
      by (apply store_fits_upd; [apply store_fits_empty | vm_compute; repeat split; reflexivity]).
    assert (store_fits 12 (upd empty_store (asc "k") (Some (mkE (asc "hello") 7 (At 110))))) as S12
      by (apply store_fits_upd; [apply store_fits_empty | vm_compute; repeat split; reflexivity]).
    assert (store_fits 13 (upd (upd empty_store (asc "k") (Some (mkE (asc "hello") 7 (At 110))))
                               (asc "k") (Some (mkE (asc "hello") 7 Never)))) as S13
      by (repeat apply store_fits_upd; [apply store_fits_empty | vm_compute; repeat split; reflexivity ..]).
    cbn [firstn ex_hist hist_fits0 hreq_fits].
    repeat match goal with |- _ /\ _ => split end.
    all: lazymatch goal with
         | |- store_fits _ empty_store => apply store_fits_empty
         | |- store_fits 11 _ => exact S11
         | |- store_fits 12 _ => exact S12
         | |- store_fits 13 _ => exact S13
         | |- True => exact I
         | |- Forall _ _ => repeat constructor; vm_compute; reflexivity
         | |- _ => vm_compute; reflexivity
         end.
Qed.

Example c01w_ex_run :
  let '(c, os) := wire_run ex_ebody (conn0 empty_store [mkSE None 258]) ex_hist in
  os = [HRes HDone; HRes (HErr EKeyExists); HRes HDone;
        HRes (HVals [mkGR (asc "k") (asc "hello") 7 0 5 true false; mkGR (asc "z") [] 0 0 6 false true] None);
        HRes HDone;
        HRes (HVals [mkGR (asc "k") (asc ">>hello") 7 0 77 false false] None);
        HRes (HErr EKeyNotFound)] /\
  in_syncb c = true /\ wc_wlog c = concat (map (fun x => std_frame (snd x)) (firstn 3 ex_hist)) ++
                          concat (std_frames (snd (nth 3 ex_hist (0, HGet [])))) ++
                          concat (map (fun x => std_frame (snd x)) (skipn 4 ex_hist)).
Proof. vm_compute. repeat split; reflexivity. Qed.

(* the error texts of the harness's fake memcached, with which checks/Check01w.v instantiates the
   model server, satisfy the hypothesis on error texts *)
Example c01w_fake_ebody_fits : ebody_fits fake_ebody.
Proof.
  intros st. unfold fake_ebody.
  destruct (st =? statusKeyEnoent); [|destruct (st =? statusKeyExists); [|destruct (st =? statusNotStored)]];
    vm_compute; reflexivity.
Qed.

(* an error status with a body in the middle of a three-key get: the call ends there with that
   error, two frames were written, the connection is in sync *)
Example c10w_ex_fault_in_get :
  let '(c, o) := std_wire ex_ebody (conn0 empty_store [mkSE None 0; mkSE (Some (133, asc "busy busy busy")) 0])
                          5 (HGet [mkGI (asc "a") 1 false; mkGI (asc "b") 2 false; mkGI (asc "c") 3 false]) in
  o = HRes (HVals [mkGR (asc "a") [] 0 0 1 false true] (Some EBusy)) /\ in_syncb c = true /\
  wc_wlog c = get_frame false (mkGI (asc "a") 1 false) ++ get_frame false (mkGI (asc "b") 2 false).
Proof. vm_compute. repeat split; reflexivity. Qed.

(* [plan_fits] is needed: a status DecodeError does not know is taken for success; after a set
   its body stays unread on the connection (finding 8-21 at wire level) ... *)
Example c10w_unknown_status_set_desyncs :
  let '(c, o) := std_wire ex_ebody (conn0 empty_store [mkSE (Some (7, asc "what")) 0]) 5 (HSet MSet (asc "k") (asc "v") 0 0) in
  o = HRes HDone /\ wc_in c = asc "what" /\ in_syncb c = false.
Proof. vm_compute. repeat split; reflexivity. Qed.
(* ... and a get reads the text as flags and value and wants more than was sent *)
Example c10w_unknown_status_get_starves :
  let '(c, o) := std_wire ex_ebody (conn0 empty_store [mkSE (Some (7, asc "what")) 0]) 5 (HGet [mkGI (asc "k") 1 false]) in
  o = HRes (HVals [] (Some EIO)) /\ wc_starved c = true.
Proof. vm_compute. repeat split; reflexivity. Qed.
