(* C17 — source-level tie of the in-memory backend: every method of *Handler in
   /repo/handlers/inmem/inmem.go, translated from its source on every run (`rendharness inmemtrans`,
   gen/Inmem_gen.v) into the state monad of handlers/InmemSem.v (the trusted reading of the Go statements,
   incl. the channel contract for Get/GetE), IS the [step] of the model handlers/Inmem.v that props/C17.v is
   about: same lock mode, same map statements (MPut/MDel) in the same order, same result, same map
   afterwards — for every map, every second, every argument, and every value of the request fields the
   model does not carry (Opaque, Quiet, NoopOpaque, NoopEnd; Flags/Exptime of Append/Prepend). Plus the
   lock discipline on the translated terms, and the C17 theorems restated for the translated handler.
   Nothing but statements closed by lemmas of gen/InmemLink.v.

   [run_err]/[run_gat]/[run_get] m st: run the translated method on the map [st] with an empty trace and
   observe (the step read off its trace and result, the map afterwards, the trace); None = panic, something
   untranslatable, blocked channel, or not exactly one lock acquisition. [obs_step] forgets the trace.
   [model_call st now q] = (inmem_step st now q, the map after its statements). *)
From Coq Require Import String.
From Rend Require Import base.Bytes gen.Consts_gen spec.MapSpec orca.Types handlers.Std gen.GoSem
  handlers.Inmem handlers.InmemSem gen.Inmem_gen gen.InmemLink.
Open Scope N_scope.
Open Scope list_scope.

Theorem c17_src_entry_isExpired : forall now e, entry_isExpired_src now e = expired now e.
Proof. exact entry_isExpired_link. Qed.
Print Assumptions c17_src_entry_isExpired.

Theorem c17_src_Set : forall st now k d f ttl xo xq,
  obs_step (run_err (Handler_Set_src now k d f ttl xo xq) st) = Some (model_call st now (HSet MSet k d f ttl)).
Proof. exact Set_step. Qed.
Print Assumptions c17_src_Set.

Theorem c17_src_Add : forall st now k d f ttl xo xq,
  obs_step (run_err (Handler_Add_src now k d f ttl xo xq) st) = Some (model_call st now (HSet MAdd k d f ttl)).
Proof. exact Add_link. Qed.
Print Assumptions c17_src_Add.

Theorem c17_src_Replace : forall st now k d f ttl xo xq,
  obs_step (run_err (Handler_Replace_src now k d f ttl xo xq) st) = Some (model_call st now (HSet MReplace k d f ttl)).
Proof. exact Replace_link. Qed.
Print Assumptions c17_src_Replace.

Theorem c17_src_Append : forall st now k d xf xt xo xq,
  obs_step (run_err (Handler_Append_src now k d xf xt xo xq) st) = Some (model_call st now (HCat false k d)).
Proof. exact Append_link. Qed.
Print Assumptions c17_src_Append.

Theorem c17_src_Prepend : forall st now k d xf xt xo xq,
  obs_step (run_err (Handler_Prepend_src now k d xf xt xo xq) st) = Some (model_call st now (HCat true k d)).
Proof. exact Prepend_link. Qed.
Print Assumptions c17_src_Prepend.

Theorem c17_src_Delete : forall st now k xo xq,
  obs_step (run_err (Handler_Delete_src now k xo xq) st) = Some (model_call st now (HDelete k)).
Proof. exact Delete_link. Qed.
Print Assumptions c17_src_Delete.

Theorem c17_src_Touch : forall st now k ttl xo xq,
  obs_step (run_err (Handler_Touch_src now k ttl xo xq) st) = Some (model_call st now (HTouch k ttl)).
Proof. exact Touch_link. Qed.
Print Assumptions c17_src_Touch.

Theorem c17_src_GAT : forall st now k ttl opq xq,
  obs_step (run_gat (Handler_GAT_src now k ttl opq xq) st) = Some (model_call st now (HGat k ttl opq)).
Proof. exact GAT_link. Qed.
Print Assumptions c17_src_GAT.

(* Get / GetE for every key list: exactly the trace RLock, one map read per key in order, RUnlock; no map
   statement; the responses in key order; the map afterwards is the map before *)
Theorem c17_src_Get : forall st now items xo xq,
  run_get (Handler_Get_src now (map gi_key items) (map gi_opaque items) (map gi_quiet items) xo xq) st =
  Some (inmem_step st now (HGet items), st, EvRLock :: map (fun it => EvRead (gi_key it)) items ++ [EvRUnlock]).
Proof. exact Get_run. Qed.
Print Assumptions c17_src_Get.

Theorem c17_src_GetE : forall st now items xo xq,
  run_get (Handler_GetE_src now (map gi_key items) (map gi_opaque items) (map gi_quiet items) xo xq) st =
  Some (inmem_step st now (HGetE items), st, EvRLock :: map (fun it => EvRead (gi_key it)) items ++ [EvRUnlock]).
Proof. exact GetE_run. Qed.
Print Assumptions c17_src_GetE.

(* Close: no lock call, no map access, returns nil, in every state *)
Theorem c17_src_Close : forall now s, Handler_Close_src now s = (s, Val None).
Proof. exact Close_link. Qed.
Print Assumptions c17_src_Close.

(* the declarations read off the source: entry = {exptime uint32; flags uint32; data []byte}; Handler = one
   map and a pointer to one RWMutex; New returns the one package-level *Handler on every call *)
Theorem c17_src_New : inmem_decl_src = inmem_decl_model.
Proof. exact inmem_decl_link. Qed.
Print Assumptions c17_src_New.

(* all methods at once, through the handler interface *)
Theorem c17_src_handler : forall xo xq xf xt st now q,
  obs_step (inmem_src_gen xo xq xf xt st now q) = Some (model_call st now q).
Proof. exact inmem_src_link. Qed.
Print Assumptions c17_src_handler.

(* LOCK DISCIPLINE on the translated terms: every call (every request, map, second, field values) returns,
   and its trace of mutex calls and map accesses is disciplined ([disciplined], handlers/InmemSem.v: Lock /
   RLock only on the free mutex, Unlock / RUnlock only of the lock held, every map read while a lock is
   held, every map write while the WRITE lock is held, the mutex free at the end — on every path, early
   returns included); it acquires the mutex exactly once, in the mode of the model's step, and its map
   writes are the model's statements *)
Theorem c17_src_lock_discipline : forall xo xq xf xt st now q,
  exists sp m t, inmem_src_gen xo xq xf xt st now q = Some (sp, m, t) /\ disciplined t = true
    /\ acquires t = [s_lock sp] /\ ops_of t = s_ops sp.
Proof. exact inmem_src_lock_discipline. Qed.
Print Assumptions c17_src_lock_discipline.

(* c17_refines_spec of props/C17.v for the SOURCE-TRANSLATED handler: every history runs to completion and
   gives the reference map's outcomes, exactly [ref_result], and a final map with the reference's live entries *)
Theorem c17_src_refines_spec : forall h : list (N * hreq),
  hist_ok 0 h ->
  exists stf outs, inmem_src_run cempty h = Some (stf, outs)
    /\ map outcome_of outs = snd (gspec_run inmem_norm empty_store (hist_cmds h))
    /\ outs = snd (ref_run empty_store h)
    /\ live_eq (last_now 0 h) (abs stf) (fst (gspec_run inmem_norm empty_store (hist_cmds h))).
Proof. exact inmem_src_refines_spec. Qed.
Print Assumptions c17_src_refines_spec.

(* c17_step_simulation for the translated handler *)
Theorem c17_src_step_simulation : forall st s now q,
  now + ttl_of q < Inmem.two32 -> live_eq now (abs st) s ->
  exists st' r, inmem_src_exec st now q = Some (st', r)
    /\ live_eq now (abs st') (fst (gspec_step inmem_norm s now (cmd_of q)))
    /\ r = ref_result s now q
    /\ outcome_of r = snd (gspec_step inmem_norm s now (cmd_of q)).
Proof. exact inmem_src_step_simulation. Qed.
Print Assumptions c17_src_step_simulation.

(* ---- non-vacuity ---- *)
Definition ka := asc "a".
Definition demo : list (N * hreq) :=
  [ (1000, HSet MSet ka (asc "x") 7 5);
    (1000, HSet MAdd ka (asc "y") 1 0);
    (1001, HCat false ka (asc "z"));
    (1001, HCat true ka (asc "w"));
    (1005, HGetE [mkGI ka 9 true; mkGI (asc "b") 4 false]);
    (1006, HGet [mkGI ka 0 false]);
    (1006, HDelete ka);
    (1006, HSet MAdd ka (asc "w") 2 0);
    (1006, HSet MReplace ka (asc "v") 3 0);
    (1007, HGat ka 10 3);
    (1007, HTouch ka 0);
    (1007, HDelete ka);
    (1007, HTouch ka 0) ].

(* the translated handler, run by computation in InmemSem's semantics, exercises every outcome class *)
Example c17_src_nonvacuous_history :
  hist_ok 0 demo /\
  option_map snd (inmem_src_run cempty demo) = Some
    [ HDone; HErr EKeyExists; HDone; HDone;
      HVals [mkGR ka (asc "wxz") 7 1005 9 true false; mkGR (asc "b") [] 0 0 4 false true] None;
      HVals [mkGR ka [] 0 0 0 false true] None;
      HErr EKeyNotFound; HDone; HDone;
      HVals [mkGR ka (asc "v") 3 0 3 false false] None;
      HDone; HDone; HErr EKeyNotFound ].
Proof. split; [cbn; unfold Inmem.two32; lia | vm_compute; reflexivity]. Qed.

(* traces as the semantics records them: a write path, an early return, a read *)
Example c17_src_nonvacuous_traces :
  let st := apply_ops cempty [MPut ka (mkRaw 1005 7 (asc "x"))] in
  obs_trace (inmem_src st 1000 (HSet MAdd ka (asc "y") 1 0)) = [EvLock; EvRead ka; EvUnlock] /\
  obs_trace (inmem_src st 1006 (HSet MAdd ka (asc "y") 1 0))
    = [EvLock; EvRead ka; EvOp (MPut ka (mkRaw 0 1 (asc "y"))); EvUnlock] /\
  obs_trace (inmem_src st 1006 (HTouch ka 1)) = [EvLock; EvRead ka; EvOp (MDel ka); EvUnlock] /\
  obs_trace (inmem_src st 1000 (HGet [mkGI ka 0 false; mkGI ka 1 true])) = [EvRLock; EvRead ka; EvRead ka; EvRUnlock] /\
  (* [disciplined] is not trivially true: a write under the read lock, a missing unlock, a read without lock *)
  disciplined [EvRLock; EvRead ka; EvOp (MDel ka); EvRUnlock] = false /\
  disciplined [EvLock; EvRead ka] = false /\
  disciplined [EvRead ka] = false /\
  disciplined [EvRLock; EvRead ka; EvRUnlock; EvLock; EvOp (MDel ka); EvUnlock] = true /\
  (* ... and [step_of] refuses two critical sections *)
  step_of [EvRLock; EvRead ka; EvRUnlock; EvLock; EvOp (MDel ka); EvUnlock] HDone = None.
Proof. vm_compute. repeat split. Qed.

(* the channel contract has teeth: a response channel one slot too small blocks (no result), a channel
   left open gives no result *)
Example c17_src_nonvacuous_channels :
  run_get (m_bind (m_make_data 0) (fun d => m_bind m_make_err (fun e => m_bind m_rlock (fun _ =>
           m_bind (m_send d (mkGR ka [] 0 0 0 false true)) (fun _ => m_bind m_runlock (fun _ =>
           m_bind (m_close d) (fun _ => m_bind (m_close e) (fun _ => m_ret (d, e))))))))) cempty = None /\
  run_get (m_bind (m_make_data 1) (fun d => m_bind m_make_err (fun e => m_bind m_rlock (fun _ =>
           m_bind m_runlock (fun _ => m_bind (m_close d) (fun _ => m_ret (d, e))))))) cempty = None /\
  run_get (m_bind (m_make_data 1) (fun d => m_bind m_make_err (fun e => m_bind m_rlock (fun _ =>
           m_bind m_runlock (fun _ => m_bind (m_close d) (fun _ => m_bind (m_close e) (fun _ => m_ret (d, e)))))))) cempty
    = Some (mkStep LRead [] (HVals [] None), cempty, [EvRLock; EvRUnlock]).
Proof. vm_compute. repeat split. Qed.
