(* C18 — source-level tie: getBucket and the portable lzcnt of /repo/metrics, translated from their
   source on every run (gen/Funcs_gen.v), ARE the model's functions. Nothing but statements closed
   by lemmas. *)
From Rend Require Import base.Bytes gen.GoSem gen.Funcs_gen gen.FuncsLink metrics.Lzcnt metrics.Bucket.
Open Scope N_scope.
Theorem c18_src_lzcnt : forall x, lzcnt_src x = lzcnt_portable x.
Proof. exact lzcnt_src_eq. Qed.
Print Assumptions c18_src_lzcnt.
(* amd64 build: getBucket with the assembly lzcnt *)
Theorem c18_src_getBucket : forall n, n < two64 -> getBucket_src lzcnt_asm n = getBucket n.
Proof. exact getBucket_src_eq. Qed.
Print Assumptions c18_src_getBucket.
(* other builds: getBucket with the translated portable lzcnt *)
Theorem c18_src_getBucket_portable : forall n, n < two64 -> getBucket_src lzcnt_src n = getBucket_portable n.
Proof. exact getBucket_src_portable_eq. Qed.
Print Assumptions c18_src_getBucket_portable.
Example c18_src_nonvacuous : getBucket_src lzcnt_src 37 = 19 /\ getBucket_src lzcnt_asm 9786709 = getBucket 9786709.
Proof. vm_compute. split; reflexivity. Qed.
