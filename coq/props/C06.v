(* C06 — the batching pool returns each caller its own, correct result.
   Statements only; proofs in handlers/BatchedProofs.v. Goroutine/channel mechanics (blocking
   sends, the batch timer) are runtime behaviour: the model shows WHAT is delivered to WHOM,
   the harness shows that it is delivered (with a deadline). *)
From Rend Require Import base.Bytes gen.Consts_gen spec.MapSpec orca.Types handlers.Std handlers.Batched
  handlers.BatchedSpec handlers.BatchedProofs.
Open Scope N_scope.

(* the opaques written in one batch are pairwise distinct, whatever the random base *)
Theorem c06_opaques_distinct : forall base reqs,
  wf_batch base reqs -> NoDup (map (fun e => fst (fst e)) (batch_entries base reqs)).
Proof. exact opaques_distinct. Qed.
Print Assumptions c06_opaques_distinct.

(* For every list of requests from any callers, grouped into one batch in any order, with any
   random opaque base: the backend ends in the state the same requests produce over direct
   connections one after the other, and the outcome each caller assembles from what arrives on
   ITS channel is exactly the direct handler's result for ITS request — same error, same data,
   same flags, same expiry for gete, one result per requested key in request order. *)
Theorem c06_batched_eq_direct : forall base reqs s now,
  wf_batch base reqs ->
  let '(s', ds) := run_batch base reqs s now None in
  let '(s0, hs) := direct reqs s now in
  store_eq s' s0 /\
  forall r, In r reqs -> assoc_chan hs (q_chan r) = Some (call_result (q_req r) (of_chan ds (q_chan r))).
Proof. exact batched_eq_direct. Qed.
Print Assumptions c06_batched_eq_direct.

(* each caller receives replies only to its own requests, exactly one per requested key *)
Theorem c06_routing : forall base reqs s now,
  wf_batch base reqs ->
  let '(_, ds) := run_batch base reqs s now None in
  (forall c, of_chan ds c <> [] -> exists r, In r reqs /\ q_chan r = c) /\
  (forall r, In r reqs -> length (of_chan ds (q_chan r)) = expected (q_req r)).
Proof. exact routing. Qed.
Print Assumptions c06_routing.

Example c06_nonvacuous :
  let reqs := [mkQ 0 (HSet MAdd [1] [9] 3 0); mkQ 1 (HGet [mkGI [1] 5 true; mkGI [2] 6 false; mkGI [1] 5 true]);
               mkQ 2 (HGat [1] 100 7)] in
  wf_batch 2147483647 reqs.
Proof. exact c06_example. Qed.
