(* HistLink.v — the synchronisation operations of ObserveHist, IncCounter, IncCounterBy, extractHist
   and the literal of newHist, extracted from /repo's source by `histtrans` (gen/Hist_gen.v), are the
   ones the models assume (metrics/HistShape.v observe_model ...). When the source changes which
   cell is touched by which atomic primitive, their order, where the lock calls stand, the CAS
   loops, the sampling return or the ring index, Hist_gen.v changes with it and the *_link lemmas
   below stop compiling.

   The rest transports metrics/HistShapeProofs.v from the expected values to the extracted ones:
   the step function of the extracted ObserveHist IS HistConc.tstep. *)
From Coq Require Import String.
From Rend Require Import base.Bytes gen.Consts_gen metrics.Lzcnt metrics.Bucket metrics.Hist metrics.HistProofs
  metrics.HistConc metrics.HistConcProofs metrics.Counter metrics.CounterProofs metrics.HistShape
  metrics.HistShapeProofs gen.Hist_gen.
Open Scope N_scope.

Lemma observe_src_link : observe_src = observe_model.
Proof. reflexivity. Qed.
Lemma inccounter_src_link : inccounter_src = inccounter_model.
Proof. reflexivity. Qed.
Lemma inccounterby_src_link : inccounterby_src = inccounterby_model.
Proof. reflexivity. Qed.
Lemma extract_src_link : extract_src = extract_model.
Proof. reflexivity. Qed.
Lemma newhist_src_link : newhist_src = newhist_model.
Proof. reflexivity. Qed.

(* ---- ObserveHist ---- *)
(* a goroutine entering the extracted body stands at PTotal *)
Lemma src_observe_start sampled v : thread_of (enter observe_src sampled v) = mkThread v PTotal.
Proof. rewrite observe_src_link. apply observe_enter. Qed.

(* from every configuration a goroutine running the extracted body can be in (whatever happens to
   the shared data between its steps), one step of the interpreter — one atomic primitive — is
   tstep *)
Lemma src_observe_steps sampled v c d : reach observe_src sampled v c ->
  tstep sampled d (thread_of c) = (fst (istep sampled d c), thread_of (snd (istep sampled d c))).
Proof. rewrite observe_src_link. intros Hr. apply observe_step. eapply reach_owf. exact Hr. Qed.

(* every transition of tstep is the transition of a configuration standing at a position of the
   extracted body *)
Lemma src_observe_onto sampled d v p : exists c,
  (exists n, k_rest c = skipn n observe_src) /\ thread_of c = mkThread v p /\
  tstep sampled d (mkThread v p) = (fst (istep sampled d c), thread_of (snd (istep sampled d c))).
Proof.
  rewrite observe_src_link. destruct (owf_onto v p) as (c & Hw & Ht). exists c. split; [|split].
  - destruct Hw as (Hin & _). unfold observe_points in Hin. cbn [In] in Hin.
    destruct Hin as [H|[H|[H|[H|[H|[H|[H|[H|[]]]]]]]]]; rewrite <- H;
      [exists 2%nat|exists 3%nat|exists 4%nat|exists 6%nat|exists 7%nat|exists 9%nat|exists 11%nat|exists 13%nat]; reflexivity.
  - exact Ht.
  - rewrite <- Ht. apply observe_step. exact Hw.
Qed.

Lemma src_observe_locked sampled v c : reach observe_src sampled v c ->
  k_lock c = (if cfg_done c then LFree else LHeld).
Proof. rewrite observe_src_link. apply observe_locked. Qed.

(* interleaved runs of the extracted body are runs of HistConc's system, step for step *)
Lemma src_observe_is_tstep sampled vs d cs :
  src_run sampled (d, enter_all observe_src sampled vs) cs ->
  sys_run sampled (d, start_threads vs) (fst cs, map thread_of (snd cs)) /\
  (forall s', sys_step sampled (fst cs, map thread_of (snd cs)) s' ->
     exists d' cs', s' = (d', map thread_of cs') /\ src_step sampled cs (d', cs')).
Proof.
  rewrite observe_src_link. intros Hr.
  destruct (src_run_sim _ _ _ Hr (enter_all_owf sampled vs)) as [Hs Hw]. cbn [fst snd] in Hs.
  rewrite enter_all_threads in Hs. split; [exact Hs|].
  intros s' Hst. destruct cs as [d1 cs1]. cbn [fst snd] in *. apply sys_step_back; assumption.
Qed.

Lemma src_hist_concurrent sampled vs b d cs :
  obs_ok vs ->
  src_run sampled (fresh_dat b, enter_all observe_src sampled vs) (d, cs) -> forallb cfg_done cs = true ->
  good_report sampled vs (report_of d) /\
  Forall (fun c => k_lock c = LFree /\ k_bucket c = [(getBucket (k_val c), 1)]) cs /\
  map k_val cs = vs.
Proof. rewrite observe_src_link. apply src_concurrent. Qed.

(* ---- counters ---- *)
Lemma src_inccounter_atomic amount :
  counter_adds inccounterby_src amount = Some [amount] /\ counter_adds inccounter_src amount = Some [1].
Proof. rewrite inccounterby_src_link, inccounter_src_link. split; reflexivity. Qed.

Lemma src_counter_by threads trace c0 : c0 < two64 ->
  interleave (map (calls_adds inccounterby_src) threads) trace ->
  run_adds c0 trace = (c0 + sum_adds (concat threads)) mod two64.
Proof. rewrite inccounterby_src_link. apply src_counter. Qed.

Lemma src_counter_1 threads trace c0 : c0 < two64 ->
  interleave (map (calls_adds inccounter_src) threads) trace ->
  run_adds c0 trace = (c0 + len (concat threads)) mod two64.
Proof. rewrite inccounter_src_link. apply src_counter_one. Qed.

(* ---- extractHist ---- *)
Lemma src_extract_locked h :
  x_run extract_src h = Some (dat h, mkHist (fresh_dat (bakbuf h)) (h_buf (dat h)), true) /\
  fst (extract h) = report_of (dat h) /\
  dat (snd (extract h)) = fresh_dat (bakbuf h) /\
  bakbuf (snd (extract h)) = (if prints (dat h) then snd (hdatPercentiles (dat h)) else h_buf (dat h)).
Proof.
  rewrite extract_src_link. split; [apply extract_run|].
  destruct (extract_run_model h _ _ (extract_run h)) as (_ & H1 & H2 & H3). auto.
Qed.

(* ---- newHist ---- *)
Lemma src_newhist : newhist_meaning newhist_src = Some newHist.
Proof. rewrite newhist_src_link. exact newhist_is_model. Qed.
